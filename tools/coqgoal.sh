#!/bin/sh
# usage: coqgoal.sh file.v LINE  -> compiles the first LINE lines then prints the goals
f=$1; n=$2
tmp=$(mktemp -d)
head -n "$n" "$f" > $tmp/G.v
printf '\nShow.\n' >> $tmp/G.v
cd /verif/coq && coqc -Q theories XtModel -Q properties XtProps $tmp/G.v 2>&1 | tail -${3:-40}
rm -rf $tmp
