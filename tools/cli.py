"""Running the real xt binary and predicting its behaviour with the CliModel
(coq/theories/CliModel.v, through the extracted driver) plus in-process library
calls (the harness) for what each input translates to."""
import concurrent.futures
import os
import pty
import shutil
import subprocess
import tempfile
import threading
import time

import common
import corpus
from props import shared

BCAP = 8192
SIGPIPE = 13


class Fixture:
    """A directory of input files under .build/run (never /tmp)."""

    def __init__(self, name):
        self.dir = os.path.join(common.BUILD, "run", name)
        shutil.rmtree(self.dir, ignore_errors=True)
        os.makedirs(self.dir)
        w = self.write
        w("a.json", b'{"a":1}')
        w("m.json", b'{"a":1}\n[2,3]\n"x"\n')
        w("b.yaml", b"b: [1, 2]\n---\nc: d\n")
        w("c.toml", b'c = "x"\n[t]\nu = 1\n')
        w("d.msgpack", corpus.mp({"d": [1, 2]}) + corpus.mp([3]))
        w("bad.json", b'{"a":[1,2,}')
        w("deepbad.json", b'{"a":{"b":[1,{"c":[tru]}]}}')
        w("und.txt", b"@@@ not a document @@@")
        w("nullkey.yaml", b"~: 1\n")
        w("two.json", b'{"a":1}\n{"b":2}\n')
        w("arr.json", b"[1,2]")
        w("empty.json", b"")
        w("mid.json", b'{"k":"' + b"m" * 9000 + b'"}')
        w("big.json", b"".join(b'{"n":%d,"p":"%s"}\n' % (i, b"x" * 90) for i in range(900)))
        w("huge.json", b"".join(b'{"n":%d,"p":"%s"}\n' % (i, b"y" * 180) for i in range(3000)))
        # more than a buffer of valid output, then a document that does not parse / a second document
        w("bigbad.json", b'{"k":"' + b"v" * 20000 + b'"}\n]\n')
        w("bigtwo.json", b'{"k":"' + b"v" * 20000 + b'"}\n{"l":1}\n')
        # long lines and long strings holding line feeds, placed across the 8 KiB and 16 KiB marks of the output
        w("longlines.json", b"[" + b",".join(b'"s%d"' % i for i in range(1150)) + b',"' + b"L" * 3000 + b'",' +
          b",".join(b'{"k%d":"%s"}' % (i, b"w" * 1300) for i in range(40)) + b',"' + b"a" * 7000 + b"\\n" + b"b" * 1500 + b'"]')
        # streams of tiny documents whose first document has 1..6 digits: the 8 KiB buffer then fills up inside every kind
        # of write (a body, a JSON newline, a YAML '---' line) for some member of the family
        for L in range(1, 7):
            w("docs%d.json" % L, b"1" * L + b" 0" * 12000)
        # names and contents at the edges: an operand that looks like an option, names that are not UTF-8, a byte order mark
        w("--help", b'{"named":"--help"}')
        w("-q", b"q: 1\n")
        w("caf\udce9.json", b'{"name":"not UTF-8"}')
        w("\udcff\udcfe.YAML", b"odd: name\n")
        w("y\udce9.json", b"yaml: in a .json name\n")
        w("bom.json", b'\xef\xbb\xbf{"bom":1}')
        w("bom.yaml", b"\xef\xbb\xbfbom: 1\n")
        w("bom.toml", b"\xef\xbb\xbfbom = 1\n")
        w("bomstream", b'\xef\xbb\xbf{"a":1} {"b":2}')
        w("X.JSON", b'{"upper":true}')
        w("x.Yml", b"yml: 1\n")
        w("x.YAML", b"yaml: 1\n")
        w("x.MsgPack", corpus.mp({"m": 1}))
        w("x.ToMl", b"t = 1\n")
        w("x.tar.yaml", b"tar: 1\n")
        w("x.json.bak", b'{"bak":1}')
        w("noext", b'{"noext":1}')
        w("misleading.toml", b'{"really":"json"}')
        w("misleading.json", b"really: yaml\n")
        w(".json", b'{"hidden":1}')
        w("both.txt", b"[1, 2]\n")           # JSON and YAML both accept it
        os.makedirs(os.path.join(self.dir, "dir.json"))

    def write(self, name, data):
        with open(os.path.join(self.dir, name), "wb") as f:
            f.write(data)

    def path(self, name):
        return os.path.join(self.dir, name)

    def close(self):
        shutil.rmtree(self.dir, ignore_errors=True)


APPEND_PREFIX = b"# written by an earlier command\n" * 3


def run_xt(binary, argv, cwd, stdin_bytes=None, stdout_mode="pipe", close_after=None, timeout=60, stdin_skip=None, stderr_closed=False):
    """Runs the binary.  stdout_mode: pipe | file | tty | closed (read end closed before spawn) |
    consume (read close_after bytes, then close) | devfull.  Returns (status, stdout, stderr).
    stdin_skip (bytes): standard input is a regular file holding stdin_skip + stdin_bytes, positioned after stdin_skip (what
    `{ read hdr; xt; } < file` gives xt): its input is stdin_bytes.
    stdout_mode append: a regular file that already holds APPEND_PREFIX, opened for appending (`>> file`); what xt added is returned.
    stderr_closed: standard error is a pipe whose reader is gone (pipe mode only)."""
    if stderr_closed:
        er, ew = os.pipe()
        os.close(er)
        p = subprocess.Popen([binary] + argv, cwd=cwd, stdin=subprocess.PIPE if stdin_bytes is not None else subprocess.DEVNULL,
                             stdout=subprocess.PIPE, stderr=ew)
        os.close(ew)
        try:
            out_data, _ = p.communicate(stdin_bytes, timeout=timeout)
        except subprocess.TimeoutExpired:
            p.kill()
            out_data, _ = p.communicate()
            return ("hang", 0), out_data, b""
        return (("signal", -p.returncode) if p.returncode < 0 else ("exit", p.returncode)), out_data, b""
    stdin = subprocess.PIPE if stdin_bytes is not None else subprocess.DEVNULL
    if stdin_skip is not None and stdout_mode != "consume":
        tf = tempfile.TemporaryFile()
        tf.write(stdin_skip + (stdin_bytes or b""))
        tf.flush()
        os.lseek(tf.fileno(), len(stdin_skip), os.SEEK_SET)
        stdin, stdin_bytes = tf, None
    out_data = b""
    if stdout_mode == "pipe":
        p = subprocess.Popen([binary] + argv, cwd=cwd, stdin=stdin, stdout=subprocess.PIPE, stderr=subprocess.PIPE)
        try:
            out_data, err = p.communicate(stdin_bytes, timeout=timeout)
        except subprocess.TimeoutExpired:
            p.kill()
            out_data, err = p.communicate()
            return ("hang", 0), out_data, err
    elif stdout_mode in ("file", "devfull", "append"):
        target = "/dev/full" if stdout_mode == "devfull" else os.path.join(cwd, ".stdout.%d" % threading.get_ident())
        if stdout_mode == "append":
            with open(target, "wb") as f:
                f.write(APPEND_PREFIX)
        # `>> file` as a shell opens it: O_APPEND with the offset still 0 (Python's "ab" would seek to the end)
        with (os.fdopen(os.open(target, os.O_WRONLY | os.O_APPEND), "wb", buffering=0, closefd=True) if stdout_mode == "append" else open(target, "wb")) as f:
            p = subprocess.Popen([binary] + argv, cwd=cwd, stdin=stdin, stdout=f, stderr=subprocess.PIPE)
            try:
                _, err = p.communicate(stdin_bytes, timeout=timeout)
            except subprocess.TimeoutExpired:
                p.kill()
                _, err = p.communicate()
                return ("hang", 0), b"", err
        if stdout_mode in ("file", "append"):
            out_data = open(target, "rb").read()
            os.unlink(target)
            if stdout_mode == "append":
                out_data = out_data[len(APPEND_PREFIX):] if out_data.startswith(APPEND_PREFIX) else \
                    b"<<what the file held before xt ran is damaged>>" + out_data
    elif stdout_mode == "tty":
        master, slave = pty.openpty()
        p = subprocess.Popen([binary] + argv, cwd=cwd, stdin=stdin, stdout=slave, stderr=subprocess.PIPE)
        os.close(slave)
        chunks = []

        def drain():
            while True:
                try:
                    b = os.read(master, 65536)
                except OSError:
                    break
                if not b:
                    break
                chunks.append(b)
        t = threading.Thread(target=drain)
        t.start()
        try:
            _, err = p.communicate(stdin_bytes, timeout=timeout)
        except subprocess.TimeoutExpired:
            p.kill()
            _, err = p.communicate()
        t.join(timeout=5)
        os.close(master)
        out_data = b"".join(chunks).replace(b"\r\n", b"\n")
    elif stdout_mode == "consume_hold":
        # the consumer takes close_after bytes and leaves while xt is still waiting for more input: standard input is closed
        # only after the consumer has gone
        r, w = os.pipe()
        p = subprocess.Popen([binary] + argv, cwd=cwd, stdin=subprocess.PIPE, stdout=w, stderr=subprocess.PIPE)
        os.close(w)
        got = []
        try:
            p.stdin.write(stdin_bytes or b"")
            p.stdin.flush()
        except OSError:
            pass
        left = close_after
        while left > 0:
            b = os.read(r, min(left, 65536))
            if not b:
                break
            got.append(b)
            left -= len(b)
        os.close(r)
        try:
            p.stdin.close()
        except OSError:
            pass
        try:
            err = p.stderr.read()
            p.wait(timeout=timeout)
        except subprocess.TimeoutExpired:
            p.kill()
            p.wait()
            return ("hang", 0), b"".join(got), b""
        out_data = b"".join(got)
    else:   # closed / consume
        r, w = os.pipe()
        if stdout_mode == "closed":
            os.close(r)
            r = None
        p = subprocess.Popen([binary] + argv, cwd=cwd, stdin=stdin, stdout=w, stderr=subprocess.PIPE)
        os.close(w)
        got = []

        def consume():
            left = close_after
            while left > 0:
                b = os.read(r, min(left, 65536))
                if not b:
                    break
                got.append(b)
                left -= len(b)
            os.close(r)
        t = None
        if r is not None:
            t = threading.Thread(target=consume)
            t.start()
        try:
            _, err = p.communicate(stdin_bytes, timeout=timeout)
        except subprocess.TimeoutExpired:
            p.kill()
            _, err = p.communicate()
            if t:
                t.join(timeout=5)
            return ("hang", 0), b"".join(got), err
        if t:
            t.join(timeout=5)
        out_data = b"".join(got)
    rc = p.returncode
    status = ("signal", -rc) if rc < 0 else ("exit", rc)
    return status, out_data, err


def hexargs(argv):
    return ",".join((a.encode("utf-8", "surrogateescape").hex() or "e") for a in argv) if argv else "-"


def parse_cp(line):
    f = line.split(" ")
    if f[0] == "usage":
        return {"kind": "usage", "why": f[1]}
    if f[0] == "exit0":
        return {"kind": "exit0", "which": f[1]}
    if f[0] != "args":
        return {"kind": "?", "raw": line}
    d = dict(x.split("=", 1) for x in f[1:])
    return {"kind": "args", "from": None if d["from"] == "-" else d["from"], "to": None if d["to"] == "-" else d["to"],
            "inputs": [b"" if h == "e" else bytes.fromhex(h) for h in d["inputs"].split(",")],
            "resolved": [None if r == "-" else r for r in d["resolved"].split(",")]}


class Case:
    def __init__(self, argv, stdin=None, mode="pipe", close_after=None, fifos=None, stdin_skip=None):
        self.argv, self.stdin, self.mode, self.close_after = argv, stdin, mode, close_after
        self.stdin_skip = stdin_skip      # bytes: stdin is a regular file positioned after these bytes (see run_xt)
        # relative path -> bytes a writer feeds into that FIFO (a list of pieces: written one by one, with a pause in between)
        self.fifo_pieces = {k: (list(v) if isinstance(v, (list, tuple)) else [v]) for k, v in (fifos or {}).items()}
        self.fifos = {k: b"".join(v) for k, v in self.fifo_pieces.items()}


def run_case(binary, cwd, c):
    """run_xt with writers on the case's FIFOs."""
    threads = []
    for name, pieces in c.fifo_pieces.items():
        path = os.path.join(cwd, name)

        def feed(path=path, pieces=pieces):
            try:
                with open(path, "wb", buffering=0) as f:
                    for k, piece in enumerate(pieces):
                        if k:
                            time.sleep(0.15)
                        f.write(piece)
            except OSError:
                pass
        t = threading.Thread(target=feed, daemon=True)
        t.start()
        threads.append((t, path))
    res = run_xt(binary, c.argv, cwd, c.stdin, c.mode, c.close_after, stdin_skip=c.stdin_skip)
    for t, path in threads:
        if t.is_alive():
            try:      # xt never opened it: release the writer
                fd = os.open(path, os.O_RDONLY | os.O_NONBLOCK)
                t.join(timeout=2)
                os.close(fd)
            except OSError:
                pass
        t.join(timeout=2)
    return res


def predict_and_run(binary, cwd, cases, jobs=16):
    """For every case: the model's prediction and the binary's behaviour.
    Returns a list of dicts with keys case, parsed, predicted, actual."""
    # 1. parse with the model
    cp = common.run_driver_lines(["CP %d %s" % (i, hexargs(c.argv)) for i, c in enumerate(cases)])
    parsed = [parse_cp(cp[str(i)]) for i in range(len(cases))]
    # 2. what the library makes of each input, in one Translator per case
    sess, sess_of = [], {}
    plans = []
    for i, (c, p) in enumerate(zip(cases, parsed)):
        if p["kind"] != "args":
            plans.append(None)
            continue
        ins, calls = [], []
        stdin_seen = False
        for path, frm in zip(p["inputs"], p["resolved"]):
            if path == b"-":
                if stdin_seen:
                    ins.append({"path": path, "open": "S", "call": None})
                    break
                stdin_seen = True
                ins.append({"path": path, "open": "S", "call": len(calls)})
                calls.append({"input": shared.hx(c.stdin or b""), "from": frm, "mode": "reader", "sched": {"kind": "fixed", "n": 4096}})
                continue
            full = os.path.join(cwd.encode(), path)
            if path.decode("utf-8", "replace") in c.fifos:
                ins.append({"path": path, "open": "D", "call": len(calls)})
                calls.append({"input": shared.hx(c.fifos[path.decode()]), "from": frm, "mode": "reader", "sched": {"kind": "fixed", "n": 4096}})
                continue
            if not os.path.lexists(full):
                ins.append({"path": path, "open": "E", "call": None})
                break
            if os.path.isdir(full):
                ins.append({"path": path, "open": "D", "call": None, "dir": True})
                break
            data = open(full, "rb").read()
            ins.append({"path": path, "open": "D", "call": len(calls)})
            calls.append({"input": shared.hx(data), "from": frm, "mode": "slice"})
        plans.append(ins)
        if calls:
            sess_of[i] = len(sess)
            sess.append({"id": len(sess), "to": p["to"] or "json", "calls": calls})
    resps = common.harness_batch(sess, timeout=900) if sess else []
    # 3. the model's main loop
    cr_lines, cr_of = [], {}
    errtexts = {}
    for i, (c, p) in enumerate(zip(cases, parsed)):
        if p["kind"] != "args":
            continue
        resp = resps[sess_of[i]] if i in sess_of else {"calls": [], "out": "-"}
        out = bytes.fromhex(resp["out"]) if resp.get("out", "-") != "-" else b""
        offs, pos = [], 0
        for cl in resp.get("calls", []):
            offs.append((pos, pos + cl.get("wrote", 0)))
            pos += cl.get("wrote", 0)
        parts = []
        errtexts[i] = {}
        for k, inp in enumerate(plans[i]):
            if inp["call"] is None:
                ok, tr = (0, b"")
                if inp.get("dir"):
                    errtexts[i][k] = None      # an OS error text ("Is a directory")
            else:
                cl = resp["calls"][inp["call"]]
                a, b = offs[inp["call"]]
                ok, tr = (1 if cl.get("ok") else 0), out[a:b]
                if cl.get("panic") or resp.get("crash") or resp.get("hang"):
                    errtexts[i][k] = "PANIC"
                elif not cl.get("ok"):
                    errtexts[i][k] = cl.get("err", "")
            parts.append("%s:%s:%d:%s" % (inp["path"].hex(), inp["open"], ok, tr.hex()))
            if not ok:
                break
        kind = {"pipe": "P", "file": "F", "append": "F", "tty": "T", "closed": "P", "consume": "P", "devfull": "F"}[c.mode]
        fault, broken = "-", "0"
        if c.mode == "closed":
            fault, broken = "0", "1"
        elif c.mode == "devfull":
            fault, broken = "0", "0"
        cr_of[i] = len(cr_lines)
        cr_lines.append("CR %d %s %s %s %s %d %s" % (len(cr_lines), kind, fault, broken, p["to"] or "-", BCAP, ";".join(parts) if parts else "-"))
    cr = common.run_driver_lines(cr_lines) if cr_lines else {}
    # 4. the binary
    def go(c):
        return run_case(binary, cwd, c)
    with concurrent.futures.ThreadPoolExecutor(jobs) as ex:
        actual = list(ex.map(go, cases))
    # A pipe whose read end this process has closed can still have a reader for an instant: a child forked by another
    # worker thread holds a copy of the descriptor until it execs.  A run with a closed or closing consumer that ended
    # with status 0 is therefore repeated on its own, with no other thread forking, before it is believed.
    for i, c in enumerate(cases):
        if c.mode in ("closed", "consume") and actual[i][0] == ("exit", 0):
            actual[i] = run_case(binary, cwd, c)
    res = []
    for i, (c, p) in enumerate(zip(cases, parsed)):
        if p["kind"] == "usage":
            pred = {"status": ("exit", 2), "stdout": b"", "stderr": "usage"}
        elif p["kind"] == "exit0":
            pred = {"status": ("exit", 0), "stdout": None, "stderr": "none", "which": p["which"]}
        elif p["kind"] == "args":
            f = cr[str(cr_of[i])].split(" ")
            st = ("signal", SIGPIPE) if f[0] == "sigpipe" else ("exit", int(f[0][4:]))
            pred = {"status": st, "stdout": bytes.fromhex(f[1]) if f[1] != "-" else b"", "stderr": f[2],
                    "opened": f[3], "stdin_reads": f[4], "errtexts": errtexts.get(i, {}), "plan": plans[i]}
        else:
            pred = {"status": ("?", 0), "stdout": b"", "stderr": "?"}
        res.append({"case": c, "parsed": p, "predicted": pred, "actual": actual[i]})
    return res


def display(path):
    """How xt shows a path (Path::display: bytes that are not UTF-8 become U+FFFD)."""
    return b"standard input" if path == b"-" else path.decode("utf-8", "replace").encode("utf-8")


def compare(r, check_stdout=True):
    """Differences between prediction and behaviour (empty list: agree)."""
    c, p, pred, (status, out, err) = r["case"], r["parsed"], r["predicted"], r["actual"]
    diffs = []
    if status != pred["status"]:
        diffs.append("status: predicted %s, observed %s" % (pred["status"], status))
    if check_stdout and pred.get("stdout") is not None and c.mode in ("pipe", "file", "append", "tty") and out != pred["stdout"]:
        diffs.append("stdout: predicted %d bytes %r..., observed %d bytes %r..." % (len(pred["stdout"]), pred["stdout"][:60], len(out), out[:60]))
    if p["kind"] == "exit0":
        want = {"version": b"xt ", "help-short": b"Usage: ", "help-long": b" - Translate between serialized data formats"}[pred["which"]]
        if c.mode in ("pipe", "file", "append") and want not in out:
            diffs.append("stdout lacks the %s text" % pred["which"])
    se = pred["stderr"]
    if se == "none":
        if err != b"":
            diffs.append("stderr should be empty, observed %r" % err[:200])
    elif se == "usage":
        if not (err.startswith(b"xt error: ") and b"\nUsage: " in err and err.count(b"\n") >= 3):
            diffs.append("stderr is not 'xt error: ...' followed by the usage summary: %r" % err[:200])
    elif se == "plain":
        if not (err.startswith(b"xt error: ") and err.endswith(b"\n") and err.count(b"\n") == 1):
            diffs.append("stderr is not one 'xt error: ...' line: %r" % err[:200])
    elif se.startswith("path:"):
        path = bytes.fromhex(se[5:]) if se[5:] != "-" else b""
        head = b"xt error in " + display(path) + b": "
        if not (err.startswith(head) and err.endswith(b"\n")):
            diffs.append("stderr does not begin with %r: %r" % (head, err[:200]))
        else:
            # the message is the library's own error text for that input
            texts = pred.get("errtexts", {})
            k = len(pred.get("plan", [])) - 1
            t = texts.get(k)
            if t == "PANIC":
                pass
            elif c.mode == "devfull" and (b"No space left on device" in err or b"error while writing" in err):
                pass    # more than a buffer of output came before the input's own failure: the device's error is met first
            elif t is not None and t != "" and err[len(head):-1].decode("utf-8", "replace") != t:
                diffs.append("error text differs from the library's: library %r, binary %r" % (t[:200], err[len(head):-1][:200]))
    return diffs
