#!/usr/bin/env python3
"""Regenerates MANIFEST.json from the per-property modules under tools/props."""
import importlib
import json
import os
import subprocess
import sys

HERE = os.path.dirname(os.path.abspath(__file__))
sys.path.insert(0, HERE)
VERIF = os.path.dirname(HERE)

TEXT = {}
NOT_BUILT = "check not built yet in this round (work in progress; see DESIGN.md section 7)"


def main():
    checks, na = [], []
    for i in range(1, 19):
        pid = "C%02d" % i
        try:
            mod = importlib.import_module("props." + pid.lower())
        except ImportError:
            na.append({"property_id": pid, "reason": NOT_BUILT})
            continue
        m = mod.META
        checks.append({
            "property_id": pid,
            "quick_cmd": "./vcheck %s --tier quick" % pid,
            "thorough_cmd": "./vcheck %s --tier thorough" % pid,
            "evidence_file": "/verif/evidence/%s.json" % pid,
            "replay_cmd_template": "./vcheck %s --replay {path}" % pid,
            "engine": "rocq-model+correspondence",
            "level_claimed": {
                "category": m["level"],
                "text": m["claim"],
                "design_ref": "DESIGN.md section 7, " + pid,
            },
            "level_note": m["level_note"],
            "technique": m["technique"],
        })
    commits = subprocess.run(["git", "-C", "/repo", "log", "--format=%H %s"], stdout=subprocess.PIPE).stdout.decode().split("\n")
    hooks = [c.split()[0] for c in commits if c and "verif hooks" in c]
    manifest = {
        "version": 1,
        "setup_cmd": "./vcheck --setup",
        "hooks": {
            "guard": "cargo feature `verif` (xt/Cargo.toml [features] verif = [])",
            "enable": "the harness crate depends on xt = { path = \"/repo\" } with feature `verif` "
                      "(harness/Cargo.toml, default feature `hooks`); built by every check with cargo build --release --offline",
            "baseline_off_cmd": "cd /repo && cargo test --workspace --no-fail-fast --offline",
            "source_commits": hooks,
            "add_only": True,
        },
        "engines": [{
            "name": "rocq-model+correspondence",
            "path": "/verif/vcheck",
            "serves_properties": [c["property_id"] for c in checks],
            "kind_free_text": "Rocq (Coq 8.16.1) theorems about a hand-written Gallina model of xt's own logic "
                              "(coq/theories, statements pinned in coq/properties), tied to /repo on every run by a "
                              "correspondence check: the extracted model (OCaml) and the implementation (Rust harness "
                              "built from /repo's working tree) run the same cases and are diffed; the property's own "
                              "oracle searches the implementation for a concrete failing input",
        }],
        "checks": checks,
        "notes": "Every check: (1) full .vo build of the property's theorems, Print Assumptions allowlist, forbidden-token "
                 "grep; (2) harness rebuilt from /repo's working tree; (3) model/implementation correspondence and property "
                 "oracle; (4) evidence rewritten. Known findings: known_findings.json.",
        "not_applicable": na,
    }
    with open(os.path.join(VERIF, "MANIFEST.json"), "w") as f:
        json.dump(manifest, f, indent=1)
        f.write("\n")
    print("checks:", [c["property_id"] for c in checks], "not claimed:", [n["property_id"] for n in na])


if __name__ == "__main__":
    main()
