#!/usr/bin/env python3
"""seedtable.py — development aid: writes the table of DESIGN.md section 12 from seeded/*/meta.json and seeded/RESULTS.json."""
import json
import os
import re

VERIF = os.path.dirname(os.path.dirname(os.path.abspath(__file__)))
SEEDED = os.path.join(VERIF, "seeded")


def short(v):
    return {"VIOLATION with a failing input": "caught, failing input", "VIOLATION, no-failing-input-found": "caught, no-failing-input-found",
            "quiet": "quiet"}.get(v, v)


def main():
    res = json.load(open(os.path.join(SEEDED, "RESULTS.json")))
    rows = []
    n = caught = concrete = 0
    for sid in sorted(d for d in os.listdir(SEEDED) if os.path.isdir(os.path.join(SEEDED, d))):
        m = json.load(open(os.path.join(SEEDED, sid, "meta.json")))
        summ = re.sub(r"^(C\d\d )?mutant \w+\s*[-—:–]\s*|^m\d\s*[-—:–]\s*|^C\d\d mutant \w+\s*\(.*?\):\s*", "", m["summary"], flags=re.I).strip()
        r = res.get(sid, {})
        own = r.get(m["property"], {})
        others = ["%s: %s" % (p, short(x.get("verdict"))) for p, x in sorted(r.items()) if p != m["property"] and isinstance(x, dict)]
        n += 1
        if str(own.get("verdict", "")).startswith("VIOLATION"):
            caught += 1
            if "failing input" in own.get("verdict", "") and "no-failing" not in own.get("verdict", ""):
                concrete += 1
        rows.append("| %s | %s (`%s`) | %s | %s |" % (sid, summ[:150].replace("|", "/"), ", ".join(os.path.basename(f) for f in m["files_changed"]),
                                                    short(own.get("verdict", "not run")), "; ".join(others) or "—"))
    print("%d seeded changes; the check of the property each was written against reports %d of them (%d with a concrete failing input).\n" % (n, caught, concrete))
    print("| id | change (file) | its property's quick check | neighbouring checks |\n|---|---|---|---|")
    print("\n".join(rows))


if __name__ == "__main__":
    main()
