#!/usr/bin/env python3
"""seedconfirm.py <property id> <delivered dir> <worktree> <new id>  — development aid (never called by a registered check).
Confirms a seeded change delivered by a sub-agent in a scratch worktree of /repo (outside /repo and /verif): the patch applies,
the tree builds with and without the `verif` feature, the 142 tests pass, the demonstration fails with the change and passes
without it.  On success copies patch.diff, the demonstration and README.md to /verif/seeded/<new id>/ and writes meta.json."""
import json
import os
import re
import shutil
import subprocess
import sys

VERIF = os.path.dirname(os.path.dirname(os.path.abspath(__file__)))
ENV = dict(os.environ, CARGO_NET_OFFLINE="true")


def run(cmd, cwd, timeout=3600):
    p = subprocess.run(cmd, cwd=cwd, env=ENV, stdout=subprocess.PIPE, stderr=subprocess.STDOUT, timeout=timeout, shell=isinstance(cmd, str))
    return p.returncode, p.stdout.decode("utf-8", "replace")


def main():
    prop, src, wt, newid = sys.argv[1:5]
    assert wt.startswith("/tmp/") and os.path.isdir(wt)
    patch = os.path.join(src, "patch.diff")
    rec = {"where": "scratch worktree %s (outside /repo and /verif), CARGO_NET_OFFLINE=true" % wt}
    run("git checkout -- . && git clean -fdq -e target", wt)
    rc, out = run(["git", "apply", "--check", patch], wt)
    rec["git_apply_check"] = "ok" if rc == 0 else out[-300:]
    if rc != 0:
        print(json.dumps(rec, indent=1)); return 1
    # demonstration on the unchanged tree
    rc0, out0 = run(["bash", os.path.join(src, "demo.sh")], wt)
    run("git checkout -- . && git clean -fdq -e target", wt)
    run(["git", "apply", patch], wt)
    rc, out = run("cargo build --offline", wt)
    rec["cargo_build_offline"] = "ok" if rc == 0 else out[-300:]
    rc, out = run("cargo build --offline --features verif", wt)
    rec["cargo_build_offline_features_verif"] = "ok" if rc == 0 else out[-300:]
    rc, out = run("cargo test --workspace --no-fail-fast --offline", wt)
    passed = sum(int(x) for x in re.findall(r"test result: \w+\. (\d+) passed", out))
    failed = sum(int(x) for x in re.findall(r"test result: \w+\. \d+ passed; (\d+) failed", out))
    rec["cargo_test_workspace_no_fail_fast_offline"] = "%d passed, %d failed" % (passed, failed)
    rc1, out1 = run(["bash", os.path.join(src, "demo.sh")], wt)
    files = subprocess.run(["git", "diff", "--name-only"], cwd=wt, stdout=subprocess.PIPE).stdout.decode().split()
    run("git checkout -- . && git clean -fdq -e target", wt)
    rec["demonstration"] = "bash demo.sh from the repository root"
    rec["demo_exit_status_with_patch"] = rc1
    rec["demo_exit_status_without_patch"] = rc0
    rec["demo_output_with_patch_tail"] = out1[-700:]
    good = (rec["cargo_build_offline"] == "ok" and rec["cargo_build_offline_features_verif"] == "ok" and passed == 142 and failed == 0
            and rc1 != 0 and rc0 == 0)
    print(json.dumps(rec, indent=1))
    if not good:
        print("NOT CONFIRMED")
        return 1
    dst = os.path.join(VERIF, "seeded", newid)
    os.makedirs(dst, exist_ok=True)
    for f in os.listdir(src):
        if f in ("summary.txt", "needs.txt"):
            continue
        shutil.copy(os.path.join(src, f), os.path.join(dst, f))

    def rd(name):
        p = os.path.join(src, name)
        return open(p).read().strip() if os.path.exists(p) else ""
    meta = {"id": newid, "property": prop, "summary": rd("summary.txt").replace("\n", " "), "files_changed": files,
            "needs_to_manifest": rd("needs.txt"),
            "produced_by": "a fresh sub-agent (fifth round: told only the property's text and one-line summaries of the eight earlier changes, to avoid repeats) in its own scratch git worktree of /repo (%s, since removed)" % wt,
            "confirmed_by_me": rec,
            "apply": "git -C /repo apply /verif/seeded/%s/patch.diff ; undo: git -C /repo checkout -- ." % newid}
    json.dump(meta, open(os.path.join(dst, "meta.json"), "w"), indent=1)
    print("CONFIRMED ->", dst)
    return 0


if __name__ == "__main__":
    sys.exit(main())
