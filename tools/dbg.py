#!/usr/bin/env python3
"""dbg.py <pid> [tier]: run a property module's run() and print compact findings (development aid)."""
import importlib, json, os, sys
sys.path.insert(0, os.path.dirname(os.path.abspath(__file__)))
import common
pid = sys.argv[1]; tier = sys.argv[2] if len(sys.argv) > 2 else "quick"
fn = sys.argv[3] if len(sys.argv) > 3 else "run"
mod = importlib.import_module("props." + pid.lower())
print("harness build:", common.build_harness()[:2], "driver:", common.build_driver()[0])
o = common.Outcome(pid)
if fn == "run":
    mod.run(o, tier, 1)
else:
    getattr(mod, fn)(o, tier, 1)
def short(x, n=700):
    s = json.dumps(x, default=str)
    return s[:n]
print("evaluations", o.evaluations, "nontrivial", o.distinct_nontrivial)
print("extra", short(o.extra, 3000))
for name, lst in (("DISAGREE", o.disagreements), ("ORACLE", o.oracle_failures), ("CONTRACT", o.contract_failures)):
    print(name, len(lst))
    seen = {}
    for f in lst:
        k = f.get("what", "")[:80]
        seen[k] = seen.get(k, 0) + 1
    for k, v in seen.items():
        print("   %5d  %s" % (v, k))
    for f in lst[:int(os.environ.get("DBG_N", "4"))]:
        print("  -", short(f, int(os.environ.get("DBG_W", "900"))))
print("KNOWN", o.known_hits)
