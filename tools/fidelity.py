"""Value-level oracles shared by C01, C06 and C10: generated documents, spelled in a source format, pushed through xt,
read back with an independent reader of the target format."""
import gen
from props import shared

FORMATS = ["json", "yaml", "toml", "msgpack"]
PROFILE = {"json": "json", "yaml": "yaml", "toml": "toml", "msgpack": "msgpack"}

import re
_YFLOAT = re.compile(r"[-+]?(\.[0-9]+|[0-9]+(\.[0-9]*)?)([eE][-+]?[0-9]+)?$")


def strings_of(v):
    if isinstance(v, str):
        yield v
    elif isinstance(v, dict):
        for k, x in v.items():
            yield k
            yield from strings_of(x)
    elif isinstance(v, gen.Map):
        for k, x in v.pairs:
            yield from strings_of(k)
            yield from strings_of(x)
    elif isinstance(v, (list, tuple)):
        for x in v:
            yield from strings_of(x)


def yaml_overflow_float_string(v):
    """Known class K-C01-yaml-overflow-float-string: some string of the document matches the YAML 1.2 core-schema float
    pattern and its value overflows binary64 (so Rust's parser calls it infinite and serde_yaml leaves it unquoted)."""
    for s in strings_of(v):
        if _YFLOAT.match(s):
            try:
                f = float(s)
            except ValueError:
                continue
            if f in (float("inf"), float("-inf")):
                return True
    return False


def has_f32(v):
    if isinstance(v, gen.F32):
        return True
    if isinstance(v, dict):
        return any(has_f32(x) for x in v.values())
    if isinstance(v, gen.Map):
        return any(has_f32(k) or has_f32(x) for k, x in v.pairs)
    if isinstance(v, (list, tuple)):
        return any(has_f32(x) for x in v)
    return False


def documents(rng, n, depth=4, deep_every=25, f32=False):
    """(source format, value, text): values each representable in their source format."""
    out = []
    # every run starts with the boundary tables: all integer width boundaries and the float pool, as one document per format
    for fmt in FORMATS:
        ints = [x for x in gen.INT_POOL if fmt != "toml" or -(1 << 63) <= x < (1 << 63)]
        for v in ({"ints": ints, "floats": list(gen.FLOAT_POOL)}, {"edge": (1 << 63), "id": (1 << 64) - 1, "ok": (1 << 63) - 1} if fmt != "toml" else {"ok": (1 << 63) - 1}):
            try:
                if not gen.representable(v, fmt):
                    continue
                t = gen.spell(v, fmt, rng)
                back = gen.read_documents(t, fmt)
                if len(back) == 1 and gen.values_equal(back[0], v):
                    out.append((fmt, v, t))
            except Exception:
                continue
    # YAML whose last node keeps its trailing line breaks (keep chomping), ended by the end of the stream, by the next
    # document and by an explicit end marker; the value is whatever the independent reader says it is
    for t in (b"k: |+\n  y\n\n\n", b"- >+\n  z\n\n", b"s: |+\n  x\n\n\n\n...\n", b"a: |-\n  t\n\n\nb: |+\n  u\n\n"):
        try:
            back = gen.read_documents(t, "yaml")
            if len(back) == 1:
                out.append(("yaml", back[0], t))
        except Exception:
            continue
    # strings that another format (or another type of the same format) would read differently if they lost their quotes,
    # and strings holding characters that are special only at the start of a stream (U+FEFF)
    look = ["2021-01-02T03:04:05Z", "1979-05-27T07:32:00-08:00", "2021-01-02T03:04:05.678+00:00", "1979-05-27", "07:32:00",
            "2021-01-02 03:04:05Z", "true", "false", "null", "~", "", "1", "-0", "1.5", "1e3", ".inf", "-.INF", ".nan", "0x1F", "0o17",
            "1_000", "+1", "yes", "no", "on", "off", "NaN", "Infinity", "inf", "nan", "[1]", "{a: 1}", "# c", "a: b", "- x",
            "a\ufeffb", "ab\ufeff", " lead", "trail ", "\u00e9", "\U0001f600", "\u2028", "\x7f", "\x85",
            # strings that are YAML syntax when they stand alone as a key or a value (merge key, tags, anchors, indicators)
            "<<", "=", "!", "!!str", "&a", "*a", "?", "|", ">", "%", "@", "`", "-", ":", "---", "..."]
    for fmt in FORMATS:
        for v in ({"strs": look, "nested": [{"t": s} for s in look[:8]]}, {"keys": {s: i for i, s in enumerate(look)}}):
            try:
                if not gen.representable(v, fmt):
                    continue
                for t in (gen.spell_canonical(v, fmt), gen.spell(v, fmt, rng)):
                    back = gen.read_documents(t, fmt)
                    if len(back) == 1 and gen.values_equal(back[0], v):
                        out.append((fmt, v, t))
            except Exception:
                continue
    for t in ('k: "a\ufeffb"\n"x\ufeffy": ["p\ufeff", \'q\ufeffr\']\n'.encode(), '- plain\ufeffword\n- |\n  block\ufefftext\n'.encode()):
        try:
            back = gen.read_documents(t, "yaml")
            if len(back) == 1:
                out.append(("yaml", back[0], t))
        except Exception:
            continue
    # a string of multi-byte characters longer than any read buffer, at four alignments (whatever buffer a hop refills, some
    # refill ends inside a character)
    for fmt in ("json", "yaml"):
        for shift in range(4):
            v = {"k" + "x" * shift: "\u00e9\u20ac\U0001f600" * 5000}
            try:
                out.append((fmt, v, gen.spell_canonical(v, fmt)))
            except Exception:
                continue
    # a merge-key-shaped entry whose value is a map, a sequence of maps, a scalar
    for fmt in FORMATS:
        for v in ({"<<": {"a": 1}, "b": 2}, {"ops": {"<<": "left"}, "list": [{"<<": [{"x": 1}, {"y": 2}]}]}):
            try:
                t = gen.spell_canonical(v, fmt)
                back = gen.read_documents(t, fmt)
                if len(back) == 1 and gen.values_equal(back[0], v):
                    out.append((fmt, v, t))
            except Exception:
                continue
    # nesting at the depth the properties quantify up to (64), in one shape only: all maps, all arrays; innermost non-empty
    for fmt in ("json", "msgpack", "yaml"):
        for d in (63, 64):
            vm, va = {"k": 1}, [1]
            for _ in range(d):
                vm, va = {"m": vm}, [va]
            for v in (vm, {"a": va}):
                try:
                    out.append((fmt, v, gen.spell_canonical(v, fmt)))
                except (RecursionError, Exception):
                    continue
    # collections longer than any 16-bit length field or pre-allocation cap (40 000, 33 000), and longer than 65 536
    for fmt in ("msgpack", "json"):
        for v in ({"arr": [i % 10 for i in range(40000)]}, {"m": {"k%d" % i: i % 3 for i in range(33000)}},
                  {"arr": [i % 7 for i in range(70000)]}, {"m": {"k%d" % i: i % 3 for i in range(66000)}}):
            try:
                t = gen.spell_canonical(v, fmt)
                out.append((fmt, v, t))
            except Exception:
                continue
    tries = 0
    while len(out) < n and tries < n * 5:
        tries += 1
        fmt = FORMATS[len(out) % 4]
        d = depth
        if deep_every and len(out) % deep_every == deep_every - 1:
            d = rng.choice([16, 32, 64])
        try:
            profile = rng.choice(["common", "common", PROFILE[fmt]])
            v = gen.gen_value(rng, depth=d, profile=profile)
            if not gen.representable(v, fmt):
                continue
            if not f32 and has_f32(v):
                continue      # 32-bit floats are outside C01's data model (binary64); C06 covers them
            t = gen.spell(v, fmt, rng)
            back = gen.read_documents(t, fmt)
            if len(back) != 1 or not gen.values_equal(back[0], v):
                continue
            out.append((fmt, v, t))
        except (RecursionError, Exception):
            continue
    return out


def unordered(v):
    """v with every map's entries sorted by key: equality up to entry order only."""
    if isinstance(v, dict):
        return ("map", tuple(sorted(((("str", k), unordered(x)) for k, x in v.items()), key=repr)))
    if isinstance(v, gen.Map):
        return ("map", tuple(sorted(((unordered(k), unordered(x)) for k, x in v.pairs), key=repr)))
    if isinstance(v, (list, tuple)):
        return ("seq", tuple(unordered(x) for x in v))
    if isinstance(v, float):
        return ("f", gen._bits(v))
    if isinstance(v, gen.F32):
        return ("f32", gen._bits(v.value))
    return (type(v).__name__, v)


def classify_toml(got, v):
    """'exact' (TOML's required reordering only), 'regrouped' (the toml crate's extra regrouping of arrays that
    contain a table), or None."""
    if gen.values_equal(got, gen.toml_reorder(v)) or gen.values_equal(got, v):
        return "exact"
    if gen.values_equal(got, gen.toml_reorder_xt(v)):
        return "regrouped"
    return None


def expected_in(v, to):
    """Candidates for what an independent reader of `to` should see for v."""
    if to == "toml":
        return [gen.toml_reorder(v), gen.toml_reorder_xt(v), v]
    return [v]


def same_value(got, v, to):
    for want in expected_in(v, to):
        if gen.values_equal(got, want):
            return True
    if to == "toml":
        try:
            return gen.values_equal(gen.toml_reorder(got), gen.toml_reorder(v))
        except Exception:
            return False
    return False
