"""Histories of translate calls on one Translator: generation of documents in the
four source formats, joining them into multi-document inputs with every kind
of separator the source format allows, and the model/implementation
correspondence for coq/theories/FormatsModel.v (translate_history)."""
import common
import gen
from props import shared

FRAME_PRE = {"json": b"", "yaml": b"---\n", "msgpack": b"", "toml": b""}
FRAME_POST = {"json": b"\n", "yaml": b"", "msgpack": b"", "toml": b""}

JSON_SEPS = [b"\n", b" ", b"\n\n", b"\t", b"\r\n", b" \n "]
YAML_COMMENTS = [b"# comment\n", b"#\n", b"# --- not a marker\n", b"  # indented\n"]


def join_docs(fmt, texts, rng):
    """One input holding the given single-document texts, separated in one of the
    ways the format allows.  Returns None if the format cannot hold them."""
    if fmt == "toml":
        return texts[0] if len(texts) == 1 else None
    if fmt == "msgpack":
        return b"".join(texts)
    if fmt == "json":
        out = bytearray()
        for i, t in enumerate(texts):
            if i:
                prev = bytes(out).rstrip(b" \t\r\n")[-1:]
                nxt = t.lstrip(b" \t\r\n")[:1]
                # no separator at all is allowed when one side is a bracket or a quote
                if rng.random() < 0.25 and (prev in b']}"' or nxt in b'[{"'):
                    pass
                else:
                    out += rng.choice(JSON_SEPS)
            out += t
        if rng.random() < 0.5:
            out += rng.choice(JSON_SEPS)
        return bytes(out)
    # yaml
    out = bytearray()
    if rng.random() < 0.2:
        out += rng.choice(YAML_COMMENTS)
    for i, t in enumerate(texts):
        t = t if t.endswith(b"\n") else t + b"\n"
        lines = [l for l in t.split(b"\n") if l.strip() and not l.lstrip().startswith(b"#")]
        body = lines[0] if lines else b""
        if body.startswith(b"%") or body.startswith(b"---"):
            out += t
        else:
            if rng.random() < 0.15:
                out += b"%YAML 1.2\n"
            out += b"---\n" if rng.random() < 0.8 else b"--- # c\n"
            out += t
        r = rng.random()
        if r < 0.25:
            out += b"...\n"
        elif r < 0.35:
            out += rng.choice(YAML_COMMENTS)
        elif r < 0.4:
            out += b"...\n" + rng.choice(YAML_COMMENTS)
    return bytes(out)


def make_doc(rng, fmt, profile="common", depth=3, root=None, tries=20):
    """(value, text) of one document spelled in fmt, checked with the independent reader."""
    for _ in range(tries):
        try:
            prof = profile
            v = gen.gen_value(rng, depth=depth, profile=prof, root=root)
            if not gen.representable(v, fmt):
                continue
            t = gen.spell(v, fmt, rng)
            back = gen.read_documents(t, fmt)
            if len(back) == 1 and gen.values_equal(back[0], v):
                return v, t
        except Exception:
            continue
    return None


def verdict_line(resp):
    vs = []
    for c in resp.get("calls", []):
        vs.append("ok" if c.get("ok") else ("panic" if c.get("panic") else "err"))
    return vs


def strip_frame(to, out, ok):
    """The serializer's own bytes of a single-document run, or None if the frame is not there."""
    pre, post = FRAME_PRE[to], FRAME_POST[to]
    if ok:
        if not (out.startswith(pre) and out.endswith(post) and len(out) >= len(pre) + len(post)):
            return None
        return out[len(pre):len(out) - len(post)] if post else out[len(pre):]
    if out == b"":
        return b"" if to != "yaml" else None
    if not out.startswith(pre):
        return None
    return out[len(pre):]


REFUSED = {
    # target -> [(source format, text)] documents that parse but that the target must refuse
    "json": [("yaml", b"~: 1\n"), ("yaml", b"a:\n  ? [1, 2]\n  : x\n"), ("msgpack", b"\x81\xc0\x01"), ("msgpack", b"\x92\x01\x81\x92\x01\x02\x03")],
    "yaml": [("msgpack", b"\x81\xa1a\xc4\x02\x00\x01"), ("msgpack", b"\x92\x01\xc4\x01x")],
    "msgpack": [],
    "toml": [("json", b'{"a":null}'), ("json", b"[1,2]"), ("json", b'"s"'), ("json", b"18"), ("yaml", b"a: {b: [~]}\n"),
             ("json", b'{"a":18446744073709551615}'), ("msgpack", b"\x81\x01\x02"), ("msgpack", b"\x81\xa1a\xc4\x01x"),
             ("yaml", b"- a: 1\n"), ("json", b"null"), ("json", b"true"), ("json", b"1.5"), ("json", b'{"a":{"b":[1,null]}}')],
}


def build(outcome, tier, seed, targets, rng, n_hist):
    """Generates histories: the session requests and the model's description of each (FT case tail)."""
    pool = {}   # fmt -> [(value, text)]
    for fmt in ("json", "yaml", "msgpack", "toml"):
        pool[fmt] = []
        for _ in range(24 if tier == "quick" else 80):
            d = make_doc(rng, fmt, profile="toml" if fmt == "toml" else "common", depth=rng.choice([1, 2, 3]))
            if d:
                pool[fmt].append(d)
    # documents that more than one format accepts (detection in isolation resolves them by trial order to the format they
    # are listed under): a translator whose detection depended on its earlier inputs would read them differently
    AMBIGUOUS = {"json": [b'["x"]', b"[1]", b"[true]", b'["a b"]', b"[-0]", b'["x"]\n'],
                 "yaml": [b"[a]\n", b"[a.b]\n", b"[-0]\n" if False else b"[x-y]\n"]}
    for fmt, texts in AMBIGUOUS.items():
        for t in texts:
            pool[fmt].append((None, t))
    # explicitly empty YAML documents (a marker line and nothing else) are documents too
    for t in (b"---\n", b"--- # nothing here\n", b"---\n# only a comment\n"):
        pool["yaml"].append((None, t))
        pool["yaml"].append((None, t))
    # 1. single-document runs
    singles, sreqs = {}, []
    for to in targets:
        for fmt in pool:
            for v, t in pool[fmt]:
                sreqs.append((to, fmt, t))
        for fmt, t in REFUSED[to]:
            sreqs.append((to, fmt, t))
    resps = common.harness_batch([{"id": i, "to": to, "calls": [{"input": shared.hx(t), "from": fmt, "mode": "slice"}]}
                                  for i, (to, fmt, t) in enumerate(sreqs)])
    for (to, fmt, t), r in zip(sreqs, resps):
        res = shared.session_result(r)
        if res[0] == "crash":
            outcome.oracle_failures.append({"what": "crash translating one document", "from": fmt, "to": to, "input_hex": shared.hx(t)})
            continue
        out = bytes.fromhex(res[2]) if res[2] != "-" else b""
        body = strip_frame(to, out, res[0] == "ok")
        if body is None:
            outcome.disagreements.append({"what": "output framing of a single document differs from the model's frame "
                                                  "(JSON: body + newline; YAML: '---' line + body; MessagePack/TOML: body)",
                                          "from": fmt, "to": to, "input_hex": shared.hx(t), "implementation": res[2], "ok": res[0]})
            continue
        singles[(to, fmt, t)] = ("o" if res[0] == "ok" else "r") + (body.hex() if body else "")
    # 2. histories
    cases, reqs, metas = [], [], []
    for to in targets:
        for _ in range(n_hist):
            ncalls = rng.choice([0, 1, 1, 2, 2, 3, 4, 6])
            calls, mcalls = [], []
            good = True
            for _ in range(ncalls):
                fmt = rng.choice(["json", "yaml", "msgpack", "toml"])
                nd = 1 if fmt == "toml" else rng.choice([0, 1, 1, 2, 3, 5])
                docs = []
                for _ in range(nd):
                    if REFUSED[to] and rng.random() < (0.25 if to == "toml" else 0.1):
                        cand = [(f, t) for f, t in REFUSED[to] if f == fmt]
                        if cand:
                            docs.append(rng.choice(cand)[1])
                            continue
                    if pool[fmt]:
                        docs.append(rng.choice(pool[fmt])[1])
                if fmt == "toml" and not docs:
                    continue
                data = join_docs(fmt, docs, rng)
                if data is None:
                    good = False
                    break
                garbage = False
                if fmt == "json" and rng.random() < 0.1:
                    data, garbage = data + b"\n]", True
                elif fmt == "msgpack" and rng.random() < 0.1:
                    data, garbage = data + b"\xc1", True
                try:
                    mdocs = [singles[(to, fmt, t)] for t in docs]
                except KeyError:
                    good = False
                    break
                mode = rng.choice(["slice", "reader"])
                call = {"input": shared.hx(data), "from": fmt, "mode": mode}
                if mode == "reader":
                    call["sched"] = __import__("corpus").random_sched(rng)
                calls.append(call)
                if garbage and mode == "reader":
                    # the reader loops hand the deserializer to the output before the syntax error is met: the
                    # output starts a document (YAML writes its '---' line, TOML marks itself used) and then fails
                    mcalls.append("1:" + ",".join(mdocs + ["r"]))
                else:
                    # the slice loops meet the syntax error before the output is involved
                    mcalls.append(("0" if garbage else "1") + ":" + ",".join(mdocs))
            if not good:
                continue
            i = len(reqs)
            reqs.append({"id": i, "to": to, "calls": calls})
            cases.append((i, to, ";".join(mcalls) if mcalls else "-"))
            metas.append((to, calls))
    # an ambiguous document, left to detection, after an input of each other format
    for to in targets:
        for afmt, texts in AMBIGUOUS.items():
            for t in texts:
                for pfmt in ("toml", "yaml", "json", "msgpack"):
                    if not pool[pfmt] or (to, afmt, t) not in singles:
                        continue
                    pt = rng.choice(pool[pfmt])[1]
                    if (to, pfmt, pt) not in singles:
                        continue
                    d1, d2 = join_docs(pfmt, [pt], rng), t
                    if d1 is None or d2 is None:
                        continue
                    calls = [{"input": shared.hx(d1), "from": pfmt, "mode": rng.choice(["slice", "reader"])},
                             {"input": shared.hx(d2), "from": afmt, "mode": "slice", "_detect": True}]
                    for c in calls:
                        if c["mode"] == "reader":
                            c["sched"] = __import__("corpus").random_sched(rng)
                    i = len(reqs)
                    reqs.append({"id": i, "to": to, "calls": calls})
                    cases.append((i, to, "1:%s;1:%s" % (singles[(to, pfmt, pt)], singles[(to, afmt, t)])))
                    metas.append((to, calls))
    # some calls leave the source format to detection: only where a fresh detection of that input picks the format the
    # documents were written in, so that the model's per-document description stays valid.  (A translator whose detection
    # depended on earlier inputs would then part from the model.)
    if outcome.hooks_available:
        uniq = {}
        for r in reqs:
            for c in r["calls"]:
                uniq.setdefault(c["input"], None)
        keys = list(uniq)
        dres = common.harness_batch([{"id": i, "op": "detect", "input": k, "mode": "slice"} for i, k in enumerate(keys)])
        for k, d in zip(keys, dres):
            uniq[k] = d.get("detected")
        n_det = 0
        for r in reqs:
            for c in r["calls"]:
                forced = c.pop("_detect", False)
                if uniq.get(c["input"]) == c["from"] and (forced or rng.random() < 0.4):
                    c["from"] = None
                    n_det += 1
    for r in reqs:
        for c in r["calls"]:
            c.pop("_detect", None)
    if outcome.hooks_available:
        outcome.extra["history_calls_with_detected_format"] = outcome.extra.get("history_calls_with_detected_format", 0) + n_det
    return reqs, cases, len(sreqs)


def correspondence(outcome, tier, seed, targets, rng, n_hist):
    """FormatsModel.translate_history against xt::Translator over generated histories."""
    reqs, tails, n_single = build(outcome, tier, seed, targets, rng, n_hist)
    cases = ["FT %d %s %s" % t for t in tails]
    resps = common.harness_batch(reqs)
    model = common.run_driver_lines(cases)
    nontrivial = 0
    for i, (req, resp) in enumerate(zip(reqs, resps)):
        if resp.get("crash") or resp.get("hang"):
            outcome.oracle_failures.append({"what": "crash or hang in a translate history", "request": req})
            continue
        impl = "%s %s" % (resp.get("out", "-"), ",".join(verdict_line(resp)))
        m = model.get(str(i), "")
        mo, _, mv = m.partition(" ")
        mvs = ",".join("ok" if x == "ok" else "err" for x in mv.split(",")) if mv else ""
        if impl != "%s %s" % (mo, mvs):
            outcome.disagreements.append({"what": "Translator history: writer bytes / verdicts differ from FormatsModel.translate_history",
                                          "case": cases[i][:3000], "request": json_short(req), "implementation": impl[:3000],
                                          "model": ("%s %s" % (mo, mvs))[:3000], "_req": req})
        if len(req["calls"]) >= 2 or any(c.count(",") for c in cases[i].split(" ")[3:]):
            nontrivial += 1
    # The property's own reading, on the histories where model and implementation part: every input translated alone
    # (fresh translator, same source selection and supply mode); when all of them succeed alone, the history must succeed
    # and write exactly the concatenation of what they wrote alone.
    suspects = []
    for d in outcome.disagreements:
        if d.get("what", "").startswith("Translator history") and d.get("_req") is not None and d["_req"]["to"] != "toml":
            suspects.append(d["_req"])
    for req in suspects[:12]:
        alone = common.harness_batch([{"id": j, "to": req["to"], "calls": [c]} for j, c in enumerate(req["calls"])])
        res = [shared.session_result(a) for a in alone]
        if not res or any(r[0] != "ok" for r in res):
            continue
        want = "".join(r[2] for r in res if r[2] not in ("-", ""))
        whole = common.harness_batch([req])[0]
        got = whole.get("out", "-")
        got = "" if got == "-" else got
        oks = [bool(c.get("ok")) for c in whole.get("calls", [])]
        if got != want or not all(oks):
            outcome.oracle_failures.append({
                "what": "a history of inputs to one translator does not produce the concatenation of the translations of each input "
                        "taken alone (each input succeeds alone)", "to": req["to"], "request": json_short(req),
                "together_hex": got[:2000], "concatenation_of_single_runs_hex": want[:2000], "verdicts_together": oks})
    # ... and document by document: an independent reader counts the documents of each input of those histories; a translation
    # of that input alone to JSON that succeeds writes exactly that many lines
    counted = set()
    for req in suspects[:12]:
        for c in req["calls"]:
            fmt, hexin = c.get("from"), c.get("input", "-")
            if not fmt or (fmt, hexin, c.get("mode")) in counted or len(counted) >= 60:
                continue
            counted.add((fmt, hexin, c.get("mode")))
            data = bytes.fromhex(hexin) if hexin not in ("-", "") else b""
            try:
                n = len(gen.read_documents(data, fmt))
            except Exception:
                continue
            res = shared.session_result(common.harness_batch([{"id": 0, "to": "json", "calls": [c]}])[0])
            if res[0] != "ok":
                continue
            out = bytes.fromhex(res[2]) if res[2] not in ("-", "") else b""
            if out.count(b"\n") != n:
                outcome.oracle_failures.append({
                    "what": "a %s input of %d documents comes out as %d JSON lines (%s input): documents dropped, merged, split or "
                            "duplicated" % (fmt, n, out.count(b"\n"), c.get("mode")), "from": fmt, "to": "json", "call": json_short(c),
                    "output": out[:300].decode("utf-8", "replace")})
    for d in outcome.disagreements:
        d.pop("_req", None)
    outcome.evaluations += n_single + len(reqs)
    outcome.traces_validated += len(reqs)
    outcome.distinct_nontrivial += nontrivial
    outcome.extra["history_correspondence"] = {
        "single_document_runs": n_single, "histories": len(reqs), "targets": list(targets),
        "bound": "histories of 0..6 translate calls in mixed source formats, 0..5 documents per call joined with every "
                 "separator style, slice and reader (random read schedules), with refused documents and trailing garbage; "
                 "documents from the common-model generator (depth <= 3)"}
    if cases:
        outcome.add_sample({"history_case": cases[min(3, len(cases) - 1)][:300]})


def json_short(req):
    import json
    return json.dumps(req)[:3000]


def writer_correspondence(outcome, tier, seed, targets, rng, n_hist):
    """IoModel.translate_history_w against xt::Translator over a writer that takes short pieces and/or
    starts failing after k bytes: accepted bytes and per-call verdicts."""
    reqs, tails, n_single = build(outcome, tier, seed, targets, rng, n_hist)
    free = common.harness_batch(reqs)
    vreqs, cases = [], []
    for req, tail, fr in zip(reqs, tails, free):
        if fr.get("crash") or fr.get("hang"):
            continue
        n = len(fr.get("out", "-")) // 2 if fr.get("out", "-") != "-" else 0
        ks = [None, None]
        if n:
            ks += [0, n, n - 1, rng.randrange(n + 1), rng.randrange(n + 1)] + ([1, n // 2] if tier == "thorough" else [])
        for k in ks:
            caps = [rng.choice([0, 0, 1, 2, 6, 30, 4000]) for _ in range(min(n + 2, 400))] if rng.random() < 0.7 else None
            r = {"id": len(vreqs), "to": req["to"], "calls": req["calls"]}
            if k is not None:
                r["wfault"] = k
            if caps is not None:
                r["wshort"] = {"kind": "offsets", "caps": caps}
                sched = ",".join(str(c) for c in caps) if caps else "-"
            else:
                # a writer that takes everything: caps beyond any length
                r["wshort"] = None
                sched = None
            if sched is None:
                r.pop("wshort")
                big = ",".join(["1000000"] * min(n + 2, 400)) or "-"
                # beyond the table the model's cap is 1 byte; give the implementation the same schedule
                r["wshort"] = {"kind": "offsets", "caps": [1000000] * min(n + 2, 400)}
                sched = big
            cases.append("FW %d %s %s %s %s" % (len(vreqs), tail[1], "-" if k is None else k, sched, tail[2]))
            vreqs.append(r)
    resps = common.harness_batch(vreqs)
    model = common.run_driver_lines(cases)
    nontrivial = 0
    for i, (req, resp) in enumerate(zip(vreqs, resps)):
        if resp.get("crash") or resp.get("hang") or any(c.get("panic") for c in resp.get("calls", [])):
            outcome.oracle_failures.append({"what": "crash, hang or panic with a short-writing / failing writer", "request": json_short(req),
                                            "observed": json_short(resp)})
            continue
        impl = "%s %s" % (resp.get("out", "-"), ",".join(verdict_line(resp)))
        m = model.get(str(i), "")
        if impl != m:
            outcome.disagreements.append({"what": "Translator over a short-writing/failing writer: accepted bytes / verdicts differ from "
                                                  "IoModel.translate_history_w", "case": cases[i][:3000], "request": json_short(req),
                                          "implementation": impl[:3000], "model": m[:3000]})
        if "wfault" in req:
            nontrivial += 1
    outcome.evaluations += n_single + len(reqs) + len(vreqs)
    outcome.traces_validated += len(vreqs)
    outcome.distinct_nontrivial += nontrivial
    outcome.extra["writer_correspondence"] = {
        "histories": len(reqs), "writer_variants": len(vreqs), "targets": list(targets),
        "bound": "each generated history (as for the history correspondence) x {no fault, fault at 0, at the end, one before the "
                 "end, random offsets} x {writer takes everything, random short-write caps per accepted-count}"}
    if cases:
        outcome.add_sample({"writer_case": cases[min(5, len(cases) - 1)][:300]})
