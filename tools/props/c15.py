"""C15 — output of earlier inputs survives a later failure."""
import json
import os
import random

import cli
import common
import corpus

META = {
    "level": "proof",
    "needs_hooks": False,
    "technique": "Rocq proof on the Gallina model of main()'s loop, BufWriter and process::exit (loop invariant 'the buffer is empty "
                 "at every loop head', induction over the input list) + model-vs-binary correspondence over input lists with the "
                 "failing input at every position",
    "claim": "Proved on the CliModel for ALL input lists, ALL positions and kinds of the first failing input, ALL BufWriter "
             "capacities and ALL short-write patterns of a non-failing stdout: xt exits 1 and standard output holds the complete "
             "translations of all earlier inputs, in order, followed at most by the beginning of the failing input's translation; "
             "a successful exit has written every byte. A model run without the per-input flush loses output (non-vacuity). The "
             "model is diffed against the real binary on lists of 1-6 inputs of sizes from a few bytes (far below the 8 KiB buffer) "
             "to megabytes, the failing input at every position, six failure kinds, all targets, stdout a pipe or a file.",
    "level_note": "Trusted: Coq kernel; hand-written model validated against the binary; BufWriter and process::exit are modelled "
                  "from std's sources; the OS is observed. No axioms.",
    "trusted_base": [
        "Coq 8.16.1 kernel (coqc, full .vo build); vm_compute only in the non-vacuity example; no axioms",
        "hand-written Gallina model coq/theories/CliModel.v (main_loop, bw_write_all, bw_flush, finish), tied to the code by "
        "running the real binary on input lists (tools/cli.py); per-input translations come from in-process library calls",
        "extraction (ExtrOcamlBasic only), model_driver/driver.ml, tools/cli.py",
    ],
    "assumptions": ["stdout itself does not fail in this property (that is C16)"],
    "explanation": "the flush discipline is proved on the model; the model is tied to the binary by enumeration of failing positions and kinds",
}

GOOD = ["a.json", "m.json", "b.yaml", "d.msgpack", "mid.json", "big.json", "empty.json", "X.JSON", "arr.json"]
GOOD_TOML_TARGET = ["a.json", "c.toml", "mid.json"]
FAIL = {
    "missing file": "missing.json", "syntax error": "bad.json", "syntax error at depth": "deepbad.json", "undetectable": "und.txt",
    "directory": "dir.json", "second stdin": "-",
}


def run(outcome, tier, seed):
    outcome.rule = ("each (input list, failing position, failure kind, target, stdout kind); non-trivial = at least one input "
                    "precedes the failing one")
    rng = random.Random(seed + 15)
    ok, out = common.build_xt()
    if not ok:
        raise RuntimeError("xt binary does not build: " + out[-600:])
    fx = cli.Fixture("C15")
    try:
        cases, meta = [], []
        rounds = 6 if tier == "thorough" else 2
        stdin = b'{"from":"stdin"}\n'
        for _ in range(rounds):
            for to in ("json", "yaml", "msgpack", "toml"):
                kinds = dict(FAIL)
                if to == "json":
                    kinds["value the target refuses"] = "nullkey.yaml"
                if to == "toml":
                    kinds["second document for TOML"] = "two.json"
                    kinds["value the target refuses"] = "arr.json"
                for kind, bad in kinds.items():
                    for n in range(1, 7 if tier == "thorough" else 5):
                        for pos in range(n):
                            if to == "toml":
                                # a TOML output takes one document: the only way to have an earlier input is an empty one
                                names = [rng.choice(["empty.json"]) for _ in range(n)]
                                if pos > 0 and rng.random() < 0.5:
                                    names[rng.randrange(pos)] = rng.choice(GOOD_TOML_TARGET)
                            else:
                                names = [rng.choice(GOOD) for _ in range(n)]
                            if kind == "second stdin":
                                if pos == 0:
                                    continue
                                names[rng.randrange(pos)] = "-"
                            names[pos] = bad
                            if rng.random() < 0.15 and to != "toml":
                                names.insert(0, "huge.json")
                            mode = rng.choice(["pipe", "pipe", "file", "append"])      # append: `>> file`, the file not empty
                            cases.append(cli.Case(["-t", to] + names, stdin, mode))
                            meta.append((kind, pos, to))
                # all good
                if to != "toml":
                    names = [rng.choice(GOOD) for _ in range(rng.randint(1, 6))]
                    cases.append(cli.Case(["-t", to] + names, stdin, rng.choice(["pipe", "file", "append"])))
                    meta.append(("none", len(names), to))
        # earlier inputs that are streams (standard input, a FIFO) of every shape: read to their end while the format is being
        # detected, or translated document by document; named or detected format
        shapes = [("yaml", b"a: 1\nb: [2, 3]\n"), ("yaml", b"a: 1\n---\nb: 2\n"), ("toml", b'k = 1\n[t]\nj = "v"\n'), ("json", b"42"),
                  ("json", b'"s"'), ("json", b'{"a":1}\n{"b":2}\n'), ("msgpack", corpus.mp({"a": [1, 2]})), ("yaml", b"- x\n- y\n")]
        for fmt, data in shapes:
            for opt in ([], ["-f", fmt]):
                for to in ("json", "yaml", "msgpack"):
                    for bad in ("missing.json", "bad.json", "und.txt"):
                        if opt and bad == "und.txt":
                            continue
                        if rng.random() < (0.0 if tier == "thorough" else 0.5):
                            continue
                        cases.append(cli.Case(opt + ["-t", to, "-", bad], data, rng.choice(["pipe", "file"])))
                        meta.append(("after a stream on stdin", 1, to))
                        if not opt:
                            name = "q%d.%s" % (len(cases), "dat")
                            os.mkfifo(fx.path(name))
                            cases.append(cli.Case(["-t", to, name, "a.json", bad], None, rng.choice(["pipe", "file"]), fifos={name: data}))
                            meta.append(("after a stream from a FIFO", 2, to))
        # a device that takes nothing, with less output than any buffer holds: success must not be reported
        for argv in (["-tj", "a.json"], ["-ty", "a.json", "m.json"], ["-tm", "a.json"], ["-tt", "c.toml"], ["-tj", "empty.json", "a.json"]):
            cases.append(cli.Case(argv, None, "devfull"))
            meta.append(("stdout is /dev/full", 0, "json"))
        results = cli.predict_and_run(common.XT_DEBUG, fx.dir, cases)
        hist, nontrivial = {}, 0
        for r, (kind, pos, to) in zip(results, meta):
            hist[kind] = hist.get(kind, 0) + 1
            if pos > 0:
                nontrivial += 1
            diffs = cli.compare(r)
            a_status, a_out, a_err = r["actual"]
            pred = r["predicted"]
            if diffs:
                rec = {"what": "with the failing input (%s) at position %d: %s" % (kind, pos, "; ".join(diffs)), "argv": r["case"].argv,
                       "stdout_kind": r["case"].mode,
                       "observed": {"status": a_status, "stdout_len": len(a_out), "stderr": a_err[:300].decode("utf-8", "replace")},
                       "expected_stdout_len": len(pred.get("stdout") or b"")}
                lost = pred.get("stdout") is not None and a_out != pred["stdout"]
                if lost or a_status != pred["status"]:
                    rec["what"] = ("output of inputs that precede the failing one is missing from standard output, or the exit status "
                                   "is wrong: ") + rec["what"]
                    outcome.oracle_failures.append(rec)
                else:
                    outcome.disagreements.append(rec)
        outcome.evaluations += len(cases)
        outcome.traces_validated += len(cases)
        outcome.distinct_nontrivial += nontrivial
        outcome.extra["survival_correspondence"] = {"invocations": len(cases), "failure_kinds": hist,
                                                    "input_sizes": "0 B, 7 B ... 9 KB, 100 KB, 600 KB", "positions": "every position of 1..%d inputs" % (6 if tier == "thorough" else 4)}
        outcome.add_sample({"argv": cases[3].argv, "status": list(results[3]["actual"][0]), "stdout_len": len(results[3]["actual"][1])})
    finally:
        fx.close()


def replay(outcome, path):
    print(json.dumps(json.load(open(path)).get("failure"), indent=1))
    run(outcome, "quick", 1)
