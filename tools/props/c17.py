"""C17 — memory safety of the YAML parser binding and decoders."""
import json
import os
import re
import subprocess

import common
from props import shared

META = {
    "level": "proof",
    "needs_hooks": True,
    "technique": "Rocq proof (the read callback's copy is in bounds for every reader answer; every resource trace the binding can "
                 "emit, for every client program and reader behaviour, is accepted by a protocol monitor and ends with nothing "
                 "alive; both from_u32_unchecked sites see only scalar values) + validation of the implementation's real resource "
                 "traces (probes behind the verif feature) by the extracted monitor, under short, failing and over-reporting readers "
                 "and early drops",
    "claim": "PARTIAL by nature. Proved on the Gallina model of src/yaml/chunker/parser.rs: for ALL buffer sizes and ALL reader "
             "answers (including over-reports of any excess) the callback copies at most min(buffer, bounce buffer) bytes and "
             "refuses instead of copying when the reader claims more than the buffer holds; for ALL client programs (any number of "
             "next_event calls with any reader behaviour, events dropped at any time, the parser dropped at any point, also with "
             "events outstanding) the binding's trace of initialise/use/delete events has no use after free, no double free, "
             "deletes the parser before its read state, deletes every initialised event exactly once and leaves nothing alive; "
             "both from_u32_unchecked sites only see Unicode scalar values (UtfProofs); the chunker slices within what it captured "
             "(ChunkerProofs). The real binding's resource traces, recorded by probes behind the verif feature, are fed to the "
             "extracted monitor on every run: YAML inputs (valid, damaged, empty, non-UTF-8, a long multi-buffer stream) with "
             "1-byte, fixed, random and full reads, reader errors at every offset, readers over-reporting by every excess 1..24 "
             "(thorough 1..64) and by more than libyaml's buffer, full iteration, detection (which drops the chunker after one "
             "document) and translation. The worst outcome allowed is an error or a clean panic. The thorough tier also runs the "
             "same workload under valgrind memcheck.",
    "level_note": "PARTIAL: what is proved is the guard and the protocol the safety argument rests on, on a model tied to the code "
                  "by trace validation. Undefined behaviour inside unsafe-libyaml itself, reads of uninitialised memory and the "
                  "aliasing discipline of the raw read_state pointer cannot be expressed by an executable Gallina model; for those "
                  "the check only observes (valgrind in the thorough tier). No axioms.",
    "trusted_base": [
        "Coq 8.16.1 kernel (coqc, full .vo build); vm_compute only in examples; no axioms",
        "hand-written Gallina model coq/theories/MemModel.v of parser.rs (read_handler, Drop order, Event init/delete), tied to the "
        "code by feeding the real traces (probes xt::verif::trace, 8 one-line records in parser.rs) to the extracted monitor",
        "unsafe-libyaml (third party): assumed to use the buffer and size it passes to the callback as it says; observed under valgrind",
        "extraction (ExtrOcamlBasic only), model_driver/driver.ml, harness/src/mem.rs, tools/*.py",
    ],
    "assumptions": ["a lying reader still reports end of input truthfully (one that never does is an endless stream, which is C04/C05's subject)"],
    "explanation": "guards and resource protocol proved on the model and validated against real traces; UB inside libyaml, uninitialised "
                   "reads and pointer aliasing are outside what this technique can express and are only observed",
}


KNOWN_PANIC_LEAK = "K-C17-panicking-reader-leaks-libyaml-temporaries"
KNOWN_OVERREPORT_LEAK = "K-C17-over-reporting-reader-panic-leaks-libyaml-temporaries"


def _memcheck(rundir, seed, panic_cases):
    env = dict(common.ENV, XT_VERIF_PANIC_CASES=panic_cases)
    p = subprocess.run(["valgrind", "--error-exitcode=99", "--leak-check=full", "--errors-for-leak-kinds=definite", "-q",
                        common.HARNESS_BIN, "mem", "--seed", str(seed), "--tier", "quick", "--out", rundir],
                       stdout=subprocess.PIPE, stderr=subprocess.PIPE, env=env, timeout=3000)
    return p.returncode, p.stderr.decode("utf-8", "replace")


def run_valgrind(outcome, seed):
    """Memcheck over the same runs.  Three passes: everything except panics inside the read callback must be clean; with a
    reader that panics, and with a reader whose over-report past the buffer makes xt's own chunk reader panic, the unwinding
    skips libyaml's own cleanup of the token it was scanning (two listed known findings, one per call site): there, only
    leaks whose allocation stack lies inside unsafe_libyaml's scanner are tolerated, and nothing else."""
    rundir = os.path.join(common.BUILD, "run", "C17_vg")
    os.makedirs(rundir, exist_ok=True)
    try:
        rc, err = _memcheck(rundir, seed, "none")
        rc2, err2 = _memcheck(rundir, seed, "only")
        rc3, err3 = _memcheck(rundir, seed, "overreport")
    except (FileNotFoundError, subprocess.TimeoutExpired) as e:
        outcome.notes.append("valgrind run not completed: %s" % type(e).__name__)
        return
    outcome.extra["valgrind"] = {"exit": rc, "stderr_tail": err[-400:], "exit_with_panicking_readers": rc2, "exit_with_over_reports_past_the_buffer": rc3}
    if rc == 99 or re.search(r"Invalid (read|write)|uninitialised|definitely lost", err):
        outcome.oracle_failures.append({"what": "valgrind memcheck reports a memory error while driving the YAML binding", "report": err[-3000:]})
    for kid, text, who, witness in ((KNOWN_PANIC_LEAK, err2, "the reader panics", "a reader that panics while libyaml is scanning a token"),
                                    (KNOWN_OVERREPORT_LEAK, err3, "the reader's over-report makes xt's chunk reader panic",
                                     "a reader that claims more bytes than the 16 KiB buffer holds while libyaml is scanning a token "
                                     "(ChunkReader::read panics on its slice index inside the read callback)")):
        if re.search(r"Invalid (read|write)|uninitialised|Invalid free|Mismatched free", text):
            outcome.oracle_failures.append({"what": "valgrind memcheck reports a memory error when " + who, "report": text[-3000:]})
        elif "definitely lost" in text:
            blocks = re.split(r"\n==\d+== \n", text)
            leaks = [b for b in blocks if "definitely lost" in b]
            foreign = [b for b in leaks if "unsafe_libyaml::scanner" not in b and "unsafe_libyaml::api::yaml_string_extend" not in b]
            listed = any(k["id"] == kid for k in common.load_known("C17"))
            if foreign or not listed:
                outcome.oracle_failures.append({"what": "memory is leaked when " + who, "report": ("\n".join(foreign) or text)[-3000:]})
            else:
                outcome.known_hits.append((kid, "%s: %d leak records, all allocated in unsafe_libyaml's scanner (the unwinding skips its "
                                           "cleanup)" % (witness, len(leaks))))


def run(outcome, tier, seed):
    outcome.rule = ("each run of the binding (input x reader behaviour x driver) yields one resource trace validated by the monitor; "
                    "non-trivial = the trace contains a refused read or was cut short by an error, panic or early drop")
    if not outcome.hooks_available:
        outcome.notes.append("verif hooks unavailable: resource traces cannot be recorded")
        return
    try:
        st = shared.harness_corr(outcome, "mem", "libyaml binding resource trace (monitor verdict; expected: accepted, nothing alive)", tier, seed)
    except RuntimeError as e:
        outcome.oracle_failures.append({"what": "the process driving the YAML binding died (a crash is not a clean panic): %s" % str(e)[:500]})
        return
    for d in outcome.disagreements:
        if "overread" in d.get("implementation", ""):
            outcome.oracle_failures.append({"what": "the YAML parser yields events parsed from memory its reader never filled: " + d.get("implementation", ""),
                                            "trace": d.get("case", "")[:3000]})
            continue
        # a rejected real trace is the property failing, with the trace as the replay
        outcome.oracle_failures.append({"what": "resource trace of the libyaml binding rejected by the protocol monitor: " + d.get("model", ""),
                                        "trace": d.get("case", "")[:3000]})
    outcome.distinct_nontrivial += st["nontrivial"]
    outcome.extra["resource_traces"] = {"traces": st["cases"], "kinds": st["kinds"], "outcomes": st["outcomes"], "copies_checked": st["copies"],
                                        "refused_reads": st["refusals"], "parsers_created": st["parsers"]}
    for s in st["samples"]:
        outcome.add_sample(s[:300])
    # the two from_u32_unchecked sites: the decoders are tied to UtfModel (C17_scalars_valid is a theorem about that model)
    st2 = shared.harness_corr(outcome, "utf", "UTF-16/32 decoders (what reaches char::from_u32_unchecked)", tier, seed)
    for f in st2["oracle_failures"]:
        outcome.oracle_failures.append({"what": "ill-formed UTF-16/32 input is not rejected, or the decoder's output is not the UTF-8 of scalar values "
                                                "(a value that is not a Unicode scalar value reached char::from_u32_unchecked)", "case": f})
    outcome.extra["decoder_correspondence"] = {"cases": st2["cases"], "kinds": st2["kinds"]}
    if tier == "thorough":
        run_valgrind(outcome, seed)


def replay(outcome, path):
    print(json.dumps(json.load(open(path)).get("failure"), indent=1))
    run(outcome, "quick", 1)
