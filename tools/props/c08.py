"""C08 — TOML output is nothing or exactly one valid document."""
import json
import random

import common
import corpus
import gen
import history
from props import shared

META = {
    "level": "proof",
    "needs_hooks": False,
    "technique": "Rocq proof (invariant over the history of translate calls: a TOML output holds nothing or exactly one accepted "
                 "document; the `used` flag refuses everything after the first document) + model-vs-implementation "
                 "correspondence over generated histories + refusal/read-back oracle with Python tomllib",
    "claim": "On a Gallina model of toml::Output (src/toml.rs:52-121: ensure_one_use before deserialization, whole document "
             "buffered, root check, one write_all) inside the Translator model it is proved for ALL histories of translate calls "
             "and ALL documents (accepted or refused, in any order) that the bytes written are nothing or exactly the "
             "serialization of one complete accepted document, that every document after the first is refused and writes "
             "nothing (in the same input or a later one), and that a refused document writes nothing. The model is diffed "
             "against the real Translator on generated histories with refused documents. The oracle plants nulls, oversized "
             "integers, non-string keys and binary at every position of generated trees, tries every root type, and reads "
             "accepted output back with Python's tomllib.",
    "level_note": "Trusted: Coq kernel; hand-written model validated by correspondence; which documents toml::Value refuses and "
                  "that its pretty printer emits valid TOML that reads back as the value are properties of the third-party toml "
                  "crate: stated contracts, exercised by the oracle. No axioms.",
    "trusted_base": [
        "Coq 8.16.1 kernel (coqc, full .vo build); no axioms",
        "hand-written Gallina model coq/theories/FormatsModel.v (emit/run_docs for Toml), tied to the code by the history "
        "correspondence (tools/history.py)",
        "contracts on the toml crate: toml::Value refuses nulls, integers outside i64 and non-string keys; "
        "to_string_pretty(table) is one valid TOML document that reads back as the table (validated with Python tomllib)",
        "extraction (ExtrOcamlBasic only), model_driver/driver.ml, harness/src/session.rs, tools/*.py",
    ],
    "assumptions": [],
    "explanation": "the state machine (used flag, buffering, single write) is proved; refusals and validity of the emitted TOML "
                   "are third-party behaviour checked by the oracle",
}

MULTI = "TOML does not support multi-document output"
ROOT = "root of TOML output must be a table"


def plant(v, bad, rng):
    """Copies of v with `bad` put at one position: every path of the tree in turn (capped)."""
    paths = []

    def walk(x, path):
        paths.append(path)
        if isinstance(x, dict):
            for k in x:
                walk(x[k], path + [("k", k)])
        elif isinstance(x, list):
            for i in range(len(x)):
                walk(x[i], path + [("i", i)])

    walk(v, [])
    paths = [p for p in paths if p]     # not the root itself
    rng.shuffle(paths)
    out = []
    for p in paths[:6]:
        c = gen._copy(v)
        cur = c
        for kind, key in p[:-1]:
            cur = cur[key]
        cur[p[-1][1]] = bad
        out.append((p, c))
    return out


def run_refusal_oracle(outcome, tier, seed):
    rng = random.Random(seed + 808)
    reqs, plans = [], []
    n = 60 if tier == "thorough" else 14
    # (a) unrepresentable values at every position
    bads = [("null", None, ["json", "yaml", "msgpack"]), ("u64 above i64", (1 << 63) + 5, ["json", "yaml", "msgpack"]),
            ("binary", b"\x00\x01", ["msgpack"]), ("non-string key", gen.Map([(1, 2)]), ["yaml", "msgpack"]),
            ("null key", gen.Map([(None, 2)]), ["yaml", "msgpack"])]
    for _ in range(n):
        v = gen.gen_value(rng, depth=3, profile="common", root="map")
        for name, bad, fmts in bads:
            for path, c in plant(v, bad, rng)[:3 if tier == "quick" else 6]:
                fmt = rng.choice(fmts)
                try:
                    t = gen.spell(c, fmt, rng)
                except Exception:
                    outcome.extra["generator_rejects"] = outcome.extra.get("generator_rejects", 0) + 1
                    continue
                for mode in ("slice", "reader"):
                    call = {"input": shared.hx(t), "from": fmt, "mode": mode}
                    if mode == "reader":
                        call["sched"] = corpus.random_sched(rng)
                    plans.append(("refuse", name + " at " + "/".join(str(k) for _, k in path), fmt, len(reqs), None))
                    reqs.append({"id": len(reqs), "to": "toml", "calls": [call]})
    # (b) every root type
    roots = [("json", b"[1,2]"), ("json", b'"s"'), ("json", b"1"), ("json", b"1.5"), ("json", b"true"), ("json", b"null"),
             ("json", b"[]"), ("json", b'[{"a":1}]'), ("yaml", b"- a\n"), ("yaml", b"plain\n"), ("yaml", b"~\n"), ("yaml", b"42\n"),
             ("msgpack", b"\x90"), ("msgpack", b"\xc0"), ("msgpack", b"\x01"), ("msgpack", b"\xa1a"), ("msgpack", b"\xc4\x01a"),
             ("msgpack", b"\xcb\x3f\xf0\x00\x00\x00\x00\x00\x00"), ("msgpack", b"\x91\x80")]
    for fmt, t in roots:
        for mode in ("slice", "reader"):
            plans.append(("root", repr(t), fmt, len(reqs), None))
            reqs.append({"id": len(reqs), "to": "toml", "calls": [{"input": shared.hx(t), "from": fmt, "mode": mode}]})
    # (c) accepted documents read back; second document / second input refused
    firsts = []
    # documents that serialize to (almost) nothing: an empty table must still count as the one document
    for fmt, v0, t0 in (("json", {}, b"{}"), ("yaml", {}, b"{}\n"), ("msgpack", {}, b"\x80"), ("toml", {}, b""),
                        ("toml", {}, b"# only a comment\n"), ("json", {"a": {}}, b'{"a":{}}'), ("msgpack", {"a": {}}, b"\x81\xa1a\x80"),
                        # strings that look like TOML's own date-time, number and boolean literals must stay strings
                        ("json", {"d": "2001-01-01T00:00:00Z", "l": ["1979-05-27T07:32:00-08:00", "2001-01-01 00:00:00+01:00", "12:30:45", "2001-01-01"],
                                  "n": {"x": "1_000", "y": "0x1F", "z": "true", "w": "inf", "v": "1e3"}},
                         b'{"d":"2001-01-01T00:00:00Z","l":["1979-05-27T07:32:00-08:00","2001-01-01 00:00:00+01:00","12:30:45","2001-01-01"],'
                         b'"n":{"x":"1_000","y":"0x1F","z":"true","w":"inf","v":"1e3"}}')):
        d2 = history.make_doc(rng, fmt if fmt != "toml" else "json", depth=1, root="map")
        firsts.append((fmt, (v0, t0), d2))
    # TOML's own date-time values of all four kinds, in every position, must survive a TOML -> TOML translation
    tdt = (b"d = 1979-05-27T07:32:00Z\nl = 1979-05-27T07:32:00\nt = 07:32:00\ndt = 1979-05-27\nmix = [1979-05-27, 2000-01-01]\n"
           b"in = { at = 1979-05-27T00:32:00-07:00 }\n[sub]\nwhen = 2001-01-01\n[[aot]]\nwhen = 12:30:45.5\n")
    try:
        firsts.append(("toml", (gen.read_documents(tdt, "toml")[0], tdt), history.make_doc(rng, "json", depth=1, root="map")))
    except Exception:
        pass
    for _ in range(n * 2):
        fmt = rng.choice(["json", "yaml", "msgpack", "toml"])
        d = history.make_doc(rng, fmt, profile="toml" if fmt == "toml" else "common", depth=rng.choice([1, 2, 3, 4]), root="map")
        d2 = history.make_doc(rng, fmt if fmt != "toml" else "json", depth=1, root="map")
        firsts.append((fmt, d, d2))
    for fmt, d, d2 in firsts:
        if not d or not d2:
            continue
        v, t = d
        for mode in ("slice", "reader"):
            sched = corpus.random_sched(rng)
            plans.append(("accept", "", fmt, len(reqs), v))
            reqs.append({"id": len(reqs), "to": "toml", "calls": [{"input": shared.hx(t), "from": fmt, "mode": mode, "sched": sched}]})
            # a second input
            plans.append(("second_input", "", fmt, len(reqs), v))
            reqs.append({"id": len(reqs), "to": "toml", "calls": [
                {"input": shared.hx(t), "from": fmt, "mode": mode, "sched": sched},
                {"input": shared.hx(d2[1]), "from": fmt if fmt != "toml" else "json", "mode": rng.choice(["slice", "reader"])}]})
            # a second document in the same input
            if fmt != "toml":
                both = history.join_docs(fmt, [t, d2[1]], rng)
                plans.append(("second_doc", "", fmt, len(reqs), v))
                reqs.append({"id": len(reqs), "to": "toml", "calls": [{"input": shared.hx(both), "from": fmt, "mode": mode, "sched": sched}]})
    # second documents that are next to nothing: one byte of MessagePack, a bare scalar, an empty YAML document
    tiny = [("msgpack", b"\x81\xa1a\x01", x) for x in (b"\x00", b"\x00\x00\x00", b"\xc0", b"\xc2", b"\xa0", b"\x80", b"\x90", b"\x01")]
    tiny += [("json", b'{"a":1}', x) for x in (b"0", b" null", b'\n""', b"{}", b"[]", b"\n\n 0\n")]
    tiny += [("yaml", b"a: 1\n", x) for x in (b"---\n", b"---\n---\n", b"--- ~\n", b"...\n---\n", b"---\n# c\n", b"---", b"--- \n\n")]
    for fmt, t, second in tiny:
        for mode, sched in (("slice", None), ("reader", {"kind": "full"}), ("reader", {"kind": "fixed", "n": 1})):
            c = {"input": shared.hx(t + second), "from": fmt, "mode": mode}
            if sched:
                c["sched"] = sched
            plans.append(("second_doc", "", fmt, len(reqs), {"a": 1}))
            reqs.append({"id": len(reqs), "to": "toml", "calls": [c]})
    resps = common.harness_batch(reqs)

    def readback(out, v, info):
        if out == b"":
            if v != {}:
                outcome.oracle_failures.append(dict(info, what="an accepted non-empty table produced no TOML output"))
            return
        try:
            back = gen.read_documents(out, "toml")
        except ValueError as e:
            outcome.oracle_failures.append(dict(info, what="TOML output is not a valid TOML document (tomllib: %s)" % str(e)[:200]))
            return
        want = gen.toml_reorder(v)
        if len(back) != 1 or not (gen.values_equal(back[0], want) or gen.values_equal(back[0], v)
                                  or gen.values_equal(gen.toml_reorder(back[0]), want)):
            if not gen.values_equal(gen.toml_reorder_xt(v), back[0] if back else None):
                outcome.oracle_failures.append(dict(info, what="TOML output does not read back as the input value"))

    for kind, what, fmt, i, v in plans:
        resp = resps[i]
        r = shared.session_result(resp)
        out = bytes.fromhex(r[2]) if r[2] not in ("-", "") else b""
        info = {"from": fmt, "to": "toml", "request": json.dumps(reqs[i])[:2500], "observed": [r[0], r[1]], "output_hex": r[2][:1000]}
        if r[0] == "crash":
            outcome.oracle_failures.append(dict(info, what="crash"))
            continue
        if kind == "refuse":
            if r[0] != "err" or out != b"":
                outcome.oracle_failures.append(dict(info, what="a document with %s is not refused without output" % what))
        elif kind == "root":
            if r[0] != "err" or out != b"" or ROOT not in r[1] and "unsupported" not in r[1] and "expected" not in r[1]:
                outcome.oracle_failures.append(dict(info, what="a document whose root is not a table (%s) is not refused without output" % what))
        elif kind == "accept":
            if r[0] != "ok":
                outcome.oracle_failures.append(dict(info, what="a representable table-rooted document is refused"))
            else:
                readback(out, v, info)
        elif kind == "second_input":
            c0, c1 = resp["calls"][0], resp["calls"][1]
            if not c0.get("ok") or c1.get("ok") or MULTI not in c1.get("err", "") or c1.get("wrote", 0) != 0:
                outcome.oracle_failures.append(dict(info, what="a second input to a TOML output is not refused with nothing written"))
            else:
                readback(out, v, info)
        elif kind == "second_doc":
            if r[0] != "err" or MULTI not in r[1]:
                outcome.oracle_failures.append(dict(info, what="a second document in the same input is not refused"))
            else:
                readback(out, v, info)
    outcome.evaluations += len(reqs)
    outcome.distinct_nontrivial += len(reqs)
    hist = {}
    for p in plans:
        hist[p[0]] = hist.get(p[0], 0) + 1
    outcome.extra["refusal_oracle"] = {"requests": len(reqs), "kinds": hist}
    outcome.add_sample({"kind": "refuse", "example": "null planted at every path of a generated table, sources json/yaml/msgpack"})


def run_cli_oracle(outcome):
    """The same clauses at the command line, where one translator serves all inputs: a second input or document is refused
    (status 1) and standard output holds nothing but the first document."""
    import cli
    ok, out = common.build_xt()
    if not ok:
        raise RuntimeError("xt binary does not build: " + out[-400:])
    fx = cli.Fixture("C08")
    try:
        first = {"a.json": b"a = 1\n", "c.toml": b'c = "x"\n\n[t]\nu = 1\n', "b.yaml": b"b = [\n    1,\n    2,\n]\n", "d.msgpack": b"d = [\n    1,\n    2,\n]\n",
                 "empty.json": None}
        cases = [(["a.json", "c.toml"], None), (["c.toml", "a.json"], None), (["a.json", "a.json"], None), (["a.json", "-"], b'{"z":1}'),
                 (["-", "a.json"], b'{"z":1}'), (["two.json"], None), (["b.yaml"], None), (["d.msgpack"], None), (["a.json", "nullkey.yaml"], None),
                 (["a.json", "missing.json"], None), (["a.json"], None), (["c.toml"], None)]
        for names, stdin in cases:
            st, o, e = cli.run_case(common.XT_DEBUG, fx.dir, cli.Case(["-t", "toml"] + names, stdin, "pipe"))
            info = {"argv": ["-t", "toml"] + names, "observed": {"status": st, "stdout": o[:300].decode("utf-8", "replace"), "stderr": e[:200].decode("utf-8", "replace")}}
            single = len(names) == 1 and names[0] in ("a.json", "c.toml")
            if single:
                if st != ("exit", 0) or o != first[names[0]]:
                    outcome.oracle_failures.append(dict(info, what="a single table-rooted input is not translated to its one TOML document"))
                continue
            if st != ("exit", 1):
                outcome.oracle_failures.append(dict(info, what="a second document or second input to a TOML output is not refused (exit status %s)" % (st,)))
                continue
            try:
                docs = gen.read_documents(o, "toml") if o else []
            except ValueError:
                outcome.oracle_failures.append(dict(info, what="what was written before the refusal is not one valid TOML document"))
                continue
            want = first.get(names[0]) if names[0] != "-" else b"z = 1\n"
            if names[0] in ("two.json",):
                want = b"a = 1\n"
            if names[0] in ("b.yaml", "d.msgpack"):
                want = first[names[0]]
            if want is not None and o not in (want, b""):
                outcome.oracle_failures.append(dict(info, what="standard output holds something other than nothing or the first document"))
        outcome.evaluations += len(cases)
        outcome.distinct_nontrivial += len(cases)
        outcome.extra["cli_refusals"] = {"invocations": len(cases)}
    finally:
        fx.close()


def run(outcome, tier, seed):
    outcome.rule = ("history correspondence with target TOML (non-trivial = two or more calls or documents); refusal oracle: each "
                    "request (unrepresentable value at a tree position, non-table root, accepted document read back with tomllib, "
                    "second input, second document)")
    rng = random.Random(seed + 8)
    history.correspondence(outcome, tier, seed, ["toml"], rng, 1200 if tier == "thorough" else 200)
    run_refusal_oracle(outcome, tier, seed)
    run_cli_oracle(outcome)


def replay(outcome, path):
    print(json.dumps(json.load(open(path)).get("failure"), indent=1))
    run(outcome, "quick", 1)
