"""C08 — TOML output is nothing or exactly one valid document."""
import json
import random

import common
import corpus
import gen
import history
from props import shared

META = {
    "level": "proof",
    "needs_hooks": False,
    "technique": "Rocq proof (invariant over the history of translate calls: a TOML output holds nothing or exactly one accepted "
                 "document; the `used` flag refuses everything after the first document) + model-vs-implementation "
                 "correspondence over generated histories + refusal/read-back oracle with Python tomllib",
    "claim": "On a Gallina model of toml::Output (src/toml.rs:52-121: ensure_one_use before deserialization, whole document "
             "buffered, root check, one write_all) inside the Translator model it is proved for ALL histories of translate calls "
             "and ALL documents (accepted or refused, in any order) that the bytes written are nothing or exactly the "
             "serialization of one complete accepted document, that every document after the first is refused and writes "
             "nothing (in the same input or a later one), and that a refused document writes nothing. WHICH documents are refused is "
             "a second model (TomlAcceptModel: toml::Value's Deserialize in document order, then xt's root check) with the theorems "
             "the property names: a document is written iff its root is a table and it is clean (C08_accepted_iff_clean_table); a null "
             "anywhere, an integer beyond i64 anywhere, a byte array as a value anywhere, a key no table can have, a root that is not a "
             "table are each refused whatever else the document holds. Both models are diffed "
             "against the real Translator: generated histories with refused documents, and generated MessagePack documents with "
             "planted offences whose refusal class (the first offence in document order) must agree. The oracle plants nulls, oversized "
             "integers, non-string keys and binary at every position of generated trees, tries every root type, and reads "
             "accepted output back with Python's tomllib.",
    "level_note": "Trusted: Coq kernel; hand-written models validated by correspondence (toml's private date-time marker key is not "
                  "modelled and never generated); that the toml crate's pretty printer emits valid TOML that reads back as the value is "
                  "third-party behaviour exercised by the oracle. No axioms.",
    "trusted_base": [
        "Coq 8.16.1 kernel (coqc, full .vo build); no axioms",
        "hand-written Gallina model coq/theories/FormatsModel.v (emit/run_docs for Toml), tied to the code by the history "
        "correspondence (tools/history.py)",
        "hand-written Gallina model coq/theories/TomlAcceptModel.v of toml::Value's Deserialize as xt drives it (first offence in "
        "document order) and xt's root check, tied to the code by the verdict-class correspondence (TV cases: generated MessagePack "
        "documents with planted offences); toml's private date-time marker key is not modelled and never generated",
        "contract on the toml crate: to_string_pretty(table) is one valid TOML document that reads back as the table (validated "
        "with Python tomllib)",
        "extraction (ExtrOcamlBasic only), model_driver/driver.ml, harness/src/session.rs, tools/*.py",
    ],
    "assumptions": [],
    "explanation": "the state machine (used flag, buffering, single write) and the refusal decision are proved on models tied to "
                   "the code by correspondence; validity of the emitted TOML is third-party behaviour checked by the oracle",
}

MULTI = "TOML does not support multi-document output"
ROOT = "root of TOML output must be a table"


def plant(v, bad, rng):
    """Copies of v with `bad` put at one position: every path of the tree in turn (capped)."""
    paths = []

    def walk(x, path):
        paths.append(path)
        if isinstance(x, dict):
            for k in x:
                walk(x[k], path + [("k", k)])
        elif isinstance(x, list):
            for i in range(len(x)):
                walk(x[i], path + [("i", i)])

    walk(v, [])
    paths = [p for p in paths if p]     # not the root itself
    rng.shuffle(paths)
    out = []
    for p in paths[:6]:
        c = gen._copy(v)
        cur = c
        for kind, key in p[:-1]:
            cur = cur[key]
        cur[p[-1][1]] = bad
        out.append((p, c))
    return out


def run_refusal_oracle(outcome, tier, seed):
    rng = random.Random(seed + 808)
    reqs, plans = [], []
    n = 60 if tier == "thorough" else 14
    # (a) unrepresentable values at every position
    bads = [("null", None, ["json", "yaml", "msgpack"]), ("u64 above i64", (1 << 63) + 5, ["json", "yaml", "msgpack"]),
            ("binary", b"\x00\x01", ["msgpack"]), ("non-string key", gen.Map([(1, 2)]), ["yaml", "msgpack"]),
            ("null key", gen.Map([(None, 2)]), ["yaml", "msgpack"])]
    for _ in range(n):
        v = gen.gen_value(rng, depth=3, profile="common", root="map")
        for name, bad, fmts in bads:
            for path, c in plant(v, bad, rng)[:3 if tier == "quick" else 6]:
                fmt = rng.choice(fmts)
                try:
                    t = gen.spell(c, fmt, rng)
                except Exception:
                    outcome.extra["generator_rejects"] = outcome.extra.get("generator_rejects", 0) + 1
                    continue
                for mode in ("slice", "reader"):
                    call = {"input": shared.hx(t), "from": fmt, "mode": mode}
                    if mode == "reader":
                        call["sched"] = corpus.random_sched(rng)
                    plans.append(("refuse", name + " at " + "/".join(str(k) for _, k in path), fmt, len(reqs), None))
                    reqs.append({"id": len(reqs), "to": "toml", "calls": [call]})
    # (b) every root type
    roots = [("json", b"[1,2]"), ("json", b'"s"'), ("json", b"1"), ("json", b"1.5"), ("json", b"true"), ("json", b"null"),
             ("json", b"[]"), ("json", b'[{"a":1}]'), ("yaml", b"- a\n"), ("yaml", b"plain\n"), ("yaml", b"~\n"), ("yaml", b"42\n"),
             ("msgpack", b"\x90"), ("msgpack", b"\xc0"), ("msgpack", b"\x01"), ("msgpack", b"\xa1a"), ("msgpack", b"\xc4\x01a"),
             ("msgpack", b"\xcb\x3f\xf0\x00\x00\x00\x00\x00\x00"), ("msgpack", b"\x91\x80")]
    for fmt, t in roots:
        for mode in ("slice", "reader"):
            plans.append(("root", repr(t), fmt, len(reqs), None))
            reqs.append({"id": len(reqs), "to": "toml", "calls": [{"input": shared.hx(t), "from": fmt, "mode": mode}]})
    # (c) accepted documents read back; second document / second input refused
    firsts = []
    # documents that serialize to (almost) nothing: an empty table must still count as the one document
    for fmt, v0, t0 in (("json", {}, b"{}"), ("yaml", {}, b"{}\n"), ("msgpack", {}, b"\x80"), ("toml", {}, b""),
                        ("toml", {}, b"# only a comment\n"), ("json", {"a": {}}, b'{"a":{}}'), ("msgpack", {"a": {}}, b"\x81\xa1a\x80"),
                        # strings that look like TOML's own date-time, number and boolean literals must stay strings
                        ("json", {"d": "2001-01-01T00:00:00Z", "l": ["1979-05-27T07:32:00-08:00", "2001-01-01 00:00:00+01:00", "12:30:45", "2001-01-01"],
                                  "n": {"x": "1_000", "y": "0x1F", "z": "true", "w": "inf", "v": "1e3"}},
                         b'{"d":"2001-01-01T00:00:00Z","l":["1979-05-27T07:32:00-08:00","2001-01-01 00:00:00+01:00","12:30:45","2001-01-01"],'
                         b'"n":{"x":"1_000","y":"0x1F","z":"true","w":"inf","v":"1e3"}}')):
        d2 = history.make_doc(rng, fmt if fmt != "toml" else "json", depth=1, root="map")
        firsts.append((fmt, (v0, t0), d2))
    # TOML's own date-time values of all four kinds, in every position, must survive a TOML -> TOML translation
    tdt = (b"d = 1979-05-27T07:32:00Z\nl = 1979-05-27T07:32:00\nt = 07:32:00\ndt = 1979-05-27\nmix = [1979-05-27, 2000-01-01]\n"
           b"in = { at = 1979-05-27T00:32:00-07:00 }\n[sub]\nwhen = 2001-01-01\n[[aot]]\nwhen = 12:30:45.5\n")
    try:
        firsts.append(("toml", (gen.read_documents(tdt, "toml")[0], tdt), history.make_doc(rng, "json", depth=1, root="map")))
    except Exception:
        pass
    for _ in range(n * 2):
        fmt = rng.choice(["json", "yaml", "msgpack", "toml"])
        d = history.make_doc(rng, fmt, profile="toml" if fmt == "toml" else "common", depth=rng.choice([1, 2, 3, 4]), root="map")
        d2 = history.make_doc(rng, fmt if fmt != "toml" else "json", depth=1, root="map")
        firsts.append((fmt, d, d2))
    for fmt, d, d2 in firsts:
        if not d or not d2:
            continue
        v, t = d
        for mode in ("slice", "reader"):
            sched = corpus.random_sched(rng)
            plans.append(("accept", "", fmt, len(reqs), v))
            reqs.append({"id": len(reqs), "to": "toml", "calls": [{"input": shared.hx(t), "from": fmt, "mode": mode, "sched": sched}]})
            # a second input
            plans.append(("second_input", "", fmt, len(reqs), v))
            reqs.append({"id": len(reqs), "to": "toml", "calls": [
                {"input": shared.hx(t), "from": fmt, "mode": mode, "sched": sched},
                {"input": shared.hx(d2[1]), "from": fmt if fmt != "toml" else "json", "mode": rng.choice(["slice", "reader"])}]})
            # a second document in the same input
            if fmt != "toml":
                both = history.join_docs(fmt, [t, d2[1]], rng)
                plans.append(("second_doc", "", fmt, len(reqs), v))
                reqs.append({"id": len(reqs), "to": "toml", "calls": [{"input": shared.hx(both), "from": fmt, "mode": mode, "sched": sched}]})
    # second documents that are next to nothing: one byte of MessagePack, a bare scalar, an empty YAML document
    tiny = [("msgpack", b"\x81\xa1a\x01", x) for x in (b"\x00", b"\x00\x00\x00", b"\xc0", b"\xc2", b"\xa0", b"\x80", b"\x90", b"\x01")]
    tiny += [("json", b'{"a":1}', x) for x in (b"0", b" null", b'\n""', b"{}", b"[]", b"\n\n 0\n")]
    tiny += [("yaml", b"a: 1\n", x) for x in (b"---\n", b"---\n---\n", b"--- ~\n", b"...\n---\n", b"---\n# c\n", b"---", b"--- \n\n")]
    for fmt, t, second in tiny:
        for mode, sched in (("slice", None), ("reader", {"kind": "full"}), ("reader", {"kind": "fixed", "n": 1})):
            c = {"input": shared.hx(t + second), "from": fmt, "mode": mode}
            if sched:
                c["sched"] = sched
            plans.append(("second_doc", "", fmt, len(reqs), {"a": 1}))
            reqs.append({"id": len(reqs), "to": "toml", "calls": [c]})
    # a second input after a first one that was refused (for its root, a null, an integer too large, a key that is no string):
    # it is still the second input of this output
    firsts = [("json", b"[1,2]"), ("json", b'{"a":null}'), ("json", b'"s"'), ("json", b'{"a":{"b":[1,null]}}'), ("json", b'{"n":18446744073709551615}'),
              ("yaml", b"- x\n"), ("yaml", b"a: ~\n"), ("yaml", b"? [1]\n: 2\n"), ("msgpack", b"\x81\x01\x02"), ("msgpack", b"\xc0"), ("msgpack", b"\x81\xa1b\xc4\x01x")]
    for fmt, t in firsts:
        for mode in ("slice", "reader"):
            for second in ((b'{"b":2}', "json"), (b"b = 2\n", "toml"), (b"\x81\xa1b\x02", "msgpack")):
                plans.append(("second_after_refused", "", fmt, len(reqs), {}))
                reqs.append({"id": len(reqs), "to": "toml", "calls": [{"input": shared.hx(t), "from": fmt, "mode": mode, "sched": {"kind": "fixed", "n": 3}},
                                                                     {"input": shared.hx(second[0]), "from": second[1], "mode": rng.choice(["slice", "reader"])}]})
    # a TOML input of a little more than 2 MiB (the size at which detection from a reader is switched off; the format is
    # named here), with a line boundary exactly at 2 MiB: every key comes out, from a slice and from a reader
    big_lines = (2 << 20) // 16 + 2
    big = b"".join(b"k%07d = %04d\n" % (i, 1000 + i % 9000) for i in range(big_lines))
    assert len(big) == 16 * big_lines
    big_v = {"k%07d" % i: 1000 + i % 9000 for i in range(big_lines)}
    for mode, sched in (("slice", None), ("reader", {"kind": "fixed", "n": 65536}), ("reader", {"kind": "fixed", "n": 50001})):
        c = {"input": shared.hx(big), "from": "toml", "mode": mode}
        if sched:
            c["sched"] = sched
        plans.append(("accept", "", "toml", len(reqs), big_v))
        reqs.append({"id": len(reqs), "to": "toml", "calls": [c]})
    resps = common.harness_batch(reqs)

    def readback(out, v, info):
        if out == b"":
            if v != {}:
                outcome.oracle_failures.append(dict(info, what="an accepted non-empty table produced no TOML output"))
            return
        try:
            back = gen.read_documents(out, "toml")
        except ValueError as e:
            outcome.oracle_failures.append(dict(info, what="TOML output is not a valid TOML document (tomllib: %s)" % str(e)[:200]))
            return
        want = gen.toml_reorder(v)
        if len(back) != 1 or not (gen.values_equal(back[0], want) or gen.values_equal(back[0], v)
                                  or gen.values_equal(gen.toml_reorder(back[0]), want)):
            if not gen.values_equal(gen.toml_reorder_xt(v), back[0] if back else None):
                outcome.oracle_failures.append(dict(info, what="TOML output does not read back as the input value"))

    for kind, what, fmt, i, v in plans:
        resp = resps[i]
        r = shared.session_result(resp)
        out = bytes.fromhex(r[2]) if r[2] not in ("-", "") else b""
        info = {"from": fmt, "to": "toml", "request": json.dumps(reqs[i])[:2500], "observed": [r[0], r[1]], "output_hex": r[2][:1000]}
        if len(out) > (1 << 20):
            info["request"] = info["request"][:300] + "... (a TOML document of %d lines `k%%07d = %%04d`, 16 bytes each)" % (len(v) if isinstance(v, dict) else 0)
        if r[0] == "crash":
            outcome.oracle_failures.append(dict(info, what="crash"))
            continue
        if kind == "refuse":
            if r[0] != "err" or out != b"":
                outcome.oracle_failures.append(dict(info, what="a document with %s is not refused without output" % what))
        elif kind == "root":
            if r[0] != "err" or out != b"" or ROOT not in r[1] and "unsupported" not in r[1] and "expected" not in r[1]:
                outcome.oracle_failures.append(dict(info, what="a document whose root is not a table (%s) is not refused without output" % what))
        elif kind == "accept":
            if r[0] != "ok":
                outcome.oracle_failures.append(dict(info, what="a representable table-rooted document is refused"))
            else:
                readback(out, v, info)
        elif kind == "second_input":
            c0, c1 = resp["calls"][0], resp["calls"][1]
            if not c0.get("ok") or c1.get("ok") or MULTI not in c1.get("err", "") or c1.get("wrote", 0) != 0:
                outcome.oracle_failures.append(dict(info, what="a second input to a TOML output is not refused with nothing written"))
            else:
                readback(out, v, info)
        elif kind == "second_after_refused":
            c0, c1 = resp["calls"][0], resp["calls"][1]
            if c0.get("ok") or c1.get("ok") or MULTI not in c1.get("err", "") or out != b"":
                outcome.oracle_failures.append(dict(info, what="a second input to a TOML output, after a first one that was refused, is not refused with nothing written"))
        elif kind == "second_doc":
            if r[0] != "err" or MULTI not in r[1]:
                outcome.oracle_failures.append(dict(info, what="a second document in the same input is not refused"))
            else:
                readback(out, v, info)
    outcome.evaluations += len(reqs)
    outcome.distinct_nontrivial += len(reqs)
    hist = {}
    for p in plans:
        hist[p[0]] = hist.get(p[0], 0) + 1
    outcome.extra["refusal_oracle"] = {"requests": len(reqs), "kinds": hist}
    outcome.add_sample({"kind": "refuse", "example": "null planted at every path of a generated table, sources json/yaml/msgpack"})


def run_cli_oracle(outcome):
    """The same clauses at the command line, where one translator serves all inputs: a second input or document is refused
    (status 1) and standard output holds nothing but the first document."""
    import cli
    ok, out = common.build_xt()
    if not ok:
        raise RuntimeError("xt binary does not build: " + out[-400:])
    fx = cli.Fixture("C08")
    try:
        first = {"a.json": b"a = 1\n", "c.toml": b'c = "x"\n\n[t]\nu = 1\n', "b.yaml": b"b = [\n    1,\n    2,\n]\n", "d.msgpack": b"d = [\n    1,\n    2,\n]\n",
                 "empty.json": None}
        cases = [(["a.json", "c.toml"], None), (["c.toml", "a.json"], None), (["a.json", "a.json"], None), (["a.json", "-"], b'{"z":1}'),
                 (["-", "a.json"], b'{"z":1}'), (["two.json"], None), (["b.yaml"], None), (["d.msgpack"], None), (["a.json", "nullkey.yaml"], None),
                 (["a.json", "missing.json"], None), (["a.json"], None), (["c.toml"], None)]
        for names, stdin in cases:
            st, o, e = cli.run_case(common.XT_DEBUG, fx.dir, cli.Case(["-t", "toml"] + names, stdin, "pipe"))
            info = {"argv": ["-t", "toml"] + names, "observed": {"status": st, "stdout": o[:300].decode("utf-8", "replace"), "stderr": e[:200].decode("utf-8", "replace")}}
            single = len(names) == 1 and names[0] in ("a.json", "c.toml")
            if single:
                if st != ("exit", 0) or o != first[names[0]]:
                    outcome.oracle_failures.append(dict(info, what="a single table-rooted input is not translated to its one TOML document"))
                continue
            if st != ("exit", 1):
                outcome.oracle_failures.append(dict(info, what="a second document or second input to a TOML output is not refused (exit status %s)" % (st,)))
                continue
            try:
                docs = gen.read_documents(o, "toml") if o else []
            except ValueError:
                outcome.oracle_failures.append(dict(info, what="what was written before the refusal is not one valid TOML document"))
                continue
            want = first.get(names[0]) if names[0] != "-" else b"z = 1\n"
            if names[0] in ("two.json",):
                want = b"a = 1\n"
            if names[0] in ("b.yaml", "d.msgpack"):
                want = first[names[0]]
            if want is not None and o not in (want, b""):
                outcome.oracle_failures.append(dict(info, what="standard output holds something other than nothing or the first document"))
        outcome.evaluations += len(cases)
        outcome.distinct_nontrivial += len(cases)
        outcome.extra["cli_refusals"] = {"invocations": len(cases)}
    finally:
        fx.close()


def _mp_enc(v):
    """MessagePack for the little trees of accept_correspondence: ("nil",), ("b", bool), ("u", n), ("i", z), ("f32", bits), ("f64", bits),
    ("s", bytes), ("bin", bytes), ("arr", [..]), ("map", [(k, v), ..]) - keys are trees too and may repeat."""
    t = v[0]
    if t == "nil":
        return b"\xc0"
    if t == "b":
        return b"\xc3" if v[1] else b"\xc2"
    if t == "u":
        n = v[1]
        return bytes([n]) if n < 128 else (b"\xcc" + n.to_bytes(1, "big") if n < 256 else b"\xcd" + n.to_bytes(2, "big") if n < 65536 else
                                           b"\xce" + n.to_bytes(4, "big") if n < (1 << 32) else b"\xcf" + n.to_bytes(8, "big"))
    if t == "i":
        z = v[1]
        return (z & 0xFF).to_bytes(1, "big") if -32 <= z < 0 else b"\xd3" + (z & ((1 << 64) - 1)).to_bytes(8, "big")
    if t == "f32":
        return b"\xca" + v[1].to_bytes(4, "big")
    if t == "f64":
        return b"\xcb" + v[1].to_bytes(8, "big")
    if t == "s":
        return (bytes([0xA0 + len(v[1])]) if len(v[1]) < 32 else b"\xd9" + bytes([len(v[1])])) + v[1]
    if t == "bin":
        return b"\xc4" + bytes([len(v[1])]) + v[1]
    if t == "arr":
        return (bytes([0x90 + len(v[1])]) if len(v[1]) < 16 else b"\xdc" + len(v[1]).to_bytes(2, "big")) + b"".join(_mp_enc(x) for x in v[1])
    if t == "map":
        return (bytes([0x80 + len(v[1])]) if len(v[1]) < 16 else b"\xde" + len(v[1]).to_bytes(2, "big")) + b"".join(_mp_enc(k) + _mp_enc(x) for k, x in v[1])
    raise ValueError(t)


def _gen_tree(rng, depth, root=False, dirty=0.08):
    """A random document; with probability `dirty` per node something TOML refuses is planted (a null, a byte array, an integer
    beyond i64, a key that is not a string, a key twice)."""
    r = rng.random()
    if depth > 0 and (root or r < 0.45):
        if root and rng.random() < 0.9 or rng.random() < 0.5:
            n = rng.choice([0, 1, 2, 3, 5])
            keys = []
            for _ in range(n):
                k = ("s", rng.choice([b"a", b"b", b"k1", b"", b"a b", "\u00e9".encode(), b"x.y"]))
                q = rng.random()
                if q < dirty / 2:
                    k = rng.choice([("u", 1), ("nil",), ("b", True), ("arr", []), ("bin", b"k"), ("bin", b"a"), ("bin", b"\xff"), ("bin", b""), ("f64", 0)])
                elif q < dirty and keys:
                    k = rng.choice(keys)
                keys.append(k)
            return ("map", [(k, _gen_tree(rng, depth - 1, dirty=dirty)) for k in keys])
        return ("arr", [_gen_tree(rng, depth - 1, dirty=dirty) for _ in range(rng.choice([0, 1, 2, 4]))])
    q = rng.random()
    if q < dirty:
        return rng.choice([("nil",), ("bin", b"\x00\x01"), ("u", 1 << 63), ("u", (1 << 64) - 1), ("bin", b"")])
    return rng.choice([("b", True), ("b", False), ("u", 0), ("u", 255), ("u", (1 << 63) - 1), ("i", -1), ("i", -(1 << 63)), ("i", -33),
                       ("f32", 0x3FC00000), ("f64", 0x7FF8000000000000), ("f64", 0x7FF0000000000000), ("f64", 0), ("s", b"txt"), ("s", b""),
                       ("s", "\u20ac".encode())])


def _classify(res):
    if res[0] == "ok":
        return "ok"
    m = res[1]
    for needle, cls in (("expected a string", "key"), ("unit value, expected any valid TOML value", "null"), ("u64 value was too large", "bigint"),
                        ("byte array, expected any valid TOML value", "bytes"), ("invalid utf8", "bytes"), ("duplicate key", "dupkey"),
                        ("root of TOML output must be a table", "nottable")):
        if needle in m:
            return cls
    return "other: " + m[:80]


def accept_correspondence(outcome, tier, seed):
    """TomlAcceptModel.toml_verdict against the implementation: generated documents, clean and with one or several planted
    offences, as MessagePack -> TOML; the class of the refusal (the first offence in document order) must agree."""
    rng = random.Random(seed + 808)
    docs = []
    for _ in range(6000 if tier == "thorough" else 1200):
        docs.append(_mp_enc(_gen_tree(rng, rng.choice([1, 2, 3, 4]), root=rng.random() < 0.85, dirty=rng.choice([0.0, 0.05, 0.15, 0.3]))))
    docs = list(dict.fromkeys(docs))
    resps = common.harness_batch([{"id": i, "to": "toml", "calls": [{"input": shared.hx(d), "from": "msgpack", "mode": "slice"}]} for i, d in enumerate(docs)])
    model = common.run_driver_lines(["TV %dt %s" % (i, shared.hx(d)) for i, d in enumerate(docs)])
    hist = {}
    for i, d in enumerate(docs):
        m = model.get("%dt" % i, "missing")
        got = _classify(shared.session_result(resps[i]))
        hist[m] = hist.get(m, 0) + 1
        if m == "none":
            continue
        if got != m:
            outcome.disagreements.append({"what": "MessagePack -> TOML: the implementation's verdict (%s) differs from TomlAcceptModel.toml_verdict (%s)" % (got, m),
                                          "case": "TV %s" % shared.hx(d), "input_hex": shared.hx(d)})
    outcome.evaluations += len(docs)
    outcome.traces_validated += len(docs)
    outcome.extra["accept_correspondence"] = {"documents": len(docs), "model_verdicts": hist}


def run(outcome, tier, seed):
    outcome.rule = ("history correspondence with target TOML (non-trivial = two or more calls or documents); refusal oracle: each "
                    "request (unrepresentable value at a tree position, non-table root, accepted document read back with tomllib, "
                    "second input, second document)")
    rng = random.Random(seed + 8)
    history.correspondence(outcome, tier, seed, ["toml"], rng, 1200 if tier == "thorough" else 200)
    accept_correspondence(outcome, tier, seed)
    run_refusal_oracle(outcome, tier, seed)
    run_cli_oracle(outcome)


def replay(outcome, path):
    print(json.dumps(json.load(open(path)).get("failure"), indent=1))
    run(outcome, "quick", 1)
