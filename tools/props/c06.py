"""C06 — round trip and idempotence of xt's own output."""
import json
import random

import common
import corpus
import fidelity
import gen
from props import shared

META = {
    "level": "proof",
    "needs_hooks": True,
    "technique": "Rocq proof (xt forwards the reader's calls unchanged, for all documents; idempotence and round trip then follow "
                 "from an explicit codec premise) + transcoder correspondence + idempotence/round-trip oracle on the implementation "
                 "over generated documents, all ordered format pairs, both supply modes at each hop",
    "claim": "Proved: for ALL documents xt's transcoder forwards exactly the reader's calls to the writer, so that xt(B->B) reproduces "
             "xt's B output byte for byte and xt(B->A)(xt(A->B)(x)) = xt(A->A)(x) for every codec B whose reader reads back what its "
             "writer wrote to calls the writers cannot tell apart (stated as a premise of the theorem, not assumed as an axiom). For "
             "B = MessagePack the premise is discharged: on the model of rmp / rmp-serde (diffed against the real crates by the "
             "MessagePack correspondence) MessagePack->MessagePack reproduces every stream of encodable values byte for byte, from "
             "a slice and from a reader. For B = JSON the reader half of the premise is proved on the models of serde_json's writer "
             "and reader (what was written is read back to the same events; floats included, on the model of serde_json's "
             "serialize_f64 / ryu in JsonFloatModel.v, for every finite binary64: C06_json_output_is_a_fixed_point_with_floats, "
             "C06_msgpack_json_msgpack_with_floats, no premise); idempotence of JSON -> JSON is proved for EVERY input text, not only "
             "for the writer's own output (C06_json_to_json_idempotent_for_every_input, C06_json_to_json_keeps_the_events: whatever the "
             "reader model reads is the event list of values the writer model can write, so the output is a fixed point and reads back "
             "to the same events), and likewise MessagePack -> MessagePack for EVERY byte string the reader loop translates, whatever widths its "
             "integers and lengths were spelled in (C06_msgpack_to_msgpack_idempotent_for_every_input); the round trip JSON -> MessagePack -> JSON = JSON -> JSON is proved for EVERY JSON input whose output "
             "is shorter than 4 GiB (C06_json_msgpack_json_for_every_input); the two known findings on 32-bit floats are reproduced on the models "
             "(JsonFloat32Model.v: serialize_f32 / ryu's format32, diffed against the implementation; C06_f32_*_known_class_witness); and the "
             "round-trip clause is proved for the pair MessagePack/JSON: MessagePack->JSON->MessagePack reproduces what "
             "MessagePack->MessagePack writes, for every stream of values JSON can carry, and in the other direction, with no "
             "premise at all, JSON->MessagePack->JSON reproduces what JSON->JSON writes (C06_json_msgpack_json; the "
             "MessagePack->JSON composition of the two models is diffed against the implementation). The "
             "forwarding model is diffed against the real transcoder (hooks). The premise is third-party behaviour and is checked on "
             "the implementation itself, with no reference reader needed: for generated documents (common model plus each pair's "
             "extensions: nulls, non-string keys, binary, non-finite floats, 32-bit floats, TOML date-times), nesting to depth 64, "
             "all ordered pairs (A, B), slice and reader at each hop: bytes of xt(B->B)(xt(A->B)(x)) against xt(A->B)(x), and of "
             "xt(B->A)(xt(A->B)(x)) against xt(A->A)(x) (TOML: same value up to its table reordering).",
    "level_note": "Trusted: Coq kernel; hand-written transcoder model validated by correspondence. Whether serde_json, serde_yaml, toml "
                  "and rmp-serde read their own output back to equivalent calls is third-party behaviour, an explicit premise of the "
                  "theorems, observed by the oracle. No axioms.",
    "trusted_base": [
        "Coq 8.16.1 kernel (coqc, full .vo build); no axioms",
        "hand-written Gallina model TranscodeModel.v / FidelityModel.v tied to the code by the transcode correspondence (hooks)",
        "codec premise (reader reads writer's output back to writer-equivalent calls): observed by the idempotence / round-trip oracle",
        "extraction (ExtrOcamlBasic only), model_driver/driver.ml, harness/src/transcode.rs, session.rs, tools/*.py",
        "hand-written Gallina model JsonFloatModel.v of serde_json's serialize_f64 and ryu 1.0's pretty::format64 (an executable "
        "specification in exact integer arithmetic, not ryu's table-driven algorithm), tied to the code by the float-spelling (RY) and the "
        "JSON->JSON / MessagePack->JSON (JW, MJ) correspondences; F64Proofs.v / JsonFloatTotalProofs.v prove about the MODEL that the reader's "
        "conversion is correctly rounded and that every finite binary64 has a spelling that reads back",
    ],
    "assumptions": [],
    "explanation": "xt's forwarding is proved; the codecs' self-consistency is an explicit premise observed on every generated document",
}


KNOWN_F32 = "K-C06-f32-small-magnitude-spelling"
KNOWN_F32_LARGE = "K-C06-f32-large-magnitude-spelling"


def f32_small(v):
    """Known class: a 32-bit float with 1e-6 <= |x| < 1e-5 somewhere in the document (ryu spells such an f32 positionally,
    0.00000d..., and the same number as an f64 in exponent form, d.d..e-6)."""
    if isinstance(v, gen.F32):
        return 1e-6 <= abs(v.value) < 1e-5
    if isinstance(v, dict):
        return any(f32_small(x) for x in v.values())
    if isinstance(v, gen.Map):
        return any(f32_small(k) or f32_small(x) for k, x in v.pairs)
    if isinstance(v, (list, tuple)):
        return any(f32_small(x) for x in v)
    return False


def f32_large(v):
    """Known class, the other end of the same mechanism: a 32-bit float with 1e13 <= |x| < 1e16 (ryu spells such an f32 in
    exponent form, 1e14, and the same number as an f64 positionally, 100000000000000.0)."""
    if isinstance(v, gen.F32):
        return 1e13 <= abs(v.value) < 1e16
    if isinstance(v, dict):
        return any(f32_large(x) for x in v.values())
    if isinstance(v, gen.Map):
        return any(f32_large(k) or f32_large(x) for k, x in v.pairs)
    if isinstance(v, (list, tuple)):
        return any(f32_large(x) for x in v)
    return False


def run_oracle(outcome, tier, seed):
    rng = random.Random(seed + 606)
    docs = fidelity.documents(rng, 500 if tier == "thorough" else 110, f32=True)
    # hop 1: A -> B and A -> A
    reqs, plans = [], []
    for a, v, t in docs:
        bs = fidelity.FORMATS if (tier == "thorough" or 20000 < len(t) < 100000) else rng.sample(fidelity.FORMATS, 2)
        base_aa = len(reqs)
        reqs.append({"id": base_aa, "to": a, "calls": [{"input": shared.hx(t), "from": a, "mode": "slice"}]})
        for b in bs:
            plans.append((a, b, v, t, len(reqs), base_aa))
            mode = rng.choice(["slice", "reader"])
            reqs.append({"id": len(reqs), "to": b, "calls": [{"input": shared.hx(t), "from": a, "mode": mode, "sched": corpus.random_sched(rng)}]})
    r1 = common.harness_batch(reqs, timeout=1800)
    # hop 2: B -> B and B -> A
    reqs2, plans2 = [], []
    for a, b, v, t, i, iaa in plans:
        ab = shared.session_result(r1[i])
        aa = shared.session_result(r1[iaa])
        if ab[0] == "crash":
            outcome.oracle_failures.append({"what": "crash/hang/panic", "from": a, "to": b, "input_hex": shared.hx(t)[:2000]})
            continue
        if ab[0] != "ok":
            continue      # B cannot represent the document: nothing to feed back
        out = ab[2] if ab[2] != "-" else "-"
        hops = [("slice", None), ("reader", corpus.random_sched(rng))]
        if 40000 < len(out) < 200000:
            # output larger than any read buffer: whole-buffer reads as well (a parser that refills a buffer asks for less
            # than its size when a character straddles the end)
            hops += [("reader", {"kind": "full"}), ("reader", {"kind": "fixed", "n": 16384}), ("reader", {"kind": "fixed", "n": 8192})]
        for mode, sched in hops:
            base = len(reqs2)
            reqs2.append({"id": base, "to": b, "calls": [{"input": out, "from": b, "mode": mode, "sched": sched}]})
            reqs2.append({"id": base + 1, "to": a, "calls": [{"input": out, "from": b, "mode": mode, "sched": sched}]})
            plans2.append((a, b, v, t, ab, aa, mode, sched, base))
    r2 = common.harness_batch(reqs2, timeout=1800)
    idem, trips, known_hits, known_large = 0, 0, 0, 0
    for a, b, v, t, ab, aa, mode, sched, base in plans2:
        bb, ba = shared.session_result(r2[base]), shared.session_result(r2[base + 1])
        info = {"A": a, "B": b, "mode_of_second_hop": mode, "sched": sched, "input_hex": shared.hx(t)[:2000], "value": repr(v)[:400],
                "A_to_B_hex": ab[2][:1500]}
        idem += 1
        if (bb[0] != "ok" or bb[2] != ab[2]) and b in ("json", "yaml") and f32_small(v):
            known_hits += 1
        elif bb[0] == "ok" and bb[2] != ab[2] and b in ("json", "yaml") and f32_large(v):
            known_large += 1
        elif bb[0] != "ok" or bb[2] != ab[2]:
            outcome.oracle_failures.append(dict(info, what="xt's %s output is not a fixed point of xt (%s -> %s does not reproduce it byte for byte)" % (b, b, b),
                                                B_to_B=[bb[0], bb[1][:200], bb[2][:1500]]))
        # round trip, for documents inside what both formats represent
        if aa[0] == "ok" and gen.representable(v, a) and gen.representable(v, b) and not fidelity.has_f32(v):
            trips += 1
            if b == "toml" or a == "toml":
                # same value up to TOML's table reordering
                ok = ba[0] == "ok"
                if ok:
                    try:
                        x = gen.read_documents(bytes.fromhex(ba[2]) if ba[2] != "-" else b"", a)
                        y = gen.read_documents(bytes.fromhex(aa[2]) if aa[2] != "-" else b"", a)
                        ok = len(x) == len(y) and all(fidelity.unordered(p) == fidelity.unordered(q) for p, q in zip(x, y))
                    except ValueError:
                        ok = False
            else:
                ok = ba[0] == "ok" and ba[2] == aa[2]
            if not ok:
                outcome.oracle_failures.append(dict(info, what="%s -> %s -> %s differs from %s -> %s" % (a, b, a, a, a),
                                                    B_to_A=[ba[0], ba[1][:200], ba[2][:1500]], A_to_A=[aa[0], aa[1][:200], aa[2][:1500]]))
    outcome.evaluations += len(reqs) + len(reqs2)
    outcome.distinct_nontrivial += idem + trips
    outcome.extra["roundtrip_oracle"] = {"documents": len(docs), "idempotence_checks": idem, "round_trip_checks": trips}
    outcome.add_sample({"A": docs[1][0], "value": repr(docs[1][1])[:300]})
    # the listed finding's witness
    for k in common.load_known("C06"):
        w = k["witness"]
        data = bytes.fromhex(w["input_hex"])
        r1 = shared.session_result(common.harness_batch([{"id": 0, "to": w["to"], "calls": [{"input": shared.hx(data), "from": w["from"], "mode": "slice"}]}])[0])
        r2 = shared.session_result(common.harness_batch([{"id": 0, "to": w["to"], "calls": [{"input": r1[2], "from": w["to"], "mode": "slice"}]}])[0])
        if r1[0] == "ok" and (r2[0] != "ok" or r2[2] != r1[2]):
            outcome.known_hits.append((k["id"], "%s -> %s of %s gives %r, and %s -> %s of that gives %r" % (
                w["from"], w["to"], w["input_hex"], bytes.fromhex(r1[2]).decode(), w["to"], w["to"], bytes.fromhex(r2[2]).decode() if r2[2] not in ("-", "") else r2[1])))
        else:
            outcome.notes.append("listed finding %s no longer reproduces on its witness" % k["id"])
    if known_hits and KNOWN_F32 not in {k["id"] for k in common.load_known("C06")}:
        outcome.oracle_failures.append({"what": "unlisted defect class " + KNOWN_F32})
    if known_large and KNOWN_F32_LARGE not in {k["id"] for k in common.load_known("C06")}:
        outcome.oracle_failures.append({"what": "unlisted defect class " + KNOWN_F32_LARGE})
    outcome.extra["known_class_hits"] = {KNOWN_F32: known_hits, KNOWN_F32_LARGE: known_large}


def run(outcome, tier, seed):
    outcome.rule = ("each (document, A, B, supply mode of the second hop): idempotence B->B always; round trip B->A when both formats "
                    "represent the document (non-trivial = each check)")
    if outcome.hooks_available:
        st = shared.harness_corr(outcome, "transcode", "streaming transcoder / borrowed Value", tier, seed)
        outcome.extra["forwarding_correspondence"] = {"cases": st["cases"], "value_route_cases": st.get("value_cases", 0)}
        shared.msgpack_correspondence(outcome, tier, seed, oracle=False)
    # the JSON reader and writer models and the MessagePack -> JSON composition the round-trip theorems are about
    import jsoncorr
    jsoncorr.correspondence(outcome, tier, seed)
    run_oracle(outcome, tier, seed)


def replay(outcome, path):
    print(json.dumps(json.load(open(path)).get("failure"), indent=1))
    run(outcome, "quick", 1)
