"""C03 — multi-document and multi-input output is the ordered concatenation."""
import json
import os
import random
import shutil
import subprocess

import common
import jsoncorr
import corpus
import gen
import history
from props import shared

META = {
    "level": "proof",
    "needs_hooks": False,
    "technique": "Rocq proof (induction over the history of translate calls and over each call's document list: the writer "
                 "receives the ordered concatenation of framed documents) + model-vs-implementation correspondence over "
                 "generated histories + independent-reader oracle (N documents in, N documents out)",
    "claim": "On a Gallina model of xt::Translator and the four Output implementations (src/lib.rs, json.rs:75-107, "
             "yaml.rs:91-123, msgpack.rs:94-125, toml.rs:52-121) it is proved for ALL histories of translate calls and ALL "
             "document lists that a streaming target's writer receives exactly the in-order concatenation of the framed "
             "translations of each document taken alone, that zero documents write nothing, and that output is append-only. "
             "Re-framing is proved on the codec models for two targets: the JSON stream xt writes for N values (each followed by "
             "a newline) is read back by both JSON loops as exactly N documents with the events written and contains exactly N line breaks "
             "(floats included: on the model of serde_json's serialize_f64 / ryu, for every finite binary64, no premise), and "
             "back-to-back MessagePack values are recovered one by one. "
             "The model is diffed against the real Translator on generated histories (0..6 calls in mixed source formats, "
             "0..5 documents per call, every separator style, slice and reader with random read schedules, refused documents, "
             "trailing garbage). The oracle checks on the implementation that N documents (N = 0..500, documents ending on and "
             "straddling 8 KiB / 16 KiB buffer boundaries) come out as N documents for an independent reader of the target, "
             "and that the CLI given several files in mixed formats prints the concatenation. The YAML chunker (src/yaml/chunker.rs) "
             "is modelled over libyaml's event stream and proved to yield exactly one chunk per document, in order, covering the "
             "stream with no byte lost or duplicated, and never to panic, for every well-formed event stream; that model is diffed "
             "against the real chunker through the hooks on every short YAML token sequence and seeded multi-document streams.",
    "level_note": "Trusted: Coq kernel; hand-written model validated by correspondence. The document iterators of the source "
                  "formats (serde_json stream, the MessagePack loops, the libyaml chunker) are third-party or modelled "
                  "elsewhere (C02/C18); here they are observed through the oracle. No axioms.",
    "trusted_base": [
        "Coq 8.16.1 kernel (coqc, full .vo build); no axioms (Print Assumptions: closed under the global context)",
        "hand-written Gallina model coq/theories/ChunkerModel.v of src/yaml/chunker.rs over libyaml's event stream (third party, "
        "observed through the hook xt::verif::yaml_events), tied to the code by the chunker correspondence",
        "hand-written Gallina model coq/theories/FormatsModel.v of the Translator/Output layer, tied to the code by the "
        "history correspondence (tools/history.py: single-document runs give each document's serializer bytes, the model "
        "predicts the writer bytes and verdicts of every history)",
        "splitting of a source stream into documents is done by serde_json, rmp-serde + xt's size calculator, and libyaml + "
        "xt's chunker: observed by the oracle with Python json / PyYAML(core schema) / a hand-written MessagePack reader "
        "(tools/gen.py) as independent readers",
        "extraction (ExtrOcamlBasic only), model_driver/driver.ml, harness/src/session.rs, tools/*.py",
        "hand-written Gallina model JsonFloatModel.v of serde_json's serialize_f64 and ryu 1.0's pretty::format64 (an executable "
        "specification in exact integer arithmetic, not ryu's table-driven algorithm), tied to the code by the float-spelling (RY) and the "
        "JSON->JSON / MessagePack->JSON (JW, MJ) correspondences; F64Proofs.v / JsonFloatTotalProofs.v prove about the MODEL that the reader's "
        "conversion is correctly rounded and that every finite binary64 has a spelling that reads back",
    ],
    "assumptions": ["a document's serialization does not depend on the documents before it (checked: single-document runs "
                    "predict every history)"],
    "explanation": "concatenation/framing is proved on the model for all histories; the model is tied to the code by the "
                   "history correspondence; document splitting by third-party parsers is observed with independent readers",
}

STREAMING = ["json", "msgpack", "yaml"]


def pad_doc(fmt, size, rng, tag):
    """A one-document text of exactly `size` bytes (a map holding one long string)."""
    if fmt == "json":
        base = b'{"k%d":"' % tag
        tail = b'"}'
        n = size - len(base) - len(tail)
        return base + b"x" * max(n, 0) + tail
    if fmt == "yaml":
        base = b"---\nk%d: '" % tag
        tail = b"'\n"
        n = size - len(base) - len(tail)
        return base + b"y" * max(n, 0) + tail
    # msgpack: fixmap 1, key, str32
    key = corpus.mp("k%d" % tag)
    n = max(size - 1 - len(key) - 5, 0)
    return b"\x81" + key + b"\xdb" + n.to_bytes(4, "big") + b"z" * n


def run_boundary_oracle(outcome, tier, seed):
    rng = random.Random(seed + 303)
    reqs, plans = [], []
    deltas = [-2, -1, 0, 1, 2] if tier == "thorough" else [-1, 0, 1]
    for fmt in STREAMING:
        for boundary in (8192, 16384):
            for d in deltas:
                docs = [pad_doc(fmt, boundary + d - (0 if fmt != "json" else 1), rng, 1), pad_doc(fmt, 40, rng, 2),
                        pad_doc(fmt, boundary - 40 + d, rng, 3), pad_doc(fmt, 17, rng, 4)]
                sep = {"json": b"\n", "yaml": b"", "msgpack": b""}[fmt]
                data = sep.join(docs) + sep
                for to in (STREAMING if tier == "thorough" else [rng.choice(STREAMING)]):
                    base = len(reqs)
                    for t in docs:
                        reqs.append({"id": len(reqs), "to": to, "calls": [{"input": shared.hx(t), "from": fmt, "mode": "slice"}]})
                    scheds = [{"kind": "full"}, {"kind": "fixed", "n": 4096}, {"kind": "fixed", "n": 8192},
                              {"kind": "random", "seed": rng.randrange(1 << 30), "max": 5000}, {"kind": "fixed", "n": 1000}]
                    runs = []
                    for mode, sched in [("slice", None)] + [("reader", s) for s in scheds]:
                        c = {"input": shared.hx(data), "from": rng.choice([fmt, None]), "mode": mode}
                        if sched:
                            c["sched"] = sched
                        runs.append(len(reqs))
                        reqs.append({"id": len(reqs), "to": to, "calls": [c]})
                    plans.append((fmt, to, boundary, d, base, len(docs), runs))
    resps = common.harness_batch(reqs, timeout=900)
    for fmt, to, boundary, d, base, nd, runs in plans:
        singles = [shared.session_result(resps[base + i]) for i in range(nd)]
        if any(s[0] != "ok" for s in singles):
            outcome.oracle_failures.append({"what": "a padded single document does not translate", "from": fmt, "to": to,
                                            "observed": [s[:2] for s in singles]})
            continue
        want = "".join(s[2] for s in singles)
        for r in runs:
            got = shared.session_result(resps[r])
            if got[0] != "ok" or got[2] != want:
                outcome.oracle_failures.append({
                    "what": "documents ending at/straddling the %d-byte boundary (offset %+d): the output of the stream is not the "
                            "concatenation of the single-document translations" % (boundary, d),
                    "from": fmt, "to": to, "call": {k: v for k, v in reqs[r]["calls"][0].items() if k != "input"},
                    "input_len": len(reqs[r]["calls"][0]["input"]) // 2, "verdict": got[:2],
                    "got_len": len(got[2]) // 2, "want_len": len(want) // 2})
    outcome.evaluations += len(reqs)
    outcome.distinct_nontrivial += len(plans) * 6
    outcome.extra["buffer_boundary_oracle"] = {"streams": len(plans), "requests": len(reqs), "boundaries": [8192, 16384], "offsets": deltas}


def skeleton(v):
    if isinstance(v, dict):
        return ["m"] + [skeleton(x) for x in v.values()]
    if isinstance(v, gen.Map):
        return ["m"] + [skeleton(x) for _, x in v.pairs]
    if isinstance(v, (list, tuple)):
        return ["s"] + [skeleton(x) for x in v]
    return "*"


def run_count_oracle(outcome, tier, seed):
    """N documents in -> N documents out for an independent reader of the target, equal to the inputs, in order."""
    rng = random.Random(seed + 33)
    reqs, plans = [], []
    ns = [0, 1, 2, 3, 7, 100, 500] if tier == "thorough" else [0, 1, 2, 5, 120]
    rounds = 6 if tier == "thorough" else 2
    for _ in range(rounds):
        for fmt in STREAMING:
            for n in ns:
                docs = []
                for i in range(n):
                    root = rng.choice(["map", "seq", "scalar", "map"]) if i or fmt != "yaml" else rng.choice(["map", "seq", "scalar"])
                    d = history.make_doc(rng, fmt, depth=rng.choice([0, 1, 2]) if n > 20 else 3, root=root)
                    if d:
                        docs.append(d)
                data = history.join_docs(fmt, [t for _, t in docs], rng)
                try:
                    back = gen.read_documents(data, fmt)
                    if len(back) != len(docs) or not all(gen.values_equal(a, v) for a, (v, _) in zip(back, docs)):
                        outcome.extra["generator_rejects"] = outcome.extra.get("generator_rejects", 0) + 1
                        continue
                except ValueError:
                    outcome.extra["generator_rejects"] = outcome.extra.get("generator_rejects", 0) + 1
                    continue
                for to in STREAMING:
                    # split the stream over several calls as well
                    for mode in ("slice", "reader"):
                        c = {"input": shared.hx(data), "from": rng.choice([fmt, fmt, None]) if n and isinstance(docs[0][0], (dict, list)) else fmt,
                             "mode": mode}
                        if mode == "reader":
                            c["sched"] = corpus.random_sched(rng)
                        plans.append((fmt, to, [v for v, _ in docs], len(reqs), c))
                        reqs.append({"id": len(reqs), "to": to, "calls": [c]})
    # YAML streams with documents that have no node at all (an empty document is a document: null), as text
    for text in (b"---\n---\n", b"---\n# nothing\n", b"a: 1\n---\n", b"---\n...\n---\n1\n", b"---\n---\n---\n", b"a: 1\n---\n---\nb: 2\n",
                 b"--- ~\n---\n--- null\n", b"# head\n---\n\n---\n- x\n...\n---\n", b"# c\ra: 1\r---\rb: 2\r",
                 "# c\x85a: 1\x85---\x85b: 2\x85".encode(), "# c\u2028a: 1\u2028---\u2028b: 2\u2029".encode(), b"# c\r\na: 1\r\n--- 2\r\n"):
        vals = gen.read_documents(text, "yaml")
        for to in STREAMING:
            for mode, sched in (("slice", None), ("reader", {"kind": "full"}), ("reader", {"kind": "fixed", "n": 1}), ("reader", corpus.random_sched(rng))):
                c = {"input": shared.hx(text), "from": "yaml", "mode": mode}
                if sched:
                    c["sched"] = sched
                plans.append(("yaml", to, vals, len(reqs), c))
                reqs.append({"id": len(reqs), "to": to, "calls": [c]})
    # JSON streams in which an object repeats a key (both entries are one entry of one document, wherever the object sits):
    # the count of documents an independent reader recovers from the JSON and MessagePack output is the count written
    for text in (b'{"a":1,"a":2}\n[1,2]\n"x"\n', b'[1]\n{"k":{"b":1,"c":2,"b":3}}\n[2]\n[3]\n', b'{"a":[{"x":1,"x":2,"x":3}]} {"b":2} 5 [6]\n',
                 b'{"a":1,"b":2,"a":3,"b":4}\n{"z":0}\n'):
        vals = gen.read_documents(text, "json")
        for to in ("msgpack", "json"):
            for mode, sched in (("slice", None), ("reader", {"kind": "fixed", "n": 1}), ("reader", corpus.random_sched(rng))):
                c = {"input": shared.hx(text), "from": "json", "mode": mode}
                if sched:
                    c["sched"] = sched
                plans.append(("json", to, vals, len(reqs), c))
                reqs.append({"id": len(reqs), "to": to, "calls": [c]})
    resps = common.harness_batch(reqs, timeout=900)
    for fmt, to, vals, i, c in plans:
        got = shared.session_result(resps[i])
        info = {"from": c["from"] or "detect", "source_format": fmt, "to": to, "mode": c["mode"], "sched": c.get("sched"),
                "documents": len(vals), "input_hex": c["input"][:2000]}
        if got[0] != "ok":
            if c["from"] is None and "unable to detect" in got[1]:
                continue    # detection is C09/C10's subject
            outcome.oracle_failures.append(dict(info, what="a stream of %d valid documents does not translate" % len(vals), observed=got[:2]))
            continue
        out = bytes.fromhex(got[2]) if got[2] != "-" else b""
        try:
            back = gen.read_documents(out, to)
        except ValueError as e:
            outcome.oracle_failures.append(dict(info, what="the output is not readable by an independent %s reader: %s" % (to, str(e)[:200]),
                                                output_hex=got[2][:2000]))
            continue
        if len(back) != len(vals):
            outcome.oracle_failures.append(dict(info, what="%d documents in, %d documents out for an independent reader of the target"
                                                % (len(vals), len(back)), output_hex=got[2][:2000]))
            continue
        if to == "json" and out.count(b"\n") != len(vals):
            outcome.oracle_failures.append(dict(info, what="JSON output is not one line per document (%d lines for %d documents)"
                                                % (out.count(b"\n"), len(vals)), output_hex=got[2][:2000]))
        if to == "yaml" and len(vals) and not out.startswith(b"---"):
            outcome.oracle_failures.append(dict(info, what="YAML output does not introduce each document with '---'", output_hex=got[2][:400]))
        for k, (a, v) in enumerate(zip(back, vals)):
            # scalar fidelity is C01's subject: here a document must be the same document (same skeleton:
            # container shapes, sizes and number of scalars, in order), which dropping, duplicating, merging,
            # splitting or reordering documents breaks
            if not gen.values_equal(a, v) and skeleton(a) != skeleton(v):
                outcome.oracle_failures.append(dict(info, what="document %d of the output is not document %d of the input (dropped, "
                                                    "duplicated, merged, split or reordered documents)" % (k, k), output_hex=got[2][:2000]))
                break
    outcome.evaluations += len(reqs)
    outcome.distinct_nontrivial += sum(1 for p in plans if len(p[2]) >= 2)
    outcome.extra["count_oracle"] = {"streams": len(plans), "document_counts": ns}


def run_cli_oracle(outcome, tier, seed):
    rng = random.Random(seed + 3333)
    ok, out = common.build_xt()
    if not ok:
        raise RuntimeError("xt binary does not build: " + out[-500:])
    d = os.path.join(common.BUILD, "run", "C03_cli")
    shutil.rmtree(d, ignore_errors=True)
    os.makedirs(d)
    ext = {"json": "json", "yaml": "yaml", "msgpack": "msgpack", "toml": "toml"}
    n_runs = 40 if tier == "thorough" else 10
    checked = 0
    for run in range(n_runs):
        to = rng.choice(STREAMING)
        files, singles = [], []
        for k in range(rng.randint(1, 5)):
            fmt = rng.choice(["json", "yaml", "msgpack", "toml"])
            nd = 1 if fmt == "toml" else rng.randint(0, 3)
            docs = [history.make_doc(rng, fmt, profile="toml" if fmt == "toml" else "common", depth=2) for _ in range(nd)]
            docs = [x for x in docs if x]
            if fmt == "toml" and not docs:
                continue
            data = history.join_docs(fmt, [t for _, t in docs], rng)
            p = os.path.join(d, "r%d_%d.%s" % (run, k, ext[fmt]))
            open(p, "wb").write(data)
            files.append(p)
        if not files:
            continue
        whole = subprocess.run([common.XT_DEBUG, "-t", to] + files, stdout=subprocess.PIPE, stderr=subprocess.PIPE, timeout=60)
        parts = [subprocess.run([common.XT_DEBUG, "-t", to, f], stdout=subprocess.PIPE, stderr=subprocess.PIPE, timeout=60) for f in files]
        checked += 1
        if whole.returncode != 0 or any(p.returncode != 0 for p in parts):
            outcome.oracle_failures.append({"what": "xt fails on valid files", "argv": ["-t", to] + files, "stderr": whole.stderr.decode("utf-8", "replace")[:300]})
            continue
        if whole.stdout != b"".join(p.stdout for p in parts):
            outcome.oracle_failures.append({"what": "xt given several files does not print the concatenation of the per-file translations",
                                            "argv": ["-t", to] + files, "stdout_hex": whole.stdout.hex()[:1000]})
    # documents counted by an independent reader, file by file (a file whose translation loses documents loses them alone
    # and in company alike): zero-length files of every format (TOML: one empty table; the others: no document), YAML with
    # the line breaks only YAML knows, MessagePack documents that are single bytes
    fixed = [("a.toml", b"a = 1\n"), ("empty.toml", b""), ("b.json", b'{"b":2}'), ("empty.json", b""), ("empty.yaml", b""), ("empty.msgpack", b""),
             ("cr.yaml", b"# c\ra: 1\r---\rb: 2\r"), ("nel.yaml", "# c\x85a: 1\x85---\x85b: 2\x85".encode()),
             ("ls.yaml", "# c\u2028- 1\u2028---\u2028- 2\u2028".encode()), ("zeros.msgpack", b"\x80\x00\x00"), ("nils.msgpack", b"\x91\x01\xc0\xc2"),
             ("ws.json", b"\n\n  [1]\n\n\n{}\n 3 \n"), ("dashes.yaml", b"---\n---\na: 1\n---\n")]
    counts = {}
    for name, data in fixed:
        open(os.path.join(d, name), "wb").write(data)
        ext1 = name.rsplit(".", 1)[1]
        counts[name] = 1 if ext1 == "toml" else len(gen.read_documents(data, ext1))     # a TOML file is one table, even when empty
    orders = [[n for n, _ in fixed], ["a.toml", "empty.toml", "b.json"], ["empty.toml"], ["cr.yaml", "a.toml"], ["zeros.msgpack"], ["dashes.yaml", "empty.toml", "nel.yaml"]]
    for names in orders:
        r = subprocess.run([common.XT_DEBUG, "-t", "json"] + names, cwd=d, stdout=subprocess.PIPE, stderr=subprocess.PIPE, timeout=60)
        want = sum(counts[n] for n in names)
        checked += 1
        if r.returncode != 0 or r.stdout.count(b"\n") != want:
            outcome.oracle_failures.append({"what": "files holding %d documents in all (counted by an independent reader: %s) come out as %d JSON lines, "
                                                    "exit status %d" % (want, {n: counts[n] for n in names}, r.stdout.count(b"\n"), r.returncode),
                                            "argv": ["-t", "json"] + names, "files_hex": {n: dict(fixed)[n].hex() for n in names},
                                            "stdout": r.stdout[:400].decode("utf-8", "replace"), "stderr": r.stderr[:300].decode("utf-8", "replace")})
    # standard input as one of several inputs, redirected from a regular file that an earlier consumer of the descriptor has
    # read up to a document boundary: the documents left are translated once, in their place
    import tempfile
    for to in STREAMING:
        for skip, rest in ((b"", b'{"s":1}\n{"s":2}\n'), (b'{"hdr":0}\n{"hdr":1}\n', b'{"s":1}\n{"s":2}\n'), (b"h: 0\n---\n", b"s: 1\n---\ns: 2\n")):
            outs = []
            for argv, use_stdin in ((["a.toml"], False), (["-"], True), (["b.json"], False), (["a.toml", "-", "b.json"], True)):
                with tempfile.TemporaryFile() as tf:
                    tf.write(skip + rest)
                    tf.flush()
                    os.lseek(tf.fileno(), len(skip), os.SEEK_SET)
                    r = subprocess.run([common.XT_DEBUG, "-t", to] + argv, cwd=d, stdin=tf if use_stdin else subprocess.DEVNULL,
                                       stdout=subprocess.PIPE, stderr=subprocess.PIPE, timeout=60)
                outs.append(r)
            checked += 1
            if any(r.returncode != 0 for r in outs) or outs[3].stdout != outs[0].stdout + outs[1].stdout + outs[2].stdout \
                    or len(gen.read_documents(outs[1].stdout, to)) != 2:
                outcome.oracle_failures.append({"what": "standard input redirected from a regular file positioned after %d bytes: `a.toml - b.json` is not the "
                                                        "concatenation of the three translations, or the 2 documents left on standard input do not come out as 2"
                                                        % len(skip), "argv": ["-t", to, "a.toml", "-", "b.json"], "stdin_file_hex": (skip + rest).hex(),
                                                "stdin_offset": len(skip), "stdout": outs[3].stdout[:400].decode("utf-8", "replace"),
                                                "stderr": outs[3].stderr[:300].decode("utf-8", "replace")})
    shutil.rmtree(d, ignore_errors=True)
    outcome.evaluations += checked
    outcome.distinct_nontrivial += checked
    outcome.extra["cli_oracle"] = {"invocations_compared": checked}


def run(outcome, tier, seed):
    outcome.rule = ("history correspondence: each generated history (non-trivial = two or more calls, or a call with two or more "
                    "documents); count oracle: each (stream, target, mode) with N >= 2; boundary oracle: each padded stream x supply mode; "
                    "CLI oracle: each multi-file invocation")
    rng = random.Random(seed + 3)
    history.correspondence(outcome, tier, seed, STREAMING, rng, 400 if tier == "thorough" else 60)
    if outcome.hooks_available:
        shared.msgpack_correspondence(outcome, tier, seed, oracle=False)
    jsoncorr.correspondence(outcome, tier, seed)
    if outcome.hooks_available:
        st = shared.harness_corr(outcome, "chunker", "YAML chunker (libyaml event stream -> chunks)", tier, seed)
        for f in st["oracle_failures"]:
            outcome.oracle_failures.append({"what": "YAML chunker: " + f.split(" :: ", 1)[-1], "input_hex": f.split(" :: ", 1)[0]})
        outcome.distinct_nontrivial += st["nontrivial"]
        outcome.extra["chunker_correspondence"] = {
            "cases": st["cases"], "kinds": st["kinds"], "documents_per_stream_histogram": st["docs_hist"],
            "bound": "every YAML token sequence up to length %d over a 24-token alphabet, built-in documents, seeded multi-document "
                     "streams with every separator style, padding to 8 KiB/16 KiB boundaries and planted damage; each under a "
                     "random read schedule; events from the hook xt::verif::yaml_events, chunks from xt::verif::yaml_chunks"
                     % (4 if tier == "thorough" else 3)}
    else:
        outcome.notes.append("verif hooks unavailable: chunker correspondence not run")
    run_count_oracle(outcome, tier, seed)
    run_boundary_oracle(outcome, tier, seed)
    run_cli_oracle(outcome, tier, seed)
    recount_disagreements(outcome)


def recount_disagreements(outcome):
    """The property's own reading on the MessagePack / JSON streams where model and implementation part: an independent reader
    counts the documents of the input; a translation to JSON that succeeds must write exactly that many lines."""
    seen = set()
    for d in list(outcome.disagreements):
        case = d.get("case", "")
        hexin, fmt = None, None
        if case.startswith("MT "):
            hexin, fmt = case.split(" ")[3], "msgpack"
        elif d.get("what", "").startswith("JSON -> MessagePack"):
            hexin, fmt = d.get("input_hex"), "json"
        if not hexin or hexin in seen or len(seen) >= 40:
            continue
        seen.add(hexin)
        data = bytes.fromhex(hexin) if hexin != "-" else b""
        try:
            n = len(gen.read_documents(data, fmt))
        except Exception:
            continue        # not a valid stream for the independent reader: no expectation
        rs = common.harness_batch([{"id": 0, "to": "json", "calls": [{"input": hexin, "from": fmt, "mode": "slice"}]},
                                   {"id": 1, "to": "json", "calls": [{"input": hexin, "from": fmt, "mode": "reader", "sched": {"kind": "fixed", "n": 3}}]}])
        for mode, r in zip(("slice", "reader"), rs):
            res = shared.session_result(r)
            if res[0] != "ok":
                continue
            out = bytes.fromhex(res[2]) if res[2] not in ("-", "") else b""
            if out.count(b"\n") != n:
                outcome.oracle_failures.append({"what": "a %s stream of %d documents comes out as %d JSON lines (%s input): documents dropped, merged, "
                                                        "split or duplicated" % (fmt, n, out.count(b"\n"), mode),
                                                "from": fmt, "to": "json", "mode": mode, "input_hex": hexin[:2000], "output": out[:300].decode("utf-8", "replace")})


def replay(outcome, path):
    print(json.dumps(json.load(open(path)).get("failure"), indent=1))
    run(outcome, "quick", 1)
