"""C18 — nesting limits are clean, and the same for slice and reader input."""
import json
import os
import random
import signal
import subprocess

import common
import corpus
from props import shared

META = {
    "level": "proof",
    "needs_hooks": True,
    "technique": "Rocq proof (mutual induction on fuel over the MessagePack size calculator) + model-vs-implementation "
                 "correspondence + per-depth slice/reader oracle for all four formats",
    "claim": "For MessagePack the size calculator that decides the slice-mode verdict is proved never to panic, never to "
             "report more than the input holds and always to terminate, for every byte string and depth limit; and the limit is proved "
             "exact and shape-independent: for EVERY encodable value both document loops read its encoding to the end iff fewer than "
             "1024 collections surround its innermost value, and deeper values are refused with the depth-limit error "
             "(C18_msgpack_limit_exact, C18_verdict_depends_on_depth_only), and likewise on the serde_json reader/writer models the JSON "
             "text of any value is read back iff its depth is below 128 (C18_json_limit_exact; with the float-spelling model for every "
             "finite binary64 and no premise: C18_json_limit_exact_with_floats); the model "
             "(size calculator, rmp-serde depth counter, both document loops) is diffed against the implementation on all "
             "short byte strings, all markers and nesting windows around 1024 in every shape. For JSON/YAML/TOML the limits "
             "belong to third-party crates and are observed: same verdict slice vs reader at every depth in a window, one "
             "clean limit, no crash; thorough tier drives the debug and release binaries to depth 10^6.",
    "level_note": "Trusted: Coq kernel; hand-written model validated by correspondence; serde_json/serde_yaml/toml_edit "
                  "limits and stack behaviour are observed, not proved. No axioms.",
    "trusted_base": [
        "Coq 8.16.1 kernel (coqc, full .vo build); no axioms (Print Assumptions: closed under the global context)",
        "hand-written Gallina model coq/theories/MsgpackModel.v of src/msgpack.rs:141-252 and of rmp-serde 1.1.2 "
        "deserialize_any (marker table, length reads, depth counter), tied to the code by the correspondence check",
        "extraction (ExtrOcamlBasic only), model_driver/driver.ml, harness/src/msgpack.rs, src/verif.rs hooks",
        "JSON/YAML/TOML nesting limits: serde_json, serde_yaml, toml_edit (observed)",
        "process stack behaviour of the real binaries (observed in the thorough tier)",
        "hand-written Gallina model JsonFloatModel.v of serde_json's serialize_f64 and ryu 1.0's pretty::format64 (an executable "
        "specification in exact integer arithmetic, not ryu's table-driven algorithm), tied to the code by the float-spelling (RY) and the "
        "JSON->JSON / MessagePack->JSON (JW, MJ) correspondences; F64Proofs.v / JsonFloatTotalProofs.v prove about the MODEL that the reader's "
        "conversion is correctly rounded and that every finite binary64 has a spelling that reads back",
    ],
    "assumptions": ["usize is 64 bits (3 + u32 length cannot overflow)"],
    "explanation": "proved: no panic / in-bounds / termination of the MessagePack size calculator; checked by "
                   "correspondence: the exact verdict (accept iff <= 1023 collections) in both modes; observed: limits of "
                   "the other three formats and stack survival",
}


def shapes(fmt, d, only=None):
    """Nested documents of depth d in each shape of the format (lazily built)."""
    def alt(o0, o1, c0, c1):
        return b"".join([o0, o1][i % 2] for i in range(d)), b"".join([c0, c1][i % 2] for i in reversed(range(d)))
    if fmt == "json":
        mk = {"array": lambda: b"[" * d + b"1" + b"]" * d, "map": lambda: b'{"a":' * d + b"1" + b"}" * d,
              "alt": lambda: (lambda oc: oc[0] + b"1" + oc[1])(alt(b"[", b'{"a":', b"]", b"}")),
              "empty": lambda: b"[" * d + b"]" * d,
              "sibs": lambda: b"[[]," * d + b"1" + b"]" * d}
    elif fmt == "yaml":
        mk = {"array": lambda: b"[" * d + b"1" + b"]" * d, "map": lambda: b"{a: " * d + b"1" + b"}" * d,
              "alt": lambda: (lambda oc: oc[0] + b"1" + oc[1])(alt(b"[", b"{a: ", b"]", b"}")),
              "blockseq": lambda: b"- " * d + b"1\n",
              "blockmap": lambda: b"".join(b" " * i + b"a:\n" for i in range(d)) + b" " * d + b"1\n"}
    elif fmt == "toml":
        mk = {"array": lambda: b"a = " + b"[" * d + b"1" + b"]" * d + b"\n",
              "map": lambda: b"a = " + b"{b = " * d + b"1" + b"}" * d + b"\n",
              "alt": lambda: (lambda oc: b"a = " + oc[0] + b"1" + oc[1] + b"\n")(alt(b"[", b"{b = ", b"]", b"}"))}
    else:
        mk = {s: (lambda s=s: corpus.nest_msgpack(d, s)) for s in ["array", "map", "mapkey", "alt", "empty"]}
        # every level holds an empty map beside the next level: empty collections must not use up the depth budget
        mk["sibs"] = lambda: b"\x92\x80" * d + b"\x01"
    return {k: f() for k, f in mk.items() if only is None or k in only}


CORE = ["array", "map", "alt"]
WINDOW = {"json": 127, "yaml": 128, "toml": 79, "msgpack": 1023}


def nesting_oracle(outcome, tier, seed):
    rng = random.Random(seed + 18)
    reqs, meta = [], []
    span = 8 if tier == "thorough" else 3
    for fmt, centre in WINDOW.items():
        depths = list(range(max(1, centre - span), centre + span + 1))
        if tier == "thorough":
            depths += [1, 2, 10, centre * 2, centre * 4, 3000]
        else:
            depths += [1, centre * 2]
        for d in depths:
            for sh, data in shapes(fmt, d).items():
                targets = corpus.FORMATS if tier == "thorough" else [rng.choice(corpus.FORMATS), "json"]
                if sh == "mapkey":
                    targets = ["msgpack", "yaml"] if tier == "thorough" else ["msgpack"]     # the targets that can carry a collection as a key
                for to in dict.fromkeys(targets):
                    for frm in ([fmt, None] if (tier == "thorough" or to == "json") else [fmt]):
                        sched = corpus.random_sched(rng)
                        for mode in ("slice", "reader"):
                            reqs.append({"id": len(reqs), "to": to,
                                         "calls": [{"input": shared.hx(data), "from": frm, "mode": mode, "sched": sched}]})
                        meta.append((fmt, d, sh, to, frm, data, sched))
    # shallow documents holding thousands of empty collections (depth 2): the nesting limit is about depth, not about counts
    for sh, data in (("flat array of 3000 empty arrays", b"\xdc" + (3000).to_bytes(2, "big") + b"\x90" * 3000),
                     ("flat array of 3000 empty maps", b"\xdc" + (3000).to_bytes(2, "big") + b"\x80" * 3000),
                     ("1500 pairs of empty collections in a map", b"\xde" + (1500).to_bytes(2, "big") + b"".join(b"\xa4k%03x\x90" % i for i in range(1500)))):
        for to in ("json", "msgpack"):
            sched = corpus.random_sched(rng)
            for mode in ("slice", "reader"):
                reqs.append({"id": len(reqs), "to": to, "calls": [{"input": shared.hx(data), "from": "msgpack", "mode": mode, "sched": sched}]})
            meta.append(("msgpack", 2, sh, to, "msgpack", data, sched))
    resps = common.harness_batch(reqs)
    table = {}
    for i, (fmt, d, sh, to, frm, data, sched) in enumerate(meta):
        rs, rr = shared.session_result(resps[2 * i]), shared.session_result(resps[2 * i + 1])
        for mode, r in (("slice", rs), ("reader", rr)):
            if r[0] == "crash":
                outcome.oracle_failures.append({"what": "crash/panic/hang at nesting depth %d" % d, "from": frm or "detect",
                                                "source_format": fmt, "shape": sh, "to": to, "mode": mode,
                                                "input_hex": shared.hx(data) if len(data) < 5000 else "(%d bytes; shape above)" % len(data),
                                                "observed": r[1]})
        if rs[0] != rr[0]:
            outcome.oracle_failures.append({
                "what": "slice and reader disagree at nesting depth %d: slice %s, reader %s" % (d, rs[0], rr[0]),
                "source_format": fmt, "from": frm or "detect", "shape": sh, "to": to, "sched": sched,
                "input_hex": shared.hx(data) if len(data) < 5000 else "(%d bytes; %s x %d)" % (len(data), sh, d),
                "slice": rs[:2], "reader": rr[:2]})
        if sh.startswith(("flat array", "1500 pairs")) and (rs[0] != "ok" or rr[0] != "ok"):
            outcome.oracle_failures.append({"what": "a MessagePack document of depth 2 (%s) does not translate: slice %s, reader %s" % (sh, rs[0], rr[0]),
                                            "source_format": fmt, "to": to, "input_hex": shared.hx(data)[:200] + "...", "slice": rs[:2], "reader": rr[:2]})
        if frm == fmt and (to in ("json", "msgpack") if sh != "mapkey" else to == "msgpack") and d != 2:
            table.setdefault((fmt, sh), {})[d] = rs[0]
    # one clean limit per format: accept up to L, reject beyond, same L for arrays, maps and mixtures
    limits = {}
    for (fmt, sh), row in table.items():
        ds = sorted(row)
        oks = [d for d in ds if row[d] == "ok"]
        errs = [d for d in ds if row[d] != "ok"]
        if sh == "mapkey" or (fmt == "msgpack" and sh == "empty"):
            # key-position nesting / an empty innermost collection: only the MessagePack->MessagePack verdict counts
            pass
        if oks and errs and max(oks) > min(errs):
            outcome.oracle_failures.append({"what": "no clean nesting limit: accepted at depth %d but rejected at %d"
                                            % (max(oks), min(errs)), "source_format": fmt, "shape": sh})
        if oks and errs:
            limits[(fmt, sh)] = max(oks)
    for fmt in WINDOW:
        ls = {sh: limits.get((fmt, sh)) for sh in CORE if (fmt, sh) in limits}
        if len(set(ls.values())) > 1:
            outcome.oracle_failures.append({"what": "nesting limit differs between arrays, maps and mixtures", "source_format": fmt,
                                            "limits": ls})
    if limits.get(("msgpack", "mapkey")) not in (None, 1023):
        outcome.oracle_failures.append({"what": "MessagePack nesting in map-key position is accepted up to %s collections, not 1023"
                                        % limits.get(("msgpack", "mapkey")), "source_format": "msgpack", "shape": "mapkey"})
    if limits.get(("msgpack", "array")) not in (None, 1023):
        outcome.oracle_failures.append({"what": "MessagePack accepts up to %s collections around a scalar, not 1023"
                                        % limits.get(("msgpack", "array")), "source_format": "msgpack"})
    outcome.evaluations += len(reqs)
    outcome.distinct_nontrivial += len(meta)
    outcome.extra["nesting_oracle"] = {"requests": len(reqs), "limits_observed": {"%s/%s" % k: v for k, v in sorted(limits.items())}}
    outcome.add_sample({"format": "json", "shape": "array", "depth": 127, "input": "[" * 3 + "...1..." + "]" * 3})


KNOWN_TOML_NEST = "K-C18-toml-dotted-keys-stack-overflow"


def binary_oracle(outcome, tier):
    """The real binaries, on their default main-thread stack, at depths far
    beyond every limit: they must exit 0 or 1, never die from a signal."""
    bins = []
    ok, out = common.build_xt(False)
    if ok:
        bins.append(("debug", common.XT_DEBUG))
    if tier == "thorough":
        ok, out = common.build_xt(True)
        if ok:
            bins.append(("release", common.XT_RELEASE))
    depths = [1000, 10000, 100000] + ([1000000] if tier == "thorough" else [])
    runs = 0
    for name, path in bins:
        for fmt in corpus.FORMATS:
            for d in depths:
                for sh, data in shapes(fmt, d, ("array", "map", "mapkey", "blockseq")).items():
                    if sh not in ("array", "map", "mapkey", "blockseq") or (fmt == "toml" and d > 100000):
                        continue
                    # libyaml's scanner is quadratic in the nesting of flow collections (third-party cost, it
                    # does terminate): keep those shapes within a depth that runs in seconds
                    if fmt == "yaml" and sh in ("array", "map") and d > (3000 if name == "debug" else 30000):
                        continue
                    for via in ("stdin", "file", "detected stdin", "detected file"):
                        if via == "file":
                            fn = os.path.join(common.BUILD, "run", "deep." + fmt)
                            open(fn, "wb").write(data)
                            p = subprocess.run([path, "-t", "json", fn], stdout=subprocess.DEVNULL, stderr=subprocess.PIPE, timeout=300)
                        elif via == "detected file":
                            # no option and no telling extension: the trials of format detection meet the nesting first
                            fn = os.path.join(common.BUILD, "run", "deep.dat")
                            open(fn, "wb").write(data)
                            p = subprocess.run([path, "-t", "json", fn], stdout=subprocess.DEVNULL, stderr=subprocess.PIPE, timeout=300)
                        elif via == "detected stdin":
                            p = subprocess.run([path, "-t", "json"], input=data, stdout=subprocess.DEVNULL, stderr=subprocess.PIPE, timeout=300)
                        else:
                            p = subprocess.run([path, "-f", fmt, "-t", "json"], input=data, stdout=subprocess.DEVNULL,
                                               stderr=subprocess.PIPE, timeout=300)
                        runs += 1
                        if p.returncode not in (0, 1):
                            outcome.oracle_failures.append({
                                "what": "the %s binary died with status %d at nesting depth %d" % (name, p.returncode, d),
                                "format": fmt, "shape": sh, "via": via, "stderr": p.stderr.decode("utf-8", "replace")[-300:]})
        # legal documents just inside the MessagePack limit, to every target (each serializer recurses in its own way)
        for d in (900, 1000, 1023):
            for sh, data in shapes("msgpack", d, ("map", "alt", "array")).items():
                if sh not in ("map", "alt", "array"):
                    continue
                for to in ("toml", "yaml", "msgpack", "json"):
                    for via in ("stdin", "file"):
                        if via == "file":
                            fn = os.path.join(common.BUILD, "run", "legal.msgpack")
                            open(fn, "wb").write(data)
                            p = subprocess.run([path, "-t", to, fn], stdout=subprocess.DEVNULL, stderr=subprocess.PIPE, timeout=300)
                        else:
                            p = subprocess.run([path, "-f", "msgpack", "-t", to], input=data, stdout=subprocess.DEVNULL, stderr=subprocess.PIPE, timeout=300)
                        runs += 1
                        if p.returncode not in (0, 1):
                            outcome.oracle_failures.append({
                                "what": "the %s binary died with status %d translating a legal MessagePack document of depth %d to %s" % (name, p.returncode, d, to),
                                "format": "msgpack", "shape": sh, "via": via, "stderr": p.stderr.decode("utf-8", "replace")[-300:]})
        # table nesting that multiplies (inline tables x dotted keys): bounded by neither of the toml crate's two limits
        for levels in (8, 20, 45, 69):
            data = corpus.toml_dotted_nest(levels)
            for to in ("json", "toml"):
                p = subprocess.run([path, "-f", "toml", "-t", to], input=data, stdout=subprocess.DEVNULL, stderr=subprocess.PIPE, timeout=300)
                runs += 1
                if p.returncode not in (0, 1):
                    if p.returncode == -6 and b"overflowed its stack" in p.stderr and any(k["id"] == KNOWN_TOML_NEST for k in common.load_known("C18")):
                        if not any(h[0] == KNOWN_TOML_NEST + name for h in outcome.known_hits) and not any(h[0] == KNOWN_TOML_NEST for h in outcome.known_hits):
                            outcome.known_hits.append((KNOWN_TOML_NEST, "the %s binary overflows its stack (SIGABRT) on TOML with %d nested inline tables under "
                                                       "79-part dotted keys (%d table levels), target %s" % (name, levels, levels * 79, to)))
                    else:
                        outcome.oracle_failures.append({"what": "the %s binary died with status %d on nested TOML tables" % (name, p.returncode),
                                                        "format": "toml", "shape": "%d inline tables x 79-part dotted keys" % levels,
                                                        "stderr": p.stderr.decode("utf-8", "replace")[-300:]})
    outcome.evaluations += runs
    outcome.extra["binary_runs"] = runs


def uniformity_oracle(outcome, tier, seed):
    """The verdict at a depth is the source format's: the same whatever the target and whatever map-rooted shape carries the
    nesting (a root table, so that TOML can take the document too): all maps, maps and arrays alternating, one map around
    nothing but arrays."""
    def texts(d):
        return {"maps": b'{"a":' * d + b"1" + b"}" * d,
                "alt": b"".join(b'{"a":' if i % 2 == 0 else b"[" for i in range(d)) + b"1" + b"".join(b"}" if i % 2 == 0 else b"]" for i in reversed(range(d))),
                "maparr": b'{"a":' + b"[" * (d - 1) + b"1" + b"]" * (d - 1) + b"}"}

    def packs(d):
        return {"maps": b"\x81\xa1a" * d + b"\x01", "alt": b"".join(b"\x81\xa1a" if i % 2 == 0 else b"\x91" for i in range(d)) + b"\x01",
                "maparr": b"\x81\xa1a" + b"\x91" * (d - 1) + b"\x01"}
    plans, reqs = [], []
    for fmt, gen_, depths in (("msgpack", packs, (50, 79, 80, 81, 82, 100, 127, 128, 129, 300, 1000, 1023, 1024)),
                              ("json", texts, (50, 79, 80, 81, 82, 100, 126, 127, 128, 129)), ("yaml", texts, (50, 79, 80, 81, 82, 100, 126, 127, 128, 129))):
        for d in depths:
            for sh, data in gen_(d).items():
                for to in ("json", "yaml", "toml", "msgpack"):
                    for mode in (("slice", "reader") if tier == "thorough" else ("slice",)):
                        plans.append((fmt, d, sh, to, mode))
                        reqs.append({"id": len(reqs), "to": to, "calls": [{"input": shared.hx(data), "from": fmt, "mode": mode, "sched": {"kind": "fixed", "n": 4096}}]})
    resps = common.harness_batch(reqs)
    verdicts = {}
    for (fmt, d, sh, to, mode), r in zip(plans, resps):
        res = shared.session_result(r)
        if res[0] == "crash":
            outcome.oracle_failures.append({"what": "crash/panic/hang at nesting depth %d" % d, "source_format": fmt, "shape": sh, "to": to, "mode": mode})
            continue
        verdicts.setdefault((fmt, d), {})[(sh, to, mode)] = res[0]
    for (fmt, d), row in sorted(verdicts.items()):
        if len(set(row.values())) > 1:
            oks = sorted(k for k, v in row.items() if v == "ok")
            errs = sorted(k for k, v in row.items() if v != "ok")
            outcome.oracle_failures.append({"what": "at nesting depth %d the verdict for a %s document depends on the shape or on the target: %d combinations "
                                                    "translate, %d are refused" % (d, fmt, len(oks), len(errs)),
                                            "source_format": fmt, "depth": d, "translates": [list(k) for k in oks[:6]], "refused": [list(k) for k in errs[:6]]})
    outcome.evaluations += len(reqs)
    outcome.distinct_nontrivial += len(reqs)
    outcome.extra["uniformity_oracle"] = {"requests": len(reqs), "shapes": ["maps", "alt", "maparr"], "targets": 4}


def run(outcome, tier, seed):
    outcome.rule = ("MessagePack: model/implementation correspondence cases as described under msgpack_correspondence.bound "
                    "(non-trivial = non-empty input that translates successfully); nesting oracle: (format, shape, depth, target) "
                    "combinations in a window around each limit, each run as slice and reader (non-trivial = all of them)")
    if outcome.hooks_available:
        shared.msgpack_correspondence(outcome, tier, seed)
    # the JSON reader and writer models of the JSON limit theorems (nesting corpus included)
    import jsoncorr
    jsoncorr.correspondence(outcome, tier, seed)
    nesting_oracle(outcome, tier, seed)
    uniformity_oracle(outcome, tier, seed)
    binary_oracle(outcome, tier)


def replay(outcome, path):
    print(json.dumps(json.load(open(path)).get("failure"), indent=1))
    run(outcome, "quick", 1)
