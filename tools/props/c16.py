"""C16 — broken pipes and other write errors at the CLI."""
import json
import random

import cli
import common

META = {
    "level": "proof",
    "needs_hooks": False,
    "technique": "Rocq proof on the Gallina model of pipecheck::Writer over BufWriter over a failing device (case analysis of "
                 "write_all/flush, loop invariant over the input list) + model-vs-binary correspondence for the deterministic "
                 "scenarios (reader gone before start, /dev/full) + closing-consumer oracle at many closing points",
    "claim": "Proved on the CliModel for ALL BufWriter capacities, ALL short-write patterns, ALL points at which the device behind "
             "stdout starts failing and ALL input lists: every write_all piece and every per-input flush either accounts for "
             "every byte or reports the device's failure - as SIGPIPE when it is a broken pipe, as an error otherwise; no failure "
             "is dropped; a run ends by SIGPIPE only for a broken pipe and then with empty stderr, never with status 0 unless all "
             "output was written, and status 1 always carries an error line. The model is compared exactly with the binary when "
             "the pipe's reader is gone before xt starts and when stdout is /dev/full (outputs below and above the 8 KiB buffer, "
             "so the failure is met in write_all and in the flush); a consumer that closes after k bytes, k from 0 to several "
             "pipe capacities, is checked against the property's wording (SIGPIPE and empty stderr whenever more than a pipe "
             "capacity of output remained; never status 1, never a message).",
    "level_note": "PARTIAL: the decision logic (which Write method meets the failure, what becomes SIGPIPE, what becomes exit 1) is "
                  "proved on the model and tied to the binary; delivery of SIGPIPE by raise(), the kernel's pipe buffering (how many "
                  "bytes past k are accepted before EPIPE) and ENOSPC from /dev/full are OS behaviour and are observed, not proved. "
                  "No axioms.",
    "trusted_base": [
        "Coq 8.16.1 kernel (coqc, full .vo build); vm_compute only in the non-vacuity example; no axioms",
        "hand-written Gallina model coq/theories/CliModel.v (pc, bw_write_all, bw_flush, main_loop), tied to the code by running "
        "the real binary with a closed pipe and /dev/full (tools/cli.py)",
        "OS semantics of pipes, EPIPE, SIGPIPE delivery and /dev/full: observed",
        "extraction (ExtrOcamlBasic only), model_driver/driver.ml, tools/cli.py",
    ],
    "assumptions": ["the pipe capacity is read with F_GETPIPE_SZ when deciding that 'more than a pipe capacity remains'"],
    "explanation": "proof covers the wrapper/buffer/loop logic for all failure points; runtime signal and pipe semantics are observed "
                   "by the oracle at closing points 0 .. several pipe capacities",
}

def pipe_capacity():
    import fcntl
    import os
    r, w = os.pipe()
    try:
        return fcntl.fcntl(w, 1032)     # F_GETPIPE_SZ
    except OSError:
        return 1 << 20
    finally:
        os.close(r)
        os.close(w)


PIPE_CAP = pipe_capacity()


def run(outcome, tier, seed):
    outcome.rule = ("deterministic scenarios (reader gone before start; /dev/full): compared exactly with the model; closing consumer: "
                    "each (inputs, target, closing point); non-trivial = output remained when the consumer left")
    rng = random.Random(seed + 16)
    ok, out = common.build_xt()
    if not ok:
        raise RuntimeError("xt binary does not build: " + out[-600:])
    fx = cli.Fixture("C16")
    try:
        # 1. exact correspondence: closed before start, /dev/full
        cases = []
        stdin = b'{"from":"stdin","pad":"' + b"s" * 300 + b'"}\n'
        inputs = [["a.json"], ["mid.json"], ["big.json"], ["a.json", "b.yaml"], ["a.json", "big.json"], ["big.json", "a.json"],
                  ["empty.json"], ["empty.json", "a.json"], ["-"], [], ["a.json", "-", "big.json"], ["missing.json"], ["a.json", "missing.json"],
                  ["bad.json"], ["huge.json"], ["bigbad.json"], ["bigtwo.json"], ["a.json", "bigbad.json"], ["longlines.json"]] + [["docs%d.json" % L] for L in range(1, 7)] + [["a.json", "docs2.json"]]
        for names in inputs:
            for to in ("json", "yaml", "msgpack", "toml"):
                if to == "toml" and len([n for n in names if n != "empty.json"]) > 1:
                    continue
                for mode in ("closed", "devfull"):
                    cases.append(cli.Case(["-t", to] + names, stdin, mode))
        # help and version text go the same way as data: a consumer that is gone must not produce an error message
        for argv in (["--help"], ["-h"], ["-V"], ["--version"], ["-tj", "--help"]):
            for mode in ("closed", "devfull"):
                cases.append(cli.Case(argv, None, mode))
        results = cli.predict_and_run(common.XT_DEBUG, fx.dir, cases)
        hist = {}
        for r in results:
            diffs = cli.compare(r, check_stdout=False)
            a_status, a_out, a_err = r["actual"]
            hist[str(a_status)] = hist.get(str(a_status), 0) + 1
            if b"Broken pipe" in a_err or b"panicked" in a_err:
                outcome.oracle_failures.append({"what": "a message about the broken pipe (or a panic message) was written to standard error when the "
                                                        "consumer of stdout was gone", "argv": r["case"].argv,
                                                "observed": {"status": a_status, "stderr": a_err[:300].decode("utf-8", "replace")}})
                continue
            if diffs:
                rec = {"what": "stdout %s: %s" % ("closed by its reader before xt started" if r["case"].mode == "closed" else "is /dev/full", "; ".join(diffs)),
                       "argv": r["case"].argv, "observed": {"status": a_status, "stderr": a_err[:300].decode("utf-8", "replace")},
                       "predicted": {"status": r["predicted"]["status"], "stderr": r["predicted"]["stderr"]}}
                a_bad = (r["case"].mode == "closed" and (a_err != b"" and a_status[0] == "signal" or a_status == ("exit", 0) and r["predicted"]["status"][0] == "signal"
                                                         or a_status == ("exit", 1) and r["predicted"]["status"][0] == "signal")) or \
                        (r["case"].mode == "devfull" and r["predicted"]["status"] == ("exit", 1) and (a_status != ("exit", 1) or not a_err.startswith(b"xt error")))
                (outcome.oracle_failures if a_bad else outcome.disagreements).append(rec)
        n_exact = len(cases)
        # 2. a consumer that leaves after k bytes
        sizes = {}
        probe = [cli.Case(["-t", to, name], None, "pipe") for to in ("json", "yaml", "msgpack") for name in ("huge.json", "big.json")]
        from cli import run_case
        for c in probe:
            st, o, e = run_case(common.XT_DEBUG, fx.dir, c)
            sizes[(c.argv[1], c.argv[2])] = len(o)
        ks = [0, 1, 100, 4095, 8191, 8192, 8193, 20000, 65535, 65536, 65537, 70000, 131072, 200000, 500000]
        if tier == "thorough":
            ks += [rng.randrange(1, 700000) for _ in range(40)]
        cons = []
        for (to, name), total in sizes.items():
            for k in ks:
                if k < total:
                    cons.append((cli.Case(["-t", to, name], None, "consume", close_after=k), total, k))
                    cons.append((cli.Case(["-t", to, "a.json", name, "a.json"], None, "consume", close_after=k), total, k))
            cons.append((cli.Case(["-t", to], open(fx.path(name), "rb").read(), "consume", close_after=ks[3]), total, ks[3]))
        # a consumer that leaves in the middle of the last write while xt still waits for input: what is left over is written
        # (and the broken pipe met) only by the final flush.  A single string of 8 KiB or more holding a line feed near its end.
        for size in (8192, 9000, 20000):
            for tail in (1, 100, 1023):
                body = b"s" * (size - tail - 1) + b"\n" + b"t" * tail
                doc = b'"' + body.replace(b"\n", b"\\n") + b'"'
                for to, header in (("msgpack", 3 if size < 65536 else 5), ("json", 1)):
                    k = header + size - tail if to == "msgpack" else 1 + 100
                    cons.append((cli.Case(["-f", "json", "-t", to], doc, "consume_hold", close_after=k), (header + size) * 1 + PIPE_CAP + cli.BCAP + 1 + k, k))
        import concurrent.futures
        with concurrent.futures.ThreadPoolExecutor(8) as ex:
            outs = list(ex.map(lambda t: run_case(common.XT_DEBUG, fx.dir, t[0]), cons))
        nontrivial = 0
        for (c, total, k), (st, o, e) in zip(cons, outs):
            remaining = total - k
            nontrivial += 1
            info = {"argv": c.argv, "consumer_closed_after": k, "total_output": total, "observed": {"status": st, "stderr": e[:300].decode("utf-8", "replace")}}
            if e != b"":
                outcome.oracle_failures.append(dict(info, what="something was written to standard error when the consumer of stdout went away"))
            elif st == ("signal", cli.SIGPIPE):
                pass
            elif st == ("exit", 0) and remaining <= PIPE_CAP + cli.BCAP:
                pass    # everything fitted into the pipe before the consumer left
            else:
                outcome.oracle_failures.append(dict(info, what="xt was not terminated by SIGPIPE although the consumer left with %d bytes of output remaining" % remaining))
        outcome.evaluations += n_exact + len(cons)
        outcome.traces_validated += n_exact
        outcome.distinct_nontrivial += nontrivial + n_exact
        outcome.extra["broken_pipe"] = {"exact_scenarios": n_exact, "status_histogram": hist, "closing_consumer_runs": len(cons),
                                        "closing_points": ks[:15], "pipe_capacity": PIPE_CAP, "output_sizes": {"%s %s" % k: v for k, v in sizes.items()}}
        outcome.add_sample({"argv": ["-t", "json", "big.json"], "stdout": "pipe whose reader is gone", "expect": "signal 13, empty stderr"})
    finally:
        fx.close()


def replay(outcome, path):
    print(json.dumps(json.load(open(path)).get("failure"), indent=1))
    run(outcome, "quick", 1)
