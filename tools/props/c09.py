"""C09 — format detection is a transparent, total pre-selection step."""
import json
import os
import random
import subprocess

import common
import corpus

META = {
    "level": "proof",
    "technique": "Rocq proof (induction over operation programs with a capture-reader invariant; the trial cascade over that "
                 "handle) + exhaustive/seeded model-vs-implementation correspondence",
    "claim": "The rewindable input handle is proved transparent for ALL programs of reads/prefix requests/re-borrows, all "
             "short-read schedules and all fault points (unbounded), on a Gallina transliteration of src/input.rs that is "
             "diffed against the real handle on every handle program up to a length bound and on seeded random longer "
             "ones. On the model of detect.rs's cascade over that handle (DetectModel.v, diffed against detect_format): for "
             "ALL trial programs and verdicts, schedules and faults the parser that runs after detection is handed the same "
             "stream as when the format is named (C09_detected_input_is_explicit_input, C09_detection_preserves_stream); "
             "over a source that does not fail within its data, with trials that report an I/O error only after seeing one, "
             "detection NEVER ends in an error, over a reader and over a slice (C09_detection_never_errs_*). That the real "
             "third-party trials are honest in that sense, equality of detected and explicit runs and slice/reader agreement "
             "of the detected format are checked on the implementation by the property's oracle over the corpus.",
    "level_note": "Trusted: Coq kernel; the hand-written model (validated by correspondence, not generated); std::io "
                  "adapters modelled; the four third-party parser trials are observed, not proved. No axioms.",
    "needs_hooks": True,
    "trusted_base": [
        "Coq 8.16.1 kernel (coqc, full .vo build); vm_compute not used by these theorems; no native_compute",
        "axioms: none (Print Assumptions: Closed under the global context for every theorem of coq/properties/C09.v)",
        "hand-written Gallina model of src/input.rs (coq/theories/InputModel.v), tied to the code by the "
        "correspondence check (harness `handle`: every handle program up to the stated bound, plus seeded random ones)",
        "std::io::Read::read_to_end, Take, Chain and Cursor are modelled (InputModel.v: src_read_to_end, cursor_write, owned_read)",
        "extraction: Require Extraction + ExtrOcamlBasic only, no Extract Constant; OCaml driver model_driver/driver.ml",
        "Rust harness (harness/src/handle.rs, session.rs), the xt `verif` hook module src/verif.rs, tools/*.py",
        "the four parser trials (rmp-serde, serde_json, libyaml chunker, toml) are third-party: their slice/reader "
        "agreement is observed by the oracle, not proved",
    ],
    "assumptions": [
        "the input source honours the Read contract (never reports more bytes than the buffer holds)",
        "ErrorKind::Interrupted faults are excluded (std retries them forever by contract)",
    ],
    "explanation": "handle transparency is proved for all programs, schedules and fault points; that the real "
                   "handle behaves like the model is checked exhaustively for short programs and by seeded random "
                   "longer ones; detection-vs-explicit equality is observed on the corpus",
}

UNABLE = "unable to detect input format"


def run_handle(outcome, tier, seed):
    rundir = os.path.join(common.BUILD, "run", "C09")
    os.makedirs(rundir, exist_ok=True)
    corp = os.path.join(common.VERIF, "corpus", "C09", "handle.txt")
    p = subprocess.run([common.HARNESS_BIN, "handle", "--seed", str(seed), "--tier", tier, "--out", rundir,
                        "--corpus", corp], stdout=subprocess.PIPE, stderr=subprocess.PIPE, env=common.ENV, timeout=1500)
    if p.returncode != 0:
        raise RuntimeError("harness handle failed: " + p.stderr.decode()[-1000:])
    st = json.loads(p.stdout)
    ok, err = common.run_driver(os.path.join(rundir, "cases.txt"), os.path.join(rundir, "model.txt"))
    if not ok:
        raise RuntimeError("model driver failed: " + err[-500:])
    n, diffs, ndiff = common.diff_files(os.path.join(rundir, "impl.txt"), os.path.join(rundir, "model.txt"))
    if ndiff:
        cases = open(os.path.join(rundir, "cases.txt")).read().split("\n")
        for (ln, a, b) in diffs:
            outcome.disagreements.append({"what": "input handle program", "case": cases[ln - 1],
                                          "implementation": a, "model": b})
    for f in st["oracle_failures"]:
        case, _, why = f.partition(" :: ")
        outcome.oracle_failures.append({"what": "input handle is not transparent: " + why, "case": case,
                                        "replay": "harness handle-one '<case line>'"})
    outcome.evaluations += st["cases"]
    outcome.distinct_nontrivial += st["nontrivial"]
    outcome.traces_validated += n
    outcome.extra["handle_programs"] = {
        "cases": st["cases"], "exhaustive_cases": st["exhaustive_cases"], "random_cases": st["random_cases"],
        "op_histogram": st["op_hist"], "final_histogram": st["final_hist"], "distinct_results": st["distinct_results"],
        "bound": "exhaustive: data sizes 0..4, all chunkings, alphabet Read 0..5 | Prefix 0..5 | Reborrow, "
                 "program length <= %d without fault and <= %d with every fault point 0..len+1, both ways of taking "
                 "ownership; random: programs up to 40 ops over data up to 70 bytes"
                 % ((4, 3) if tier == "thorough" else (3, 2)),
    }
    for s in st["samples"]:
        outcome.add_sample(s)


def result_of(resp):
    c = resp["calls"][0] if resp.get("calls") else {}
    if resp.get("crash") or resp.get("hang") or c.get("panic"):
        return ("crash", json.dumps(resp)[:200], "")
    return ("ok" if c.get("ok") else "err", c.get("err", ""), resp.get("out", ""))


def big_inputs():
    n = 1 << 20
    yaml_block = b"items:\n" + b"".join(b"  - name: item%06d\n    v: [1, 2, 3]\n" % i for i in range(n // 30))
    yaml_flow = b"{k: [" + b", ".join(b"w%06d" % i for i in range(n // 8)) + b"]}\n"
    js = b"[" + b",".join(b'{"i":%d}' % i for i in range(n // 11)) + b"]"
    toml = b"".join(b'k%06d = "v"\n' % i for i in range(n // 13))
    toml_edge = b"".join(b'k%06d = "v"\n' % i for i in range((2 << 20) // 14))[:(2 << 20) - 14 * 3]
    toml_edge = toml_edge[:toml_edge.rfind(b"\n") + 1]
    mpk = b"\xdd" + (n // 3).to_bytes(4, "big") + b"\x81\xa1i\x01" * (n // 3)
    res = [yaml_block, yaml_flow, js, toml, toml_edge, mpk]
    assert all((1 << 20) + 1000 < len(x) < (2 << 20) for x in res), [len(x) for x in res]
    # UTF-16 YAML under 2 MiB whose UTF-8 re-encoding is over 2 MiB
    return res + corpus.big_reencoded()


def short_hex(data):
    h = data.hex() if data else "-"
    return h if len(h) <= 40000 else h[:2000] + "...(%d bytes in all: one of c09.big_inputs())" % len(data)


def run_detect_oracle(outcome, tier, seed):
    rng = random.Random(seed * 7919 + 9)
    inputs = corpus.inputs(seed, n_mut=1500 if tier == "thorough" else 350, n_rand=300 if tier == "thorough" else 60)
    try:
        import gen  # richer documents when the generator library is present
        for fmt in corpus.FORMATS:
            for _ in range(150 if tier == "thorough" else 30):
                try:
                    v = gen.gen_value(rng, depth=3, profile="toml" if fmt == "toml" else "common",
                                      root=rng.choice(["map", "seq", "map"]) if fmt != "toml" else "map")
                    inputs.append(gen.spell(v, fmt, rng))
                except Exception:
                    pass
    except ImportError:
        pass
    # short texts of every format with a multi-byte character at each alignment, under every small fixed read size: wherever
    # a trial stops reading, some schedule ends a read inside a character there
    scheduled = [(d, None) for d in inputs]
    head = "[%sowner] # who\nid = 1 # a\nn = 2 # b\nk = 3 # c\n"
    for shift in range(4):
        pad = "x" * shift
        for text in ('[%stable]\nk = "\u00e9" # \u20ac comment\nj = 1 # \U0001f600\n' % pad, '%sk = "\u00e9\u20ac"\n# \u00e9\n' % pad,
                     '{"%sk": "\u00e9\u20ac\U0001f600"} [1]' % pad, '%sk: "\u00e9"\n# \u20ac\n---\n- \U0001f600\n' % pad,
                     '# \u00e9%s\n[t]\n"\u20ac" = 1\n' % pad):
            for n in (1, 2, 3, 4, 5, 7):
                scheduled.append((text.encode(), {"kind": "fixed", "n": n}))
        # a text that the YAML trial abandons early (a table header, then lines that end in comments) and that goes on with
        # nothing but multi-byte characters: whatever the trial's look-ahead, some read size ends its last read inside one
        for body in ("\u00e9" * 120, "\u20ac" * 80, "\U0001f600" * 60, "\u00e9\u20ac\U0001f600" * 30):
            text = (head % pad) + 's = "' + body + '"\n'
            for n in (list(range(20, 72, 3 if tier == "quick" else 1))):
                scheduled.append((text.encode(), {"kind": "fixed", "n": n}))
    # single documents of more than 1 MiB (and TOML just under its 2 MiB detection limit): no trial may stop early
    big = big_inputs()
    for data in big:
        scheduled.append((data, {"kind": "fixed", "n": 65536}))
    reqs, plan = [], []
    hx = lambda b: b.hex() if b else "-"
    for i, (data, fixed_sched) in enumerate(scheduled):
        targets = corpus.FORMATS if tier == "thorough" else [rng.choice(corpus.FORMATS)]
        if len(data) > (1 << 20):
            targets = ["json"]
        sched = fixed_sched or corpus.random_sched(rng)
        base = len(reqs)
        reqs.append({"id": len(reqs), "op": "detect", "input": hx(data), "mode": "slice"})
        reqs.append({"id": len(reqs), "op": "detect", "input": hx(data), "mode": "reader", "sched": sched})
        tplans = []
        for to in targets:
            t0 = len(reqs)
            reqs.append({"id": len(reqs), "to": to, "calls": [{"input": hx(data), "from": None, "mode": "slice"}]})
            reqs.append({"id": len(reqs), "to": to, "calls": [{"input": hx(data), "from": None, "mode": "reader", "sched": sched}]})
            tplans.append((to, t0))
        plan.append((data, sched, base, tplans))
    resps = common.harness_batch(reqs)
    # second round: explicit runs for the detected format
    reqs2, plan2 = [], []
    for data, sched, base, tplans in plan:
        ds, dr = resps[base], resps[base + 1]
        for d, mode in ((ds, "slice"), (dr, "reader")):
            if "err" in d or d.get("panic") or d.get("crash") or d.get("hang"):
                outcome.oracle_failures.append({
                    "what": "format detection failed although the input source reported no I/O error",
                    "input_hex": short_hex(data), "mode": mode, "sched": sched, "observed": d})
        fs, fr = ds.get("detected"), dr.get("detected")
        for to, t0 in tplans:
            rs, rr = result_of(resps[t0]), result_of(resps[t0 + 1])
            for f in {fs, fr} - {None}:
                e0 = len(reqs2)
                reqs2.append({"id": e0, "to": to, "calls": [{"input": hx(data), "from": f, "mode": "slice"}]})
                reqs2.append({"id": e0 + 1, "to": to, "calls": [{"input": hx(data), "from": f, "mode": "reader", "sched": sched}]})
                plan2.append((data, sched, to, f, fs, fr, rs, rr, e0))
            if fs is None and (rs[0] != "err" or rs[1] != UNABLE or rs[2] != "-"):
                outcome.oracle_failures.append({"what": "no format detected but the outcome is not 'unable to detect input format'",
                                                "input_hex": short_hex(data), "mode": "slice", "to": to, "observed": rs})
            if fr is None and (rr[0] != "err" or rr[1] != UNABLE or rr[2] != "-"):
                outcome.oracle_failures.append({"what": "no format detected but the outcome is not 'unable to detect input format'",
                                                "input_hex": short_hex(data), "mode": "reader", "sched": sched, "to": to, "observed": rr})
            if (rs[0] == "ok" or rr[0] == "ok") and fs != fr:
                outcome.oracle_failures.append({
                    "what": "an input that translates successfully is detected as %s from a slice and %s from a reader" % (fs, fr),
                    "input_hex": short_hex(data), "sched": sched, "to": to})
    resps2 = common.harness_batch(reqs2)
    nontrivial = set()
    for data, sched, to, f, fs, fr, rs, rr, e0 in plan2:
        es, er = result_of(resps2[e0]), result_of(resps2[e0 + 1])
        for mode, det, r in (("slice", fs, rs), ("reader", fr, rr)):
            if det != f:
                continue
            if r != es and r != er:
                outcome.oracle_failures.append({
                    "what": "detected run differs from the explicit run for the detected format %s" % f,
                    "input_hex": short_hex(data), "mode": mode, "sched": sched, "to": to,
                    "detected_run": r, "explicit_slice": es, "explicit_reader": er})
            nontrivial.add((data, to, mode))
    outcome.evaluations += len(reqs) + len(reqs2)
    outcome.distinct_nontrivial += len(nontrivial)
    det_hist = {}
    for data, sched, base, tplans in plan:
        k = str(resps[base].get("detected"))
        det_hist[k] = det_hist.get(k, 0) + 1
    outcome.extra["detection_oracle"] = {"inputs": len(inputs), "requests": len(reqs) + len(reqs2),
                                         "detected_histogram": det_hist,
                                         "detected_vs_explicit_comparisons": len(plan2) * 2}
    for data, sched, base, tplans in plan[:2] + plan[len(plan) // 2:len(plan) // 2 + 1]:
        outcome.add_sample({"input_hex": short_hex(data), "detected": resps[base].get("detected"), "sched": sched})


def shared_prefix(a_hex, b_hex):
    a = "" if a_hex in ("-", None) else a_hex
    b = "" if b_hex in ("-", None) else b_hex
    return a.startswith(b) or b.startswith(a)


def run_interrupt_oracle(outcome, tier, seed):
    """A read that fails once with ErrorKind::Interrupted and changes nothing: the source did report an I/O error, so the
    property lets the run fail (xt's YAML path does not retry, and a trial may then answer 'not this format'); what it never
    allows is a translator that sees other bytes than the stream's: a run that SUCCEEDS must give the uninterrupted output,
    and one that fails must have written a prefix of it."""
    docs = [b'{"a":[1,2,3],"b":"xyzw"}\n{"c":null}\n', b"a: [1, 2]\nb: {c: d}\n---\n- x\n", corpus.mp({"a": [1, 2, 3], "b": "xyzw"}) + corpus.mp([1, {"k": "v"}]),
            b'a = 1\n[t]\nb = "x"\n', "\u078b: \u078b\n".encode(), b"\xff\xfe" + "k: \u00e9\n".encode("utf-16-le"), b'  [1, 2.5, "three"]  ']
    reqs, meta = [], []
    for data in docs:
        for sched in ({"kind": "fixed", "n": 1}, {"kind": "fixed", "n": 5}, {"kind": "fixed", "n": 8192}):
            for to in (("json", "msgpack") if tier == "quick" else corpus.FORMATS):
                base = len(reqs)
                reqs.append({"id": base, "to": to, "calls": [{"input": data.hex(), "from": None, "mode": "reader", "sched": sched}]})
                n_calls = min(len(data) // sched["n"] + 4, 48 if tier == "thorough" else 24)
                for k in range(n_calls):
                    reqs.append({"id": len(reqs), "to": to, "calls": [{"input": data.hex(), "from": None, "mode": "reader", "sched": sched, "rintr": k}]})
                meta.append((data, sched, to, base, n_calls))
    resps = common.harness_batch(reqs)
    for data, sched, to, base, n_calls in meta:
        free = result_of(resps[base])
        for k in range(n_calls):
            r = result_of(resps[base + 1 + k])
            altered = (r[0] == "ok" and (free[0] != "ok" or r[2] != free[2])) or r[0] == "crash" or \
                (r[0] == "err" and not shared_prefix(r[2], free[2]))
            if altered:
                outcome.oracle_failures.append({"what": "after a read interrupted once (ErrorKind::Interrupted at read call %d, nothing consumed) the translator "
                                                        "sees other bytes than the stream's: the run succeeds with another output, or wrote something that is "
                                                        "not a prefix of the uninterrupted output" % k, "input_hex": data.hex(), "sched": sched, "to": to, "interrupted_call": k,
                                                "uninterrupted": free, "observed": r})
                break
    outcome.evaluations += len(reqs)
    outcome.extra["interrupted_read_oracle"] = {"requests": len(reqs), "inputs": len(docs), "read_sizes": [1, 5, 8192]}


def run(outcome, tier, seed):
    outcome.rule = ("handle programs: enumerated/seeded as described under handle_programs.bound; non-trivial = a reader "
                    "handle over non-empty data with at least one read or prefix that returned bytes, counted over distinct "
                    "(case, result) pairs. detection oracle: corpus inputs x targets x {slice, reader}; non-trivial = a "
                    "format was detected and the detected run was compared with the explicit runs")
    if outcome.hooks_available:
        run_handle(outcome, tier, seed)
        # the trial cascade of DetectModel.v (the subject of the "never errs" and "same input" theorems) against detect_format
        from props import c10
        c10.run_order_correspondence(outcome, tier, seed)
        run_detect_oracle(outcome, tier, seed)
        run_interrupt_oracle(outcome, tier, seed)
    else:
        outcome.notes.append("verif hooks unavailable: hook-level correspondence not run")


def replay(outcome, path):
    r = json.load(open(path))
    print(json.dumps(r.get("failure", r), indent=1))
    run(outcome, "quick", 1)
