"""C07 — YAML in UTF-16/UTF-32 translates exactly like the same text in UTF-8."""
import json
import random

import common
import corpus
from props import shared

META = {
    "level": "proof",
    "needs_hooks": True,
    "technique": "Rocq proofs about a Gallina model of the re-encoder (stream-level exactness for every text and every "
                 "sequence of buffer sizes, and its converse for all input bytes, by invariants over the emit loop; "
                 "scalar-only decoding, exact surrogate pairing, encoding detection) + exhaustive/seeded "
                 "model-vs-implementation correspondence + translation oracle",
    "claim": "On a Gallina transliteration of src/yaml/encoding.rs it is proved that for EVERY text (list of scalar values), "
             "either width, either byte order, with or without a leading U+FEFF, named or detected encoding, and EVERY "
             "sequence of read-buffer sizes, what is read through the re-encoder is exactly the UTF-8 of the text, never an "
             "error (C07_reencoded_stream_exact/_detected); conversely for ALL input bytes, reading to the end without an "
             "error implies the input is the encoding of a scalar sequence and the output its UTF-8, so ill-formed input "
             "always ends in an error (C07_success_means_wellformed). Also, for all decoder states and all code points, "
             "the decoders only ever construct Unicode scalar values, surrogate pairing is exact, and "
             "encoding detection is right for every text starting with a BOM or an ASCII character. The model (decoders, "
             "UTF-8 encoder with its remainder buffer, BOM stripping, from_reader) is diffed against the real re-encoder "
             "for every scalar value (thorough) or edges plus a sample (quick), every ill-formed one- and two-unit class, "
             "with read-buffer sizes 0..9 and source buffer capacities 1..8192. Equality of the translation of encoded "
             "and UTF-8 text is checked on the implementation by the oracle (4 encodings x BOM x slice/reader x "
             "explicit/detected).",
    "level_note": "Trusted: Coq kernel; hand-written model validated by correspondence; the source is fault-free in the "
                  "model (faults are C12's subject); that libyaml/serde_yaml then parse the same bytes the same way is "
                  "third-party behaviour observed by the oracle. No axioms.",
    "trusted_base": [
        "Coq 8.16.1 kernel (coqc, full .vo build); no axioms",
        "hand-written Gallina model coq/theories/UtfModel.v of src/yaml/encoding.rs (`<< 10 |` written as `* 1024 +`), "
        "tied to the code by the correspondence check through the hooks yaml_encoder_new / yaml_encoder_from_reader / "
        "yaml_encoding_detect",
        "extraction (ExtrOcamlBasic only), model_driver/driver.ml, harness/src/utf.rs, session.rs, tools/*.py",
        "libyaml/serde_yaml parse the re-encoded text (shared with the UTF-8 path; third-party)",
    ],
    "assumptions": ["BufRead sources honour the Read/BufRead contracts"],
    "explanation": "the re-encoder's stream-level behaviour is proved for all texts and buffer sizes in both directions; "
                   "that the real encoder behaves like the model is established by correspondence (exhaustive over "
                   "scalar values in the thorough tier), end-to-end equality of translations by the oracle",
}

ENCODINGS = ["utf-16-be", "utf-16-le", "utf-32-be", "utf-32-le"]
# texts at the edges of encoding detection: a single character (fewer bytes than detection looks at), white space first,
# characters of the planes beyond the first supplementary one; every variant of these is run in both tiers
EDGE = ["7", "a", "~", "-", "ab", "- ", "  a: 1\n", " - 1\n", "\na: 1\n", "\r\na: 1\r\n", "\n\n- x\n", "k: \U00020bb7\U0002f800\U000e0100\U0010fffd\n",
        "\U00020000: \U0003134f\n", "# \u00e9\nk: v\n"]


def yaml_texts(rng, tier):
    texts = []
    for d in corpus.YAML_DOCS:
        try:
            t = d.decode("utf-8")
        except UnicodeDecodeError:
            continue
        if t and "\x00" not in t:
            texts.append(t)
    extra = ["a: b\n", "- x\n- y\n", "k: \u00e9\u00e8\n", "e: \U0001F600\n", "s: \"\\u00e9\"\n", "a: [1, 2, 3]\n---\nb: 2\n",
             "x: \ufffd\n", "k: \ud7ff\ue000\n", "n: \U0010FFFF\n", "\u0416: 1\n", "a: '\u2028'\n", "q: \u00a0z\n"]
    texts += extra + [t for t in EDGE if t[0].isascii()]
    try:
        import gen
        for _ in range(400 if tier == "thorough" else 60):
            v = gen.gen_value(rng, depth=3, profile="common")
            try:
                t = gen.spell(v, "yaml", rng).decode("utf-8")
            except Exception:
                continue
            if "\x00" not in t and t[:1].isascii() and len(t) >= 2:
                texts.append(t)
    except ImportError:
        pass
    # Detection is specified for texts that start with an ASCII character (YAML 1.2 section 5.2)
    return [t for t in texts if t[0].isascii() and t[0] != "\ufeff"]


def run_api_oracle(outcome, tier, seed):
    rng = random.Random(seed + 7)
    texts = yaml_texts(rng, tier)
    reqs, meta = [], []
    for t in texts:
        u8 = t.encode("utf-8")
        to = rng.choice(corpus.FORMATS) if tier == "quick" and t not in EDGE else None
        targets = [to] if to else ["json", "msgpack", "yaml"]
        for to in targets:
            base = len(reqs)
            reqs.append({"id": base, "to": to, "calls": [{"input": shared.hx(u8), "from": "yaml", "mode": "slice"}]})
            reqs.append({"id": base + 1, "to": to, "calls": [{"input": shared.hx(u8), "from": None, "mode": "slice"}]})
            reqs.append({"id": base + 2, "op": "detect", "input": shared.hx(u8), "mode": "slice"})
            variants = []
            for enc in ENCODINGS:
                for bom in (False, True):
                    data = (("\ufeff" if bom else "") + t).encode(enc)
                    for frm in ("yaml", None):
                        for mode in ("slice", "reader"):
                            if tier == "quick" and t not in EDGE and rng.random() < 0.5:
                                continue
                            sched = corpus.random_sched(rng)
                            reqs.append({"id": len(reqs), "to": to,
                                         "calls": [{"input": shared.hx(data), "from": frm, "mode": mode, "sched": sched}]})
                            variants.append((len(reqs) - 1, enc, bom, frm, mode, sched, data))
            meta.append((t, to, base, variants))
    # ill-formed streams must be errors
    ill = []
    for enc, mk in (("utf-16-be", lambda us: b"".join(u.to_bytes(2, "big") for u in us)),
                    ("utf-16-le", lambda us: b"".join(u.to_bytes(2, "little") for u in us)),
                    ("utf-32-be", lambda us: b"".join(u.to_bytes(4, "big") for u in us)),
                    ("utf-32-le", lambda us: b"".join(u.to_bytes(4, "little") for u in us))):
        head = [ord(c) for c in "a: "]
        bad16 = [[0xDC00], [0xD800], [0xD800, 0x41], [0xDC00, 0xD800], [0xD800, 0xD800], [0xDFFF, 0x41]]
        bad32 = [[0xD800], [0xDFFF], [0x110000], [0xFFFFFFFF]]
        for bad in (bad32 if "32" in enc else bad16):
            ill.append((enc, mk(head + bad + [0x0A])))
        ill.append((enc, mk(head + [0x41])[:-1]))  # truncated code unit
    ill_base = len(reqs)
    for enc, data in ill:
        for frm in ("yaml", None):
            for mode in ("slice", "reader"):
                reqs.append({"id": len(reqs), "to": "json",
                             "calls": [{"input": shared.hx(data), "from": frm, "mode": mode, "sched": {"kind": "fixed", "n": 3}}]})
    resps = common.harness_batch(reqs)
    comparisons = 0
    for t, to, base, variants in meta:
        refs = {"yaml": shared.session_result(resps[base]), None: shared.session_result(resps[base + 1])}
        for idx, enc, bom, frm, mode, sched, data in variants:
            # like with like: explicit YAML against explicit YAML, detected against detected.  The detected
            # comparison is made for texts that xt detects as YAML in their UTF-8 form: a UTF-8 text that another
            # trial claims first (a JSON scalar such as "str" or true) is not a YAML translation at all.
            if frm is None and (not outcome.hooks_available or resps[base + 2].get("detected") != "yaml"):
                continue
            ref = refs[frm]
            got = shared.session_result(resps[idx])
            comparisons += 1
            same = got[0] == ref[0] and (got[2] == ref[2] if got[0] == "ok" else shared.is_prefix_comparable(got[2], ref[2]))
            if got[0] == "crash" or not same:
                outcome.oracle_failures.append({
                    "what": "YAML text in %s%s translates differently from the same text in UTF-8" % (enc, " with BOM" if bom else ""),
                    "text": t, "input_hex": shared.hx(data), "from": frm or "detect", "to": to, "mode": mode, "sched": sched,
                    "utf8_result": ref, "encoded_result": got})
    k = ill_base
    for enc, data in ill:
        for frm in ("yaml", None):
            for mode in ("slice", "reader"):
                got = shared.session_result(resps[k])
                k += 1
                comparisons += 1
                if got[0] != "err":
                    outcome.oracle_failures.append({"what": "ill-formed %s input is not reported as an error" % enc,
                                                    "input_hex": shared.hx(data), "from": frm or "detect", "mode": mode, "observed": got})
    outcome.evaluations += len(reqs)
    outcome.distinct_nontrivial += comparisons
    outcome.extra["translation_oracle"] = {"texts": len(texts), "requests": len(reqs), "comparisons": comparisons,
                                           "ill_formed_streams": len(ill)}
    outcome.add_sample({"text": texts[0], "encodings": ENCODINGS, "bom": [False, True]})


def run(outcome, tier, seed):
    outcome.rule = ("re-encoder: cases as listed under reencoder_correspondence (non-trivial = a non-empty well-formed text whose "
                    "bytes were compared with the UTF-8 text, or an ill-formed stream checked to end in an error); translation "
                    "oracle: (text, target, encoding, BOM, explicit/detected, slice/reader) combinations compared with the UTF-8 "
                    "translation (non-trivial = each comparison)")
    if outcome.hooks_available:
        st = shared.harness_corr(outcome, "utf", "YAML re-encoder", tier, seed)
        for f in st["oracle_failures"]:
            outcome.oracle_failures.append({"what": "re-encoder output is not the UTF-8 of the text / ill-formed input not rejected",
                                            "case": f})
        outcome.distinct_nontrivial += st["nontrivial"]
        outcome.extra["reencoder_correspondence"] = {
            "cases": st["cases"], "kinds": st["kinds"], "endings": st["ends"], "scalar_values_covered": st["scalars_covered"],
            "all_scalar_values": st["exhaustive_scalars"],
            "bound": "scalar values in batches of 48 per encoding with and without BOM; ill-formed UTF-16 one/two/three-unit "
                     "sequences over surrogate edges plus seeded random ones, odd byte counts; UTF-32 edges with truncations; "
                     "from_reader on seeded texts in 5 encodings; detect() on every prefix over a 6-byte alphabet up to "
                     "length 5; read-buffer sizes 0..9, source BufReader capacities 1..8192, 1-byte/random/full source reads"}
        if st["exhaustive_scalars"]:
            outcome.extra["exhaustive"] = True
        for s in st["samples"][:3]:
            outcome.add_sample(s[:400])
    run_api_oracle(outcome, tier, seed)


def replay(outcome, path):
    print(json.dumps(json.load(open(path)).get("failure"), indent=1))
    run(outcome, "quick", 1)
