"""C11 — errors name their true cause."""
import json
import random
import re

import common
import corpus
from props import shared

META = {
    "level": "proof",
    "needs_hooks": True,
    "technique": "Rocq proof (structural induction over deserializer scripts, refinement of the transcoder's error registers "
                 "to a first-fault-wins specification) + exhaustive model-vs-implementation correspondence + error-text oracle",
    "claim": "On a Gallina transliteration of src/transcode/stream.rs (Visitor, Forwarder, the three seeds and their State "
             "registers) it is proved for ALL deserializer scripts and ALL serializer failure schedules that the transcoder "
             "reports the side that failed first with its original error, never the synthetic text for an input-side "
             "failure, and never panics; the pinned tree's variant is proved wrong on the D4 witness. The model is diffed "
             "against the real transcoder (through the transcode hook, with a scripted Deserializer and a recording, failing "
             "Serializer) on every script up to 4 (thorough: 5) nodes x every single fault position, all 17 visit methods at "
             "width boundaries, and seeded random larger scripts. With real formats the oracle plants syntax errors, "
             "unrepresentable values and writer faults at every output byte and checks the error text.",
    "level_note": "Trusted: Coq kernel; hand-written model validated by correspondence; serde API usage by the third-party "
                  "(de)serializers (a collection serializer returns its element's error unchanged; deserializers only "
                  "decorate errors passing through them) is a stated contract, exercised by the oracle. No axioms.",
    "trusted_base": [
        "Coq 8.16.1 kernel (coqc, full .vo build); vm_compute in the proof of the refutation witness only; no axioms",
        "hand-written Gallina model coq/theories/TranscodeModel.v of src/transcode/stream.rs, tied to the code by the "
        "correspondence check through the hook xt::verif::transcode",
        "contract: serializers propagate an element's serialization error unchanged; deserializers call at most one visit "
        "method and only decorate errors (serde API usage of serde_json, serde_yaml, rmp-serde, toml)",
        "extraction (ExtrOcamlBasic only), model_driver/driver.ml, harness/src/transcode.rs, session.rs, tools/*.py",
    ],
    "assumptions": ["error identity survives decoration (serde_json adds line/column to custom errors)"],
    "explanation": "attribution is proved on the model for all scripts and schedules; the model is tied to the code by "
                   "exhaustive small-script correspondence; error texts of the real formats are checked by the oracle",
}

BARE_SYNTHETIC = re.compile(r"translation failed( at line \d+ column \d+)?\s*$")
STREAMING = ["json", "msgpack", "yaml"]

UNREPRESENTABLE = [
    # (source format, input bytes, target, substring of the serializer's own reason)
    ("yaml", b"~: 1\n", "json", "key must be a string"),
    ("yaml", b"a:\n  - {[1, 2]: x}\n", "json", "key must be a string"),
    ("msgpack", corpus.mp({None: 1}), "json", "key must be a string"),
    ("msgpack", corpus.mp({"a": [1, {"b": {None: 2}}]}), "json", "key must be a string"),
    ("msgpack", corpus.mp({"k": {(1, 2): 2}}) if False else b"\x81\xa1k\x81\x92\x01\x02\x03", "json", "key must be a string"),
    ("msgpack", corpus.mp({"a": b"\x00\x01"}), "yaml", "bytes"),
    ("msgpack", corpus.mp([1, [2, [b"xy"]]]), "yaml", "bytes"),
    ("msgpack", corpus.mp({b"k": 1}), "yaml", "bytes"),
    ("json", b'{"a": null}', "toml", ("unsupported unit type", "expected any valid TOML value")),
    ("json", b'{"a": [1, {"b": null}]}', "toml", ("unsupported unit type", "expected any valid TOML value")),
    ("yaml", b"a: {b: [~]}\n", "toml", ("expected any valid TOML value",)),
    ("msgpack", corpus.mp({"a": {"b": None}}), "toml", ("expected any valid TOML value",)),
    ("json", b'{"a": 18446744073709551615}', "toml", ("u64 value was too large",)),
    ("json", b'[1, 2]', "toml", "root of TOML output must be a table"),
]
# the same causes where the parser's own context is long: a YAML path of sixteen long keys, a TOML line of 200 characters
# (quoted and underlined in the message); the cause comes last in these messages
_KEYS = ["key%02d_abcdefghijklmnopqr" % i for i in range(16)]
_DEEP = "".join("  " * i + k + ":\n" for i, k in enumerate(_KEYS))
_PAD = "x" * 200
LONG_TOML = ('k = "%s"\n' % _PAD).encode()
UNREPRESENTABLE += [
    ("yaml", (_DEEP + "  " * 16 + "leaf: ~\n").encode(), "toml", ("expected any valid TOML value",)),
    ("yaml", (_DEEP + "  " * 16 + "~: 1\n").encode(), "json", "key must be a string"),
    ("toml", ('k = "%s" @\n' % _PAD).encode(), "json", "expected newline"),
    ("toml", ('k = "%s" @\n' % _PAD).encode(), "msgpack", "expected newline"),
    ("toml", ('k = { a = "%s", b = 18446744073709551615 }\n' % _PAD).encode(), "yaml", "number too large to fit in target type"),
]


def planted_syntax_errors(rng, tier):
    """Valid documents of the common model with one byte damaged."""
    res = []
    bases = {
        "json": [b'{"a":[1,2,{"b":"x"}],"c":true}', b'[1,[2,[3,[4]]]]', b'{"k":{"l":{"m":[1.5,"s"]}}}\n{"n":1}\n'],
        "yaml": [b"a:\n  - 1\n  - b: x\nc: true\n", b"- [1, [2, [3]]]\n- k: v\n", b"---\na: 1\n---\nb: [1, 2]\n"],
        "toml": [b'a = [1, 2]\n[t]\nb = "x"\n', b'k = {l = {m = [1.5, "s"]}}\n'],
        "msgpack": [corpus.mp({"a": [1, 2, {"b": "x"}], "c": True}), corpus.mp([1, [2, [3, [4]]]]) + corpus.mp({"n": 1})],
    }
    n = 60 if tier == "thorough" else 14
    for fmt, docs in bases.items():
        for d in docs:
            for _ in range(n):
                i = rng.randrange(len(d))
                if fmt == "msgpack":
                    bad = d[:i] + bytes([rng.choice([0xC1, 0xC1, 0xDF, 0xD9])]) + d[i + 1:] if rng.random() < 0.6 else d[:i]
                else:
                    bad = d[:i] + rng.choice([b"]", b"}", b"{", b",", b"\x00", b'"', b"@", b":", b"\t"]) + d[i + (rng.random() < 0.5):]
                res.append((fmt, bad))
    return res


def run_text_oracle(outcome, tier, seed):
    rng = random.Random(seed + 11)
    reqs, plans = [], []
    # (a) planted syntax errors: compare the three streaming targets
    for fmt, data in planted_syntax_errors(rng, tier):
        for mode in ("slice", "reader"):
            sched = corpus.random_sched(rng)
            base = len(reqs)
            for to in STREAMING:
                reqs.append({"id": len(reqs), "to": to, "calls": [{"input": shared.hx(data), "from": fmt, "mode": mode, "sched": sched}]})
            plans.append(("syntax", fmt, data, mode, sched, base))
    # (b) unrepresentable values
    for fmt, data, to, reason in UNREPRESENTABLE:
        for mode in ("slice", "reader"):
            base = len(reqs)
            reqs.append({"id": base, "to": to, "calls": [{"input": shared.hx(data), "from": fmt, "mode": mode, "sched": {"kind": "fixed", "n": 2}}]})
            plans.append(("unrep", fmt, data, mode, (to, reason), base))
    # (c) positions: an '@' where a JSON value should stand, after every kind of leading white space and in later documents;
    # serde_json names the line and the byte column of the offending character
    for data in (b'\n\n  {"a": @}', b'  \t{"a":1,\n "b": @}', b'\r\n{\r\n"a": [1, @]}', b'{"a":1}\n\n {"b": @}', b" [1,2,@]", b"@", b"\n@",
                 b'{"k":"\xc3\xa9\xc3\xa9", "b": @}', b"\n" * 40 + b" " * 70 + b"[@]", b'[1]\n[2]\n[3, @]\n'):
        k = data.index(b"@")
        want = "expected value at line %d column %d" % (data[:k].count(b"\n") + 1, k - (data[:k].rfind(b"\n") + 1) + 1)
        for mode in ("slice", "reader"):
            for to in STREAMING:
                base = len(reqs)
                reqs.append({"id": base, "to": to, "calls": [{"input": shared.hx(data), "from": "json", "mode": mode, "sched": {"kind": "fixed", "n": 3}}]})
                plans.append(("position", "json", data, mode, (to, want), base))
    # (d) text that is wrong before any document starts must fail from a slice and from a reader alike
    for fmt, data in (("yaml", b'"unterminated\n'), ("yaml", b"'unterminated\n"), ("yaml", b"@at\n"), ("yaml", b"# c\n`tick\n"),
                      ("yaml", b"%YAML 1.1\n%YAML 1.1\n---\na: 1\n"), ("yaml", b"\x01a: 1\n"), ("yaml", b"# c\n" * 2800 + b"\x01\n---\na: 1\n"),
                      ("json", b"   "+ b"]"), ("toml", b"= 1\n"), ("msgpack", b"\xc1")):
        for mode in ("slice", "reader"):
            for to in STREAMING:
                base = len(reqs)
                reqs.append({"id": base, "to": to, "calls": [{"input": shared.hx(data), "from": fmt, "mode": mode, "sched": {"kind": "fixed", "n": 5}}]})
                plans.append(("mustfail", fmt, data, mode, (to, None), base))
    resps = common.harness_batch(reqs)
    checked = 0
    for kind, fmt, data, mode, extra, base in plans:
        if kind == "position":
            to, want = extra
            r = shared.session_result(resps[base])
            checked += 1
            if r[0] != "err" or r[1] != want:
                outcome.oracle_failures.append({"what": "the message does not name the position of the offending character (%r expected)" % want,
                                                "from": fmt, "to": to, "mode": mode, "input_hex": shared.hx(data), "observed": r[:2]})
            continue
        if kind == "mustfail":
            r = shared.session_result(resps[base])
            checked += 1
            if r[0] != "err" or not r[1].strip():
                outcome.oracle_failures.append({"what": "malformed input is not reported at all (no error, or an empty message)",
                                                "from": fmt, "to": extra[0], "mode": mode, "input_hex": shared.hx(data)[:400], "observed": r[:2]})
            continue
        if kind == "syntax":
            rs = {to: shared.session_result(resps[base + i]) for i, to in enumerate(STREAMING)}
            for to, r in rs.items():
                checked += 1
                if r[0] == "crash":
                    outcome.oracle_failures.append({"what": "crash on damaged input", "from": fmt, "to": to, "mode": mode,
                                                    "input_hex": shared.hx(data), "observed": r[1]})
                if r[0] == "err" and BARE_SYNTHETIC.search(r[1]):
                    outcome.oracle_failures.append({"what": "the error text is xt's synthetic 'translation failed' with the real cause dropped",
                                                    "from": fmt, "to": to, "mode": mode, "sched": extra, "input_hex": shared.hx(data), "error": r[1]})
            m = rs["msgpack"]
            if m[0] == "err":
                # MessagePack can represent everything, so this failure is the input's: the other streaming
                # targets must fail too, with the same parser message or with their own serializer's reason
                for to in ("json", "yaml"):
                    r = rs[to]
                    if r[0] == "ok":
                        outcome.oracle_failures.append({"what": "malformed input fails to MessagePack but succeeds to %s" % to,
                                                        "from": fmt, "mode": mode, "input_hex": shared.hx(data), "msgpack_error": m[1]})
                    elif r[0] == "err" and r[1] != m[1] and "translation failed" not in r[1]:
                        outcome.oracle_failures.append({"what": "the input parser's message differs between streaming targets",
                                                        "from": fmt, "mode": mode, "sched": extra, "input_hex": shared.hx(data),
                                                        "msgpack_error": m[1], to + "_error": r[1]})
                if "translation failed" in m[1]:
                    outcome.oracle_failures.append({"what": "an input-side failure mentions 'translation failed'", "from": fmt,
                                                    "mode": mode, "input_hex": shared.hx(data), "error": m[1]})
        else:
            to, reason = extra
            r = shared.session_result(resps[base])
            checked += 1
            reasons = reason if isinstance(reason, tuple) else (reason,)
            if r[0] != "err" or not any(x in r[1] for x in reasons):
                outcome.oracle_failures.append({"what": "an output-side refusal does not carry the target serializer's reason (%r)" % reason,
                                                "from": fmt, "to": to, "mode": mode, "input_hex": shared.hx(data), "observed": r[:2]})
    outcome.evaluations += len(reqs)
    outcome.distinct_nontrivial += checked
    outcome.extra["text_oracle"] = {"requests": len(reqs), "results_checked": checked}


def run_writer_faults(outcome, tier, seed):
    rng = random.Random(seed + 111)
    docs = [("json", b'{"a":[1,2],"b":{"c":"x","d":[true,null]}}'), ("json", b'{"a":[1,2]}'), ("json", b'[[1,2],[3,4]]\n[5]\n'),
            ("yaml", b"a: [1, 2]\nb:\n  c: x\n"), ("msgpack", corpus.mp({"a": [1, 2], "b": {"c": "x"}})),
            ("toml", b'a = [1, 2]\n[b]\nc = "x"\n'), ("toml", LONG_TOML), ("yaml", (_DEEP + "  " * 16 + "leaf: [1, 2]\n").encode())]
    reqs, plans = [], []
    # fault-free outputs first
    free = []
    for fmt, data in docs:
        for to in corpus.FORMATS:
            free.append({"id": len(free), "to": to, "calls": [{"input": shared.hx(data), "from": fmt, "mode": "slice"}]})
    fr = common.harness_batch(free)
    i = 0
    for fmt, data in docs:
        for to in corpus.FORMATS:
            r = shared.session_result(fr[i])
            i += 1
            if r[0] != "ok":
                continue
            n = len(bytes.fromhex(r[2])) if r[2] != "-" else 0
            ks = range(n) if (tier == "thorough" or n <= 48) else sorted(rng.sample(range(n), 48))
            for k in ks:
                for mode in ("slice", "reader"):
                    reqs.append({"id": len(reqs), "to": to, "wfault": k,
                                 "calls": [{"input": shared.hx(data), "from": fmt, "mode": mode, "sched": {"kind": "fixed", "n": 3}}]})
                    plans.append((fmt, data, to, mode, k, r[2]))
    resps = common.harness_batch(reqs)
    for (fmt, data, to, mode, k, full), resp in zip(plans, resps):
        r = shared.session_result(resp)
        mark = "INJECTED-WRITE-FAULT@%d" % k
        # rmp-serde's own Display of a failed write does not quote the io::Error (it is only in source()):
        # its reason is the fixed phrase "error while writing ..."; the other three serializers quote the writer.
        has_reason = mark in r[1] or (to == "msgpack" and "error while writing" in r[1])
        if r[0] != "err" or not has_reason:
            outcome.oracle_failures.append({
                "what": "a writer that fails from output byte %d on: the error text does not contain the writer's reason" % k,
                "from": fmt, "to": to, "mode": mode, "input_hex": shared.hx(data), "wfault": k,
                "failing_output_byte": full[2 * k:2 * k + 2], "observed": r[:2]})
    outcome.evaluations += len(reqs) + len(free)
    outcome.distinct_nontrivial += len(reqs)
    outcome.extra["writer_fault_oracle"] = {"requests": len(reqs), "documents": len(docs)}
    outcome.add_sample({"from": "json", "input": '{"a":[1,2]}', "to": "json", "wfault": "every output byte 0..11",
                        "expect": "error text contains INJECTED-WRITE-FAULT@k"})


def run(outcome, tier, seed):
    outcome.rule = ("transcoder scripts: every script up to the node bound x every single serializer fault position, 17 methods x "
                    "boundary payloads, seeded random scripts (non-trivial = distinct failing multi-node cases); text oracle: "
                    "damaged documents x 3 streaming targets x slice/reader, unrepresentable values, writer faults at every "
                    "output byte (non-trivial = each checked result)")
    if outcome.hooks_available:
        st = shared.harness_corr(outcome, "transcode", "streaming transcoder (scripted deserializer / failing serializer)", tier, seed)
        for f in st["oracle_failures"]:
            case, _, why = f.partition(" :: ")
            outcome.oracle_failures.append({"what": "transcoder attribution: " + why, "case": case})
        outcome.distinct_nontrivial += st["nontrivial"]
        outcome.extra["transcoder_correspondence"] = {
            "cases": st["cases"], "exhaustive_scripts": st["exhaustive_scripts"], "max_nodes": st["max_nodes"],
            "outcomes": st["outcomes"],
            "bound": "all scripts with <= %d nodes over {scalar u64, failing deserializer, seq/map with or without a failing "
                     "tail and a failing close} x no fault and every single serializer step; 17 visit methods x boundary "
                     "payloads at top level, in a seq and as map key/value; random scripts to depth 5 with up to 2 faults" % st["max_nodes"]}
        for s in st["samples"][:4]:
            outcome.add_sample(s)
    run_text_oracle(outcome, tier, seed)
    run_writer_faults(outcome, tier, seed)


def replay(outcome, path):
    print(json.dumps(json.load(open(path)).get("failure"), indent=1))
    run(outcome, "quick", 1)
