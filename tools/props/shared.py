"""Pieces shared by several property checks."""
import json
import os
import subprocess

import common


def harness_corr(outcome, sub, what, tier, seed, extra_args=()):
    """Runs `harness <sub>` (which writes cases.txt/impl.txt and prints stats),
    the model driver on the cases, and diffs.  Returns the stats."""
    rundir = os.path.join(common.BUILD, "run", outcome.pid + "_" + sub)
    os.makedirs(rundir, exist_ok=True)
    p = subprocess.run([common.HARNESS_BIN, sub, "--seed", str(seed), "--tier", tier, "--out", rundir] + list(extra_args),
                       stdout=subprocess.PIPE, stderr=subprocess.PIPE, env=common.ENV, timeout=3000)
    if p.returncode != 0:
        raise RuntimeError("harness %s failed: %s" % (sub, p.stderr.decode()[-1000:]))
    st = json.loads(p.stdout)
    ok, err = common.run_driver(os.path.join(rundir, "cases.txt"), os.path.join(rundir, "model.txt"))
    if not ok:
        raise RuntimeError("model driver failed: " + err[-500:])
    n, diffs, ndiff = common.diff_files(os.path.join(rundir, "impl.txt"), os.path.join(rundir, "model.txt"))
    if ndiff:
        cases = open(os.path.join(rundir, "cases.txt")).read().split("\n")
        for (ln, a, b) in diffs:
            outcome.disagreements.append({"what": what, "case": cases[ln - 1][:4000],
                                          "implementation": a[:4000], "model": b[:4000]})
        outcome.extra.setdefault("disagreement_counts", {})[sub] = ndiff
    outcome.traces_validated += n
    outcome.evaluations += st.get("cases", n)
    return st


def msgpack_correspondence(outcome, tier, seed, oracle=True):
    """Model/implementation correspondence of the MessagePack model (size calculator, both document loops with the writer's
    bytes, detection trial).  oracle=False: the harness's own slice-vs-reader comparison is another property's business."""
    st = harness_corr(outcome, "msgpack", "MessagePack size calculator / document loops / detection trial", tier, seed)
    for f in (st["oracle_failures"] if oracle else []):
        outcome.oracle_failures.append({"what": "MessagePack slice vs reader: " + f.split(": ", 1)[1],
                                        "input_hex": f.split(": ", 1)[0].replace("input ", ""),
                                        "from": "msgpack", "to": "msgpack"})
    outcome.distinct_nontrivial += st["nontrivial"]
    outcome.extra["msgpack_correspondence"] = {
        "model_queries": st["cases"], "input_kinds": st["kinds"], "verdicts": st["verdicts"],
        "bound": "every byte string of length <= %d over a 30-byte alphabet (markers of every class, plus the bytes 0x0a 0x0d 0x20 that a text tool would call whitespace); all 256 markers x 11 filler lengths; "
                 "seeded random well-formed values with truncations/mutations; nesting windows around 1024 in 7 shapes x 6 "
                 "innermost values; each input: next_value_size at limits 1024/1/2/3, both document loops with writer "
                 "bytes, and the detection trial" % st["exhaustive_len"],
    }
    for s in st["samples"]:
        outcome.add_sample(s)
    return st


def session_result(resp, i=0):
    """(verdict, error text, output hex) of call i of a session response."""
    if resp.get("crash") or resp.get("hang"):
        return ("crash", json.dumps(resp)[:300], "")
    c = resp["calls"][i]
    if c.get("panic"):
        return ("crash", "panic: " + c.get("err", ""), resp.get("out", ""))
    return ("ok" if c.get("ok") else "err", c.get("err", ""), resp.get("out", ""))


def hx(b):
    return b.hex() if b else "-"


def is_prefix_comparable(a_hex, b_hex):
    a = "" if a_hex == "-" else a_hex
    b = "" if b_hex == "-" else b_hex
    return a.startswith(b) or b.startswith(a)
