"""Pieces shared by several property checks."""
import json
import os
import subprocess

import common


def harness_corr(outcome, sub, what, tier, seed, extra_args=()):
    """Runs `harness <sub>` (which writes cases.txt/impl.txt and prints stats),
    the model driver on the cases, and diffs.  Returns the stats."""
    rundir = os.path.join(common.BUILD, "run", outcome.pid + "_" + sub)
    os.makedirs(rundir, exist_ok=True)
    p = subprocess.run([common.HARNESS_BIN, sub, "--seed", str(seed), "--tier", tier, "--out", rundir] + list(extra_args),
                       stdout=subprocess.PIPE, stderr=subprocess.PIPE, env=common.ENV, timeout=3000)
    if p.returncode != 0:
        raise RuntimeError("harness %s failed: %s" % (sub, p.stderr.decode()[-1000:]))
    st = json.loads(p.stdout)
    ok, err = common.run_driver(os.path.join(rundir, "cases.txt"), os.path.join(rundir, "model.txt"))
    if not ok:
        raise RuntimeError("model driver failed: " + err[-500:])
    n, diffs, ndiff = common.diff_files(os.path.join(rundir, "impl.txt"), os.path.join(rundir, "model.txt"))
    if ndiff:
        cases = open(os.path.join(rundir, "cases.txt")).read().split("\n")
        for (ln, a, b) in diffs:
            outcome.disagreements.append({"what": what, "case": cases[ln - 1][:4000],
                                          "implementation": a[:4000], "model": b[:4000]})
        outcome.extra.setdefault("disagreement_counts", {})[sub] = ndiff
    outcome.traces_validated += n
    outcome.evaluations += st.get("cases", n)
    return st


def kernel_crosscheck(outcome, name, imports, expr, cases):
    """Extraction is in the trusted base of the correspondence.  Cross-check it: the results the extracted OCaml gave on a sample
    of cases are written into a Coq file as one boolean goal that Coq's own evaluator (vm_compute) must reduce to true.
    `expr` is a Gallina function (bytes -> bytes * bool) as text; `cases` a list of (input bytes, output bytes, ok)."""
    d = os.path.join(common.BUILD, "xcheck")
    os.makedirs(d, exist_ok=True)

    def lst(b):
        return "[" + "; ".join(str(x) for x in b) + "]%N"
    src = os.path.join(d, "Xc_%s_%s.v" % (outcome.pid, name))
    with open(src, "w") as f:
        f.write("From XtModel Require Import %s.\n" % imports)
        f.write("Definition beq (a b : bytes) : bool := if list_eq_dec N.eq_dec a b then true else false.\n")
        f.write("Definition run : bytes -> bytes * bool := %s.\n" % expr)
        f.write("Definition cases : list (bytes * bytes * bool) := [\n  %s\n].\n"
                % ";\n  ".join("(%s, %s, %s)" % (lst(i), lst(o), "true" if k else "false") for i, o, k in cases))
        f.write("Goal forallb (fun c : bytes * bytes * bool => let '(i, o, k) := c in let r := run i in beq (fst r) o && Bool.eqb (snd r) k) cases = true.\n")
        f.write("Proof. vm_compute. reflexivity. Qed.\n")
    rc, out = common.run(["coqc", "-Q", os.path.join(common.COQ, "theories"), "XtModel", src], cwd=d, timeout=900)
    outcome.extra.setdefault("extraction_crosscheck", {})[name] = {"cases": len(cases), "kernel_agrees": rc == 0}
    if rc != 0:
        outcome.disagreements.append({"what": "the extracted OCaml model and Coq's own evaluator (vm_compute) disagree on a sampled case (%s): "
                                              "extraction cannot be trusted" % name, "log": out[-1500:]})


def msgpack_correspondence(outcome, tier, seed, oracle=True):
    """Model/implementation correspondence of the MessagePack model (size calculator, both document loops with the writer's
    bytes, detection trial).  oracle=False: the harness's own slice-vs-reader comparison is another property's business."""
    st = harness_corr(outcome, "msgpack", "MessagePack size calculator / document loops / detection trial", tier, seed)
    for f in (st["oracle_failures"] if oracle else []):
        outcome.oracle_failures.append({"what": "MessagePack slice vs reader: " + f.split(": ", 1)[1],
                                        "input_hex": f.split(": ", 1)[0].replace("input ", ""),
                                        "from": "msgpack", "to": "msgpack"})
    outcome.distinct_nontrivial += st["nontrivial"]
    outcome.extra["msgpack_correspondence"] = {
        "model_queries": st["cases"], "input_kinds": st["kinds"], "verdicts": st["verdicts"],
        "bound": "every byte string of length <= %d over a 30-byte alphabet (markers of every class, plus the bytes 0x0a 0x0d 0x20 that a text tool would call whitespace); all 256 markers x 11 filler lengths; "
                 "seeded random well-formed values with truncations/mutations; nesting windows around 1024 in 7 shapes x 6 "
                 "innermost values; each input: next_value_size at limits 1024/1/2/3, both document loops with writer "
                 "bytes, and the detection trial" % st["exhaustive_len"],
    }
    for s in st["samples"]:
        outcome.add_sample(s)
    if tier == "thorough":
        # sample the MT cases the driver just answered and have the kernel re-evaluate them
        rundir = os.path.join(common.BUILD, "run", outcome.pid + "_msgpack")
        cases, model = open(os.path.join(rundir, "cases.txt")).read().split("\n"), open(os.path.join(rundir, "model.txt")).read().split("\n")
        picked = []
        for c, m in zip(cases, model):
            f = c.split(" ")
            if len(f) == 4 and f[0] == "MT" and f[2] == "S" and len(f[3]) <= 120:
                mf = m.split(" ")
                if len(mf) == 4 and mf[1] in ("ok", "err"):
                    picked.append((bytes.fromhex(f[3]) if f[3] != "-" else b"", bytes.fromhex(mf[3]) if mf[3] != "-" else b"", mf[1] == "ok"))
        step = max(1, len(picked) // 200)
        kernel_crosscheck(outcome, "msgpack_slice_loop", "Base Utf8 MsgpackModel",
                          "fun i => let r := transcode_slice utf8_valid i in (mm_output r, mm_ok r)", picked[::step][:200])
    return st


def session_result(resp, i=0):
    """(verdict, error text, output hex) of call i of a session response."""
    if resp.get("crash") or resp.get("hang"):
        return ("crash", json.dumps(resp)[:300], "")
    c = resp["calls"][i]
    if c.get("panic"):
        return ("crash", "panic: " + c.get("err", ""), resp.get("out", ""))
    return ("ok" if c.get("ok") else "err", c.get("err", ""), resp.get("out", ""))


def hx(b):
    return b.hex() if b else "-"


def is_prefix_comparable(a_hex, b_hex):
    a = "" if a_hex == "-" else a_hex
    b = "" if b_hex == "-" else b_hex
    return a.startswith(b) or b.startswith(a)
