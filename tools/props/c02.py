"""C02 — result is independent of input source and read schedule."""
import json
import os
import random
import re
import subprocess

import common
import jsoncorr
import corpus
import gen
from props import shared

META = {
    "level": "proof",
    "needs_hooks": False,
    "technique": "Rocq proof (invariant over handle operation programs: whatever detection and the read schedule did, the format "
                 "module is handed the byte string itself; MessagePack slice/reader agreement by mutual induction over the size "
                 "calculator and the decoder) + exhaustive token-sequence slice/reader differential + seeded corpus differential",
    "claim": "Proved on the Gallina models for ALL byte strings, ALL read schedules and ALL detection behaviours: the input handle "
             "hands the format module the slice d or a reader whose stream is exactly d (contents and order of what reads return "
             "never depend on the schedule). For MessagePack the two document loops (size calculator + slice decode vs sequential "
             "decode) are modelled byte-exactly, diffed against the implementation and PROVED to agree for every byte string (same "
             "documents, same events, same verdict; on failure the slice output is a prefix of the reader output). For JSON, "
             "serde_json's reader as xt drives it (number grammar and u64/i64/f64 classification with exact decimal->binary64 "
             "rounding, strings and all escape forms, comma/colon rules, recursion limit) and xt's two JSON loops are modelled, "
             "diffed against the implementation (JSON->MessagePack, bytes and verdict, both modes) and PROVED to agree for every "
             "UTF-8-valid byte string outside the known class K-C02-json-adjacent-scalars (formalised as 'the slice loop stops "
             "with trailing characters', with a witness lemma on which the property does fail); inside the class and for invalid "
             "UTF-8 the slice output is proved to be a prefix of the reader output. For TOML input xt's own part is proved too: "
             "toml::transcode turns the handle into one owned byte string and applies the UTF-8 check, the parser and the writer to it - "
             "whatever those compute, they are applied to exactly the input bytes in both supply modes, named or after any detection "
             "(C02_toml_same_text_both_modes; no premise about the toml crate). The oracle compares "
             "translate_slice with translate_reader under 1-byte, fixed, random and adversarially cut schedules for every token "
             "sequence up to length 5/4/4 (thorough 6/5/5) over a JSON/YAML/MessagePack alphabet, and for the corpus, its "
             "mutations, truncations and splices, generated documents and random bytes, for each explicit source format and "
             "detection and all targets: same verdict, same bytes on success, prefix-comparable on failure.",
    "level_note": "Trusted: Coq kernel; hand-written models validated by correspondence (C09 handle programs, C18 MessagePack loops). "
                  "That serde_json, libyaml/serde_yaml and toml consume a reader as the byte stream it delivers and parse a slice "
                  "of the same bytes identically is third-party behaviour: observed exhaustively on short token sequences and on "
                  "the corpus, not proved. Two genuine defects of the pinned tree are recorded as known findings (JSON adjacent "
                  "scalars; JSON repeated key to TOML). No axioms.",
    "trusted_base": [
        "Coq 8.16.1 kernel (coqc, full .vo build); no axioms",
        "hand-written Gallina models InputModel.v / DetectModel.v (input handle, detection order) tied to the code by C09's handle "
        "correspondence; MsgpackModel.v tied by the MessagePack correspondence; JsonModel.v tied by the JSON correspondence "
        "(tools/jsoncorr.py: token sequences, number/string spellings, nesting, generated streams, mutations); ChunkerModel.v "
        "(chunker and has_document over libyaml's event list) tied by the chunker correspondence (K/KH cases)",
        "third-party parsers' slice/reader agreement: observed by the exhaustive token-sequence differential (harness `tokens`) and "
        "the session oracle",
        "harness/src/tokens.rs, session.rs, util.rs (SchedReader), tools/*.py",
    ],
    "assumptions": ["inputs under 2 MiB (TOML detection from a reader is switched off above that by design)"],
    "explanation": "xt's own layer (handle, detection plumbing, MessagePack splitting) is proved/modelled; the third-party parsers' "
                   "two code paths are compared exhaustively on short inputs and by seeded differential testing",
}

_STR = re.compile(rb'"(?:[^"\\]|\\.)*"')
# a literal name or a whole number (matched atomically: no giving back digits) directly followed by a byte that is neither
# white space nor structural
_ADJ = re.compile(rb'(?:true|false|null|(?=(?P<num>-?(?:0|[1-9][0-9]*)(?:\.[0-9]+)?(?:[eE][+-]?[0-9]+)?))(?P=num))(?=[^ \t\n\r"\[\]{},:])')


def json_adjacent_scalars(data):
    """Known class K-C02-json-adjacent-scalars (same predicate as harness/src/tokens.rs)."""
    return _ADJ.search(_STR.sub(b'""', data)) is not None


def json_dup_key(data):
    """Known class K-C02-json-dupkey-toml: some object of some document repeats a key."""
    found = []

    def hook(pairs):
        keys = [k for k, _ in pairs]
        if len(set(keys)) != len(keys):
            found.append(True)
        return dict(pairs)
    dec = json.JSONDecoder(object_pairs_hook=hook)
    try:
        s = data.decode("utf-8")
    except UnicodeDecodeError:
        return False
    i = 0
    while i < len(s):
        while i < len(s) and s[i] in " \t\n\r":
            i += 1
        if i >= len(s):
            break
        try:
            _, i = dec.raw_decode(s, i)
        except ValueError:
            break
    return bool(found)


def adversarial_scheds(data, rng):
    """Cut points placed inside multi-byte characters, escapes, length prefixes and separators."""
    cuts = set()
    for i, b in enumerate(data):
        if b >= 0x80 or b in b'\\"-.:\n' or 0xC4 <= b <= 0xDF:
            cuts.update((i, i + 1, i + 2))
    cuts = sorted(c for c in cuts if 0 < c < len(data))
    if not cuts:
        return []
    caps = [0] * (len(data) + 1)
    pos = 0
    for c in cuts + [len(data)]:
        for d in range(pos, c):
            caps[d] = c - d - 1      # from offset d deliver up to the next cut
        pos = c
    return [{"kind": "offsets", "caps": caps}]


def run_tokens(outcome, tier, seed):
    p = subprocess.run([common.HARNESS_BIN, "tokens", "--seed", str(seed), "--tier", tier], stdout=subprocess.PIPE,
                       stderr=subprocess.DEVNULL, env=common.ENV, timeout=3000)
    if p.returncode == 3:
        h = json.loads(p.stdout.decode().strip().split("\n")[-1])
        fmt, _, hx = h.get("hang", " ").partition(" ")
        outcome.oracle_failures.append({"what": "hang on a short token sequence (slice or reader does not terminate)", "from": fmt, "input_hex": hx})
        return
    if p.returncode != 0:
        raise RuntimeError("harness tokens failed")
    st = json.loads(p.stdout)
    for f in st["failures"]:
        fmt, hx, s, r = f.split(" ", 3)
        fmt = fmt.split("+")[0]      # "json+bom": the sequences behind a byte order mark
        outcome.oracle_failures.append({"what": "slice and reader disagree on a short token sequence", "from": fmt, "input_hex": hx,
                                        "slice": s, "reader": r})
    for f in st["panics"]:
        outcome.oracle_failures.append({"what": "panic on a short token sequence", "case": f})
    outcome.evaluations += st["cases"] * 2
    outcome.distinct_nontrivial += st["nontrivial"]
    outcome.extra["token_sequences"] = {"sequences": st["cases"], "by_format": st["by_format"], "verdicts(slice,reader)": st["verdicts"],
                                        "max_length": st["max_len"], "known_class_hits": st["known_hits"],
                                        "alphabets": {"json": 14, "yaml": 24, "msgpack": 30},
                                        "behind_a_utf8_byte_order_mark": "every JSON and YAML sequence up to length 3, read with 1-byte and with 2-byte reads"}
    outcome.extra["exhaustive"] = True
    if st["known_hits"]:
        outcome.known_hits.append(("K-C02-json-adjacent-scalars",
                                   "JSON scalars with nothing between them ('truefalse', '1-1'): a slice is rejected ('trailing "
                                   "characters'), a reader yields two documents (%d token sequences of this class)" % st["known_hits"]))


def run_sessions(outcome, tier, seed):
    rng = random.Random(seed + 2)
    inputs = corpus.inputs(seed, n_mut=2500 if tier == "thorough" else 500, n_rand=400 if tier == "thorough" else 80)
    for fmt in corpus.FORMATS:
        for _ in range(200 if tier == "thorough" else 40):
            try:
                v = gen.gen_value(rng, depth=3, profile="toml" if fmt == "toml" else fmt)
                if gen.representable(v, fmt):
                    t = gen.spell(v, fmt, rng)
                    inputs.append(t)
                    inputs.append(gen.mutate(t, rng))
                    inputs.append(t[:rng.randrange(len(t) + 1)])
            except Exception:
                pass
    reqs, plans = [], []
    stress = set(corpus.detection_stress())
    for data in inputs:
        if len(data) >= (1 << 21):
            continue
        froms = corpus.FORMATS + [None]
        if tier == "quick":
            # the inputs chosen to stress detection always go through detection
            froms = [None, rng.choice(corpus.FORMATS)] if data in stress else rng.sample(froms, 2)
        for frm in froms:
            for to in (corpus.FORMATS if tier == "thorough" else [rng.choice(corpus.FORMATS)]):
                base = len(reqs)
                reqs.append({"id": base, "to": to, "calls": [{"input": shared.hx(data), "from": frm, "mode": "slice"}]})
                scheds = [{"kind": "fixed", "n": 1}, corpus.random_sched(rng)] + adversarial_scheds(data, rng)
                if tier == "thorough":
                    scheds.append({"kind": "full"})
                for s in scheds:
                    reqs.append({"id": len(reqs), "to": to, "calls": [{"input": shared.hx(data), "from": frm, "mode": "reader", "sched": s}]})
                plans.append((data, frm, to, base, len(scheds)))
    # UTF-16 YAML under 2 MiB whose UTF-8 re-encoding is over 2 MiB, format named and detected, coarse schedules
    for data in corpus.big_reencoded():
        for frm in (None, "yaml"):
            base = len(reqs)
            reqs.append({"id": base, "to": "json", "calls": [{"input": shared.hx(data), "from": frm, "mode": "slice"}]})
            scheds = [{"kind": "fixed", "n": 65536}, {"kind": "fixed", "n": 50001}]
            for s in scheds:
                reqs.append({"id": len(reqs), "to": "json", "calls": [{"input": shared.hx(data), "from": frm, "mode": "reader", "sched": s}]})
            plans.append((data, frm, "json", base, len(scheds)))
    resps = common.harness_batch(reqs, timeout=1800)
    known = {"K-C02-json-adjacent-scalars": 0, "K-C02-json-dupkey-toml": 0}
    compared = 0
    for data, frm, to, base, ns in plans:
        s = shared.session_result(resps[base])
        for j in range(ns):
            r = shared.session_result(resps[base + 1 + j])
            compared += 1
            if s[0] == "crash" or r[0] == "crash":
                outcome.oracle_failures.append({"what": "crash/hang/panic", "from": frm or "detect", "to": to, "input_hex": shared.hx(data),
                                                "slice": s[:2], "reader": r[:2], "sched": reqs[base + 1 + j]["calls"][0]["sched"]})
                continue
            same = s[0] == r[0] and (s[2] == r[2] if s[0] == "ok" else shared.is_prefix_comparable(s[2], r[2]))
            if same:
                continue
            # the two listed classes, by their signature and not merely by the look of the input: the slice path rejects adjacent
            # JSON scalars as trailing characters where the reader path reads on; a repeated key reaches TOML from a slice only
            if frm in ("json", None) and json_adjacent_scalars(data) and s[0] == "err" and "trailing characters" in s[1] \
                    and (r[0] == "ok" or "trailing characters" not in r[1]):
                known["K-C02-json-adjacent-scalars"] += 1
                continue
            if to == "toml" and frm in ("json", None) and json_dup_key(data) and s[0] == "ok" and r[0] == "err" and "duplicate key" in r[1]:
                known["K-C02-json-dupkey-toml"] += 1
                continue
            outcome.oracle_failures.append({
                "what": "slice and reader input give different results (%s vs %s)" % (s[0], r[0]),
                "from": frm or "detect", "to": to, "input_hex": shared.hx(data), "sched": reqs[base + 1 + j]["calls"][0]["sched"],
                "slice": [s[0], s[1][:200], s[2][:400]], "reader": [r[0], r[1][:200], r[2][:400]]})
    if known["K-C02-json-adjacent-scalars"] and not any(k[0] == "K-C02-json-adjacent-scalars" for k in outcome.known_hits):
        outcome.known_hits.append(("K-C02-json-adjacent-scalars", "JSON scalars with nothing between them: slice rejects, reader accepts"))
    if known["K-C02-json-dupkey-toml"]:
        outcome.known_hits.append(("K-C02-json-dupkey-toml",
                                   "JSON object with a repeated key translated to TOML ('{\"a\":1,\"a\":2}'): from a slice the last value "
                                   "wins, from a reader the translation fails with 'duplicate key'"))
    outcome.evaluations += len(reqs)
    outcome.distinct_nontrivial += compared
    outcome.extra["session_differential"] = {"inputs": len(inputs), "requests": len(reqs), "slice_reader_comparisons": compared,
                                             "known_class_hits": known}
    outcome.add_sample({"input": "truefalse", "from": "json", "class": "K-C02-json-adjacent-scalars"})
    outcome.add_sample({"input_hex": shared.hx(inputs[7]), "schedules": ["1 byte", "random", "cuts inside multi-byte characters / escapes / length prefixes"]})


def listed_known():
    return {k["id"] for k in common.load_known("C02")}


def run_large(outcome, tier, seed):
    """Inputs larger than every buffer on the way (BufReader 8 KiB, libyaml's 16 KiB raw buffer, the capture buffer), with
    multi-byte characters at shifted alignments, read whole ("full": the reader returns as much as it is asked for), in
    buffer-sized pieces and in random pieces."""
    rng = random.Random(seed + 222)
    body = "\u20ac\U0001f600\u00e9" * 5000
    inputs = []
    for shift in range(4):
        inputs.append(("yaml", ("a" * shift + 'k: "' + body + '"\n').encode()))
    inputs.append(("yaml", "".join("---\nk%d: [\u00e9, %s]\n" % (i, "x" * (i % 97)) for i in range(2500)).encode()))
    inputs.append(("json", ("".join('{"n":%d,"s":"\u00e9\u20ac%s"}\n' % (i, "y" * (i % 89)) for i in range(2500))).encode()))
    inputs.append(("json", ('["' + body + '"]').encode()))
    inputs.append(("msgpack", b"".join(corpus.mp({"n": i, "s": "\u00e9" * (i % 50)}) for i in range(3000))))
    inputs.append(("toml", ('s = "' + body + '"\n' + "".join("k%d = %d\n" % (i, i) for i in range(3000))).encode()))
    # documents at and around each parser's nesting limit: whatever the verdict is, it is the same for both supply modes
    for d in (127, 128, 129):
        inputs.append(("json", b"[" * d + b"1" + b"]" * d))
        inputs.append(("json", b'{"a":' * d + b"1" + b"}" * d + b" [1]"))
        inputs.append(("yaml", b"[" * d + b"1" + b"]" * d + b"\n"))
    for d in (1023, 1024):
        inputs.append(("msgpack", b"\x91" * d + b"\xc0"))
        inputs.append(("msgpack", b"\x81\xa1k" * d + b"\x90"))
    reqs, plans = [], []
    for fmt, data in inputs:
        for frm in (fmt, None):
            to = rng.choice([f for f in corpus.FORMATS if f != "toml" or fmt == "toml"])
            base = len(reqs)
            reqs.append({"id": base, "to": to, "calls": [{"input": shared.hx(data), "from": frm, "mode": "slice"}]})
            scheds = [{"kind": "full"}, {"kind": "fixed", "n": 8192}, {"kind": "fixed", "n": 16384}, {"kind": "fixed", "n": 4099}, corpus.random_sched(rng)]
            for sc in scheds:
                reqs.append({"id": len(reqs), "to": to, "calls": [{"input": shared.hx(data), "from": frm, "mode": "reader", "sched": sc}]})
            plans.append((fmt, data, frm, to, base, len(scheds)))
    resps = common.harness_batch(reqs, timeout=1800)
    for fmt, data, frm, to, base, ns in plans:
        a = shared.session_result(resps[base])
        for j in range(ns):
            b = shared.session_result(resps[base + 1 + j])
            same = a[0] == b[0] and a[0] != "crash" and (a[2] == b[2] if a[0] == "ok" else shared.is_prefix_comparable(a[2], b[2]))
            if not same:
                outcome.oracle_failures.append({"what": "slice and reader input give different results (%s vs %s) on an input of %d bytes" % (a[0], b[0], len(data)),
                                                "from": frm or "detect", "to": to, "sched": reqs[base + 1 + j]["calls"][0]["sched"],
                                                "input_len": len(data), "input_head_hex": shared.hx(data[:120]), "slice": a[:2], "reader": b[:2],
                                                "input_family": "%s, %d bytes, multi-byte characters at shifted alignments" % (fmt, len(data))})
    outcome.evaluations += len(reqs)
    outcome.distinct_nontrivial += len(reqs)
    outcome.extra["large_inputs"] = {"inputs": len(inputs), "translations": len(reqs), "sizes": [len(d) for _, d in inputs]}


def run(outcome, tier, seed):
    outcome.rule = ("token sequences: every sequence up to the stated length, slice vs reader (non-trivial = translates successfully to a "
                    "non-empty output); sessions: each (input, source selection, target, schedule) comparison of slice with reader")
    run_tokens(outcome, tier, seed)
    if outcome.hooks_available:
        shared.msgpack_correspondence(outcome, tier, seed)
    jsoncorr.correspondence(outcome, tier, seed)
    if outcome.hooks_available:
        # the YAML chunker and the guard of the in-memory path (C02_yaml_guard_*) against the implementation
        st = shared.harness_corr(outcome, "chunker", "YAML chunker and in-memory guard (libyaml event stream -> chunks / has_document)", tier, seed)
        for f in st["oracle_failures"]:
            outcome.oracle_failures.append({"what": "YAML chunker: " + f.split(" :: ", 1)[-1], "input_hex": f.split(" :: ", 1)[0]})
        outcome.extra["chunker_correspondence"] = {"cases": st["cases"], "kinds": st["kinds"]}
    run_large(outcome, tier, seed)
    run_sessions(outcome, tier, seed)
    # every listed finding: does its witness still reproduce?
    for k in common.load_known("C02"):
        w = k["witness"]
        data = w["input"].encode()
        rs = common.harness_batch([
            {"id": 0, "to": w["to"], "calls": [{"input": shared.hx(data), "from": w["from"], "mode": "slice"}]},
            {"id": 1, "to": w["to"], "calls": [{"input": shared.hx(data), "from": w["from"], "mode": "reader", "sched": {"kind": "fixed", "n": 1}}]}])
        a, b = shared.session_result(rs[0]), shared.session_result(rs[1])
        if (a[0], a[2] if a[0] == "ok" else "") != (b[0], b[2] if b[0] == "ok" else ""):
            if not any(h[0] == k["id"] for h in outcome.known_hits):
                outcome.known_hits.append((k["id"], "%s -> %s of %r: slice %s, reader %s" % (w["from"], w["to"], w["input"], a[0], b[0])))
        else:
            outcome.notes.append("listed finding %s no longer reproduces on its witness" % k["id"])
    # a known-class hit that the committed file does not list is a violation, not a known finding
    listed = listed_known()
    for fid, what in list(outcome.known_hits):
        if fid not in listed:
            outcome.known_hits.remove((fid, what))
            outcome.oracle_failures.append({"what": "unlisted defect class " + fid + ": " + what})


def replay(outcome, path):
    print(json.dumps(json.load(open(path)).get("failure"), indent=1))
    run(outcome, "quick", 1)
