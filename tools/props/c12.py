"""C12 — I/O faults and partial I/O are handled faithfully by the library."""
import json
import random

import common
import corpus
import history
from props import shared

META = {
    "level": "proof",
    "needs_hooks": False,
    "technique": "Rocq proofs (write_all over a short-writing/failing sink by induction on fuel; a lock-step-or-frozen simulation "
                 "between the Translator over such a sink and over an ideal one, by induction over the call history; prefix "
                 "theorem for truncated inputs; invariant proof that the TOML trial propagates a reader fault during detection) "
                 "+ model-vs-implementation correspondence with fault-injecting writers + fault-injection oracle at every offset",
    "claim": "Proved on the Gallina models (IoModel, FormatsModel, DetectModel, InputModel), for ALL short-write patterns, ALL "
             "writer fault points k, ALL targets, ALL histories of calls and documents and ALL ways serializers cut their output "
             "into write_all calls: the writer has accepted exactly the first k bytes of the fault-free output (all of it when "
             "it never fails, with the same verdicts); an input cut short by a reader fault produces a prefix of the fault-free "
             "output and a failing call; format detection over a reader whose fault lies within the input never ends in 'no "
             "format' (the TOML trial, last, meets and propagates the fault), and whatever detection did the translator then "
             "owns the first k bytes followed by the source's own fault. The IoModel is diffed against the real Translator with "
             "a fault-injecting, short-writing Write on generated histories; the oracle injects reader faults of four kinds at "
             "every offset of every corpus input (explicit and detected source, all targets, random read chunkings), writer "
             "faults at every output byte and short-write patterns, and checks verdict, error text and prefix relation.",
    "level_note": "Trusted: Coq kernel; hand-written models validated by correspondence. That the third-party parsers propagate "
                  "a reader's error (rather than swallowing it) and that serializers write through write_all deterministically "
                  "are contracts, exercised at every offset by the oracle. ErrorKind::Interrupted is excluded (std retries it "
                  "forever by contract). No axioms.",
    "trusted_base": [
        "Coq 8.16.1 kernel (coqc, full .vo build); vm_compute only in two non-vacuity examples; no axioms",
        "hand-written Gallina models IoModel.v (write_all, write traces, Translator over a failing sink), FormatsModel.v, "
        "DetectModel.v (detect.rs order; toml.rs:13-41 trial shell), InputModel.v; tied to the code by the writer "
        "correspondence (tools/history.py) and by C09's handle correspondence",
        "contracts: serde_json / rmp-serde / serde_yaml / toml write through io::Write::write_all and their byte sequence does "
        "not depend on how the sink chunks it; the source parsers return a reader's io::Error instead of swallowing it",
        "extraction (ExtrOcamlBasic only), model_driver/driver.ml, harness/src/session.rs + util.rs (FaultWriter, SchedReader), tools/*.py",
    ],
    "assumptions": ["faults are sticky (the reader/writer keeps failing), as the property states", "ErrorKind::Interrupted excluded"],
    "explanation": "the writer-side statement is proved outright on the model and the model is diffed against the real Translator; "
                   "the reader-side statement is proved for xt's own layers (handle, detection order, document loop) and the "
                   "parsers' error propagation is observed at every fault offset",
}

KINDS = ["other", "invalid_data", "unexpected_eof", "broken_pipe"]
MARK = "INJECTED-READ-FAULT@"
import re
POS = re.compile(r"(line \d+ column \d+|position \d+|offset \d+|byte \d+)")


def reader_inputs(tier, rng):
    res = []
    for fmt, docs in corpus.DOCS.items():
        for d in docs:
            if 0 < len(d) <= (400 if tier == "thorough" else 80):
                res.append((fmt, d))
    # multi-document streams, so that complete documents precede the fault
    res += [("json", b'{"a":1}\n[2,3]\n"x"\n{"b":{"c":[true,null]}}\n'), ("yaml", b"---\na: 1\n---\n- 2\n- 3\n---\nb: {c: [true, ~]}\n"),
            ("msgpack", corpus.mp({"a": 1}) + corpus.mp([2, 3]) + corpus.mp("x") + corpus.mp({"b": {"c": [True, None]}})),
            ("toml", b'a = 1\n[b]\nc = [true, false]\n')]
    if tier == "quick":
        rng.shuffle(res)
        res = res[:40] + res[-4:]
    return res + BOUNDARY


# streams on which a fault can fall where nothing else does: inside a UTF-16/32 code unit of a re-encoded YAML stream, and
# between an explicit document end marker and the next document (the chunker then holds a finished document); these get
# every offset and every fault kind in both tiers
_Y = "k: \u00e9\n---\n- \U0001f600\n"
BOUNDARY = [("yaml", b"\xff\xfe" + _Y.encode("utf-16-le")), ("yaml", b"\xfe\xff" + _Y.encode("utf-16-be")), ("yaml", _Y.encode("utf-16-le")),
            ("yaml", b"\xff\xfe\x00\x00" + _Y.encode("utf-32-le")), ("yaml", _Y.encode("utf-32-be")),
            ("yaml", b"a: 1\n...\n\n# gap\n\n---\nb: 2\n...\n# tail\n---\nc: 3\n"), ("yaml", b"- x\n...\n- y\n...\n"),
            ("yaml", b"--- 1\n...\n%YAML 1.1\n---\n2\n"),
            # detection over a failing reader, for every first byte class of MessagePack and a text of each format
            ("msgpack", corpus.mp({"a": 1}) + corpus.mp([2, 3])), ("msgpack", corpus.mp([1, [2, "x"]])), ("msgpack", b"\xdc\x00\x02\x01\x02"),
            ("msgpack", b"\xde\x00\x01\xa1k\xc0"), ("json", b'{"a":[1,2]}'), ("toml", b'a = 1\n[t]\nb = "x"\n'), ("yaml", b"a: [1, 2]\n")]


def run_reader_faults(outcome, tier, seed):
    rng = random.Random(seed + 1212)
    inputs = reader_inputs(tier, rng)
    free_reqs, plans = [], []
    for fmt, data in inputs:
        for frm in (fmt, None):
            for to in (corpus.FORMATS if tier == "thorough" else [rng.choice(corpus.FORMATS)]):
                free_reqs.append({"id": len(free_reqs), "to": to, "calls": [{"input": shared.hx(data), "from": frm, "mode": "reader",
                                                                              "sched": {"kind": "full"}}]})
                plans.append((fmt, data, frm, to))
    free = common.harness_batch(free_reqs)
    reqs, meta = [], []
    for (fmt, data, frm, to), fr in zip(plans, free):
        base = shared.session_result(fr)
        boundary = (fmt, data) in BOUNDARY
        ks = range(len(data) + 1) if (tier == "thorough" or len(data) <= 40 or boundary) else sorted(rng.sample(range(len(data) + 1), 40))
        for k in ks:
            kind = KINDS[len(reqs) % 4] if tier == "quick" and not boundary else None
            for kd in ([kind] if kind else KINDS):
                sched = corpus.random_sched(rng)
                reqs.append({"id": len(reqs), "to": to, "calls": [{"input": shared.hx(data), "from": frm, "mode": "reader", "sched": sched,
                                                                    "rfault": k, "rkind": kd}]})
                meta.append((fmt, data, frm, to, k, kd, sched, base, MARK + str(k)))
            # error values that carry no boxed payload: an OS error (EIO) and a bare kind; their own text must be in the message
            if boundary or tier == "thorough" or k % 4 == 1:
                for style, kd2, mark in ((1, "other", "os error 5"), (2, "timed_out", "timed out")):
                    sched = corpus.random_sched(rng)
                    reqs.append({"id": len(reqs), "to": to, "calls": [{"input": shared.hx(data), "from": frm, "mode": "reader", "sched": sched,
                                                                        "rfault": k, "rkind": kd2, "rstyle": style}]})
                    meta.append((fmt, data, frm, to, k, "%s (no payload, style %d)" % (kd2, style), sched, base, mark))
    resps = common.harness_batch(reqs, timeout=1200)
    hist = {}
    for (fmt, data, frm, to, k, kd, sched, base, mark), resp in zip(meta, resps):
        r = shared.session_result(resp)
        info = {"source_format": fmt, "from": frm or "detect", "to": to, "rfault": k, "rkind": kd, "sched": sched,
                "input_hex": shared.hx(data), "observed": [r[0], r[1][:300]], "fault_free": [base[0], base[1][:200]]}
        hist[r[0]] = hist.get(r[0], 0) + 1
        if r[0] == "crash":
            outcome.oracle_failures.append(dict(info, what="crash, hang or panic when the reader fails after %d bytes" % k))
            continue
        if r[0] == "ok":
            outcome.oracle_failures.append(dict(info, what="translation reports success although the reader failed after %d of %d bytes" % (k, len(data))))
            continue
        # an error: it is the reader's (text preserved), unless the fault-free run already fails with an error that is met
        # before byte k is needed (then the same error text as the fault-free run is right)
        if mark not in r[1]:
            # the translation may fail for its own reason before byte k is needed: then the fault-free error is right
            # (parsers report a position that depends on their look-ahead, so positions are not compared)
            if not (base[0] == "err" and POS.sub("", r[1]) == POS.sub("", base[1])):
                outcome.oracle_failures.append(dict(info, what="the reader's error text is not preserved in the message"))
                continue
        if not shared.is_prefix_comparable(r[2], base[2]) or len(r[2]) > len(base[2]) and base[0] == "ok":
            outcome.oracle_failures.append(dict(info, what="output written before a reader fault is not a prefix of the fault-free output",
                                                output_hex=r[2][:600], fault_free_output_hex=base[2][:600]))
    outcome.evaluations += len(reqs) + len(free_reqs)
    outcome.distinct_nontrivial += len(reqs)
    outcome.extra["reader_fault_oracle"] = {"inputs": len(inputs), "requests": len(reqs), "verdicts": hist, "kinds": KINDS,
                                            "bound": "every offset 0..len of each input (quick: at most 40 offsets per input, one "
                                                     "fault kind per offset), explicit and detected source, random read schedules"}
    outcome.add_sample({"input": '{"a":1}\\n[2,3]\\n...', "rfault": "every offset", "expect": "error containing INJECTED-READ-FAULT@k; output a prefix"})


def run_writer_faults(outcome, tier, seed):
    rng = random.Random(seed + 12)
    docs = [("json", b'{"a":[1,2],"b":{"c":"x","d":[true,null]}}\n[1,2,3]\n"s"\n'), ("yaml", b"a: [1, 2]\nb:\n  c: x\n---\n- 1\n- 2\n"),
            ("msgpack", corpus.mp({"a": [1, 2], "b": {"c": "x"}}) + corpus.mp([1, 2, 3])), ("toml", b'a = [1, 2]\n[b]\nc = "x"\n'),
            ("json", b'{"k":"' + b"v" * 9000 + b'"}\n{"k2":"' + b"w" * 9000 + b'"}\n')]
    free = []
    for fmt, data in docs:
        for to in corpus.FORMATS:
            free.append({"id": len(free), "to": to, "calls": [{"input": shared.hx(data), "from": fmt, "mode": "slice"}]})
    fr = common.harness_batch(free)
    reqs, plans = [], []
    i = 0
    for fmt, data in docs:
        for to in corpus.FORMATS:
            r = shared.session_result(fr[i])
            i += 1
            full = bytes.fromhex(r[2]) if r[2] != "-" else b""
            n = len(full)
            if n == 0:
                continue
            ks = list(range(n)) if (n <= 64 or (tier == "thorough" and n <= 400)) else sorted(set([0, 1, n - 1, 8191, 8192, 8193] + rng.sample(range(n), 40)))
            for k in [k for k in ks if k < n]:
                for mode in ("slice", "reader"):
                    short = None if rng.random() < 0.5 else {"kind": "random", "seed": rng.randrange(1 << 30), "max": rng.choice([1, 3, 17, 5000])}
                    req = {"id": len(reqs), "to": to, "wfault": k, "wkind": rng.choice(KINDS),
                           "calls": [{"input": shared.hx(data), "from": fmt, "mode": mode, "sched": corpus.random_sched(rng)}]}
                    if short:
                        req["wshort"] = short
                    reqs.append(req)
                    plans.append(("fault", fmt, to, mode, k, full, r[0]))
            # short writes only
            for pat in ({"kind": "fixed", "n": 1}, {"kind": "fixed", "n": 3}, {"kind": "random", "seed": rng.randrange(1 << 30), "max": 7},
                        {"kind": "random", "seed": rng.randrange(1 << 30), "max": 9000}):
                for mode in ("slice", "reader"):
                    reqs.append({"id": len(reqs), "to": to, "wshort": pat, "flush": True,
                                 "calls": [{"input": shared.hx(data), "from": fmt, "mode": mode, "sched": corpus.random_sched(rng)}]})
                    plans.append(("short", fmt, to, mode, pat, full, r[0]))
    resps = common.harness_batch(reqs, timeout=1200)
    for (kind, fmt, to, mode, k, full, base_ok), resp in zip(plans, resps):
        r = shared.session_result(resp)
        out = bytes.fromhex(r[2]) if r[2] != "-" else b""
        info = {"from": fmt, "to": to, "mode": mode, "observed": [r[0], r[1][:300]], "fault_free_len": len(full)}
        if r[0] == "crash":
            outcome.oracle_failures.append(dict(info, what="crash, hang or panic with a %s writer" % kind, param=k))
        elif kind == "fault":
            if r[0] != "err":
                outcome.oracle_failures.append(dict(info, what="success reported although the writer failed after %d of %d bytes" % (k, len(full))))
            elif out != full[:k]:
                outcome.oracle_failures.append(dict(info, what="bytes accepted by a writer failing after %d bytes are not the first %d bytes of "
                                                    "the fault-free output" % (k, k), accepted_hex=out.hex()[:400], expected_hex=full[:k].hex()[:400]))
        else:
            if (r[0] == "ok") != (base_ok == "ok") or out != full:
                outcome.oracle_failures.append(dict(info, what="a writer that accepts only short pieces did not receive exactly the fault-free output",
                                                    pattern=k, accepted_len=len(out)))
            elif resp.get("flushes", 0) < 1:
                outcome.oracle_failures.append(dict(info, what="Translator::flush did not reach the writer", pattern=k))
    outcome.evaluations += len(reqs) + len(free)
    outcome.distinct_nontrivial += len(reqs)
    outcome.extra["writer_fault_oracle"] = {"requests": len(reqs), "documents": len(docs)}


def run(outcome, tier, seed):
    outcome.rule = ("writer correspondence: each (history, fault point, short-write pattern) (non-trivial = a fault point within the "
                    "output); reader-fault oracle: each (input, source selection, target, offset, kind); writer oracle: each "
                    "(document, target, mode, fault offset or short-write pattern)")
    rng = random.Random(seed + 120)
    history.writer_correspondence(outcome, tier, seed, corpus.FORMATS, rng, 60 if tier == "thorough" else 14)
    run_reader_faults(outcome, tier, seed)
    run_writer_faults(outcome, tier, seed)


def replay(outcome, path):
    print(json.dumps(json.load(open(path)).get("failure"), indent=1))
    run(outcome, "quick", 1)
