"""C05 — streaming translation: bounded lag and bounded memory."""
import json
import random

import common

META = {
    "level": "proof",
    "needs_hooks": False,
    "technique": "Rocq proof (invariant over every run of the per-document pull loop: at each source read, every document whose "
                 "input was delivered has been written; for any packetisation) + trace validation of the implementation against "
                 "that invariant with a generator reader, and a counting allocator for the memory bound",
    "claim": "PARTIAL by nature. Proved on the Gallina model of the reader-mode loops (json.rs:61-71, msgpack.rs:82-89, "
             "yaml.rs:83-88 behind a buffered reader): for ALL stream lengths, document counts, packetisations and monotone "
             "look-ahead functions, whenever the source is asked for more data every document whose input had been delivered is "
             "already with the writer; hence lag at most two documents whenever the parser needs no input beyond document k+2 to "
             "complete document k; for MessagePack that look-ahead premise is proved on the model of rmp-serde's decoder "
             "(C05_msgpack_decoder_needs_no_lookahead: a document is decoded the same way whatever follows it and leaves what follows "
             "untouched). Proved on the input-handle model: a detection prefix request captures at most max(asked, "
             "already captured) bytes. The chunker's one-document delay is the ChunkerModel of C03. Proved on the re-encoder model "
             "(UtfModel, diffed under C07/C17): a read() of the UTF-16/32 re-encoder always fills the buffer it is given unless "
             "the text ends (C05_reencoder_fills_request) - the formal root of the known finding on re-encoded streams. The implementation's traces are "
             "validated against the invariant: a generator reader (holding nothing) records at every read() how many documents "
             "were completely delivered and completely written, for N up to 2*10^5 documents, sizes from 48 B to 256 KiB, packets of "
             "a fraction of a document, one document and several documents, three source formats, explicit and detected, two "
             "targets; also streams that begin with one large document followed by hundreds of small ones, and UTF-8 streams behind a "
             "byte order mark. Peak live heap is measured by a counting global allocator and must not grow with N.",
    "level_note": "PARTIAL: the interleaving logic is proved on the model; the parsers' look-ahead (serde_json, rmp-serde, libyaml) is "
                  "a premise measured on every run (observed lag 0, 0 and 1 document); allocator behaviour is measured, not proved. "
                  "No axioms.",
    "trusted_base": [
        "Coq 8.16.1 kernel (coqc, full .vo build); vm_compute only in an example; no axioms",
        "hand-written Gallina models StreamModel.v (pull loop), InputModel.v (capture reader), ChunkerModel.v; the loop model is "
        "validated by checking the real traces against its invariant (harness op `stream`), not by byte-exact trace equality",
        "third-party look-ahead and buffering (BufReader 8 KiB, libyaml 16 KiB raw buffer): measured",
        "harness/src/stream.rs (generator reader, counting GlobalAlloc), tools/*.py",
    ],
    "assumptions": ["documents of a stream are uniform in size in the measured runs (so that 'documents delivered/written' can be "
                    "counted from byte counts)"],
    "explanation": "lag invariant proved for the loop model; implementation traces validated against it; memory measured",
}

LAG_EXPECTED = {"json": 0, "msgpack": 0, "yaml": 1, "yaml16": 1, "yaml32": 1, "yamls": 1, "yamlf": 1, "yamlb": 1}     # what the model predicts with need k = end of k (JSON, MessagePack) / start of k+1 (YAML)
LAG_BOUND = 2                                             # what the property demands
KNOWN_REENC = "K-C05-utf16-yaml-reencoder-fills-buffer"


def reencoder_lag_allowance(req):
    """Known class: UTF-16/32 YAML from a reader.  The re-encoder fills libyaml's 16 KiB request before returning, so up to
    16384 / (UTF-8 size of a document) + 1 delivered documents are held back.  None outside the class."""
    unit = {"yaml16": 2, "yaml32": 4}.get(req["format"])
    if not unit:
        return None
    size = max(req["size"], 48 * unit)     # the generator's minimum document size
    return 16384 // max(1, size // unit) + 2


def run(outcome, tier, seed):
    outcome.rule = ("each (source format, target, N, document size, packet size, explicit/detected) stream; non-trivial = N >= 100")
    rng = random.Random(seed + 5)
    reqs = []
    ns = [30, 300, 3000] + ([20000, 200000] if tier == "thorough" else [20000])
    sizes = [48, 200, 5000] + ([70000, 262144] if tier == "thorough" else [70000])
    # yamls: scalar documents after a first mapping; yamlf: flow sequences, the first starting at byte 0 with '['
    # yamlb: UTF-8 behind a byte order mark, the first document implicit
    for fmt in ("json", "msgpack", "yaml", "yaml16", "yaml32", "yamls", "yamlf", "yamlb"):
        for to in ("json", "msgpack", "yaml"):
            if tier == "quick" and to == "msgpack" and fmt != "json":
                continue
            if fmt in ("yamls", "yamlf", "yamlb") and to != "json":
                continue        # the harness counts written documents by their size in bytes, equal only in JSON
            if fmt in ("yaml16", "yaml32") and to != "json" and tier == "quick":
                continue
            for n in ns:
                for size in sizes:
                    if n * size > (400 << 20 if tier == "thorough" else 60 << 20):
                        continue
                    for packet in (size, max(1, size // 3), size * 3 + 7, 1 if n * size < 200000 else 4096):
                        for detect in (False, True):
                            if tier == "quick" and rng.random() < (0.6 if fmt not in ("yamls", "yamlf", "yamlb") else 0.3):
                                continue
                            reqs.append({"id": len(reqs), "op": "stream", "format": fmt, "to": to, "n": n, "size": size,
                                         "packet": packet, "detect": detect})
    # one large document followed by many small ones, one small document per read: whatever read-ahead the large one caused
    # must not hold the small ones back
    for fmt in ("json", "msgpack", "yaml"):
        for first in (9000, 40000, 70000, 300000):
            for detect in (False, True):
                reqs.append({"id": len(reqs), "op": "stream", "format": fmt, "to": "json", "n": 600, "size": 48, "first": first,
                             "packet": 48, "detect": detect})
    # memory: the same stream at N and 4N
    mem = []
    for fmt in ("json", "msgpack", "yaml", "yaml16", "yaml32", "yamlx"):
        for detect in (False, True):
            for size in (64, 4000, 100000):
                n = 4000 if size < 1000 else (600 if size < 50000 else 60)
                for k in (1, 4):
                    mem.append({"id": len(reqs) + len(mem), "op": "stream", "format": fmt, "to": "json", "n": n * k, "size": size,
                                "packet": 8192, "detect": detect})
    resps = common.harness_batch(reqs + mem, timeout=2400, jobs=8)
    lags = {}
    for req, r in zip(reqs, resps[:len(reqs)]):
        info = {k: req[k] for k in ("format", "to", "n", "size", "packet", "detect", "first") if k in req}
        if r.get("crash") or r.get("hang") or not r.get("ok"):
            outcome.oracle_failures.append(dict(info, what="a stream of valid documents does not translate: %s" % (r.get("err") or r)))
            continue
        if r["written"] != r["expected_written"]:
            outcome.oracle_failures.append(dict(info, what="the output is not N times one document's translation", observed=r))
            continue
        lag = r["max_lag_docs"]
        key = req["format"]
        lags[key] = max(lags.get(key, 0), lag)
        allow = reencoder_lag_allowance(req)
        if lag > LAG_BOUND and allow is not None and lag <= allow and any(k["id"] == KNOWN_REENC for k in common.load_known("C05")):
            if not any(h[0] == KNOWN_REENC for h in outcome.known_hits):
                outcome.known_hits.append((KNOWN_REENC, "%s stream of %d documents of %d bytes, packets of %d: %d completely delivered documents held "
                                           "back at a read() call (the property allows 2; the same text in UTF-8 shows 1)"
                                           % (req["format"], req["n"], req["size"], req["packet"], lag)))
        elif lag > LAG_BOUND:
            outcome.oracle_failures.append(dict(info, what="when asked for more input xt was holding back %d completely delivered documents "
                                                "(the property allows 2)" % lag))
        elif lag > LAG_EXPECTED[key] and allow is None:
            outcome.disagreements.append(dict(info, what="observed lag %d exceeds what the loop model predicts for this parser (%d)"
                                              % (lag, LAG_EXPECTED[key])))
    memres = resps[len(reqs):]
    peaks = []
    for i in range(0, len(mem), 2):
        a, b = memres[i], memres[i + 1]
        ra, rb = mem[i], mem[i + 1]
        if not a.get("ok") or not b.get("ok"):
            outcome.oracle_failures.append({"what": "memory run failed", "request": ra, "observed": [a, b]})
            continue
        pa, pb = a["peak_over_base"], b["peak_over_base"]
        peaks.append({"format": ra["format"], "detect": ra["detect"], "doc_size": ra["size"], "n": ra["n"], "peak": pa, "n4": rb["n"], "peak4": pb})
        if pb > pa * 1.25 + 65536:
            outcome.oracle_failures.append({"what": "peak live heap grows with the length of the stream: %d bytes for %d documents, %d bytes for %d"
                                                    % (pa, ra["n"], pb, rb["n"]), "format": ra["format"], "detect": ra["detect"], "doc_size": ra["size"]})
        if pa > 700000 + 6 * ra["size"]:
            outcome.oracle_failures.append({"what": "peak live heap %d is not proportional to one document (%d bytes) plus a constant" % (pa, ra["size"]),
                                            "format": ra["format"], "detect": ra["detect"]})
    outcome.evaluations += len(reqs) + len(mem)
    outcome.traces_validated += len(reqs)
    outcome.distinct_nontrivial += sum(1 for r in reqs if r["n"] >= 100)
    outcome.extra["streaming"] = {"streams": len(reqs), "max_observed_lag_in_documents": lags, "model_prediction": LAG_EXPECTED,
                                  "property_bound": LAG_BOUND, "document_counts": ns, "document_sizes": sizes}
    outcome.extra["memory"] = {"pairs": len(peaks), "samples": peaks[:6]}
    outcome.add_sample({"format": "yaml", "n": 3000, "size": 200, "packet": 66, "observed_lag": lags.get("yaml")})


def replay(outcome, path):
    print(json.dumps(json.load(open(path)).get("failure"), indent=1))
    run(outcome, "quick", 1)
