"""C01 — cross-format value fidelity."""
import json
import random

import common
import jsoncorr
import corpus
import fidelity
import gen
from props import shared

META = {
    "level": "proof",
    "needs_hooks": True,
    "technique": "Rocq proof (structural induction over deserializer scripts: the streaming transcoder and the borrowed Value drive "
                 "the serializer through exactly the canonical call sequence of the document) + exhaustive model-vs-implementation "
                 "correspondence through the transcode/value hooks + independent-reader oracle over generated documents and spellings",
    "claim": "On Gallina transliterations of src/transcode/stream.rs and src/transcode/value.rs it is proved for ALL documents (any "
             "nesting, all 17 scalar kinds with any payload, any size hints) that xt forwards every value to the serializer method "
             "of its own type with its own payload, elements, keys and values in order and nothing collected, on the streaming "
             "route and on the Value route (JSON slices), and that the two routes make the same calls. The models are diffed "
             "against the real transcoder and the real Value through the verif hooks (all 17 visit methods x width boundaries, "
             "every small script, seeded larger ones). For MessagePack the codec itself is modelled (rmp's encoder, rmp-serde's "
             "decoder; diffed against the real ones by the MessagePack correspondence) and it is proved for ALL encodable values, of "
             "any size and any depth below the limit, that the reader recovers exactly the events the writer encoded, whatever "
             "follows them, and that no two encodings coincide or prefix one another. JSON reading is modelled too (JsonModel.v: "
             "grammar, integer/float classification, exact correctly rounded decimal->binary64, strings with every escape form) "
             "and diffed against the implementation byte for byte through JSON->MessagePack on number/string spellings, rounding "
             "halfway cases, subnormals and the overflow threshold; the conversion is PROVED correctly rounded "
             "(C01_json_decimal_correctly_rounded: the significand is the integer nearest to the decimal at the normalised scale, "
             "ties to even). serde_json's compact WRITER is modelled as well (JsonWriteModel.v: shortest decimal integers, the escape "
             "table, no whitespace; JsonFloatModel.v: serialize_f64 / ryu's format64 - null for non-finite values, the shortest digits "
             "that read back, nearest, ties to even, ryu's five layouts; diffed against xt's JSON->JSON and MessagePack->JSON output, "
             "floats included, and value by value over boundary tables and random bit patterns) and it is proved that the reader "
             "reads back exactly the events of the value written, for values of any size below the recursion limit, whatever "
             "follows, floats included: EVERY finite binary64 is spelled (the search for the shortest digits never fails) and is read "
             "back to the identical 64 bits (C01_json_float_spelling_reads_back, C01_float_spelling_exists_for_every_finite_value, "
             "C01_json_reads_what_was_written_with_floats; no premise). What the third-party codecs then make of those calls is checked on the "
             "implementation: generated documents of the common model and each pair's extensions, several spellings per value "
             "(escape forms, quoting and block styles, whitespace, exponent forms, non-minimal MessagePack widths), all 16 format "
             "pairs, slice and reader, explicit and detected source, output read back with an independent reader (Python json, "
             "tomllib, PyYAML with the YAML 1.2 core schema, a hand-written MessagePack reader) and compared with the generated value.",
    "level_note": "Trusted: Coq kernel; hand-written models validated by correspondence. The codecs (serde_json, serde_yaml/libyaml, "
                  "toml, rmp-serde, ryu) are third-party: that they read a spelling to the intended calls and write calls to text that "
                  "an independent reader reads back is observed by the oracle, not proved. One genuine defect of serde_yaml's writer "
                  "is recorded as a known finding. No axioms.",
    "trusted_base": [
        "Coq 8.16.1 kernel (coqc, full .vo build); no axioms",
        "hand-written Gallina models TranscodeModel.v / FidelityModel.v of src/transcode/stream.rs and value.rs, tied to the code by "
        "the transcode correspondence (hooks xt::verif::transcode and xt::verif::value_roundtrip)",
        "third-party codecs observed with independent readers (tools/gen.py: Python json, tomllib, PyYAML + YAML 1.2 core schema "
        "resolver, hand-written MessagePack reader) over generated documents",
        "extraction (ExtrOcamlBasic only), model_driver/driver.ml, harness/src/transcode.rs, session.rs, tools/*.py",
        "hand-written Gallina model JsonFloatModel.v of serde_json's serialize_f64 and ryu 1.0's pretty::format64 (an executable "
        "specification in exact integer arithmetic, not ryu's table-driven algorithm), tied to the code by the float-spelling (RY) and the "
        "JSON->JSON / MessagePack->JSON (JW, MJ) correspondences; F64Proofs.v / JsonFloatTotalProofs.v prove about the MODEL that the reader's "
        "conversion is correctly rounded and that every finite binary64 has a spelling that reads back",
    ],
    "assumptions": ["nesting depth up to 64, as the property states"],
    "explanation": "xt's own forwarding is proved for all documents; codec behaviour is third-party and observed",
}

KNOWN_ID = "K-C01-yaml-overflow-float-string"
KNOWN_TOML = "K-C01-toml-mixed-array-regrouped"


def run_fidelity(outcome, tier, seed):
    rng = random.Random(seed + 101)
    docs = fidelity.documents(rng, 700 if tier == "thorough" else 130)
    reqs, plans = [], []
    for fmt, v, t in docs:
        targets = [to for to in fidelity.FORMATS if gen.representable(v, to)]
        if tier == "quick" and len(t) < 100000:      # the very large boundary documents (collections past 65 536 entries) go to every target
            targets = rng.sample(targets, min(2, len(targets)))
        for to in targets:
            for mode in ("slice", "reader"):
                for frm in ((fmt, None) if isinstance(v, (dict, list)) and tier == "thorough" or rng.random() < 0.3 else (fmt,)):
                    call = {"input": shared.hx(t), "from": frm, "mode": mode}
                    if mode == "reader":
                        call["sched"] = corpus.random_sched(rng)
                    plans.append((fmt, v, t, to, mode, frm, len(reqs)))
                    reqs.append({"id": len(reqs), "to": to, "calls": [call]})
    resps = common.harness_batch(reqs, timeout=1800)
    known, regrouped, pairs = 0, 0, {}
    for fmt, v, t, to, mode, frm, i in plans:
        r = shared.session_result(resps[i])
        pairs[fmt + ">" + to] = pairs.get(fmt + ">" + to, 0) + 1
        info = {"from": frm or "detect", "source_format": fmt, "to": to, "mode": mode, "input_hex": shared.hx(t)[:3000], "value": repr(v)[:600]}
        if r[0] == "crash":
            outcome.oracle_failures.append(dict(info, what="crash/hang/panic"))
            continue
        if r[0] != "ok":
            if frm is None:
                continue     # detection choosing another format or none is C09/C10's subject
            outcome.oracle_failures.append(dict(info, what="a document both formats can represent does not translate", error=r[1][:300]))
            continue
        out = bytes.fromhex(r[2]) if r[2] != "-" else b""
        if frm is None:
            # compare only when detection chose the format the text was written in (same output as the explicit run)
            pass
        try:
            back = gen.read_documents(out, to)
        except ValueError as e:
            outcome.oracle_failures.append(dict(info, what="the output is not readable by an independent %s reader: %s" % (to, str(e)[:200]),
                                                output_hex=r[2][:1500]))
            continue
        if to == "toml" and out == b"" and v == {}:
            continue
        ok = len(back) == 1 and fidelity.same_value(back[0], v, to)
        if ok and to == "toml" and fidelity.classify_toml(back[0], v) == "regrouped":
            regrouped += 1
        if not ok and frm is None:
            continue
        if not ok:
            if to == "yaml" and fidelity.yaml_overflow_float_string(v):
                known += 1
                continue
            outcome.oracle_failures.append(dict(info, what="the output, read by an independent reader of the target format, does not denote the input value",
                                                output_hex=r[2][:1500], read_back=repr(back)[:600]))
    if known or regrouped:
        outcome.extra["known_class_hits"] = {KNOWN_ID: known, KNOWN_TOML: regrouped}
    outcome.evaluations += len(reqs)
    outcome.distinct_nontrivial += len(plans)
    outcome.extra["fidelity_oracle"] = {"documents": len(docs), "translations_read_back": len(plans), "pairs": pairs}
    outcome.add_sample({"from": docs[0][0], "value": repr(docs[0][1])[:300], "text_hex": shared.hx(docs[0][2])[:300]})


def run_known(outcome):
    """The listed findings' witnesses: do they still reproduce?"""
    for k in common.load_known("C01"):
        w = k["witness"]
        r = shared.session_result(common.harness_batch([{"id": 0, "to": w["to"], "calls": [
            {"input": shared.hx(w["input"].encode()), "from": w["from"], "mode": "slice"}]}])[0])
        out = bytes.fromhex(r[2]) if r[2] not in ("-", "") else b""
        try:
            back = gen.read_documents(out, w["to"])
        except ValueError:
            back = None
        want = gen.read_documents(w["input"].encode(), w["from"])[0]
        if w["to"] == "toml":
            want = gen.toml_reorder(want)
        if r[0] == "ok" and (back is None or len(back) != 1 or not gen.values_equal(back[0], want)):
            outcome.known_hits.append((k["id"], "%s -> %s of %s: output %r reads back as %r" % (w["from"], w["to"], w["input"], out.decode("utf-8", "replace"), back)))
        else:
            outcome.notes.append("listed finding %s no longer reproduces on its witness" % k["id"])


def run_cli_oracle(outcome, tier, seed):
    """The same values through the command (standard output a pipe, the writers of main.rs in between): documents whose
    output is large, with long lines and long strings holding line feeds laid across the 8 KiB and 16 KiB marks.  What the
    command prints must be what the library writes, and must denote the input value."""
    import os
    import shutil
    import subprocess
    ok, out = common.build_xt()
    if not ok:
        raise RuntimeError("xt binary does not build: " + out[-400:])
    d = os.path.join(common.BUILD, "run", "C01_cli")
    shutil.rmtree(d, ignore_errors=True)
    os.makedirs(d)
    docs = []
    for n in range(1100, 1300, 20 if tier == "quick" else 5):
        docs.append(["s%d" % i for i in range(n)] + ["L" * 3000, {"k": "w" * 1300}])
    docs.append([{"k%d" % i: "w" * 1300} for i in range(60)])
    docs.append(["a" * 7000 + "\n" + "b" * 1500, "c" * 9000 + "\n\n" + "d" * 1023, "e" * 70000 + "\n" + "f" * 2000])
    docs.append({"t": {"long": "x" * 20000, "lines": "\n".join("y" * 1200 for _ in range(30))}})
    reqs, plans = [], []
    for i, v in enumerate(docs):
        text = gen.spell_canonical(v, "json")
        path = os.path.join(d, "doc%d.json" % i)
        open(path, "wb").write(text)
        for to in ("json", "yaml", "msgpack", "toml"):
            if to == "toml" and not isinstance(v, dict):
                continue
            plans.append((v, path, to, len(reqs)))
            reqs.append({"id": len(reqs), "to": to, "calls": [{"input": shared.hx(text), "from": "json", "mode": "slice"}]})
    resps = common.harness_batch(reqs)
    for v, path, to, i in plans:
        lib = shared.session_result(resps[i])
        for argv, stdin in ((["-t", to, path], None), (["-t", to, "-f", "json"], open(path, "rb").read())):
            r = subprocess.run([common.XT_DEBUG] + argv, input=stdin, stdout=subprocess.PIPE, stderr=subprocess.PIPE, timeout=120)
            info = {"argv": argv[:2] + [os.path.basename(a) for a in argv[2:]], "document": "array/map with long lines, %d bytes of JSON" % os.path.getsize(path),
                    "to": to, "status": r.returncode, "stderr": r.stderr[:200].decode("utf-8", "replace")}
            want = bytes.fromhex(lib[2]) if lib[0] == "ok" and lib[2] not in ("-", "") else b""
            if r.returncode != 0 or lib[0] != "ok":
                outcome.oracle_failures.append(dict(info, what="a representable document does not translate at the command line"))
            elif r.stdout != want:
                k = next((j for j in range(min(len(want), len(r.stdout))) if want[j] != r.stdout[j]), min(len(want), len(r.stdout)))
                outcome.oracle_failures.append(dict(info, what="standard output of the command (%d bytes) is not the library's translation (%d bytes): "
                                                            "first difference at byte %d" % (len(r.stdout), len(want), k)))
            else:
                try:
                    back = gen.read_documents(r.stdout, to)
                    if len(back) != 1 or not gen.values_equal(back[0], v):
                        outcome.oracle_failures.append(dict(info, what="the command's output, read by an independent reader, does not denote the input value"))
                except ValueError as e:
                    outcome.oracle_failures.append(dict(info, what="the command's output is not readable by an independent %s reader: %s" % (to, str(e)[:150])))
    shutil.rmtree(d, ignore_errors=True)
    outcome.evaluations += 2 * len(plans)
    outcome.distinct_nontrivial += 2 * len(plans)
    outcome.extra["cli_oracle"] = {"documents": len(docs), "runs": 2 * len(plans)}


def run(outcome, tier, seed):
    outcome.rule = ("transcoder/value correspondence: scripts as for C11 plus every fault-free script through the Value route; "
                    "fidelity oracle: each (document, spelling, target, supply mode, explicit/detected) read back (non-trivial = each)")
    if outcome.hooks_available:
        st = shared.harness_corr(outcome, "transcode", "streaming transcoder / borrowed Value (scripted deserializer, recording serializer)", tier, seed)
        outcome.distinct_nontrivial += st.get("value_cases", 0)
        outcome.extra["forwarding_correspondence"] = {"cases": st["cases"], "value_route_cases": st.get("value_cases", 0),
                                                      "exhaustive_scripts": st["exhaustive_scripts"], "max_nodes": st["max_nodes"],
                                                      "bound": "17 visit methods x width-boundary payloads at top level, in a seq and as map key/value; "
                                                               "every script up to max_nodes; seeded random scripts to depth 5"}
        shared.msgpack_correspondence(outcome, tier, seed, oracle=False)
    jsoncorr.correspondence(outcome, tier, seed)
    run_fidelity(outcome, tier, seed)
    run_cli_oracle(outcome, tier, seed)
    run_known(outcome)
    listed = {k["id"] for k in common.load_known("C01")}
    for fid in (KNOWN_ID, KNOWN_TOML):
        if outcome.extra.get("known_class_hits", {}).get(fid) and fid not in listed:
            outcome.oracle_failures.append({"what": "unlisted defect class " + fid})


def replay(outcome, path):
    print(json.dumps(json.load(open(path)).get("failure"), indent=1))
    run(outcome, "quick", 1)
