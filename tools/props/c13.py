"""C13 — CLI exit status and stream discipline."""
import itertools
import json
import random

import cli
import common

META = {
    "level": "proof",
    "needs_hooks": False,
    "technique": "Rocq proof on a Gallina model of lexopt's argument lexer, Cli::parse_args, main()'s loop, BufWriter and the "
                 "pipecheck wrapper (termination measure for parsing; invariant over the input list for the loop) + "
                 "model-vs-binary correspondence over enumerated argument vectors",
    "claim": "On a Gallina transliteration of lexopt 0.3.0's Unix lexer, Cli::parse_args, try_parse_format, main()'s loop over "
             "inputs, std's BufWriter::write_all/flush and pipecheck::Writer it is proved for ALL argument vectors, stdout kinds, "
             "stdout devices (any short-write pattern, any failure point) and environments: parsing terminates; exit status 2 "
             "exactly when parse_args rejects the command line, and then nothing is written to stdout, nothing opened or read and "
             "stderr is the usage error; otherwise the status is 0, 1 or SIGPIPE, stdout only carries a prefix of the "
             "concatenated translations, status 0 implies every input opened and translated, all output written and stderr "
             "empty, status 1 always has an 'xt error' line naming the path when it belongs to one; MessagePack is never "
             "written to a terminal. The model is diffed against the real binary (built from the working tree) on every "
             "argument vector of length <= 2 over the option vocabulary, seeded longer ones, with stdout a pipe, a file and a "
             "pseudo-terminal; what each input translates to is taken from in-process library calls.",
    "level_note": "Trusted: Coq kernel; hand-written model validated by correspondence against the binary; lexopt, BufWriter and "
                  "process::exit are modelled from their sources; the OS (exec, pipes, ttys) is observed. No axioms.",
    "trusted_base": [
        "Coq 8.16.1 kernel (coqc, full .vo build); vm_compute only in examples; no axioms",
        "hand-written Gallina model coq/theories/CliModel.v of src/main.rs, src/bail.rs, src/pipecheck.rs, lexopt 0.3.0 "
        "(next/value/optional_value, Unix branch) and std::io::BufWriter (write_all, flush), tied to the code by running the "
        "real binary on the same argument vectors (tools/cli.py)",
        "per-input translation results come from the library in-process (harness sessions), not from the model",
        "extraction (ExtrOcamlBasic only), model_driver/driver.ml, tools/cli.py, Python subprocess/pty",
    ],
    "assumptions": ["non-UTF-8 arguments are outside the enumerated vocabulary (the model treats every byte >= 0x80 in an option "
                    "cluster as an unknown option, which is what lexopt's U+FFFD path amounts to)"],
    "explanation": "the decision logic is proved on the model for all argument vectors; the model is tied to the binary by "
                   "exhaustive short argument vectors and seeded longer ones",
}

OPTS = ["-f", "-t", "-fj", "-fjson", "-f=yaml", "-tm", "-ttoml", "-t=y", "-ty", "-fx", "-t=", "-f=", "-q", "-hq", "-qh", "-Vf", "-ft",
        "--bogus", "--help", "--help=x", "--version", "--version=1", "--f", "--from=json", "-h", "-V", "--", "-", "-=", "-f-", "-tj-"]
VALS = ["j", "json", "y", "yaml", "m", "msgpack", "t", "toml", "JSON", "x", ""]
# names that are nearly format names: the extensions that are not names, other letter case, prefixes, plurals
NEAR = ["yml", "YML", "Yml", "yam", "ya", "Yaml", "YAML", "jso", "js", "jsonl", "Json", "J", "Y", "M", "T", "msgpac", "mp", "mpk", "messagepack",
        "MsgPack", "tom", "tml", "Toml", "to", " json", "json ", "j ", "yaml\n", "0", "-"]
FILES = ["a.json", "b.yaml", "c.toml", "d.msgpack", "missing.json", "dir.json", "bad.json", "und.txt", "nullkey.yaml", "two.json", "arr.json"]
QUICK_VOCAB = ["-f", "-t", "-fj", "-f=yaml", "-tm", "-ty", "-ttoml", "-fx", "-q", "-hq", "--bogus", "--help", "--help=x", "--version",
               "-h", "-V", "--", "-", "j", "yaml", "x", "a.json", "b.yaml", "missing.json", "dir.json", "bad.json", "und.txt",
               "nullkey.yaml", "two.json", "-t=", "-Vf"]
STDIN = b'{"stdin":[1,2]}\n'


def vectors(tier, rng):
    vocab = OPTS + VALS + FILES if tier == "thorough" else QUICK_VOCAB
    vs = [[]] + [[a] for a in OPTS + VALS + FILES] + [list(p) for p in itertools.product(vocab, repeat=2)]
    classes = [["-f", "-t"], ["-fj", "-tyaml"], ["-fx"], ["-q", "--bogus"], ["-h", "--help"], ["-V"], ["--"], ["-"], ["j", "toml"], ["x"],
               ["a.json", "b.yaml"], ["missing.json"], ["bad.json"], ["und.txt"], ["--help=x"], ["-t="], ["two.json"]]
    reps = [c[0] for c in classes]
    vs += [list(p) for p in itertools.product(reps, repeat=3)] if tier == "thorough" else []
    n = 4000 if tier == "thorough" else 400
    allv = OPTS + VALS + FILES
    for _ in range(n):
        vs.append([rng.choice(allv) for _ in range(rng.randint(3, 6))])
    return vs


def run(outcome, tier, seed):
    outcome.rule = ("each (argument vector, stdout kind) run through the binary and the model; non-trivial = the command line was "
                    "valid and at least one input was opened, or it was rejected for a reason other than an unknown option")
    rng = random.Random(seed + 13)
    ok, out = common.build_xt()
    if not ok:
        raise RuntimeError("xt binary does not build: " + out[-600:])
    fx = cli.Fixture("C13")
    try:
        vs = vectors(tier, rng)
        cases = []
        for v in vs:
            mode = "pipe"
            r = rng.random()
            if r < 0.12:
                mode = "file"
            elif r < 0.2:
                mode = "tty"
            cases.append(cli.Case(v, STDIN, mode))
        for name in NEAR:
            for argv in (["-f", name, "a.json"], ["-t", name, "a.json"], ["-f" + name, "a.json"], ["-t" + name], ["-t=" + name, "a.json"], ["a.json", "-f", name]):
                cases.append(cli.Case(argv, STDIN, "pipe"))
        # options after operands count for all operands
        for argv in (["a.json", "-f", "yaml"], ["-", "-f", "msgpack"], ["b.yaml", "-f", "json", "b.yaml"], ["a.json", "-t", "yaml", "-f", "json"],
                     ["c.toml", "-fy"], ["und.txt", "-f", "json"], ["a.json", "b.yaml", "-f", "yaml", "-t", "msgpack"], ["-", "-ty"]):
            cases.append(cli.Case(argv, STDIN, "pipe"))
        # standard input redirected from a regular file, at offset 0 and behind bytes an earlier consumer of the descriptor took
        for skip in (b"", b'{"hdr":0}\n', b'["junk'):
            for argv in ([], ["-tj", "-"], ["-ty", "a.json", "-"], ["-f", "json", "-tj"]):
                cases.append(cli.Case(argv, STDIN, "pipe", stdin_skip=skip))
        # operands that are not regular files: what comes through a FIFO is read and judged like any other input
        import os
        for k, (name, data) in enumerate([("f%d.json", b'{"a":[1,2,}'), ("f%d.dat", b"@@@ not a document @@@"), ("f%d.yaml", b"~: 1\n"), ("f%d.json", b'{"ok":1}'),
                                           ("f%d", b""), ("f%d.toml", b"= 1\n")]):
            name = name % k
            os.mkfifo(fx.path(name))
            cases.append(cli.Case(["-tj", name], None, "pipe", fifos={name: data}))
            name2 = "g" + name
            os.mkfifo(fx.path(name2))
            cases.append(cli.Case(["-tj", "a.json", name2], None, "pipe", fifos={name2: data}))
        # the terminal guard for every target
        for to in ("json", "yaml", "toml", "msgpack", "m", "j"):
            cases.append(cli.Case(["-t", to, "a.json"], None, "tty"))
            cases.append(cli.Case(["-t" + to], STDIN, "tty"))
            cases.append(cli.Case(["-t", to, "missing.json"], None, "tty"))
        # a device that accepts nothing: every failure to write is "every other failure" (status 1, a message)
        for argv in (["a.json"], ["-t", "yaml", "a.json", "b.yaml"], ["-t", "msgpack", "a.json"], ["-t", "toml", "a.json"], ["-tj", "big.json"],
                     ["-t", "yaml", "m.json"], ["-t", "json", "c.toml", "d.msgpack"], ["--help"], ["-V"], ["-t", "json", "missing.json"]):
            cases.append(cli.Case(argv, None, "devfull"))
        cases.append(cli.Case(["-t", "json"], STDIN, "devfull"))
        # operands that look like options, option values that look like options, names that are not UTF-8
        for argv in (["--", "--help"], ["--", "--version"], ["-tj", "--", "--help", "-q"], ["-t", "--help"], ["-f", "--version", "a.json"],
                     ["-t--help"], ["--", "-q"], ["-ty", "--", "-"], ["caf\udce9.json"], ["-ty", "a.json", "caf\udce9.json"],
                     ["a.json", "missing\udcfe.json"], ["\udcff\udcfe.YAML"], ["-f", "j\udce9", "a.json"], ["--", "caf\udce9.json", "--help"]):
            cases.append(cli.Case(argv, STDIN, "pipe"))
        # nobody listens on standard error (a pipe whose reader is gone): the exit status is still 2 for an invalid command line,
        # 1 for a failure, 0 for success - never a death by signal before the status is given
        deaf = 0
        for argv, want in ((["-x"], 2), (["-f"], 2), (["-f", "nope", "a.json"], 2), (["-t", "json", "-t", "yaml"], 2), (["missing.json"], 1), (["und.txt"], 1),
                           (["-tt", "a.json", "a.json"], 1), (["-tj", "a.json"], 0), (["-tj", "a.json", "missing.json"], 1), (["-", "-"], 1)):
            st, out, _ = cli.run_xt(common.XT_DEBUG, argv, fx.dir, STDIN, "pipe", stderr_closed=True)
            deaf += 1
            if st != ("exit", want):
                outcome.oracle_failures.append({"what": "with standard error a pipe whose reader is gone, xt ends with %s instead of exit status %d" % (st, want),
                                                "argv": argv, "stdout_kind": "pipe", "stderr": "closed pipe"})
        outcome.extra["closed_stderr_runs"] = deaf
        results = cli.predict_and_run(common.XT_DEBUG, fx.dir, cases)
        hist, nontrivial = {}, 0
        for r in results:
            diffs = cli.compare(r, check_stdout=(r["case"].mode != "devfull"))
            st = r["actual"][0]
            hist[str(st)] = hist.get(str(st), 0) + 1
            p = r["parsed"]
            if p["kind"] == "args" or (p["kind"] == "usage" and p["why"] != "unexpected-option"):
                nontrivial += 1
            if st[0] == "signal" or st[0] == "hang":
                outcome.oracle_failures.append({"what": "xt died from signal %s / hung" % (st,), "argv": r["case"].argv, "stdout_kind": r["case"].mode})
            elif diffs:
                # is it the property that fails, or only the model that disagrees?  The property's own reading:
                a_status, a_out, a_err = r["actual"]
                bad = []
                if p["kind"] == "usage" and (a_status != ("exit", 2) or a_out != b"" or not a_err.startswith(b"xt error")):
                    bad.append("an invalid command line must give status 2, a usage message on stderr and nothing on stdout")
                if p["kind"] != "usage" and a_status == ("exit", 2):
                    bad.append("status 2 for a valid command line")
                if a_status == ("exit", 1) and not a_err.startswith(b"xt error"):
                    bad.append("status 1 without an 'xt error' message")
                if a_status == ("exit", 0) and a_err != b"":
                    bad.append("status 0 with text on stderr")
                pred = r["predicted"]
                if p["kind"] == "args" and r["case"].mode in ("pipe", "file") and pred.get("stdout") is not None and pred["status"] == ("exit", 0) \
                        and a_status == ("exit", 0) and a_out != pred["stdout"]:
                    bad.append("standard output carries something other than the translated data (the library's translation of the inputs, %d bytes; "
                               "observed %d bytes beginning %r)" % (len(pred["stdout"]), len(a_out), a_out[:80]))
                if r["case"].mode == "devfull" and p["kind"] == "args" and pred["status"] == ("exit", 1) and a_status == ("exit", 0):
                    bad.append("status 0 although the output could not be written (stdout is /dev/full)")
                if r["case"].mode == "tty" and p["kind"] == "args" and p.get("to") == "msgpack" and (a_out != b"" or a_status == ("exit", 0)):
                    bad.append("MessagePack written to a terminal (status %s, %d bytes on the terminal)" % (a_status[1], len(a_out)))
                rec = {"what": "; ".join(bad) if bad else "model and binary disagree: " + "; ".join(diffs), "argv": r["case"].argv,
                       "stdout_kind": r["case"].mode, "parsed": {k: (v if not isinstance(v, list) else [str(x) for x in v]) for k, v in p.items()},
                       "observed": {"status": a_status, "stdout": a_out[:200].decode("utf-8", "replace"), "stderr": a_err[:300].decode("utf-8", "replace")},
                       "differences": diffs}
                if bad:
                    outcome.oracle_failures.append(rec)
                else:
                    outcome.disagreements.append(rec)
        outcome.evaluations += len(cases)
        outcome.traces_validated += len(cases)
        outcome.distinct_nontrivial += nontrivial
        outcome.extra["cli_correspondence"] = {
            "argument_vectors": len(cases), "status_histogram": hist, "exhaustive_length": 2,
            "vocabulary": len(OPTS + VALS + FILES) if tier == "thorough" else len(QUICK_VOCAB),
            "bound": "all vectors of length <= 1 over the full vocabulary and of length 2 over the %s vocabulary; %s seeded vectors "
                     "of length 3..6; stdout a pipe (most), a file or a pseudo-terminal"
                     % ("full" if tier == "thorough" else "reduced", "class-representative triples and 4000" if tier == "thorough" else "400")}
        for r in results[5:8]:
            outcome.add_sample({"argv": r["case"].argv, "status": list(r["actual"][0])})
    finally:
        fx.close()


def replay(outcome, path):
    print(json.dumps(json.load(open(path)).get("failure"), indent=1))
    run(outcome, "quick", 1)
