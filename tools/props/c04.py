"""C04 — totality: no panic, abort, stack overflow or hang on any input."""
import json
import os
import random
import shutil
import subprocess

import common
import jsoncorr
import corpus
import gen
from props import shared

META = {
    "level": "proof",
    "needs_hooks": False,
    "technique": "Rocq proofs of panic-freedom and termination for every xt-owned component (fuel-adequacy and in-bounds invariants "
                 "by mutual induction for the MessagePack size calculator; refinement to a first-fault specification for the "
                 "transcoder; reachable-state invariant for the capture reader; chunker under libyaml's offset contract; "
                 "termination measure for argument parsing; write_all) + crash/hang oracle over exhaustive short token sequences, "
                 "structure-aware mutations and adversarial shapes, in-process and through the binaries",
    "claim": "PARTIAL by nature. Proved on the Gallina models, each for ALL inputs: the MessagePack size calculator never indexes out "
             "of range, never underflows its depth budget and terminates; the transcoder never reaches its unwrap()/take_parent() "
             "panics for any deserializer script and serializer failure schedule; the capture reader's index arithmetic is in "
             "range in every reachable state; the YAML chunker's offset arithmetic, split_off and from_utf8().unwrap() cannot "
             "panic under libyaml's offset contract; argument parsing terminates; write_all ends in Ok or the writer's error; the "
             "modelled JSON reader and both JSON document loops, and both MessagePack document loops, end with a verdict for every "
             "byte string. "
             "These models are tied to the code by the correspondences of C02/C03/C09/C11/C13/C18. Panics inside serde_json, "
             "serde_yaml, toml, rmp and libyaml, stack exhaustion and wall-clock hangs are runtime facts: they are searched for, "
             "not proved absent, by running every token sequence up to length 5/4/4 over each format's alphabet, structure-aware "
             "mutations of valid documents of every format, adversarial shapes (nesting to 10^5 (2*10^4 for YAML flow collections, where libyaml is quadratic), length prefixes to 2^32-1, "
             "alias bombs, lone anchors, empty input) and valid inputs paired with refusing targets, for 5 source selections x 4 "
             "targets x slice/reader with random read sizes, under catch_unwind with a watchdog, and through the debug binary "
             "(wait status must be exit 0 or 1).",
    "level_note": "PARTIAL: proof covers xt's own code on the models; third-party panics, stack overflow and hangs are observed by the "
                  "oracle only. Trusted: Coq kernel; models validated by the named correspondences. No axioms.",
    "trusted_base": [
        "Coq 8.16.1 kernel (coqc, full .vo build); no axioms",
        "hand-written Gallina models (MsgpackModel, TranscodeModel, InputModel, ChunkerModel, CliModel, IoModel), each tied to the code by "
        "the correspondence of the property that owns it",
        "third-party crates and the runtime (stack, allocator, scheduler): observed under catch_unwind + watchdog and by the binaries' "
        "wait status; nothing is claimed about inputs not run",
        "harness/src/tokens.rs, session.rs, tools/*.py",
    ],
    "assumptions": ["libyaml reports offsets that are monotone, within the bytes it pulled and on UTF-8 boundaries (checked by the "
                    "chunker correspondence on every run)"],
    "explanation": "panic-freedom/termination of xt's own logic is proved; everything that lives in third-party code or the runtime is "
                   "searched for crashes and hangs, which is evidence, not proof",
}


KNOWN_TOML_NEST = "K-C04-toml-dotted-keys-stack-overflow"


def adversarial(tier="thorough"):
    out = []
    for n in ((200, 5000, 100000) if tier == "thorough" else (200, 5000)):
        out += [("json", b"[" * n), ("json", b"[" * n + b"]" * n), ("json", b'{"a":' * n + b"1" + b"}" * n),
                ("yaml", b"[" * min(n, 20000)), ("yaml", b"- " * min(n, 20000) + b"x\n"), ("yaml", b"{a: " * min(n, 20000) + b"1" + b"}" * min(n, 20000)),   # libyaml is quadratic in flow nesting depth
                ("yaml", b"".join(b" " * i + b"a:\n" for i in range(min(n, 3000)))),
                ("toml", b"a = " + b"[" * n + b"]" * n), ("toml", b"a = " + b"{b = " * min(n, 5000) + b"1" + b"}" * min(n, 5000)),
                ("toml", b"[" + b".".join([b"a"] * min(n, 20000)) + b"]\n"),
                ("msgpack", b"\x91" * n + b"\xc0"), ("msgpack", b"\x81\xa1k" * n + b"\xc0"), ("msgpack", b"\x81" * n + b"\xc0" + b"\x01" * n)]
    # MessagePack nesting is bounded by xt's own depth accounting (size calculator + rmp's limit): always go deep,
    # in every nesting shape, also in the quick tier
    for n in (20000, 300000):
        out += [("msgpack", b"\x91" * n + b"\xc0"), ("msgpack", b"\x81\xa1k" * n + b"\xc0"), ("msgpack", b"\x81" * n + b"\xc0" + b"\x01" * n),
                ("msgpack", (b"\x91\x81\xa1k") * (n // 2) + b"\xc0"), ("msgpack", b"\xdc\x00\x01" * n + b"\x01"),
                ("msgpack", b"\xdf\x00\x00\x00\x01\xa1k" * n + b"\x01")]
    out += [("msgpack", b"\xdb\xff\xff\xff\xff" + b"a" * 10), ("msgpack", b"\xdd\xff\xff\xff\xff\x01"), ("msgpack", b"\xdf\xff\xff\xff\xff\xa1a\x01"),
            ("msgpack", b"\xc6\xff\xff\xff\xffxx"), ("msgpack", b"\xc9\xff\xff\xff\xff\x01x"), ("msgpack", b"\xdc\xff\xff" + b"\x01" * 100),
            ("yaml", b"a: &a [*a]\n"), ("yaml", b"*y"), ("yaml", b"&a"), ("yaml", b"&a *a"), ("yaml", b"a: &x\n  b: *x\n"),
            ("yaml", b"".join(b"a%d: &a%d [%s]\n" % (i, i, b",".join([b"*a%d" % (i - 1)] * 9) if i else b"1") for i in range(12))),
            ("yaml", b"? " * 2000 + b"a\n"), ("yaml", b"!!binary |\n  " + b"A" * 100000 + b"\n"), ("yaml", b"%YAML 9.9\n---\na\n"),
            ("json", b""), ("yaml", b""), ("toml", b""), ("msgpack", b""), ("json", b"\x00"), ("json", b'"' + b"\\u0000" * 50000 + b'"'),
            ("json", b"1" * 100000), ("json", b"-" + b"9" * 400 + b"e" + b"9" * 400), ("json", b"1e-" + b"9" * 100000),
            ("toml", b"a = " + b"9" * 100000), ("toml", b"a" * 100000 + b" = 1"), ("toml", b'a = """' + b"\\" * 99999),
            ("toml", corpus.toml_dotted_nest(8)), ("toml", corpus.toml_dotted_nest(20)), ("toml", corpus.toml_dotted_nest(60)),
            ("yaml", b"a" * 200000), ("yaml", b"\xef\xbb\xbf" * 1000), ("yaml", b"\xff\xfe" + b"a\x00" * 5000), ("yaml", b"\x00\x00\xfe\xff" + b"\x00\x11\x00\x00" * 10)]
    # YAML behind a UTF-8 byte order mark (and UTF-16/32 behind two marks, of which the re-encoder keeps one), with multi-byte
    # characters at the end of each document: whatever offsets the parser reports, a document is cut at a character
    for body in ("[\u20ac]", "- \u00e9\n- \u20ac\n---\n- \U0001f600\n", "k: \u20ac\n---\nj: \u00e9\u00e9\n---\n\U0001f600\n", "{a: \u20ac}\n--- \u20ac\n", "\u20ac"):
        out.append(("yaml", b"\xef\xbb\xbf" + body.encode()))
        out.append(("yaml", ("\ufeff\ufeff" + body).encode("utf-16-le")))
        out.append(("yaml", ("\ufeff\ufeff" + body).encode("utf-32-be")))
    # every ill-formed one- and two-unit class of UTF-16 and UTF-32 YAML, both byte orders, with and without a byte order mark
    # (the debug binary has overflow checks: arithmetic on surrogates must not be reached with anything but a valid pair)
    for order in ("big", "little"):
        for bom in (True, False):
            def enc(units, width, order=order, bom=bom):
                return b"".join(u.to_bytes(width, order) for u in ([0xFEFF] if bom else []) + [ord(c) for c in "a: "] + units + [0x0A])
            for bad in ([0xDC00], [0xD800], [0xD800, 0x41], [0xDC00, 0xD800], [0xD800, 0xD800], [0xDBFF, 0xDBFF], [0xDFFF, 0x41], [0xD83D, 0xD83D, 0xDE00],
                        [0xDBFF, 0xDFFF], [0xD800, 0xDC00], [0xDFFF, 0xDFFF]):
                out.append(("yaml", enc(bad, 2)))
            for bad in ([0xD800], [0xDFFF], [0x110000], [0xFFFFFFFF], [0x7FFFFFFF], [0x10FFFF]):
                out.append(("yaml", enc(bad, 4)))
            out.append(("yaml", enc([0x41], 2)[:-1]))
            out.append(("yaml", enc([0x41], 4)[:-3]))
    # failures whose message quotes thousands of multi-byte characters, at every alignment (a message that is cut, wrapped or
    # measured in bytes must still be cut at a character)
    for ch in ("\u00e9", "\u20ac", "\U0001f600"):
        for shift in range(4):
            pad = "x" * shift
            out.append(("toml", ('%sk = "%s" @\n' % (pad, ch * 2500)).encode()))
            out.append(("toml", ('%s = 1\n%s = 1\n' % (pad + ch * 1500, pad + ch * 1500)).encode()))      # duplicate key, quoted in the message
            keys = [pad + ch * 40 + str(i) for i in range(30)]
            out.append(("yaml", ("".join("  " * i + k + ":\n" for i, k in enumerate(keys)) + "  " * 30 + "~: 1\n").encode()))
            out.append(("yaml", ('%sk: "%s\n' % (pad, ch * 3000)).encode()))        # unterminated string
    return out


def run_sessions(outcome, tier, seed):
    rng = random.Random(seed + 404)
    inputs = [d for _, d in corpus.base_inputs()] + corpus.detection_stress()
    base = list(inputs)
    for fmt in corpus.FORMATS:
        for _ in range(120 if tier == "thorough" else 25):
            try:
                v = gen.gen_value(rng, depth=4, profile=fmt)
                if gen.representable(v, fmt):
                    base.append(gen.spell(v, fmt, rng))
            except Exception:
                pass
    for _ in range(6000 if tier == "thorough" else 900):
        d = rng.choice(base)
        for _ in range(rng.randint(1, 4)):
            d = gen.mutate(d, rng)
        inputs.append(d[:200000])
    inputs += [d for _, d in adversarial(tier)]
    reqs = []
    for data in inputs:
        combos = [(f, t, m) for f in corpus.FORMATS + [None] for t in corpus.FORMATS for m in ("slice", "reader")]
        if tier == "quick" or len(data) > 20000:
            combos = rng.sample(combos, 3 if len(data) <= 20000 else 2)
            if len(data) > 20000 and data[:1] in (b"\x91", b"\x81", b"\xdc", b"\xdf"):
                combos += [("msgpack", rng.choice(corpus.FORMATS), "slice"), ("msgpack", rng.choice(corpus.FORMATS), "reader")]
        for f, t, m in combos:
            call = {"input": shared.hx(data), "from": f, "mode": m}
            if m == "reader":
                call["sched"] = corpus.random_sched(rng)
            reqs.append({"id": len(reqs), "to": t, "calls": [call]})
            # the same translation into a writer that starts failing at some output byte: an error value, never a panic
            if len(data) <= 4000 and rng.random() < 0.5:
                for k in {0, 1, rng.randrange(0, 12), rng.randrange(0, 64), rng.randrange(0, 400)}:
                    reqs.append({"id": len(reqs), "to": t, "wfault": k, "calls": [dict(call)]})
    resps = common.harness_batch(reqs, timeout=2400, stall=60)
    hist = {}
    for req, resp in zip(reqs, resps):
        r = shared.session_result(resp)
        hist[r[0]] = hist.get(r[0], 0) + 1
        if r[0] == "crash" and corpus.is_toml_dotted_nest(bytes.fromhex(req["calls"][0]["input"])) \
                and any(k["id"] == KNOWN_TOML_NEST for k in common.load_known("C04")):
            if not any(h[0] == KNOWN_TOML_NEST for h in outcome.known_hits):
                outcome.known_hits.append((KNOWN_TOML_NEST, "in-process translation of %d nested inline tables under 79-part dotted keys: the process dies "
                                           "(stack overflow)" % bytes.fromhex(req["calls"][0]["input"]).count(b"{")))
        elif r[0] == "crash":
            c = req["calls"][0]
            outcome.oracle_failures.append({"what": "panic, abort, crash or hang: " + r[1][:200], "from": c["from"] or "detect", "to": req["to"],
                                            "mode": c["mode"], "sched": c.get("sched"), "input_hex": c["input"][:4000], "input_len": len(c["input"]) // 2})
    outcome.evaluations += len(reqs)
    outcome.distinct_nontrivial += len(reqs)
    outcome.extra["mutation_fuzz"] = {"inputs": len(inputs), "translations": len(reqs), "verdicts": hist,
                                      "longest_wait_for_an_answer_s": round(common.BATCH_STATS["max_gap_s"], 2)}


def run_binary(outcome, tier, seed):
    ok, out = common.build_xt()
    if not ok:
        raise RuntimeError("xt binary does not build")
    d = os.path.join(common.BUILD, "run", "C04_bin")
    shutil.rmtree(d, ignore_errors=True)
    os.makedirs(d)
    ext = {"json": "json", "yaml": "yaml", "toml": "toml", "msgpack": "msgpack"}
    jobs = []
    for i, (fmt, data) in enumerate(adversarial(tier)):
        p = os.path.join(d, "adv%d.%s" % (i, ext[fmt]))
        open(p, "wb").write(data)
        for argv, stdin in (([p], None), (["-f", fmt], data), (["-t", "yaml", p], None), (["-t", "msgpack", "-f", fmt], data)):
            if tier == "quick" and len(data) > 50000 and argv[0] != p:
                continue
            jobs.append((fmt, data, argv, stdin))
        # declared lengths far beyond the data, through every target and both supply modes (a target that collects the
        # document first must not trust the declared length)
        if fmt == "msgpack" and len(data) < 64 and data[:1] in (b"\xdb", b"\xdd", b"\xdf", b"\xc6", b"\xc9", b"\xdc"):
            for to in ("json", "yaml", "toml", "msgpack"):
                jobs.append((fmt, data, ["-t", to, "-f", fmt], data))
                jobs.append((fmt, data, ["-t", to, p], None))
    # documents nested as deep as each source format allows (and a little less), to every target: legal input never kills xt
    for fmt, docs in (("msgpack", [corpus.nest_msgpack(dd, sh) for dd in (900, 1000, 1023) for sh in ("map", "array", "alt")]),
                      ("json", [b'{"a":' * 127 + b"1" + b"}" * 127, b"[" * 127 + b"1" + b"]" * 127]),
                      ("yaml", [b"{a: " * 126 + b"1" + b"}" * 126, b"- " * 126 + b"1\n"])):
        for k, data in enumerate(docs):
            p = os.path.join(d, "deep%d.%s" % (k, ext[fmt]))
            open(p, "wb").write(data)
            for to in ("json", "yaml", "toml", "msgpack"):
                jobs.append((fmt, data, ["-t", to, p], None))
                jobs.append((fmt, data, ["-t", to, "-f", fmt], data))
    # error paths with a standard error stream that cannot be written to: still exit status 1, never an abort
    errjobs = []
    for argv, stdin in ((["missing.json"], None), (["-f", "json"], b"{"), (["-t", "json", "-f", "yaml"], b"~: 1\n"), (["-", "-"], b"1"),
                        (["-f", "toml", "-t", "json"], b"a = \n"), (["--bogus"], None), (["-t", "toml", "-f", "json"], b"[1]")):
        errjobs.append(("stderr=/dev/full", b"", argv, stdin))
    bad = []

    def one(job):
        fmt, data, argv, stdin = job
        if len(bad) >= 3:
            return None      # enough failing runs to report; do not wait for more timeouts
        try:
            if fmt == "stderr=/dev/full":
                with open("/dev/full", "wb") as full:
                    r = subprocess.run([common.XT_DEBUG] + argv, input=stdin, stdout=subprocess.DEVNULL, stderr=full, timeout=60, cwd=d)
                rc = r.returncode if r.returncode != 2 else 1      # a usage error is status 2: fine, it is an exit
            else:
                r = subprocess.run([common.XT_DEBUG] + argv, input=stdin, stdout=subprocess.DEVNULL, stderr=subprocess.PIPE, timeout=300)
                rc = r.returncode
        except subprocess.TimeoutExpired:
            rc = "timeout"
        if rc not in (0, 1) and fmt == "toml" and corpus.is_toml_dotted_nest(data) and rc == -6 \
                and any(k["id"] == KNOWN_TOML_NEST for k in common.load_known("C04")):
            if not any(h[0] == KNOWN_TOML_NEST for h in outcome.known_hits):
                outcome.known_hits.append((KNOWN_TOML_NEST, "xt %s on %d nested inline tables under 79-part dotted keys (%d bytes of TOML): the debug "
                                           "binary overflows its stack and aborts (SIGABRT)" % (" ".join(a if a != argv[-1] or stdin else "<file>" for a in argv),
                                                                                               data.count(b"{"), len(data))))
        elif rc not in (0, 1):
            bad.append({"what": "the xt binary did not exit with status 0 or 1 (wait status %s)" % rc, "argv": argv,
                        "format": fmt, "input_len": len(data), "input_head_hex": data[:64].hex()})
        return rc

    import concurrent.futures
    with concurrent.futures.ThreadPoolExecutor(8) as ex:
        n = sum(1 for rc in ex.map(one, jobs + errjobs) if rc is not None)
    outcome.oracle_failures.extend(bad)
    shutil.rmtree(d, ignore_errors=True)
    outcome.evaluations += n
    outcome.distinct_nontrivial += n
    outcome.extra["binary_runs"] = {"runs": n, "adversarial_shapes": len(adversarial(tier))}


def run(outcome, tier, seed):
    outcome.rule = ("every translation run under catch_unwind + watchdog counts; non-trivial = each (a crash, hang or panic on any is a "
                    "violation); token sequences as in C02")
    p = subprocess.run([common.HARNESS_BIN, "tokens", "--seed", str(seed), "--tier", tier], stdout=subprocess.PIPE,
                       stderr=subprocess.DEVNULL, env=common.ENV, timeout=3000)
    if p.returncode == 3:
        h = json.loads(p.stdout.decode().strip().split("\n")[-1])
        fmt, _, hx = h.get("hang", " ").partition(" ")
        outcome.oracle_failures.append({"what": "hang: a short token sequence does not terminate (no progress for 15 s)", "from": fmt, "input_hex": hx,
                                        "modes": "translate_slice, then translate_reader with short reads"})
    elif p.returncode != 0:
        outcome.oracle_failures.append({"what": "the token-sequence run died (status %s): some short input crashes the process" % p.returncode})
    else:
        st = json.loads(p.stdout)
        for f in st["panics"]:
            outcome.oracle_failures.append({"what": "panic on a short token sequence", "case": f})
        outcome.evaluations += st["cases"] * 2
        outcome.extra["token_sequences"] = {"sequences": st["cases"], "max_length": st["max_len"], "panics": len(st["panics"])}
        outcome.extra["exhaustive"] = True
    if outcome.hooks_available:
        shared.msgpack_correspondence(outcome, tier, seed, oracle=False)
    if not outcome.oracle_failures:
        jsoncorr.correspondence(outcome, tier, seed)
    if outcome.oracle_failures:
        outcome.notes.append("mutation fuzz skipped: the token-sequence run already exhibits a failing input")
    else:
        run_sessions(outcome, tier, seed)
    if outcome.oracle_failures:
        outcome.notes.append("binary runs skipped: the in-process runs already exhibit a failing input")
    else:
        run_binary(outcome, tier, seed)
    outcome.add_sample({"shape": "[" * 20 + "... (100000 deep)", "formats": "json/yaml/toml/msgpack", "expect": "error value, no crash"})


def replay(outcome, path):
    print(json.dumps(json.load(open(path)).get("failure"), indent=1))
    run(outcome, "quick", 1)
