"""C10 — xt recognises its own output without -f."""
import json
import random
import re

import common
import corpus
import fidelity
import gen
from props import shared

META = {
    "level": "proof",
    "needs_hooks": True,
    "technique": "Rocq proof (detection over available input = first accepting trial in the fixed order, for arbitrary trial "
                 "behaviours; first-byte lemmas for the MessagePack trial and writer) + model-vs-implementation correspondence of the "
                 "detection order + self-detection oracle over generated documents",
    "claim": "Proved on the Gallina model of detect.rs over the input-handle model: for ALL inputs and ALL behaviours of the "
             "third-party trials, detection on available input returns the first accepting trial in the order MessagePack, JSON, "
             "YAML, TOML; no text starting with an ASCII byte ('{', '[', '---') can be taken for MessagePack; the MessagePack "
             "writer's array/map headers always start with a collection marker; hence xt's JSON / YAML / MessagePack / TOML output "
             "is detected as what it is whenever the format's own trial accepts its writer's output (explicit premises; for TOML "
             "also the property's exclusions). For MessagePack that premise is proved too: the modelled trial accepts the modelled "
             "writer's output for EVERY array- or map-rooted encodable value within the depth limit, whatever follows it. For JSON it is "
             "proved as well: the JSON trial is modelled (JsonTrialModel.v: serde_json's ignore_value as IgnoredAny drives it - no "
             "recursion limit, no range or escape checks, no UTF-8 check from a reader; diffed against the real trial on every run), "
             "it is proved to accept whatever the real parse accepts (C10_json_trial_accepts_what_parses), and with the read-back "
             "theorems of the JSON writer model (floats included) the stream xt writes for one or more values, the first a map or an "
             "array, is detected as JSON whatever the YAML trial would say (C10_own_json_output_detected, no premise). The order and "
             "error plumbing are diffed against the real detect_format: the MessagePack and JSON trials come from the models, the YAML "
             "and TOML trials are put to the third-party crates directly, the model predicts the answer, the hook reports xt's. The oracle "
             "feeds xt's output for collection-rooted documents (empty collections; first keys empty, numeric-looking, quoted, "
             "non-ASCII, starting with bytes 0x80-0xDF) back with no format named: detected format and output must equal the "
             "explicit run, one or many documents, slice and reader with random cuts.",
    "level_note": "Trusted: Coq kernel; hand-written models validated by correspondence. That the YAML and TOML trials accept what their own "
                  "writers emitted is third-party behaviour, stated as premises of the theorems and exercised by the oracle (discharged for "
                  "MessagePack and JSON on the codec models). No axioms.",
    "trusted_base": [
        "Coq 8.16.1 kernel (coqc, full .vo build); no axioms",
        "hand-written Gallina models DetectModel.v (detect.rs order, TOML trial shell), MsgpackModel.v (msgpack trial, writer headers), "
        "tied to the code by the detection-order correspondence (harness op `trials` + hook xt::verif::detect_slice/detect_reader)",
        "third-party trials (serde_json, libyaml chunker + serde_yaml, toml): acceptance of own output observed by the oracle",
        "extraction (ExtrOcamlBasic only), model_driver/driver.ml, harness/src/session.rs, tools/*.py",
        "hand-written Gallina model JsonTrialModel.v of serde_json 1.0.138's ignore_value (the scanner behind IgnoredAny, which is what xt's JSON "
        "detection trial runs), as a recursive descent equivalent to serde_json's loop with an explicit bracket stack; tied to the real trial by the JI correspondence",
    ],
    "assumptions": [],
    "explanation": "xt's detection order and first-byte logic are proved; the third-party trials' acceptance of their own writers' "
                   "output is observed",
}

JSON_START = re.compile(rb'\s*(?:[\[{"\-0-9]|true|false|null)')


def run_order_correspondence(outcome, tier, seed):
    rng = random.Random(seed + 1010)
    inputs = corpus.inputs(seed, n_mut=1200 if tier == "thorough" else 300, n_rand=300 if tier == "thorough" else 60)
    reqs = [{"id": i, "op": "trials", "input": shared.hx(d)} for i, d in enumerate(inputs)]
    resps = common.harness_batch(reqs)
    lines, idx = [], []
    for i, (d, r) in enumerate(zip(inputs, resps)):
        if r.get("panic") or r.get("crash") or r.get("hang"):
            outcome.oracle_failures.append({"what": "panic/crash running the trials", "input_hex": shared.hx(d)})
            continue
        idx.append(i)
        # the MessagePack and the JSON trial come from the model (MsgpackModel.v, JsonTrialModel.v); the YAML and TOML trials'
        # verdicts are put to the crates
        lines.append("DT %ds %s s %d %d" % (i, shared.hx(d), r["yaml"], r["toml"]))
        lines.append("DT %dr %s r %d %d" % (i, shared.hx(d), r.get("yaml_reader", r["yaml"]), r["toml"]))
        lines.append("JI %dj %s" % (i, shared.hx(d)))
    model = common.run_driver_lines(lines)
    hist = {}
    for i in idx:
        r = resps[i]
        for which, tag in (("detected_slice", "s"), ("detected_reader", "r")):
            m = model["%d%s" % (i, tag)]
            got = r[which] if r[which] is not None else "none"
            hist[got] = hist.get(got, 0) + 1
            if got != m:
                outcome.disagreements.append({"what": "detect_format (%s) differs from the model's first-accepting-trial order" % which,
                                              "input_hex": shared.hx(inputs[i]), "trials": {k: r.get(k) for k in ("json", "json_reader", "yaml", "yaml_reader", "toml")},
                                              "implementation": got, "model": m})
    # the JSON trial itself (JsonTrialModel.v: serde_json's ignore_value) against the real one, slice and reader
    jhist = {}
    for i in idx:
        r = resps[i]
        ms, _, mr = model.get("%dj" % i, "? ?").partition(" ")
        got = "%d %d" % (r["json"], r["json_reader"])
        jhist[got] = jhist.get(got, 0) + 1
        if got != "%s %s" % (ms, mr):
            outcome.disagreements.append({"what": "the JSON detection trial (slice, reader) differs from the model of serde_json's ignore_value",
                                          "input_hex": shared.hx(inputs[i]), "implementation": got, "model": "%s %s" % (ms, mr)})
    outcome.evaluations += len(reqs)
    outcome.traces_validated += len(idx)
    outcome.extra["detection_order_correspondence"] = {"inputs": len(inputs), "detected_histogram": hist,
                                                       "json_trial_verdicts(slice reader)": jhist}


def first_key_stress(rng):
    keys = ["", "1", "1.5", "true", "null", "~", "a b", "a: b", "'q'", '"dq"', "é", "܀x", "߿", "\x80".encode("latin1").decode("latin1"),
            "😀", "-", "- a", "[", "{", "#", "key", "﻿", "ß", "0x1F", "=", "[table]", "a.b"]
    docs = []
    for k in keys:
        docs.append({k: 1})
        docs.append({k: {"n": [1, 2]}})
        docs.append([{k: "v"}])
    docs += [{}, [], [[]], [{}], {"a": {}}, {"a": []}, [1], ["s"], [None], [[1, 2], [3]], {"a": 1, "b": [True, None, 1.5, "s"]},
             [1, 2, 3], [0, 255, 128], [255], list(range(256)), [[1, 2], [3, 4]], {"a": [1, 2, 3]}]
    # roots at the boundaries of MessagePack's header widths (fix / 16-bit / 32-bit length)
    for n in (15, 16, 65535, 65536):
        docs.append([0] * n)
        docs.append({"k%d" % i: 0 for i in range(n)})
    # output longer than any look-ahead a trial might take, with multi-byte characters at shifted alignments
    for shift in range(4):
        docs.append({"s" * (shift + 1): "\u00e9" * 700, "t": ["\u20ac" * 400, "\U0001f600" * 300]})
    return docs


def run_self_detection(outcome, tier, seed):
    rng = random.Random(seed + 10)
    values = first_key_stress(rng)
    for _ in range(300 if tier == "thorough" else 60):
        v = gen.gen_value(rng, depth=3, profile=rng.choice(["common", "json", "yaml"]), root=rng.choice(["map", "seq"]))
        values.append(v)
    # stage 1: produce xt's output in each format (from a JSON or MessagePack spelling of the value)
    reqs, plans = [], []
    for v in values:
        src = "msgpack" if gen.representable(v, "msgpack") else None
        if src is None:
            continue
        try:
            t = gen.spell_canonical(v, "msgpack")
        except Exception:
            continue
        for to in fidelity.FORMATS:
            if not gen.representable(v, to):
                continue
            nd = rng.choice([1, 1, 2, 3]) if to != "toml" else 1
            plans.append((v, to, nd, len(reqs)))
            reqs.append({"id": len(reqs), "to": to, "calls": [{"input": shared.hx(t * nd), "from": "msgpack", "mode": "slice"}]})
            # the same document written by the other route to the writer (a JSON slice goes through the buffered Value)
            if gen.representable(v, "json") and len(t) < 20000:
                try:
                    tj = gen.spell_canonical(v, "json")
                except Exception:
                    continue
                plans.append((v, to, 1, len(reqs)))
                reqs.append({"id": len(reqs), "to": to, "calls": [{"input": shared.hx(tj), "from": "json", "mode": "slice"}]})
    # documents that only exist as text: repeated keys (the writer must still produce a well-formed document of its format)
    for raw in (b'{"a":1,"b":2,"a":3}', b'[{"k":true,"k":false},"x"]', b'{"a":{"b":1,"b":2},"c":[1,2]}'):
        for to in ("json", "yaml", "msgpack"):
            plans.append((raw.decode(), to, 1, len(reqs)))
            reqs.append({"id": len(reqs), "to": to, "calls": [{"input": shared.hx(raw), "from": "json", "mode": "slice"}]})
    resps = common.harness_batch(reqs)
    # stage 2: feed it back with and without the format named
    reqs2, plans2 = [], []
    for v, to, nd, i in plans:
        r = shared.session_result(resps[i])
        if r[0] != "ok" or (r[2] in ("-", "") and to != "toml"):
            continue      # (an empty table's TOML output is zero bytes, and zero bytes are a TOML document: kept)
        out = r[2] if r[2] else "-"
        x = rng.choice(fidelity.FORMATS[:2] + ["msgpack"])
        for mode in ("slice", "reader"):
            sched = corpus.random_sched(rng)
            base = len(reqs2)
            reqs2.append({"id": base, "to": x, "calls": [{"input": out, "from": None, "mode": mode, "sched": sched}]})
            reqs2.append({"id": base + 1, "to": x, "calls": [{"input": out, "from": to, "mode": mode, "sched": sched}]})
            reqs2.append({"id": base + 2, "op": "detect", "input": out, "mode": mode, "sched": sched})
            reqs2.append({"id": base + 3, "op": "trials", "input": out})
            plans2.append((v, to, nd, mode, sched, x, out, base))
    resps2 = common.harness_batch(reqs2)
    excluded, checked = 0, 0
    for v, to, nd, mode, sched, x, out, base in plans2:
        a, b = shared.session_result(resps2[base]), shared.session_result(resps2[base + 1])
        det = resps2[base + 2].get("detected")
        tr = resps2[base + 3]
        raw = bytes.fromhex(out) if out != "-" else b""
        info = {"written_as": to, "documents": nd, "mode": mode, "sched": sched, "output_hex": out[:1500], "value": repr(v)[:300],
                "detected": det, "reread_to": x}
        if to == "toml":
            # the property's own exclusions: the first token starts a JSON value, or the text is also a YAML collection document
            if JSON_START.match(raw) and tr.get("json") or tr.get("yaml"):
                excluded += 1
                continue
        checked += 1
        if det != to:
            outcome.oracle_failures.append(dict(info, what="xt's own %s output is detected as %s" % (to, det)))
        elif a != b:
            outcome.oracle_failures.append(dict(info, what="re-reading xt's own %s output without -f differs from naming the format" % to,
                                                detected_run=[a[0], a[1][:200], a[2][:300]], explicit_run=[b[0], b[1][:200], b[2][:300]]))
    outcome.evaluations += len(reqs) + len(reqs2)
    outcome.distinct_nontrivial += checked
    outcome.extra["self_detection_oracle"] = {"values": len(values), "outputs_fed_back": len(plans2), "checked": checked,
                                              "toml_outputs_in_the_property's_exclusions": excluded}
    outcome.add_sample({"value": repr(values[3]), "written_as": "json/yaml/toml/msgpack", "fed_back": "from=None vs from=F, slice and reader"})


def run(outcome, tier, seed):
    outcome.rule = ("detection-order correspondence: each corpus input (trial verdicts from the crates, order from the model); "
                    "self-detection oracle: each (document, output format, document count, supply mode) fed back (non-trivial = each "
                    "outside the property's TOML exclusions)")
    if outcome.hooks_available:
        run_order_correspondence(outcome, tier, seed)
        shared.msgpack_correspondence(outcome, tier, seed, oracle=False)
        run_self_detection(outcome, tier, seed)
    else:
        outcome.notes.append("verif hooks unavailable")


def replay(outcome, path):
    print(json.dumps(json.load(open(path)).get("failure"), indent=1))
    run(outcome, "quick", 1)
