"""C14 — CLI source-format resolution and agreement with the library."""
import itertools
import json
import os
import random

import cli
import common
import corpus

META = {
    "level": "proof",
    "needs_hooks": False,
    "technique": "Rocq proof on the Gallina model of main.rs (resolution order by definition unfolding; Path::extension and the "
                 "case-folding table by induction over path bytes; 'stdin at most once' and 'stdout = library output' as loop "
                 "invariants) + model-vs-binary correspondence over every case spelling of every extension",
    "claim": "Proved on the CliModel for ALL paths, options and input lists: -f wins, then the extension, else detection; only the "
             "last extension counts, after any stem and in any directory; the table is applied to the lower-cased extension so "
             "every case spelling selects the same format; standard input is read at most once per run; a successful run has "
             "written exactly the concatenation of what the library produced for each input. The model's resolution and the "
             "library's output (in-process calls with the resolved format on the same bytes) are diffed against the binary for "
             "every case spelling of .json/.yaml/.yml/.toml/.msgpack, multi-dot, extension-less, hidden and misleading names, "
             "content of each format, regular files (mmap), FIFOs (reader fallback), stdin, '-' at each position and twice, "
             "directories, with and without -f, all targets.",
    "level_note": "Trusted: Coq kernel; hand-written model validated against the binary; Path::extension is modelled for '/'-separated "
                  "byte paths without trailing slashes; mmap and FIFO behaviour of the OS are observed. No axioms.",
    "trusted_base": [
        "Coq 8.16.1 kernel (coqc, full .vo build); vm_compute only in examples; no axioms",
        "hand-written Gallina model coq/theories/CliModel.v (resolve_from, extension, ext_table, main_loop), tied to the code by "
        "running the real binary (tools/cli.py); std::path::Path::extension modelled from its documentation",
        "library output comes from in-process xt::Translator calls in the harness with the model's resolved format",
        "extraction (ExtrOcamlBasic only), model_driver/driver.ml, tools/cli.py",
    ],
    "assumptions": [],
    "explanation": "resolution logic proved on the model; tie to the binary by enumeration of extension spellings and input kinds",
}

CONTENT = {"json": b'{"fmt":"json"}', "yaml": b"fmt: yaml\n", "toml": b'fmt = "toml"\n', "msgpack": corpus.mp({"fmt": "msgpack"})}
EXT = {"json": "json", "yaml": "yaml", "yml": "yaml", "toml": "toml", "msgpack": "msgpack"}


def spellings(ext, tier, rng):
    alls = ["".join(p) for p in itertools.product(*[(c.lower(), c.upper()) for c in ext])]
    if tier == "thorough" or len(alls) <= 16:
        return alls
    return [alls[0], alls[-1]] + rng.sample(alls[1:-1], 10)


def run(outcome, tier, seed):
    outcome.rule = ("each (file name or input kind, -f option, target) run through the binary and the model+library; non-trivial = "
                    "the resolved format differs from what content detection alone would choose, or the input is not a plain file")
    rng = random.Random(seed + 14)
    ok, out = common.build_xt()
    if not ok:
        raise RuntimeError("xt binary does not build: " + out[-600:])
    fx = cli.Fixture("C14")
    try:
        cases, tags = [], []
        targets = ["json", "yaml", "msgpack", "toml"]
        # every case spelling of every extension, with matching and with misleading content
        for ext, fmt in EXT.items():
            for sp in spellings(ext, tier, rng):
                name = "v." + sp
                fx.write(name, CONTENT[fmt])
                cases.append(cli.Case(["-t", rng.choice(targets), name]))
                tags.append("spelling")
                other = rng.choice([f for f in CONTENT if f != fmt])
                name2 = "w_%s.%s" % (other, sp)
                fx.write(name2, CONTENT[other])
                cases.append(cli.Case(["-t", rng.choice(targets), name2]))            # misleading extension: must fail or misread as the model says
                tags.append("misleading")
                cases.append(cli.Case(["-f", other, "-t", rng.choice(targets), name2]))  # -f overrides the extension
                tags.append("option-over-extension")
        # extensions that are NOT in the table although they look like a format: the names and aliases -f takes (j, m, t, y, yml
        # is the only alias that is an extension), near misses, other tools' extensions; content of another format than the name hints at
        for k, near in enumerate(["j", "J", "m", "M", "t", "T", "y", "Y", "js", "jsn", "jsonl", "json5", "ya", "yam", "ymls", "tom", "tml", "mp", "mpk",
                                  "msgpck", "messagepack", "txt", "cfg", "ini", "json~", "yaml.bak"]):
            hinted = {"j": "json", "m": "msgpack", "t": "toml", "y": "yaml"}.get(near[0].lower(), "json")
            other = [f for f in ("json", "toml", "yaml", "msgpack") if f != hinted][k % 3]
            name = "near%d.%s" % (k, near)
            fx.write(name, CONTENT[other])
            cases.append(cli.Case(["-t", "json", name]))
            tags.append("misleading")
        # odd names
        for name in ["x.tar.yaml", "x.json.bak", "noext", ".json", "misleading.toml", "misleading.json", "both.txt", "X.JSON", "x.Yml",
                     "./a.json", "dir.json", "dir.json/../a.json", "missing.YAML", "a.json/"]:
            for f in [None] + (list(CONTENT) if tier == "thorough" else [rng.choice(list(CONTENT))]):
                for to in (targets if tier == "thorough" else [rng.choice(targets)]):
                    cases.append(cli.Case((["-f", f] if f else []) + ["-t", to, name]))
                    tags.append("name")
        # empty and tiny inputs of every kind: the library has an answer for zero bytes too (an empty TOML table)
        for ext in ("json", "yaml", "toml", "msgpack", "dat"):
            fx.write("zero." + ext, b"")
            for to in targets:
                cases.append(cli.Case(["-t", to, "zero." + ext]))
                tags.append("empty")
            cases.append(cli.Case(["-t", "toml", "zero." + ext, "a.json"]))     # an empty TOML document is still the one document
            cases.append(cli.Case(["-t", "json", "zero." + ext, "a.json"]))
            cases.append(cli.Case(["-f", "toml", "-t", "yaml", "zero." + ext]))
            tags += ["empty"] * 3
        fx.write("zero", b"")
        fx.write("one.toml", b"\n")
        for name in ("zero", "one.toml"):
            for to in targets:
                cases.append(cli.Case(["-t", to, name]))
                tags.append("empty")
        # names that are not UTF-8 keep their extension; a byte order mark is part of the bytes the library is given
        for name in ("caf\udce9.json", "\udcff\udcfe.YAML", "y\udce9.json", "bom.json", "bom.yaml", "bom.toml", "bomstream"):
            for to in (targets if tier == "thorough" else ["json", "yaml"]):
                cases.append(cli.Case(["-t", to, name]))
                tags.append("edge-name")
        cases.append(cli.Case(["-f", "json", "-t", "json", "bom.yaml"]))
        cases.append(cli.Case(["-f", "json", "-t", "json", "bomstream"]))
        tags += ["edge-name"] * 2
        # a recognised extension on one input must not colour the next one
        for first, second in (("a.json", "c.toml"), ("c.toml", "noext"), ("a.json", "-"), ("b.yaml", "d.msgpack"), ("c.toml", "both.txt"),
                              ("x.Yml", "a.json"), ("a.json", "misleading.toml")):
            cases.append(cli.Case(["-t", rng.choice(["json", "yaml", "msgpack"]), first, second], CONTENT["yaml"] if second == "-" else None))
            tags.append("sequence")
        # stdin, '-' at each position, '-' twice, FIFOs
        for fmt, data in CONTENT.items():
            for f in (None, fmt, "json"):
                opt = ["-f", f] if f else []
                cases.append(cli.Case(opt + ["-tj"], data))
                cases.append(cli.Case(opt + ["-tj", "-"], data))
                cases.append(cli.Case(opt + ["-ty", "-", "a.json"], data))
                cases.append(cli.Case(opt + ["-ty", "a.json", "-", "b.yaml"], data))
                cases.append(cli.Case(opt + ["-tj", "-", "-"], data))
                cases.append(cli.Case(opt + ["-tj", "a.json", "-", "b.yaml", "-"], data))
                tags += ["stdin"] * 6
                fifo = "p%d_%s_%s.%s" % (len(cases), fmt, f or "x", rng.choice(["json", "dat", "YAML"]))
                os.mkfifo(fx.path(fifo))
                cases.append(cli.Case(opt + ["-tj", fifo], None, fifos={fifo: data}))
                tags.append("fifo")
        # FIFOs whose writer delivers the content in several pieces, cut between documents and inside one
        for k, (name, pieces) in enumerate([("s%d.json", [b'{"a":1}\n', b'{"b":2}\n', b'[3]\n']), ("s%d.json", [b'{"a":[1,2', b',3]}\n{"b"', b':2}\n']),
                                            ("s%d.YML", [b"a: 1\n---\n", b"b: 2\n"]), ("s%d", [b"- 1\n- 2\n", b"- 3\n---\nx: y\n"]),
                                            ("s%d.msgpack", [b"\x81\xa1a\x01", b"\x92\x01", b"\x02"]), ("s%d.dat", [b'k = 1\n[t]\n', b'j = "v"\n'])]):
            name = name % k
            os.mkfifo(fx.path(name))
            cases.append(cli.Case(["-tj", name], None, fifos={name: pieces}))
            tags.append("fifo")
        # standard input redirected from a regular file: at offset 0, and already read up to a document boundary by an earlier
        # consumer of the same descriptor (`{ read hdr; xt; } < file`): xt's input is what is left
        for skip, rest in ((b"", b'{"a":1}\n{"b":2}\n'), (b'{"hdr":0}\n', b'{"a":1}\n{"b":2}\n'), (b"h: 0\n---\n", b"a: 1\n---\nb: 2\n"),
                           (b'{"only":1}\n', b""), (b"\x81\xa1h\x00", b"\x81\xa1a\x01\x92\x01\x02"), (b'["junk', b'{"a":[1,2,3]}\n')):
            for argv in (["-tj"], ["-tj", "-"], ["-ty", "a.json", "-", "b.yaml"], ["-f", "json", "-tj"] if rest[:1] in (b"{", b"") else ["-tm", "-"]):
                cases.append(cli.Case(argv, rest, "pipe", stdin_skip=skip))
                tags.append("stdin")
        # an option given after an operand counts for that operand too
        for argv in (["a.json", "-f", "yaml", "-tj"], ["b.yaml", "-tj", "-f", "yaml", "a.json"], ["misleading.toml", "-f", "json", "-ty"],
                     ["noext", "-ty", "-f", "toml"], ["-", "-tj", "-f", "yaml"], ["a.json", "-", "-f", "json", "-ty"]):
            cases.append(cli.Case(argv, CONTENT["json"] if "-" in argv else None))
            tags.append("sequence")
        results = cli.predict_and_run(common.XT_DEBUG, fx.dir, cases)
        hist = {}
        for r, tag in zip(results, tags):
            diffs = cli.compare(r)
            hist[tag] = hist.get(tag, 0) + 1
            if diffs:
                a_status, a_out, a_err = r["actual"]
                rec = {"what": "CLI output / status differs from the library's for the resolved source format (%s): %s" % (tag, "; ".join(diffs)),
                       "argv": r["case"].argv, "resolved": r["parsed"].get("resolved"), "fifos": list(r["case"].fifos),
                       "observed": {"status": a_status, "stdout": a_out[:200].decode("utf-8", "replace"), "stderr": a_err[:300].decode("utf-8", "replace")}}
                # the binary contradicting the library for the format the property's rule resolves to is the property failing
                outcome.oracle_failures.append(rec)
            if r["predicted"].get("stdin_reads") not in (None, "stdin=0", "stdin=1"):
                outcome.oracle_failures.append({"what": "standard input read more than once", "argv": r["case"].argv})
        outcome.evaluations += len(cases)
        outcome.traces_validated += len(cases)
        outcome.distinct_nontrivial += sum(v for k, v in hist.items() if k != "spelling") + hist.get("spelling", 0) // 2
        outcome.extra["resolution_correspondence"] = {"cases": len(cases), "kinds": hist,
                                                      "extension_spellings": "all 2^n case variants" if tier == "thorough" else "<= 12 per extension"}
        outcome.add_sample({"argv": cases[1].argv, "resolved": results[1]["parsed"].get("resolved")})
    finally:
        fx.close()


def replay(outcome, path):
    print(json.dumps(json.load(open(path)).get("failure"), indent=1))
    run(outcome, "quick", 1)
