"""A built-in corpus of inputs in the four formats, their truncations,
mutations and splices, and inputs chosen to stress format detection."""
import random
import struct

FORMATS = ["json", "msgpack", "toml", "yaml"]
STREAMING = ["json", "msgpack", "yaml"]

JSON_DOCS = [
    b'{"a":1}', b'[1,2,3]', b'{"a":[1,2,{"b":null}],"c":"x"}', b'[]', b'{}', b'"str"', b'42', b'-1.5e3', b'true',
    b'null', b' { "k" : [ true , false ] } ', b'{"a":1}\n{"b":2}\n', b'[1][2][3]', b'{"a":1} {"b":2}',
    b'{"\\u00e9":"\\ud83d\\ude00"}', b'[1.0,2.5,1e300]', b'{"a":{"b":{"c":{"d":[[[[1]]]]}}}}',
    b'[18446744073709551615,-9223372036854775808]', b'{"a":"\\n\\t\\"\\\\"}', b'1 2 3', b'"a""b"',
    b'[1,2', b'{"a":', b'{"a":1,}', b'[1,,2]', b'{"a" 1}', b'nul', b'tru', b'{"a":1}x', b'\xef\xbb\xbf{"a":1}',
    b'{"a":1,"a":2}', b'truefalse', b'1-1',
]

YAML_DOCS = [
    b'a: 1\n', b'- 1\n- 2\n', b'a:\n  b: [1, 2]\n  c: {d: e}\n', b'---\na: 1\n---\nb: 2\n', b'--- 1\n--- 2\n',
    b'a: 1\n...\n---\nb: 2\n...\n', b'# comment\na: 1\n', b'[]\n', b'{}\n', b'"str"\n', b'plain\n', b'42\n',
    b'- a\n- - b\n  - c\n', b'? a\n: b\n', b'a: |\n  text\n  more\n', b'a: >\n  folded\n  text\n', b'&x a: *x\n',
    b'%YAML 1.1\n---\na: 1\n', b' - 1\n - 2\n', b'  a: 1\n  b: 2\n', b'a: 1\n# c\n---\n# d\nb: 2\n',
    b'a: [1, 2\n', b'a: b: c\n', b'- a\n b\n', b'\t- 1\n', b'*y', b'? [a, b]\n: c\n', b'~: 1\n', b'a: !!binary aGk=\n',
    '\u0700: 1\n'.encode(), '\u07ff:\n  - x\n'.encode(), '\u00e9: [1]\n'.encode(), b'', b'\n', b'# only a comment\n',
    b'---\n', b'--- \n...\n', b'a: 1\n---\n', b'key: "a: b"\n',
]

TOML_DOCS = [
    b'a = 1\n', b'[t]\na = 1\n', b'a = [1, 2]\nb = {c = "d"}\n', b'[[x]]\na = 1\n[[x]]\na = 2\n', b'a.b.c = 1\n',
    b'"quoted key" = "v"\n', b's = """multi\nline"""\n', b"l = 'lit'\n", b'f = 1.5\ni = -3\nb = true\n',
    b'd = 1979-05-27T07:32:00Z\n', b'# comment\n', b'', b'a = 1\na = 2\n', b'a = \n', b'[t\n', b'a = [1, 2\n',
    b'x = "a: b"\n', b'[table]\n', b'a = 0x1F\n', b'n = nan\n', b'[a.b]\nc = 1\n[a]\nd = 2\n',
]


def mp_int(n):
    if 0 <= n < 128:
        return bytes([n])
    if -32 <= n < 0:
        return struct.pack("b", n)
    if 0 <= n < 256:
        return b"\xcc" + bytes([n])
    if 0 <= n < 65536:
        return b"\xcd" + struct.pack(">H", n)
    if 0 <= n < 2 ** 32:
        return b"\xce" + struct.pack(">I", n)
    if n >= 0:
        return b"\xcf" + struct.pack(">Q", n)
    if n >= -128:
        return b"\xd0" + struct.pack("b", n)
    if n >= -32768:
        return b"\xd1" + struct.pack(">h", n)
    if n >= -2 ** 31:
        return b"\xd2" + struct.pack(">i", n)
    return b"\xd3" + struct.pack(">q", n)


def mp(v):
    """Minimal MessagePack packer for the built-in corpus."""
    if v is None:
        return b"\xc0"
    if v is True:
        return b"\xc3"
    if v is False:
        return b"\xc2"
    if isinstance(v, int):
        return mp_int(v)
    if isinstance(v, float):
        return b"\xcb" + struct.pack(">d", v)
    if isinstance(v, str):
        b = v.encode()
        n = len(b)
        if n < 32:
            return bytes([0xA0 | n]) + b
        if n < 256:
            return b"\xd9" + bytes([n]) + b
        if n < 65536:
            return b"\xda" + struct.pack(">H", n) + b
        return b"\xdb" + struct.pack(">I", n) + b
    if isinstance(v, bytes):
        n = len(v)
        if n < 256:
            return b"\xc4" + bytes([n]) + v
        if n < 65536:
            return b"\xc5" + struct.pack(">H", n) + v
        return b"\xc6" + struct.pack(">I", n) + v
    if isinstance(v, (list, tuple)):
        n = len(v)
        h = bytes([0x90 | n]) if n < 16 else (b"\xdc" + struct.pack(">H", n) if n < 65536 else b"\xdd" + struct.pack(">I", n))
        return h + b"".join(mp(x) for x in v)
    if isinstance(v, dict):
        n = len(v)
        h = bytes([0x80 | n]) if n < 16 else (b"\xde" + struct.pack(">H", n) if n < 65536 else b"\xdf" + struct.pack(">I", n))
        return h + b"".join(mp(k) + mp(x) for k, x in v.items())
    raise TypeError(v)


MSGPACK_DOCS = [
    mp({"a": 1}), mp([1, 2, 3]), mp({"a": [1, 2, {"b": None}], "c": "x"}), mp([]), mp({}), mp("str"), mp(42),
    mp(-1.5), mp(True), mp(None), mp({"a": 1}) + mp({"b": 2}), mp([1]) + mp([2]) + mp([3]), mp({1: 2, None: 3}),
    mp(b"\x00\x01"), mp([2 ** 64 - 1, -2 ** 63]), mp({"k": "v" * 40}), mp(list(range(20))),
    b"\x92\x01", b"\x81\xa1a", b"\xdc\x00", b"\xdd\x00\x00\x00\x05\x01", b"\xc1", b"\x91\xc1", b"\xd9\x05ab",
    b"\x93\x01\x02\x03\xc1", b"\xd4\x01\x02", b"\x91\xd4\x01\x02", b"\xc7\x02\x01ab", b"\xa2\xff\xfe", b"\x92\xa1",
    b"\x82\xa1a\x01", b"\xde\x00\x01\xa1a", b"\xdf\x00\x00\x00\x01\xa1a\x01", b"\xca\x3f\x80\x00\x00",
]

DOCS = {"json": JSON_DOCS, "yaml": YAML_DOCS, "toml": TOML_DOCS, "msgpack": MSGPACK_DOCS}


def nest_msgpack(depth, shape="array", scalar=b"\xc0"):
    """depth collections around a scalar. shape: array | map | mapkey | alt | empty (innermost empty array)."""
    out = bytearray()
    tail = bytearray()
    for i in range(depth):
        kind = shape
        if shape == "alt":
            kind = "array" if i % 2 == 0 else "map"
        if kind == "array" or kind == "empty":
            out += b"\x91"
        elif kind == "map":
            out += b"\x81\xa1k"
        elif kind == "mapkey":
            out += b"\x81"
            tail[:0] = b"\x01"
    if shape == "empty":
        # innermost collection is an empty array instead of [scalar]
        return bytes(out[:-1] + b"\x90") if depth > 0 else b"\x90"
    return bytes(out) + scalar + bytes(tail)


def toml_dotted_nest(levels, segments=79):
    """TOML whose table nesting multiplies: `levels` nested inline tables, each reached through a dotted key of `segments`
    parts (the toml crate bounds each of the two separately, not their product)."""
    key = b".".join([b"a"] * segments)
    s = b"1"
    for _ in range(levels):
        s = b"{ " + key + b" = " + s + b" }"
    return b"x = " + s + b"\n"


def is_toml_dotted_nest(data):
    """The family above (known finding K-C04/K-C18-toml-dotted-keys-stack-overflow)."""
    return data.startswith(b"x = { a.a.a.a.") and data.rstrip().endswith(b"}") and data.count(b"{") >= 8


def detection_stress():
    """Inputs chosen for C09: first bytes that are MessagePack collection
    markers, truncated collections, text starting with U+0700..U+07FF, inputs
    several formats accept."""
    res = []
    for b in list(range(0x80, 0xA0)) + list(range(0xDC, 0xE0)):
        res.append(bytes([b]))
        res.append(bytes([b]) + b"\x01")
        res.append(bytes([b]) + b"\x00\x01\x01\x02")
        res.append(bytes([b]) + b"\xa1a\x01" * (b & 0x0F))
    for cp in (0x700, 0x701, 0x73F, 0x740, 0x7BF, 0x7C0, 0x7FF, 0x80, 0xFF, 0x100, 0x6FF, 0x800):
        ch = chr(cp)
        res.append((ch + ": 1\n").encode())
        res.append(("- " + ch + "\n").encode())
        res.append((ch + " = 1\n").encode())
        res.append(('{"' + ch + '": 1}').encode())
    res += [b"1", b"[1]", b"{}", b"a = 1", b"[a]", b"[a]\nb = 1\n", b'key = "a: b"\n', b"# x\n", b"a: 1", b"- [", b"{",
            b"[1, 2]\n", b"{a: 1}\n", b"[]", b"\x90", b"\x80", b"\x91\x90", b"true", b"x", b"\xff\xfe", b"\x00", b" ",
            b"\xef\xbb\xbfa: 1\n", b"a: 1\n".decode().encode("utf-16"), b"[1]".decode().encode("utf-16-le"),
            b"a = 1\n" * 3, b"---\na: 1\n", b"--- [1]\n", b'"s"', b"'s'", b"a=1", b"1: 2", b"[x]\n"]
    # texts that open with a complete JSON scalar and go on as YAML or TOML; leading white space; a BOM before each format
    res += [b"404: Not Found\n", b'2024 = "year"\n', b'"k": v\n', b"true: 1\n", b"null = 1\n", b"1.5: x\n", b'"a" = 1\n', b"-1: [2]\n",
            b'\n{"a":1}{"b":2}\n', b'  "just a string"\n', b"\n\n[1]\n", b" \ta: 1\n", b"\r\n[t]\nk = 1\n", b"\n\x81\xa1a\x01",
            b"\xef\xbb\xbf[1]", b'\xef\xbb\xbf{"a":1} {"b":2}', b"\xef\xbb\xbfa = 1\n", b"[servers]\n", b"[[servers]]\n", b"[a.b] # c\n", b"# c\n[a]\n"]
    # non-ASCII text long enough that a look-ahead of 1 KiB, 8 KiB or 16 KiB ends inside a character, in each text format
    for shift in range(4):
        pad = "x" * shift
        res.append((pad + 'k = "' + "\u00e9\u20ac" * 3500 + '"\n').encode())
        res.append(('{"' + pad + 'k": "' + "\u00e9" * 9000 + '"} {"b": 2}').encode())
        res.append(("[t]\n" + pad + 'k = "v" # ' + "\u00e9" * 600 + "\n" + "".join('k%d = "\u20ac" # c\n' % i for i in range(900))).encode())
    # YAML whose lines end in the other line breaks YAML knows (CR alone, NEL, LS, PS), with and without a leading comment
    for br in ("\r", "\x85", "\u2028", "\u2029", "\r\n"):
        res.append(("# settings" + br + "name: xt" + br + "port: 8080" + br).encode())
        res.append(("name: xt" + br + "port: 8080" + br).encode())
        res.append(("# c" + br + "- 1" + br + "- 2" + br + "---" + br + "- 3" + br).encode())
    # YAML that is wrong before its first document starts (first token, directives, a control character), small and
    # beyond a first buffer's worth of input
    res += [b'"unterminated\n', b"'unterminated\n", b"@at\n", b"`tick\n", b"# c\n@x\n", b"%YAML 1.1\n%YAML 1.1\n---\na: 1\n",
            b"%YAML 3.0\n---\na: 1\n", b"%TAG ! x\n%TAG ! y\n---\na: 1\n", b"a: 1\x01\n", b"\x01a: 1\n", b"# \x07\n---\na: 1\n",
            b"# c\n" * 2800 + b"\x01\n---\na: 1\n", b"# c\n" * 5200 + b"\x01\n---\na: 1\n", b"k: v\n" * 2800 + b"\x01\n"]
    # texts led by a character of U+0700..U+07FF (first byte 0xDC..0xDF: a MessagePack array16/32 or map16/32 marker) cut at
    # every byte: the MessagePack trial runs out of input at every point of its fixed-width fields, payloads and markers
    for text in ("\u078b: \u078b\n", "\u078b: [1, 2]\n\u0700: \u07ff\n", "- \u0712\u0710\n", "\u07c0\u07c1 = 1\n", "\u0700\u0701\u0702: x"):
        b = text.encode()
        for i in range(1, len(b) + 1):
            res.append(b[:i])
    return res


def mutate(data, rng):
    data = bytearray(data)
    k = rng.randrange(8)
    if not data:
        return bytes([rng.randrange(256)])
    i = rng.randrange(len(data))
    if k == 0:
        data[i] ^= 1 << rng.randrange(8)
    elif k == 1:
        del data[i]
    elif k == 2:
        data.insert(i, rng.choice(b'{}[],:"\'\\ \n\t-#&*!|>%@`0123456789aeE.+x\x00\x80\x90\xc0\xc1\xd9\xdc\xff'))
    elif k == 3:
        data = data[:i]
    elif k == 4:
        j = rng.randrange(len(data))
        data[i:i] = data[min(i, j):max(i, j)]
    elif k == 5:
        data[i] = rng.randrange(256)
    elif k == 6:
        j = min(len(data), i + rng.randrange(1, 5))
        del data[i:j]
    else:
        data = data[i:]
    return bytes(data)


def base_inputs():
    """(format-it-was-written-in, bytes) for every built-in document."""
    res = []
    for f in FORMATS:
        for d in DOCS[f]:
            res.append((f, d))
    return res


def inputs(seed, n_mut=400, n_rand=100):
    rng = random.Random(seed)
    res = [d for _, d in base_inputs()]
    res += detection_stress()
    base = list(res)
    for _ in range(n_mut):
        d = rng.choice(base)
        for _ in range(rng.randrange(1, 3)):
            d = mutate(d, rng)
        res.append(d)
    for _ in range(n_mut // 4):
        a, b = rng.choice(base), rng.choice(base)
        res.append(a[:rng.randrange(len(a) + 1)] + b[rng.randrange(len(b) + 1):])
    for _ in range(n_rand):
        res.append(bytes(rng.randrange(256) for _ in range(rng.randrange(0, 24))))
    # distinct, order-preserving
    seen, out = set(), []
    for d in res:
        if d not in seen:
            seen.add(d)
            out.append(d)
    return out


def random_sched(rng):
    k = rng.randrange(5)
    if k == 0:
        return {"kind": "fixed", "n": 1}
    if k == 1:
        return {"kind": "fixed", "n": rng.randrange(2, 9)}
    if k == 2:
        return {"kind": "random", "seed": rng.randrange(1 << 30), "max": rng.choice([2, 3, 7, 64])}
    if k == 3:
        return {"kind": "full"}
    return {"kind": "random", "seed": rng.randrange(1 << 30), "max": 4096}


def big_reencoded():
    """YAML in UTF-16 whose source is well under 2 MiB and whose UTF-8 re-encoding is over 2 MiB (characters of three UTF-8
    bytes, two UTF-16 bytes): one long scalar and one long sequence, little-endian without a byte order mark and big-endian with one."""
    one = "k: " + "\u65e5\u672c\u8a9e" * 240000 + "\n"
    many = "".join("- \u30c7\u30fc\u30bf%06d\u65e5\u672c\n" % i for i in range(56000))
    out = [one.encode("utf-16-le"), b"\xfe\xff" + many.encode("utf-16-be")]
    assert all((1 << 20) < len(x) < (2 << 20) - 4096 for x in out), [len(x) for x in out]
    return out
