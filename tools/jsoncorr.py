"""Correspondence of the JSON model (coq/theories/JsonModel.v: serde_json's reader as xt drives it, exact decimal -> binary64,
xt's slice and reader document loops) with the implementation: the same JSON bytes are translated to MessagePack by the real
xt (translate_slice, translate_reader with short reads) and by the extracted model followed by the MessagePack writer model;
verdict and bytes must agree."""
import itertools
import random
import struct

import common
import corpus
import gen
from props import shared

TOKENS = [b"{", b"}", b"[", b"]", b",", b":", b'"a"', b"1", b"-", b"true", b"null", b" ", b"\n", b"0.5"]
EXTRA_TOKENS = [b"false", b"e", b"E", b"+", b".", b"0", b"9", b'"', b"\\", b"u", b"\t", b"\r", b"a", b"\xc3\xa9", b"\xff", b"-0", b"1e5",
                b'"\\n"', b'"\\ud83d\\ude00"', b"\x00", b"/", b"nul", b"tru", b"\xef\xbb\xbf"]


def number_corpus(rng, n_random):
    """Number spellings: every branch of the grammar, the integer / float classification boundaries, rounding cases
    (halfway points, subnormals, the overflow threshold), long digit strings and extreme exponents."""
    xs = ["0", "-0", "1", "-1", "00", "01", "-01", "1.", "1.e1", ".5", "-.5", "1e", "1e+", "1e-", "1E5", "1e+5", "1e-5", "1.5e3", "-", "--1", "+1",
          "0.0", "-0.0", "0e0", "0e999999999999999999999", "0.0e-999999999999999999999", "1e999999999999999999999", "1e-999999999999999999999",
          "-1e999999999999999999999", "123456789012345678901234567890", "-123456789012345678901234567890",
          "18446744073709551615", "18446744073709551616", "18446744073709551617", "9223372036854775807", "9223372036854775808",
          "-9223372036854775808", "-9223372036854775809", "-18446744073709551615", "-18446744073709551616",
          "9007199254740992", "9007199254740993", "9007199254740993.0", "9007199254740995", "9007199254740992.5",
          "0.1", "0.2", "0.3", "1e23", "8.5e22", "9.5e22", "1e22", "1e-7", "123456789.123456789e-5", "195772.13038928574",
          "4.9e-324", "5e-324", "2.4703282292062327e-324", "2.4703282292062328e-324", "2.47e-324", "2.48e-324", "1e-323", "1e-400",
          "2.2250738585072014e-308", "2.2250738585072011e-308", "2.225073858507201e-308", "2.2250738585072009e-308",
          "1.7976931348623157e308", "1.7976931348623158e308", "1.7976931348623158079e308", "1.797693134862315807e308",
          "1.79769313486231580793e308", "1.7976931348623159e308", "1.8e308", "1e308", "1e309", "0.1e310", "10e307", "100e306", "179769313486231580793728971405303415079934132710037826936173778980444968292764750946649017977587207096330286416692887910946555547851940402630657488671505820681908902000708383676273854845817711531764475730270069855571366959622842914819860834936475292719074168444365510704342711559699508093042880177904174497791.9999",
          "179769313486231580793728971405303415079934132710037826936173778980444968292764750946649017977587207096330286416692887910946555547851940402630657488671505820681908902000708383676273854845817711531764475730270069855571366959622842914819860834936475292719074168444365510704342711559699508093042880177904174497792",
          "0." + "0" * 400 + "1", "1" + "0" * 400, "1" + "0" * 308, "1" + "0" * 309, "0." + "0" * 323 + "5", "0." + "0" * 323 + "2",
          "1.0000000000000000000000000000000000000000001", "1.00000000000000011102230246251565404236316680908203125",
          "1.00000000000000011102230246251565404236316680908203124", "1.00000000000000011102230246251565404236316680908203126",
          "1.00000000000000033306690738754696212708950042724609375", "4503599627370496.5", "4503599627370497.5", "0.000001", "1e-6", "123e-2", "100e-2"]
    for _ in range(n_random):
        k = rng.random()
        if k < 0.3:
            f = struct.unpack("<d", struct.pack("<Q", rng.getrandbits(64)))[0]
            if f != f or f in (float("inf"), float("-inf")):
                continue
            xs.append(repr(f))
            xs.append("%.17e" % f)
            xs.append("%.20e" % f)
        elif k < 0.5:
            xs.append(str(rng.choice([1, -1]) * rng.getrandbits(rng.choice([8, 31, 53, 63, 64, 65, 70, 128]))))
        elif k < 0.8:
            digs = "".join(rng.choice("0123456789") for _ in range(rng.randint(1, 25)))
            frac = "".join(rng.choice("0123456789") for _ in range(rng.randint(0, 25)))
            e = rng.choice(["", "e%d" % rng.randint(-340, 320), "E+%d" % rng.randint(0, 30), "e-%d" % rng.randint(0, 30)])
            xs.append(rng.choice(["", "-"]) + (digs.lstrip("0") or "0") + ("." + frac if frac else "") + e)
        else:
            # halfway cases: an odd 54-bit integer times a power of two, written exactly
            m = rng.getrandbits(53) | (1 << 53) | 1
            sh = rng.randint(0, 40)
            xs.append(str(m << sh))
            xs.append(str((m << sh) + 1))
            xs.append(str((m << sh) - 1))
    return [x.encode() for x in xs]


def string_corpus(rng, n_random):
    xs = ['""', '"a"', '"\\""', '"\\\\"', '"\\/"', '"\\b\\f\\n\\r\\t"', '"\\u0041"', '"\\u00e9"', '"\\u00E9"', '"\\uD83D\\uDE00"', '"\\ud83d"', '"\\ude00"',
          '"\\ud83d\\u0041"', '"\\ud83d\\ud83d\\ude00"', '"\\ud83dx"', '"\\ud83d\\n"', '"\\ud83d', '"\\ud83d\\', '"\\ud83d\\u', '"\\ud83d\\ude0', '"\\u12"', '"\\u12',
          '"\\u12g4"', '"\\x"', '"\\', '"abc', '"\\u0000"', '"\\uffff"', '"\\ufffe"', '"\\ud7ff"', '"\\ue000"', '"\\udbff\\udfff"', '"\\udbff\\udc00"',
          '"\\ud800\\udc00"', '"\\ud800\\udbff"', '"\\ud800\\ue000"', '"a\\u00e9b\\ud83d\\ude00c"', '"\x7f"', '"tab\there"', '"nl\nhere"', '"\x1f"', '"\x00"']
    ys = [x.encode() for x in xs]
    ys += [b'"\xc3\xa9"', b'"\xc3"', b'"\xc3\\u00e9"', b'"\\u00e9\xa9"', b'"\xe2\x82\xac"', b'"\xe2\x82"', b'"\xf0\x9f\x98\x80"', b'"\xf0\x9f\x98"', b'"\xed\xa0\x80"',
           b'"\xc0\x80"', b'"\xf4\x90\x80\x80"', b'"\xff"', b'"a\x80"', b'"\xc3\xa9\\n\xc3\xa9"', b'\xc3\xa9', b'["\xc3\xa9", "\xff"]', b'"ok" "\xff"', b'1 \xff', b'"\xc3" 1',
           b'\xef\xbb\xbf"a"', b'"\xef\xbb\xbf"', b'{"\xc3\xa9":1}', b'{"\xc3":1}', b'{"a":"\xc3"}']
    alphabet = [b"a", b"\\n", b"\\u0041", b"\\ud83d", b"\\ude00", b"\\u00e9", b"\xc3\xa9", b"\xc3", b"\xa9", b"\xf0\x9f\x98\x80", b"\\", b'\\"', b"\x01", b" ", b"\\u", b"0", b"\xe2\x82"]
    for _ in range(n_random):
        ys.append(b'"' + b"".join(rng.choice(alphabet) for _ in range(rng.randint(0, 6))) + rng.choice([b'"', b'"', b'"', b""]))
    return ys


def nesting_corpus():
    xs = []
    for d in (1, 2, 126, 127, 128, 129, 130, 200):
        xs.append(b"[" * d + b"]" * d)
        xs.append(b"[" * d + b"1" + b"]" * d)
        xs.append(b'{"a":' * d + b"1" + b"}" * d)
        xs.append((b'[{"a":' * d) + b"null" + (b"}]" * d))
        xs.append(b"[" * d)
        xs.append(b"[" * (d - 1) + b"{}" + b"]" * (d - 1))
        xs.append(b"[1," * (d - 1) + b"[]" + b"]" * (d - 1))
    return xs


def inputs(rng, tier):
    thorough = tier == "thorough"
    kinds = {}
    seqs = []
    maxlen = 4 if thorough else 3
    for n in range(0, maxlen + 1):
        for combo in itertools.product(TOKENS, repeat=n):
            seqs.append(b"".join(combo))
    kinds["token sequences (14 tokens, every sequence up to length %d)" % maxlen] = len(seqs)
    longer = []
    for _ in range(20000 if thorough else 2500):
        n = rng.randint(2, 9)
        longer.append(b"".join(rng.choice(TOKENS + EXTRA_TOKENS) for _ in range(n)))
    kinds["random sequences over 38 tokens, length 2..9"] = len(longer)
    nums = number_corpus(rng, 3000 if thorough else 400)
    numdocs = []
    for x in nums:
        numdocs.append(x)
        if rng.random() < 0.3:
            numdocs.append(b"[" + x + b"," + rng.choice(nums) + b"]")
        if rng.random() < 0.15:
            numdocs.append(x + rng.choice([b" ", b"\n", b"", b",", b"x", b"]"]) + rng.choice(nums))
    kinds["number spellings"] = len(numdocs)
    strs = string_corpus(rng, 1500 if thorough else 300)
    kinds["string spellings"] = len(strs)
    nest = nesting_corpus()
    kinds["nesting"] = len(nest)
    docs = []
    for _ in range(1500 if thorough else 250):
        v = gen.gen_value(rng, depth=rng.choice([1, 2, 3, 4]), profile=rng.choice(["common", "json"]))
        try:
            t = gen.spell(v, "json", rng)
        except Exception:
            continue
        docs.append(t)
    streams = []
    for _ in range(len(docs)):
        k = rng.choice([1, 1, 2, 3, 5])
        parts = [rng.choice(docs) for _ in range(k)]
        sep = [rng.choice([b"", b" ", b"\n", b"\r\n", b"\t \n"]) for _ in range(k + 1)]
        s = sep[0]
        for p, q in zip(parts, sep[1:]):
            s += p + q
        streams.append(s)
    kinds["generated documents and streams"] = len(streams)
    muts = []
    base = streams + [d for d in corpus.JSON_DOCS]
    for _ in range(3000 if thorough else 500):
        muts.append(corpus.mutate(rng.choice(base), rng))
    kinds["mutations"] = len(muts)
    everything = seqs + longer + numdocs + strs + nest + streams + list(corpus.JSON_DOCS) + muts
    seen, out = set(), []
    for x in everything:
        if x not in seen and len(x) < 200000:
            seen.add(x)
            out.append(x)
    return out, kinds


def float_pool(rng, tier):
    """Binary64 values for the correspondence of the float-spelling model (JsonFloatModel.v) with serde_json/ryu: the switch-over
    points of ryu's five layouts, powers of ten and of two, the ends of the subnormal and normal ranges, integers around 2^53,
    values whose shortest spelling has 1..17 digits, random bit patterns; both signs; the non-finite values."""
    thorough = tier == "thorough"
    kinds = {}
    xs = [0.0, -0.0, 1.0, -1.0, 0.1, 0.2, 0.3, 0.5, 1.5, 4.35, 1e-5, 9.999999999999999e-6, 1e-6, 1.2e-6, 1e-7, 0.001, 0.00012345, 1e15, 1e16, 1e17,
          999999999999999.9, 9999999999999998.0, 1.2345e15, 1.2345e16, 123456789012345678.0, 1e21, 1e22, 1e23, 9.5e22, 8.5e22, 5e-324, 1e-323,
          2.225073858507201e-308, 2.2250738585072014e-308, 1.7976931348623157e308, 8.98846567431158e307, 2.0 ** 53, 2.0 ** 53 - 1, 2.0 ** 53 + 2,
          2.0 ** 52 + 0.5, 2.0 ** 63, 2.0 ** 64, 1.8446744073709552e19, 9.223372036854776e18, 195772.13038928574, 0.30000000000000004,
          5e-1, 12.0, 120.0, 1.0e2, 123456.0, 12345678.9, 0.1 + 0.7, 100.0 / 3.0, 2.0 / 3.0, 1e100, 1e-100, 1.234e-310, 4.9406564584124654e-324]
    kinds["fixed boundary values"] = len(xs)
    step = 1 if thorough else 9
    pw = [float("1e%d" % e) for e in list(range(-323, 309, step)) + list(range(-8, 26))]
    pw += [2.0 ** e for e in list(range(-1074, 1024, 5 if thorough else 37)) + list(range(-12, 70, 3))]
    kinds["powers of ten and of two"] = len(pw)
    xs += pw
    short = []
    for _ in range(1200 if thorough else 120):
        nd = rng.randint(1, 17)
        m = rng.randint(10 ** (nd - 1), 10 ** nd - 1)
        e = rng.choice([rng.randint(-30, 30), rng.randint(-330, 300), rng.randint(-8, 8)])
        try:
            f = float("%de%d" % (m, e))
        except OverflowError:
            continue
        if f != float("inf"):
            short.append(f)
    kinds["decimals of 1..17 digits"] = len(short)
    xs += short
    rnd = []
    for _ in range(4000 if thorough else 260):
        b = rng.getrandbits(64)
        if rng.random() < 0.5:
            # moderate exponents: the layouts without an exponent part
            b = (b & ~(0x7FF << 52)) | ((1023 + rng.randint(-40, 70)) << 52)
        rnd.append(struct.unpack(">d", struct.pack(">Q", b))[0])
    kinds["random bit patterns (half of them with moderate exponents)"] = len(rnd)
    xs += rnd
    xs += [-x for x in xs[2:40]]
    out = [struct.pack(">d", x) for x in xs]
    out += [bytes.fromhex(h) for h in ("7ff0000000000000", "fff0000000000000", "7ff8000000000000", "7ff0000000000001", "ffffffffffffffff",
                                       "000fffffffffffff", "0010000000000000", "0010000000000001", "7fefffffffffffff", "7feffffffffffffe",
                                       "0000000000000002", "8000000000000001", "3ff0000000000001", "3fefffffffffffff", "4340000000000001")]
    seen, uniq = set(), []
    for b in out:
        if b not in seen:
            seen.add(b)
            uniq.append(b)
    return uniq, kinds


def float_correspondence(outcome, tier, seed):
    """serde_json's spelling of a binary64 (through xt: MessagePack float64 -> JSON) against the model's (RY cases); and the
    model's own bounded search must succeed on every finite value (the hypothesis [ryu_ok] of the read-back theorems)."""
    rng = random.Random(seed + 31337)
    pool, kinds = float_pool(rng, tier)
    reqs = [{"id": i, "to": "json", "calls": [{"input": "cb" + b.hex(), "from": "msgpack", "mode": "slice"}]} for i, b in enumerate(pool)]
    resps = common.harness_batch(reqs, timeout=1800, jobs=16)
    model = common.run_driver_lines(["RY %df %s" % (i, b.hex()) for i, b in enumerate(pool)], jobs=16)
    layouts = {}
    for i, b in enumerate(pool):
        got = shared.session_result(resps[i])
        st, _, mh = model.get("%df" % i, "missing -").partition(" ")
        mtxt = bytes.fromhex(mh).decode("ascii", "replace") if mh not in ("", "-") else ""
        impl = bytes.fromhex(got[2]).decode("ascii", "replace") if got[0] == "ok" and got[2] not in ("", "-", None) else "%s %s" % (got[0], got[1][:100])
        lay = ("null" if mtxt == "null" else "exponent" if "e" in mtxt else "leading zeros" if mtxt.lstrip("-").startswith("0.") else
               "integer.0" if mtxt.endswith(".0") else "point inside")
        layouts[lay] = layouts.get(lay, 0) + 1
        if st == "notfound":
            outcome.disagreements.append({"what": "the float-spelling model's bounded search found no spelling for a finite binary64 (the hypothesis ryu_ok of the read-back theorems fails on this value)",
                                          "bits_hex": b.hex(), "implementation": impl})
        elif impl != mtxt + "\n":
            outcome.disagreements.append({"what": "MessagePack float64 -> JSON: the text xt writes differs from the model of serde_json's serialize_f64 / ryu (JsonFloatModel.json_f64)",
                                          "bits_hex": b.hex(), "input_hex": "cb" + b.hex(), "implementation": impl[:80], "model": mtxt[:80]})
    if tier == "thorough":
        # extraction cross-check: Coq's own evaluator on a sample of the values the extracted model answered
        picked = []
        for i, b in enumerate(pool):
            st, _, mh = model.get("%df" % i, "missing -").partition(" ")
            if st in ("ok", "nonfinite") and mh not in ("", "-") and 0x3000 <= int.from_bytes(b[:2], "big") & 0x7FFF <= 0x4FFF:
                picked.append((b, bytes.fromhex(mh), True))      # moderate exponents: seconds, not minutes, under vm_compute
        step = max(1, len(picked) // 150)
        shared.kernel_crosscheck(outcome, "json_f64", "Base Utf8 MsgpackModel JsonModel JsonWriteModel JsonFloatModel",
                                 "fun i => (json_f64 (fold_left (fun a b => (a * 256 + b)%N) i 0%N), true)", picked[::step][:150])
    outcome.evaluations += len(pool)
    outcome.traces_validated += len(pool)
    outcome.distinct_nontrivial += len(pool)
    outcome.extra["float_spelling_correspondence"] = {"values": len(pool), "kinds": kinds, "layouts_of_the_model_output": layouts,
                                                      "compared": "the bytes xt writes for a MessagePack float64 translated to JSON, with the model's text plus a line break"}


def float32_correspondence(outcome, tier, seed):
    """serde_json's spelling of a binary32 (through xt: MessagePack float32 -> JSON) against JsonFloat32Model.json_f32 (RF cases)."""
    rng = random.Random(seed + 3232)
    vals = [0.0, -0.0, 1.0, -1.5, 0.1, 0.2, 0.3, 16777216.0, 16777217.0, 3.4028234663852886e38, 1.401298464324817e-45, 1.1754943508222875e-38,
            1e-7, 9.999999974752427e-07, 1.5e-6, 5.894184e-6, 9.999999747378752e-06, 1e-5, 1.1e-5, 1e-4, 0.001, 123.456, 1e6, 1e9, 1e10, 1e12, 9.99999982e12,
            1e13, 1.5e13, 1e14, 3e15, 9.99999986991104e15, 1.00000003318135e16, 1e17, 1e20, 1e30, 1e38, 3e38, 8.5e37, 1e-30, 1e-38, 1e-40, 1e-44]
    vals += [float("1e%d" % e) for e in range(-45, 39)]
    vals += [2.0 ** e for e in range(-149, 128, 3)]
    pool = [struct.pack(">f", v) for v in vals] + [struct.pack(">f", -v) for v in vals[2:30]]
    for _ in range(3000 if tier == "thorough" else 400):
        b = rng.getrandbits(32)
        if rng.random() < 0.5:
            b = (b & ~(0xFF << 23)) | ((127 + rng.randint(-25, 55)) << 23)     # moderate exponents: the layouts without an exponent part
        pool.append(struct.pack(">I", b))
    pool += [bytes.fromhex(h) for h in ("7f800000", "ff800000", "7fc00000", "7f800001", "007fffff", "00800000", "00800001", "7f7fffff", "00000002", "80000001")]
    seen, uniq = set(), []
    for b in pool:
        if b not in seen:
            seen.add(b)
            uniq.append(b)
    pool = uniq
    reqs = [{"id": i, "to": "json", "calls": [{"input": "ca" + b.hex(), "from": "msgpack", "mode": "slice"}]} for i, b in enumerate(pool)]
    resps = common.harness_batch(reqs, timeout=1800, jobs=16)
    model = common.run_driver_lines(["RF %dg %s" % (i, b.hex()) for i, b in enumerate(pool)], jobs=16)
    layouts = {}
    for i, b in enumerate(pool):
        got = shared.session_result(resps[i])
        st, _, mh = model.get("%dg" % i, "missing -").partition(" ")
        mtxt = bytes.fromhex(mh).decode("ascii", "replace") if mh not in ("", "-") else ""
        impl = bytes.fromhex(got[2]).decode("ascii", "replace") if got[0] == "ok" and got[2] not in ("", "-", None) else "%s %s" % (got[0], got[1][:100])
        lay = ("null" if mtxt == "null" else "exponent" if "e" in mtxt else "leading zeros" if mtxt.lstrip("-").startswith("0.") else
               "integer.0" if mtxt.endswith(".0") else "point inside")
        layouts[lay] = layouts.get(lay, 0) + 1
        if st == "notfound":
            outcome.disagreements.append({"what": "the f32 spelling model's bounded search found no spelling for a finite binary32", "bits_hex": b.hex(), "implementation": impl})
        elif impl != mtxt + "\n":
            outcome.disagreements.append({"what": "MessagePack float32 -> JSON: the text xt writes differs from the model of serde_json's serialize_f32 / ryu's format32 (JsonFloat32Model.json_f32)",
                                          "bits_hex": b.hex(), "input_hex": "ca" + b.hex(), "implementation": impl[:80], "model": mtxt[:80]})
    outcome.evaluations += len(pool)
    outcome.traces_validated += len(pool)
    outcome.extra["float32_spelling_correspondence"] = {"values": len(pool), "layouts_of_the_model_output": layouts}


def correspondence(outcome, tier, seed):
    float_correspondence(outcome, tier, seed)
    float32_correspondence(outcome, tier, seed)
    rng = random.Random(seed + 2718)
    ins, kinds = inputs(rng, tier)
    reqs = []
    for i, d in enumerate(ins):
        reqs.append({"id": 2 * i, "to": "msgpack", "calls": [{"input": shared.hx(d), "from": "json", "mode": "slice"}]})
        reqs.append({"id": 2 * i + 1, "to": "msgpack", "calls": [{"input": shared.hx(d), "from": "json", "mode": "reader", "sched": corpus.random_sched(rng)}]})
    # JSON -> JSON (the writer model, floats included) for the inputs the slice path translates
    wreqs = [{"id": i, "to": "json", "calls": [{"input": shared.hx(d), "from": "json", "mode": "slice"}]} for i, d in enumerate(ins)]
    resps = common.harness_batch(reqs, timeout=1800, jobs=16)
    wresps = common.harness_batch(wreqs, timeout=1800, jobs=16)
    lines = []
    for i, d in enumerate(ins):
        lines.append("JT %ds S %s" % (i, shared.hx(d)))
        lines.append("JT %dr R %s" % (i, shared.hx(d)))
        lines.append("JW %dw %s" % (i, shared.hx(d)))
    # the JSON detection trial on the same inputs (JsonTrialModel.v against serde_json's ignore_value through xt's input_matches)
    treqs = [{"id": i, "op": "trials", "input": shared.hx(d)} for i, d in enumerate(ins)]
    tresps = common.harness_batch(treqs, timeout=1800, jobs=16)
    for i, d in enumerate(ins):
        lines.append("JI %dt %s" % (i, shared.hx(d)))
    model = common.run_driver_lines(lines)
    tv = {}
    for i, d in enumerate(ins):
        r = tresps[i]
        if r.get("panic") or r.get("crash") or r.get("hang") or "json" not in r:
            continue
        got = "%d %d" % (r["json"], r["json_reader"])
        tv[got] = tv.get(got, 0) + 1
        if got != model.get("%dt" % i, "?"):
            outcome.disagreements.append({"what": "the JSON detection trial (slice, reader) differs from the model of serde_json's ignore_value",
                                          "input_hex": shared.hx(d)[:4000], "input": d[:200].decode("utf-8", "replace"),
                                          "implementation": got, "model": model.get("%dt" % i, "?")})
    outcome.extra["json_trial_correspondence"] = {"inputs": len(ins), "verdicts(slice reader)": tv}
    n_written = 0
    for i, d in enumerate(ins):
        m = model.get("%dw" % i, "missing")
        if m == "none":
            continue
        got = shared.session_result(wresps[i])
        n_written += 1
        if got[0] != "ok" or (got[2] or "-") != m:
            outcome.disagreements.append({"what": "JSON -> JSON: the bytes xt writes differ from the JSON writer model applied to what the reader model read",
                                          "input_hex": shared.hx(d)[:4000], "input": d[:200].decode("utf-8", "replace"),
                                          "implementation": "%s %s" % (got[0], (got[2] or "-")[:600]), "model": m[:600]})
    # MessagePack -> JSON (the MessagePack reader model, then the JSON writer model): on the MessagePack the implementation
    # wrote for these inputs, and on the same bytes with each integer re-spelled in a wider form
    mps = []
    for i, d in enumerate(ins):
        got = shared.session_result(resps[2 * i])
        if got[0] == "ok" and got[2] not in ("-", "", None) and len(got[2]) < 100000:
            mps.append(bytes.fromhex(got[2]))
    seen_mp = set()
    mps = [m for m in mps if not (m in seen_mp or seen_mp.add(m))]
    mjreqs = [{"id": i, "to": "json", "calls": [{"input": shared.hx(m), "from": "msgpack", "mode": "slice"}]} for i, m in enumerate(mps)]
    mjresps = common.harness_batch(mjreqs, timeout=1800, jobs=16)
    mjmodel = common.run_driver_lines(["MJ %dm %s" % (i, shared.hx(m)) for i, m in enumerate(mps)])
    n_mj = 0
    for i, m in enumerate(mps):
        mo = mjmodel.get("%dm" % i, "missing")
        if mo == "none":
            continue
        got = shared.session_result(mjresps[i])
        n_mj += 1
        if got[0] != "ok" or (got[2] or "-") != mo:
            outcome.disagreements.append({"what": "MessagePack -> JSON: the bytes xt writes differ from the JSON writer model applied to what the MessagePack reader model read",
                                          "input_hex": shared.hx(m)[:4000], "implementation": "%s %s" % (got[0], (got[2] or "-")[:600]), "model": mo[:600]})
    outcome.evaluations += len(mps)
    outcome.extra["msgpack_to_json_correspondence"] = {"inputs": len(mps), "compared": n_mj}
    verdicts = {}
    nontrivial = 0
    for i, d in enumerate(ins):
        for tag, resp in (("s", resps[2 * i]), ("r", resps[2 * i + 1])):
            got = shared.session_result(resp)
            m = model.get("%d%s" % (i, tag), "missing")
            mv, _, mout = m.partition(" docs:")
            mout = mout.split(" ", 1)[1] if " " in mout else "-"
            mok = "ok" if mv == "ok" else ("err" if mv.startswith("err") else mv)
            key = "%s:%s" % ("slice" if tag == "s" else "reader", mok)
            verdicts[key] = verdicts.get(key, 0) + 1
            gout = got[2] or "-"
            same = got[0] == mok
            if same and mok == "ok":
                same = gout == mout
                if mout != "-":
                    nontrivial += 1
            elif same and mok == "err":
                # complete documents only: the slice path writes exactly those; the reader path may have written part of the failing one
                a = "" if mout == "-" else mout
                b = "" if gout == "-" else gout
                same = (a == b) if tag == "s" else b.startswith(a)
            if not same:
                outcome.disagreements.append({"what": "JSON -> MessagePack (%s): implementation and JSON model differ" % ("slice" if tag == "s" else "reader"),
                                              "input_hex": shared.hx(d)[:4000], "input": d[:200].decode("utf-8", "replace"),
                                              "implementation": "%s %s %s" % (got[0], got[1][:120], gout[:400]), "model": m[:400]})
    if tier == "thorough":
        picked = []
        for i, d in enumerate(ins):
            m = model.get("%dr" % i, "")
            mv, _, rest = m.partition(" docs:")
            if len(d) <= 60 and mv in ("ok", "err") and " " in rest:
                o = rest.split(" ", 1)[1]
                picked.append((d, bytes.fromhex(o) if o != "-" else b"", mv == "ok"))
        step = max(1, len(picked) // 200)
        shared.kernel_crosscheck(outcome, "json_reader_loop", "Base Utf8 MsgpackModel JsonModel",
                                 "fun i => let r := json_reader i in (jm_output r, jm_ok r)", picked[::step][:200])
    outcome.traces_validated += 2 * len(ins)
    outcome.evaluations += 2 * len(ins)
    outcome.distinct_nontrivial += nontrivial
    outcome.extra["json_correspondence"] = {
        "inputs": len(ins), "input_kinds": kinds, "json_to_json_outputs_compared_with_the_writer_model": n_written, "verdicts": verdicts, "successful_nonempty_translations": nontrivial,
        "compared": "verdict; on success the MessagePack bytes; on failure the bytes of the complete documents (slice: equal, reader: prefix)"}
    outcome.add_sample({"json": ins[min(len(ins) - 1, 3000)][:80].decode("utf-8", "replace"), "model": model.get("%ds" % min(len(ins) - 1, 3000), "")[:120]})
