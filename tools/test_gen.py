#!/usr/bin/env python3
"""Self-test of gen.py.

  python3 test_gen.py [--n 2000] [--xt-n 300] [--seed 1] [--xt /path/to/xt] [--pairs json:yaml,...]

Part 1 (always): unit checks and speller/reader agreement, N values per format.
Part 2 (when an xt binary is found: --xt, $XT_BIN, /tmp/genlib-target/debug/xt or
/verif/.build/xt-target/{release,debug}/xt): XT_N values through the real xt for each of
the 16 (from, to) pairs; every mismatch is printed in full (hex input, command, output).
Exit status: 1 if part 1 fails; part 2 mismatches are reported, not fatal.
"""
import argparse
import math
import os
import random
import subprocess
import sys
import time

sys.path.insert(0, os.path.dirname(os.path.abspath(__file__)))
import gen  # noqa: E402
from gen import F32, Map, values_equal  # noqa: E402

FORMATS = ("json", "msgpack", "toml", "yaml")
DEPTHS = (0, 1, 2, 3, 4, 4, 6, 10, 24, 64)


def check(cond, what):
    if not cond:
        print("FAIL:", what)
        check.failed += 1


check.failed = 0


def unit_checks():
    nan = math.nan
    # values_equal
    check(values_equal(1, 1) and not values_equal(1, 1.0) and not values_equal(True, 1), "int/float/bool strict")
    check(not values_equal(0.0, -0.0) and values_equal(nan, -nan), "float bits, NaNs equal")
    check(values_equal(F32(0.5), 0.5) and values_equal(0.5, F32(0.5)) and not values_equal(F32(0.1), 0.1), "F32 by value")
    check(not values_equal({"a": 1, "b": 2}, {"b": 2, "a": 1}), "dict order matters")
    check(values_equal({"a": [1, {"b": None}]}, {"a": [1, {"b": None}]}), "nested equal")
    check(values_equal(Map([("a", 1)]), {"a": 1}) and not values_equal(Map([(1, 1)]), {"1": 1}), "Map vs dict")
    check(not values_equal(Map([("a", 1), ("a", 2)]), {"a": 2}), "duplicate keys are not a dict")
    check(not values_equal("a", b"a") and values_equal(b"a", b"a"), "bytes vs str")
    check(not values_equal([1, 2], [1]) and not values_equal([], {}), "shapes")
    # toml_reorder
    v = {"t": {"z": {}, "y": 1}, "a": 1, "aot": [{"q": {}, "p": 2}], "e": [], "l": [1], "m": [{}, 1], "b": 2}
    w = gen.toml_reorder(v)
    check(list(w) == ["a", "e", "l", "m", "b", "t", "aot"], "toml_reorder top " + repr(list(w)))
    check(list(w["t"]) == ["y", "z"] and list(w["aot"][0]) == ["p", "q"], "toml_reorder nested")
    check(values_equal(gen.toml_reorder(w), w), "toml_reorder idempotent")
    check(values_equal(gen.toml_spelled_order(v), v), "toml_spelled_order is identity")
    # representable
    R = gen.representable
    check(R({"a": 1}, "toml") and not R([1], "toml") and not R({"a": None}, "toml") and not R({"a": [None]}, "toml"), "toml repr")
    check(not R({"a": 1 << 63}, "toml") and R({"a": -(1 << 63)}, "toml") and R({"a": math.inf}, "toml"), "toml ints/floats")
    check(not R(math.nan, "json") and not R([math.inf], "json") and not R(b"", "json") and R(None, "json"), "json repr")
    check(not R(Map([(1, 2)]), "json") and R(Map([(1, 2)]), "yaml") and not R(b"x", "yaml") and R(math.nan, "yaml"), "yaml repr")
    check(R(Map([(b"k", b"v")]), "msgpack") and R(F32(1.0), "msgpack") and R(F32(1.0), "json"), "msgpack repr")
    # readers: multi-document and strictness
    rd = gen.read_documents
    check(rd(b'1 2\n[3]{"a":4}"x"\n', "json") == [1, 2, [3], {"a": 4}, "x"], "json stream")
    check(type(rd(b'{"a":1,"a":2}', "json")[0]) is Map, "json duplicate keys -> Map")
    check(rd(b"", "json") == [] and rd(b"", "toml") == [] and rd(b"", "msgpack") == [] and rd(b"", "yaml") == [], "empty inputs")
    check(rd(b"\n", "toml") == [{}], "blank toml is one empty table")
    check(values_equal(rd(b"1.0 -0.0 1e3 10", "json"), [1.0, -0.0, 1000.0, 10]), "json numbers")
    for bad, fmt in ((b"NaN", "json"), (b"[1,]", "json"), (b"truefalse", "json"), (b"1-1", "json"), (b"1e999", "json"),
                     (b'"\x01"', "json"), (b"\xff", "json"), (b"{", "json"), (b"\xc1", "msgpack"), (b"\x91", "msgpack"),
                     (b"\xd4\x01\x00", "msgpack"), (b"\xa2a", "msgpack"), (b"a = ", "toml"), (b"a = 1\na = 2", "toml"),
                     (b"a: [", "yaml"), (b"a: b: c", "yaml"), (b"&a [*a]", "yaml"), (b"!foo 1", "yaml"), (b"\x00", "yaml")):
        try:
            rd(bad, fmt)
            check(False, "reader %s accepted %r" % (fmt, bad))
        except ValueError:
            pass
    check(values_equal(rd(b"\x01\xcc\x05\xd0\xfb\xa1a\xc4\x01\xff\xa1\xff\xca\x3f\x00\x00\x00\x81\x01\x02", "msgpack"),
                       [1, 5, -5, "a", b"\xff", b"\xff", F32(0.5), Map([(1, 2)])]), "msgpack stream")
    y = rd(b"- yes\n- ~\n- 0o17\n- 0x1f\n- 1e3\n- .5\n- '1'\n- !!str 2\n- !!int '3'\n- 012\n- 1_000\n- +.INF\n- Null\n- TRUE\n"
           b"- !!binary aGk=\n- {1: a, b: [~]}\n--- &x a\n--- |\n  lit\n", "yaml")
    check(values_equal(y, [["yes", None, 15, 31, 1000.0, 0.5, "1", "2", 3, 12, "1_000", math.inf, None, True, b"hi",
                           Map([(1, "a"), ("b", [None])])], "a", "lit\n"]), "yaml core schema " + repr(y))
    gen.YAML_USE_LIBYAML = True
    y2 = rd(b"- yes\n- !!str 2\n- 1e3\n- {1: a}\n", "yaml")
    gen.YAML_USE_LIBYAML = False
    check(values_equal(y2, [["yes", "2", 1000.0, Map([(1, "a")])]]), "yaml via libyaml " + repr(y2))
    # mutate: deterministic, returns bytes
    a = [gen.mutate(b"{\"a\": [1, 2, 3]}", random.Random(5)) for _ in range(2)]
    check(a[0] == a[1] and isinstance(a[0], bytes), "mutate deterministic")
    r = random.Random(6)
    for _ in range(2000):
        m = gen.mutate(r.choice((b"", b"a", b"key: [1, 2]\n", b"\x92\x01\xa1a")), r)
        assert isinstance(m, bytes)
    # generator obeys profiles
    r = random.Random(7)
    for profile in ("common", "json", "yaml", "msgpack", "toml"):
        for _ in range(400):
            d = r.choice(DEPTHS)
            v = gen.gen_value(r, d, profile)
            targets = FORMATS if profile == "common" else (profile,)
            for fmt in targets:
                check(gen.representable(v, fmt), "profile %s value not representable in %s: %r" % (profile, fmt, v))
            check(depth_of(v) <= max(d, 1 if profile in ("common", "toml") else 0), "depth bound %d: %r" % (d, v))
    for root, types in (("map", (dict, Map)), ("seq", (list,)), ("scalar", (type(None), bool, int, float, str, bytes, F32))):
        for _ in range(100):
            v = gen.gen_value(r, 3, "msgpack", root=root)
            check(isinstance(v, types), "root=%s gave %r" % (root, type(v)))
    check(depth_of(gen.gen_value(random.Random(1), 64, "json", root="seq")) <= 64, "depth 64")
    seen = max(depth_of(gen.gen_value(r, 64, "yaml")) for _ in range(300))
    check(seen == 64, "depth 64 is reached (max seen %d)" % seen)


def depth_of(v):
    best, stack = 0, [(v, 0)]
    while stack:
        x, d = stack.pop()
        if type(x) is list:
            best = max(best, d + 1)
            stack.extend((y, d + 1) for y in x)
        elif type(x) is dict:
            best = max(best, d + 1)
            stack.extend((y, d + 1) for y in x.values())
        elif type(x) is Map:
            best = max(best, d + 1)
            stack.extend((y, d + 1) for _, y in x.pairs)
    return best


def self_agreement(n, seed):
    for fmt in FORMATS:
        rng = random.Random("%s-%d" % (fmt, seed))
        bad = 0
        nbytes = 0
        t0 = time.time()
        for i in range(n):
            profile = fmt if i % 4 else "common"
            v = gen.gen_value(rng, rng.choice(DEPTHS), profile)
            expected = gen.toml_spelled_order(v) if fmt == "toml" else v
            for data in (gen.spell(v, fmt, rng), gen.spell_canonical(v, fmt)):
                nbytes += len(data)
                try:
                    docs = gen.read_documents(data, fmt)
                    ok = len(docs) == 1 and values_equal(docs[0], expected)
                    got = docs
                except ValueError as e:
                    ok, got = False, e
                if not ok:
                    bad += 1
                    if bad <= 5:
                        print("SELF-MISMATCH %s\n  value: %r\n  bytes: %s\n  read:  %r" % (fmt, v, data.hex(), got))
        dt = time.time() - t0
        print("self-agreement %-7s values=%d spellings=%d bytes=%d mismatches=%d  (%.1fs, %.0f spell+read/s)"
              % (fmt, n, 2 * n, nbytes, bad, dt, 2 * n / max(dt, 1e-9)))
        check(bad == 0, "speller/reader disagreement in %s" % fmt)
    # determinism
    for fmt in FORMATS:
        outs = []
        for _ in range(2):
            rng = random.Random(99)
            vs = [gen.gen_value(rng, 4, fmt) for _ in range(50)]
            outs.append([gen.spell(v, fmt, rng) for v in vs])
        check(outs[0] == outs[1], "determinism " + fmt)
    # YAML: the two composers agree on our own spellings
    rng = random.Random(seed)
    dis = 0
    for _ in range(min(n, 500)):
        data = gen.spell(gen.gen_value(rng, 4, "yaml"), "yaml", rng)
        a = gen.read_documents(data, "yaml")
        gen.YAML_USE_LIBYAML = True
        try:
            b = gen.read_documents(data, "yaml")
        finally:
            gen.YAML_USE_LIBYAML = False
        if not values_equal(a, b):
            dis += 1
            print("PY/LIBYAML DISAGREE bytes=%s\n  py=%r\n  c=%r" % (data.hex(), a, b))
    check(dis == 0, "pure-Python and libyaml composers disagree")


# ------------------------------------------------------------------ real xt

def find_xt(arg):
    cands = [arg, os.environ.get("XT_BIN"), "/tmp/genlib-target/debug/xt",
             "/verif/.build/xt-target/release/xt", "/verif/.build/xt-target/debug/xt"]
    for c in cands:
        if c and os.path.isfile(c) and os.access(c, os.X_OK):
            return c
    return None


def run_xt(xt, src, dst, data):
    p = subprocess.run([xt, "-f", src, "-t", dst], input=data, stdout=subprocess.PIPE, stderr=subprocess.PIPE, timeout=60)
    return p.returncode, p.stdout, p.stderr


def f32_as_printed(x):
    """The double denoted by the shortest decimal that round-trips x as a float32
    (what serde's f32 formatting prints)."""
    if x != x or x in (math.inf, -math.inf):
        return x
    for p in range(0, 10):
        t = "%.*e" % (p, x)
        if F32(float(t)).value == x:
            return float(t)
    return x


def remodel(v, f32_printed, overflow_strings):
    """v with the known xt behaviours applied (see explain)."""
    t = type(v)
    if t is F32:
        return f32_as_printed(v.value) if f32_printed else v.value
    if t is str and overflow_strings:
        f = gen._y_float(v)
        if f is not None and f in (math.inf, -math.inf) and not gen._Y_INF.fullmatch(v):
            return f
        if v[:2] in ("0x", "0o"):
            i = gen._y_int(v)
            if i is not None and i >= 1 << 128:
                return i
        return v
    if t is list:
        return [remodel(x, f32_printed, overflow_strings) for x in v]
    if t is dict or t is Map:
        pairs = v.items() if t is dict else v.pairs
        return gen._pairs_to_map([(remodel(k, f32_printed, overflow_strings), remodel(x, f32_printed, overflow_strings))
                                  for k, x in pairs])
    return v


def explain(got, saw, dst):
    """Try the known, reproducible xt behaviours that differ from the plain expectation:
    toml-order  nested tables are regrouped (see gen.toml_reorder_xt), beyond TOML's required reordering
    f32-digits  a MessagePack float32 is printed with float32-shortest digits, which denote another double
    yaml-overflow-string  a string that the core schema reads as a number too large for serde_yaml (1e400 -> inf,
                          0x/0o literal >= 2**128) is written as a plain YAML scalar"""
    for order in ((False, True) if dst == "toml" else (False,)):
        for f32p in (False, True):
            for ovf in ((False, True) if dst == "yaml" else (False,)):
                if not (order or f32p or ovf):
                    continue
                exp = remodel(saw, f32p, ovf)
                exp = gen.toml_reorder_xt(exp) if order else (gen.toml_reorder(exp) if dst == "toml" else exp)
                if values_equal(got[0], exp):
                    return "+".join(n for n, on in (("toml-order", order), ("f32-digits", f32p),
                                                     ("yaml-overflow-string", ovf)) if on)
    return None


explained = {}


def xt_cross(xt, n, seed, pairs):
    total = {}
    for src in FORMATS:
        for dst in FORMATS:
            if pairs and (src, dst) not in pairs:
                continue
            rng = random.Random("%s-%s-%d" % (src, dst, seed))
            done = mism = 0
            attempts = 0
            while done < n and attempts < n * 50:
                attempts += 1
                r = rng.random()
                profile = src if r < 0.45 else (dst if r < 0.8 else "common")
                root = "map" if "toml" in (src, dst) else None
                v = gen.gen_value(rng, rng.choice(DEPTHS), profile, root=root)
                if not (gen.representable(v, src) and gen.representable(v, dst)):
                    continue
                done += 1
                data = gen.spell(v, src, rng) if rng.random() < 0.85 else gen.spell_canonical(v, src)
                saw = gen.toml_spelled_order(v) if src == "toml" else v
                expected = gen.toml_reorder(saw) if dst == "toml" else saw
                rc, out, err = run_xt(xt, src, dst, data)
                problem = None
                got = None
                if rc != 0:
                    problem = "xt exit %d: %s" % (rc, err.decode("utf-8", "replace").strip())
                else:
                    try:
                        got = gen.read_documents(out, dst)
                    except ValueError as e:
                        problem = "independent %s reader rejects xt output: %s" % (dst, e)
                    else:
                        if dst == "toml" and out == b"" and values_equal(expected, {}):
                            pass  # xt writes the empty table as zero bytes
                        elif len(got) != 1:
                            problem = "%d documents in output" % len(got)
                        elif not values_equal(got[0], expected):
                            problem = "value differs"
                if problem:
                    mism += 1
                    why = explain(got, saw, dst) if got is not None and len(got) == 1 else None
                    explained[why] = explained.get(why, 0) + 1
                    print("XT-MISMATCH %s->%s: %s [%s]" % (src, dst, problem, why or "UNEXPLAINED"))
                    print("  cmd:      xt -f %s -t %s" % (src, dst))
                    print("  input:    %s" % data.hex())
                    print("  output:   %s" % out.hex())
                    print("  value:    %r" % (v,))
                    print("  expected: %r" % (expected,))
                    if got is not None:
                        print("  got:      %r" % (got,))
                        if len(got) == 1:
                            print("  first difference: %s" % first_diff(got[0], expected))
            total[(src, dst)] = (done, mism)
            print("xt %-7s -> %-7s values=%d mismatches=%d" % (src, dst, done, mism))
    return total


def first_diff(a, b, path="$"):
    if type(a) is F32:
        a = a.value
    if type(b) is F32:
        b = b.value
    if type(a) is list and type(b) is list:
        if len(a) != len(b):
            return "%s: list length %d vs %d" % (path, len(a), len(b))
        for i, (x, y) in enumerate(zip(a, b)):
            if not values_equal(x, y):
                return first_diff(x, y, "%s[%d]" % (path, i))
    if type(a) in (dict, Map) and type(b) in (dict, Map):
        pa = list(a.items()) if type(a) is dict else a.pairs
        pb = list(b.items()) if type(b) is dict else b.pairs
        if len(pa) != len(pb):
            return "%s: map size %d vs %d" % (path, len(pa), len(pb))
        for (ka, va), (kb, vb) in zip(pa, pb):
            if not values_equal(ka, kb):
                return "%s: key %r vs %r (got order %r, expected order %r)" % (
                    path, ka, kb, [k for k, _ in pa][:12], [k for k, _ in pb][:12])
            if not values_equal(va, vb):
                return first_diff(va, vb, "%s[%r]" % (path, ka))
    return "%s: got %r (%s), expected %r (%s)" % (path, a, type(a).__name__, b, type(b).__name__)


def main():
    ap = argparse.ArgumentParser()
    ap.add_argument("--n", type=int, default=2000)
    ap.add_argument("--xt-n", type=int, default=300)
    ap.add_argument("--seed", type=int, default=1)
    ap.add_argument("--xt", default=None)
    ap.add_argument("--pairs", default="")
    args = ap.parse_args()
    unit_checks()
    print("unit checks done, failures so far: %d" % check.failed)
    self_agreement(args.n, args.seed)
    xt = find_xt(args.xt)
    if xt and args.xt_n > 0:
        pairs = {tuple(p.split(":")) for p in args.pairs.split(",") if p}
        total = xt_cross(xt, args.xt_n, args.seed, pairs)
        print("xt summary: %d runs, %d mismatches" % (sum(d for d, _ in total.values()), sum(m for _, m in total.values())))
        for why, cnt in sorted(explained.items(), key=lambda kv: str(kv[0])):
            print("  %-40s %d" % (why or "UNEXPLAINED", cnt))
    else:
        print("xt binary not found (or --xt-n 0): skipping the real-xt part")
    print("RESULT: %s (%d failed checks)" % ("FAIL" if check.failed else "PASS", check.failed))
    return 1 if check.failed else 0


if __name__ == "__main__":
    sys.exit(main())
