#!/usr/bin/env python3
"""seedtest.py <patch.diff> <property id>...  — applies a seeded change to /repo's working tree, runs the quick checks of the
given properties (all 18 when none is given), and undoes the change.  Prints one line per check.  Development aid: the
registered checks never call this."""
import os
import subprocess
import sys
import time

VERIF = os.path.dirname(os.path.dirname(os.path.abspath(__file__)))


def main():
    patch = os.path.abspath(sys.argv[1])
    props = sys.argv[2:] or ["C%02d" % i for i in range(1, 19)]
    st = subprocess.run(["git", "-C", "/repo", "status", "--short", "--untracked-files=no"], stdout=subprocess.PIPE).stdout.decode().strip()
    if st:
        print("refusing: /repo has local changes:\n" + st)
        return 2
    r = subprocess.run(["git", "-C", "/repo", "apply", patch])
    if r.returncode != 0:
        print("patch does not apply")
        return 2
    res = {}
    try:
        for p in props:
            t0 = time.time()
            try:
                q = subprocess.run([os.path.join(VERIF, "vcheck"), p, "--tier", "quick"], cwd=VERIF, stdout=subprocess.PIPE, stderr=subprocess.DEVNULL, timeout=2400)
            except subprocess.TimeoutExpired:
                print("%s TIMEOUT  %5.1fs" % (p, time.time() - t0), flush=True)
                continue
            out = q.stdout.decode()
            lines = [l for l in out.split("\n") if l.startswith(("VIOLATION", "OK ", "KNOWN-FINDING"))]
            verdict = "DETECTED" if q.returncode == 1 and any(l.startswith("VIOLATION") for l in lines) else ("quiet" if q.returncode == 0 else "rc=%d" % q.returncode)
            res[p] = verdict
            print("%s %-8s %5.1fs  %s" % (p, verdict, time.time() - t0, " | ".join(l for l in lines if not l.startswith("KNOWN"))[:200]), flush=True)
    finally:
        subprocess.run(["git", "-C", "/repo", "checkout", "--", "."])
        subprocess.run(["git", "-C", "/repo", "clean", "-fdq", "src"])      # files a patch added
    return 0


if __name__ == "__main__":
    sys.exit(main())
