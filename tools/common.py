"""Shared machinery of ./vcheck: builds (Coq, extracted driver, Rust harness, xt
binary), proof-obligation accounting, the harness session client, evidence and
verdict handling."""
import hashlib
import json
import os
import re
import shutil
import subprocess
import sys
import time

VERIF = os.path.dirname(os.path.dirname(os.path.abspath(__file__)))
REPO = os.environ.get("XT_REPO", "/repo")
BUILD = os.path.join(VERIF, ".build")
COQ = os.path.join(VERIF, "coq")
TARGET = os.path.join(BUILD, "target")
HARNESS_BIN = os.path.join(TARGET, "release", "xt-verif-harness")
DRIVER = os.path.join(BUILD, "ocaml", "driver.exe")
XT_DEBUG = os.path.join(BUILD, "xt-target", "debug", "xt")
XT_RELEASE = os.path.join(BUILD, "xt-target", "release", "xt")

ENV = dict(os.environ, CARGO_NET_OFFLINE="true", CARGO_TERM_COLOR="never")

# Axioms any theorem may depend on (none) and names that Print Assumptions
# lists for primitive integers/floats, which are kernel primitives, not axioms
# of this development.
PRIMITIVE_OK = re.compile(
    r"^(PrimFloat\.|Uint63\.|PrimInt63\.|FloatOps\.|FloatAxioms\.|Sint63\.|float\b|int\b|PrimFloat|Uint63)")

FORBIDDEN = re.compile(
    r"\b(Admitted|admit|Axiom|Axioms|Parameter|Parameters|Conjecture|Conjectures|Admit Obligations)\b"
    r"|Unset\s+Guard|bypass_check|Unset\s+Positivity|Unset\s+Universe|type-in-type|impredicative-set")


def log(msg):
    print(msg, file=sys.stderr, flush=True)


def run(cmd, timeout=1800, cwd=None, env=None, input=None):
    try:
        p = subprocess.run(cmd, cwd=cwd, env=env or ENV, input=input, timeout=timeout,
                           stdout=subprocess.PIPE, stderr=subprocess.STDOUT)
        return p.returncode, p.stdout.decode("utf-8", "replace")
    except subprocess.TimeoutExpired as e:
        out = (e.stdout or b"").decode("utf-8", "replace")
        return 124, out + "\n[timeout after %ss]" % timeout


# ---------------------------------------------------------------- Coq side

def strip_comments(text):
    out, depth, i = [], 0, 0
    while i < len(text):
        if text.startswith("(*", i):
            depth += 1
            i += 2
        elif text.startswith("*)", i) and depth > 0:
            depth -= 1
            i += 2
        else:
            if depth == 0:
                out.append(text[i])
            i += 1
    return "".join(out)


def coq_sources():
    res = []
    for sub in ("theories", "properties", "extract"):
        d = os.path.join(COQ, sub)
        for f in sorted(os.listdir(d)):
            if f.endswith(".v"):
                res.append(os.path.join(d, f))
    return res


def forbidden_tokens():
    """Occurrences of forbidden vocabulary, and of Variable/Hypothesis outside a
    Section, in the development (comments stripped)."""
    hits = []
    for path in coq_sources():
        text = strip_comments(open(path).read())
        depth = 0
        for ln, line in enumerate(text.split("\n"), 1):
            if re.match(r"\s*Section\b", line):
                depth += 1
            if re.match(r"\s*End\b", line) and depth > 0:
                depth -= 1
            m = FORBIDDEN.search(line)
            if m:
                hits.append("%s:%d: %s" % (os.path.relpath(path, VERIF), ln, m.group(0)))
            if depth == 0 and re.match(r"\s*(Variable|Variables|Hypothesis|Hypotheses|Context)\b", line):
                hits.append("%s:%d: Variable/Hypothesis outside a Section" % (os.path.relpath(path, VERIF), ln))
    return hits


def build_coq(targets=None, timeout=1500):
    """Full .vo build of the development (or of the given .vo targets and what
    they depend on).  Returns (ok, log)."""
    if not os.path.exists(os.path.join(COQ, "Makefile")) or \
            os.path.getmtime(os.path.join(COQ, "Makefile")) < os.path.getmtime(os.path.join(COQ, "_CoqProject")):
        rc, out = run(["coq_makefile", "-f", "_CoqProject", "-o", "Makefile"], cwd=COQ)
        if rc != 0:
            return False, out
    cmd = ["make", "-j16"] + (targets or [])
    rc, out = run(cmd, cwd=COQ, timeout=timeout)
    return rc == 0, out


def property_theorems(pid):
    path = os.path.join(COQ, "properties", pid + ".v")
    text = strip_comments(open(path).read())
    return re.findall(r"^\s*(?:Theorem|Corollary)\s+([A-Za-z0-9_']+)", text, re.M)


def dependency_closure(pid):
    """Theory files (module names) in the transitive closure of properties/<pid>.v."""
    seen, todo = set(), ["properties/%s.v" % pid]
    while todo:
        f = todo.pop()
        if f in seen:
            continue
        seen.add(f)
        text = strip_comments(open(os.path.join(COQ, f)).read())
        for m in re.finditer(r"From\s+(XtModel|XtProps)\s+Require\s+(?:Import|Export)?\s*([^.]*)\.", text):
            sub = "theories" if m.group(1) == "XtModel" else "properties"
            for name in m.group(2).split():
                cand = "%s/%s.v" % (sub, name)
                if os.path.exists(os.path.join(COQ, cand)):
                    todo.append(cand)
    return sorted(seen)


def count_obligations(pid):
    """Number of Qed-closed statements in the dependency closure of the
    property file (the obligations the kernel has to accept)."""
    n = 0
    files = dependency_closure(pid)
    for f in files:
        text = strip_comments(open(os.path.join(COQ, f)).read())
        n += len(re.findall(r"\bQed\.", text))
    return n, files


def print_assumptions(pid, timeout=600):
    """Runs Print Assumptions on every theorem of properties/<pid>.v.
    Returns (ok, {theorem: [assumption lines]}, log)."""
    thms = property_theorems(pid)
    d = os.path.join(BUILD, "assume")
    os.makedirs(d, exist_ok=True)
    src = os.path.join(d, "Assume_%s.v" % pid)
    with open(src, "w") as f:
        f.write("From XtProps Require Import %s.\n" % pid)
        for t in thms:
            f.write('Goal True. idtac "@@BEGIN %s". Abort.\nPrint Assumptions %s.\n' % (t, t))
        f.write('Goal True. idtac "@@END". Abort.\n')
    rc, out = run(["coqc", "-Q", "theories", "XtModel", "-Q", "properties", "XtProps", src], cwd=COQ, timeout=timeout)
    res, cur = {}, None
    for line in out.split("\n"):
        if line.startswith("@@BEGIN "):
            cur = line.split()[1]
            res[cur] = []
        elif line.startswith("@@END"):
            cur = None
        elif cur is not None and line.strip():
            res[cur].append(line.rstrip())
    ok = rc == 0 and set(res) == set(thms)
    bad = {}
    for t, lines in res.items():
        text = "\n".join(lines)
        if "Closed under the global context" in text:
            continue
        names = [l.split(":")[0].strip() for l in lines if re.match(r"^[A-Za-z_][\w.']*\s*:", l)]
        others = [n for n in names if not PRIMITIVE_OK.match(n)]
        if others or not names:
            bad[t] = lines
    return ok and not bad, res, out if not ok else json.dumps(bad)


def coqchk(pid, timeout=900):
    """Re-checks properties/<pid>.vo and everything it depends on with Coq's independent checker and reads its context
    summary: no axioms, nothing relying on type-in-type, unsafe fixpoints or assumed positivity.  Returns (ok, summary);
    ok is None when the checker did not finish in time (it has no compiled evaluator, so the vm_compute sweeps of
    UtfProofs.v take it the better part of an hour): that is recorded, not held against the development, which coqc's
    kernel has accepted in full."""
    rc, out = run(["coqchk", "-o", "-silent", "-Q", "theories", "XtModel", "-Q", "properties", "XtProps", "XtProps." + pid],
                  cwd=COQ, timeout=timeout)
    if "[timeout after" in out:
        return None, {"not_completed": "coqchk did not finish within %d s" % timeout}
    summary = {}
    cur = None
    for line in out.split("\n"):
        m = re.match(r"^\* ([^:]+):\s*(.*)$", line)
        if m:
            cur = m.group(1).strip()
            summary[cur] = m.group(2).strip()
        elif cur and line.strip() and not line.startswith("CONTEXT") and not line.startswith("==="):
            summary[cur] = (summary[cur] + " " + line.strip()).strip()
    want = ["Axioms", "Constants/Inductives relying on type-in-type", "Constants/Inductives relying on unsafe (co)fixpoints",
            "Inductives whose positivity is assumed"]
    ok = rc == 0 and all(summary.get(k) == "<none>" for k in want)
    return ok, summary if summary else {"log": out[-1500:]}


def proofs_status(pid, thorough=False):
    """Builds the property file and everything it needs, and checks the proof
    hygiene rules.  Returns a dict."""
    t0 = time.time()
    st = {"property_file": "coq/properties/%s.v" % pid}
    ok, out = build_coq(["properties/%s.vo" % pid])
    st["build_ok"] = ok
    if not ok:
        st["build_log_tail"] = out[-3000:]
    hits = forbidden_tokens()
    st["forbidden_tokens"] = hits
    n, files = count_obligations(pid)
    st["obligations"] = n
    st["closure"] = files
    st["theorems"] = property_theorems(pid)
    if ok:
        aok, res, detail = print_assumptions(pid)
        st["assumptions_ok"] = aok
        st["assumptions"] = {t: (" ".join(l)[:300]) for t, l in res.items()}
        if not aok:
            st["assumptions_detail"] = detail[-2000:]
    else:
        st["assumptions_ok"] = False
    st["ok"] = bool(ok and not hits and st["assumptions_ok"] and st["theorems"])
    if thorough and ok:
        cok, summary = coqchk(pid)
        st["coqchk"] = {"ok": cok, "summary": summary}
        st["ok"] = bool(st["ok"] and cok is not False)
    st["discharged"] = n if st["ok"] else 0
    st["wall_s"] = round(time.time() - t0, 2)
    return st


def build_driver(timeout=900):
    """Extracts the model to OCaml and builds the driver.  Cached on the hash of
    the theories, the extraction file and the driver source."""
    d = os.path.join(BUILD, "ocaml")
    os.makedirs(d, exist_ok=True)
    h = hashlib.sha256()
    srcs = [p for p in coq_sources() if "/properties/" not in p] + [os.path.join(VERIF, "model_driver", "driver.ml")]
    for p in srcs:
        h.update(open(p, "rb").read())
    stamp = os.path.join(d, "stamp")
    if os.path.exists(DRIVER) and os.path.exists(stamp) and open(stamp).read() == h.hexdigest():
        return True, "cached"
    ok, out = build_coq(["theories/%s" % os.path.basename(p) + "o" for p in coq_sources() if "/theories/" in p
                         and "Proofs" not in os.path.basename(p)])
    if not ok:
        return False, out
    rc, out = run(["coqc", "-Q", os.path.join(COQ, "theories"), "XtModel",
                   os.path.join(COQ, "extract", "Extract.v")], cwd=d, timeout=timeout)
    if rc != 0:
        return False, out
    shutil.copy(os.path.join(VERIF, "model_driver", "driver.ml"), os.path.join(d, "driver.ml"))
    rc, out2 = run(["ocamlfind", "ocamlopt", "-O2", "-w", "-a", "-package", "str", "-linkpkg",
                    "model.mli", "model.ml", "driver.ml", "-o", "driver.exe"], cwd=d, timeout=timeout)
    if rc != 0:
        return False, out + out2
    open(stamp, "w").write(h.hexdigest())
    return True, out + out2


# ---------------------------------------------------------------- Rust side

def build_harness(timeout=1500):
    """Builds the harness against /repo's current working tree, with the verif
    hooks; falls back to an API-only build if the hook build fails.
    Returns (ok, hooks_available, log)."""
    cmd = ["cargo", "build", "--release", "--offline", "--manifest-path",
           os.path.join(VERIF, "harness", "Cargo.toml")]
    env = dict(ENV, CARGO_TARGET_DIR=TARGET)
    rc, out = run(cmd, env=env, timeout=timeout)
    if rc == 0:
        return True, True, out
    rc2, out2 = run(cmd + ["--no-default-features"], env=env, timeout=timeout)
    return rc2 == 0, False, out + "\n--- retry without hooks ---\n" + out2


def build_xt(release=False, timeout=1500):
    """Builds /repo's own xt binary (guard off) into .build/xt-target."""
    cmd = ["cargo", "build", "--offline", "--bin", "xt", "--manifest-path", os.path.join(REPO, "Cargo.toml")]
    if release:
        cmd.append("--release")
    env = dict(ENV, CARGO_TARGET_DIR=os.path.join(BUILD, "xt-target"))
    rc, out = run(cmd, env=env, timeout=timeout)
    return rc == 0, out


class Harness:
    """A `harness serve` child process answering JSON requests.  A crash or a
    hang of the child is attributed to the request it was working on."""

    def __init__(self, case_timeout=20.0):
        self.case_timeout = case_timeout
        self.proc = None
        self.crashes = []

    def _start(self):
        self.proc = subprocess.Popen([HARNESS_BIN, "serve"], stdin=subprocess.PIPE, stdout=subprocess.PIPE,
                                     stderr=subprocess.DEVNULL, env=ENV)

    def ask(self, req):
        import select
        if self.proc is None or self.proc.poll() is not None:
            self._start()
        try:
            self.proc.stdin.write((json.dumps(req) + "\n").encode())
            self.proc.stdin.flush()
            r, _, _ = select.select([self.proc.stdout], [], [], self.case_timeout)
            if not r:
                self.proc.kill()
                self.proc.wait()
                self.crashes.append({"req": req, "what": "hang (no answer in %ss)" % self.case_timeout})
                return {"id": req.get("id"), "hang": True}
            line = self.proc.stdout.readline()
            if not line:
                rc = self.proc.wait()
                self.crashes.append({"req": req, "what": "process died, status %s" % rc})
                return {"id": req.get("id"), "crash": True, "status": rc}
            return json.loads(line)
        except BrokenPipeError:
            rc = self.proc.wait()
            self.crashes.append({"req": req, "what": "process died, status %s" % rc})
            return {"id": req.get("id"), "crash": True, "status": rc}

    def ask_many(self, reqs):
        """Pipelined: sends requests in windows to keep the child busy."""
        return [self.ask(r) for r in reqs]

    def close(self):
        if self.proc and self.proc.poll() is None:
            try:
                self.proc.stdin.close()
                self.proc.wait(timeout=5)
            except Exception:
                self.proc.kill()


BATCH_STATS = {"max_gap_s": 0.0}


def harness_batch(reqs, timeout=600, jobs=8, stall=120):
    """Runs many independent requests through several `harness serve`
    children at once; falls back to one-at-a-time attribution for a shard whose
    child dies or hangs.  Returns responses in request order."""
    import concurrent.futures
    if not reqs:
        return []
    jobs = max(1, min(jobs, len(reqs) // 50 + 1))
    shards = [reqs[i::jobs] for i in range(jobs)]

    def work(shard):
        """Streams the shard through one child; when the child dies, or gives no answer for `stall` seconds, the answers it
        did give are kept and the rest of the shard is asked one request at a time (which attributes the crash or hang)."""
        import select
        import threading
        data = "".join(json.dumps(r) + "\n" for r in shard).encode()
        got = []
        try:
            p = subprocess.Popen([HARNESS_BIN, "serve"], stdin=subprocess.PIPE, stdout=subprocess.PIPE,
                                 stderr=subprocess.DEVNULL, env=ENV)

            def feed():
                try:
                    p.stdin.write(data)
                    p.stdin.close()
                except (BrokenPipeError, OSError, ValueError):
                    pass
            th = threading.Thread(target=feed, daemon=True)
            th.start()
            t_end = time.time() + timeout
            buf = b""
            fd = p.stdout.fileno()
            while len(got) < len(shard):
                t_wait = time.time()
                r, _, _ = select.select([fd], [], [], stall)
                if not r or time.time() > t_end:
                    break
                BATCH_STATS["max_gap_s"] = max(BATCH_STATS["max_gap_s"], time.time() - t_wait)
                chunk = os.read(fd, 1 << 20)
                if not chunk:
                    break
                buf += chunk
                *lines, buf = buf.split(b"\n")
                for l in lines:
                    if l.strip():
                        got.append(json.loads(l))
            if p.poll() is None:
                p.kill()
            p.wait()
        except Exception:
            pass
        if len(got) == len(shard):
            return got
        h = Harness(case_timeout=max(20.0, stall / 2))
        res = got + [h.ask(r) for r in shard[len(got):]]
        h.close()
        return res

    with concurrent.futures.ThreadPoolExecutor(jobs) as ex:
        parts = list(ex.map(work, shards))
    out = [None] * len(reqs)
    for j, part in enumerate(parts):
        for k, resp in enumerate(part):
            out[j + k * jobs] = resp
    return out


def run_driver(cases_path, out_path, timeout=900, jobs=16):
    """Runs the model driver over a case file, sharded round-robin over `jobs`
    processes; the output file has the results in case order."""
    import concurrent.futures
    lines = open(cases_path, "rb").read().split(b"\n")
    if lines and lines[-1] == b"":
        lines.pop()
    jobs = max(1, min(jobs, len(lines) // 200 + 1))
    shards = [lines[i::jobs] for i in range(jobs)]

    def work(shard):
        try:
            p = subprocess.run([DRIVER], input=b"\n".join(shard) + b"\n", stdout=subprocess.PIPE,
                               stderr=subprocess.PIPE, timeout=timeout, preexec_fn=_big_stack)
            if p.returncode != 0:
                return None, p.stderr.decode("utf-8", "replace")
            res = p.stdout.split(b"\n")
            if res and res[-1] == b"":
                res.pop()
            return res, ""
        except subprocess.TimeoutExpired:
            return None, "driver timeout"

    with concurrent.futures.ThreadPoolExecutor(jobs) as ex:
        parts = list(ex.map(work, shards))
    for res, err in parts:
        if res is None:
            return False, err
    out = [b""] * len(lines)
    for j, (res, _) in enumerate(parts):
        if len(res) != len(shards[j]):
            return False, "driver returned %d results for %d cases" % (len(res), len(shards[j]))
        for k, r in enumerate(res):
            out[j + k * jobs] = r
    with open(out_path, "wb") as f:
        f.write(b"\n".join(out) + b"\n")
    return True, ""


def _big_stack():
    """The extracted list functions are not tail recursive: give the driver an unlimited stack."""
    import resource
    try:
        resource.setrlimit(resource.RLIMIT_STACK, (resource.RLIM_INFINITY, resource.RLIM_INFINITY))
    except (ValueError, OSError):
        pass


def run_driver_lines(lines, timeout=900, jobs=16):
    """Feeds case lines to the model driver (sharded over several processes); returns {id: result string}."""
    import concurrent.futures
    jobs = max(1, min(jobs, len(lines) // 40 + 1))
    shards = [lines[i::jobs] for i in range(jobs)]

    def work(shard):
        data = ("\n".join(shard) + "\n").encode()
        p = subprocess.run([DRIVER], input=data, stdout=subprocess.PIPE, stderr=subprocess.PIPE, timeout=timeout,
                           preexec_fn=_big_stack)
        if p.returncode != 0:
            raise RuntimeError("model driver failed: " + p.stderr.decode("utf-8", "replace")[-500:])
        return p.stdout.decode()

    with concurrent.futures.ThreadPoolExecutor(jobs) as ex:
        outs = list(ex.map(work, shards))
    res = {}
    for out in outs:
        for l in out.split("\n"):
            if l.strip():
                i, _, rest = l.partition(" ")
                res[i] = rest
    return res


def _unused_run_driver_lines(lines, timeout=900):
    data = ("\n".join(lines) + "\n").encode()
    p = subprocess.run([DRIVER], input=data, stdout=subprocess.PIPE, stderr=subprocess.PIPE, timeout=timeout)
    if p.returncode != 0:
        raise RuntimeError("model driver failed: " + p.stderr.decode("utf-8", "replace")[-500:])
    res = {}
    for l in p.stdout.decode().split("\n"):
        if l.strip():
            i, _, rest = l.partition(" ")
            res[i] = rest
    return res


def diff_files(impl_path, model_path, limit=20):
    """Line-by-line comparison; returns (n_lines, [(lineno, impl, model)])."""
    diffs, n = [], 0
    with open(impl_path) as a, open(model_path) as b:
        while True:
            la, lb = a.readline(), b.readline()
            if not la and not lb:
                break
            n += 1
            if la != lb and len(diffs) < limit:
                diffs.append((n, la.rstrip("\n"), lb.rstrip("\n")))
            elif la != lb:
                diffs.append(None)
    real = [d for d in diffs if d]
    return n, real, len(diffs)


# ---------------------------------------------------------------- verdicts

def load_known(pid):
    path = os.path.join(VERIF, "known_findings.json")
    if not os.path.exists(path):
        return []
    return [k for k in json.load(open(path)).get("findings", []) if k.get("property") == pid]


def write_replay(pid, payload):
    d = os.path.join(VERIF, "replays", pid)
    os.makedirs(d, exist_ok=True)
    blob = json.dumps(payload, sort_keys=True, indent=1, default=str)
    name = hashlib.sha256(blob.encode()).hexdigest()[:16] + ".json"
    path = os.path.join(d, name)
    open(path, "w").write(blob)
    return path


def write_evidence(pid, tier, seed, level, coverage, assumptions, wall_s, violations):
    os.makedirs(os.path.join(VERIF, "evidence"), exist_ok=True)
    ev = {
        "property_id": pid, "tier": tier, "seed": seed, "level": level,
        "coverage": coverage, "assumptions": assumptions,
        "wall_s": round(wall_s, 2), "violations": violations,
    }
    path = os.path.join(VERIF, "evidence", pid + ".json")
    tmp = path + ".tmp"
    with open(tmp, "w") as f:
        json.dump(ev, f, indent=1, sort_keys=True, default=str)
        f.write("\n")
    os.replace(tmp, path)
    return path


class Outcome:
    """What one property check found."""

    def __init__(self, pid):
        self.pid = pid
        self.evaluations = 0
        self.distinct_nontrivial = 0
        self.rule = ""
        self.samples = []
        self.extra = {}
        # Each: dict with at least "what"; concrete ones carry "input"/"case".
        self.disagreements = []     # model vs implementation
        self.oracle_failures = []   # property oracle on the implementation (concrete failing inputs)
        self.contract_failures = []  # third-party contract counterexamples
        self.known_hits = []        # (finding id, description) reproduced
        self.traces_validated = 0
        self.hooks_available = True
        self.notes = []

    def add_sample(self, s, cap=6):
        if len(self.samples) < cap:
            self.samples.append(s)
