#!/bin/sh
# coqshow.sh <file.v> <line> [extra tactic text]: print the goal after <line> of a theory file (development aid)
f=$1; n=$2; extra=$3
tmp=$(mktemp -d)
head -n $n $f > $tmp/Dbg.v
printf '%s\nShow.\n' "$extra" >> $tmp/Dbg.v
cd /verif/coq && timeout 600 coqc -noglob -Q theories XtModel -Q properties XtProps $tmp/Dbg.v 2>&1 | head -${4:-60}
rm -rf $tmp
