"""Value generator, format spellers, independent readers and a byte mutator for
testing cross-format value fidelity of `xt` (JSON / MessagePack / TOML / YAML).

Stdlib + PyYAML only.  Nothing in here calls xt.

Value model
    None, bool, int, float, str, list, dict (insertion ordered, str keys)
    bytes          MessagePack bin
    Map(pairs)     a map with non-string (or repeated) keys: list of (key, value)
    F32(value)     a float that originated as a 32-bit float

Conventions worth knowing (see the individual docstrings):
  * gen_value(profile="common") makes values representable in all four
    formats (no nulls, i64 ints, finite floats, string keys) and, unless
    `root` says otherwise, a dict root.
  * spell(v, "toml", rng) keeps the entry order of v (tables that would have
    to move are written inline, with dotted keys, or with the "sub-table
    header before the super-table header" trick), so toml_spelled_order(v)
    is a (deep) copy of v.
  * read_documents(.., "msgpack") returns F32 for float32 payloads; it
    compares equal (values_equal) to the float of the same value.  spell()
    writes F32 as float32 (0xca) always and float as float64 (0xcb) always.
  * read_documents(b"", "toml") == [] (no document) but whitespace/comment-only
    TOML is [{}]; spell({}, "toml", ..) therefore never returns zero bytes.
  * read_documents(.., "json") wants whitespace between two adjacent top-level
    values unless one side is a bracket, brace or quote ("truefalse", "1-1" are
    rejected), rejects NaN/Infinity and numbers that overflow a double.
  * The YAML reader composes with PyYAML's pure-Python parser (set
    YAML_USE_LIBYAML = True for the C one) and resolves scalars itself with the
    YAML 1.2 core schema; unknown tags and recursive aliases are ValueErrors.
  * toml_reorder() is the reordering TOML *requires*; toml_reorder_xt() (extra)
    is the stronger regrouping xt 0.19 is observed to apply to nested tables.
"""
import base64
import json
import math
import re
import struct
import tomllib

import yaml

__all__ = [
    "Map", "F32", "STRING_POOL", "TOKENS", "gen_value", "values_equal", "toml_reorder", "toml_reorder_xt",
    "representable", "spell", "spell_canonical", "toml_spelled_order",
    "read_documents", "mutate",
]

I64_MIN, I64_MAX, U64_MAX = -(1 << 63), (1 << 63) - 1, (1 << 64) - 1


# ----------------------------------------------------------------- value model

class Map:
    """A map whose keys are not all (unique) strings; `pairs` is a list of (key, value)."""
    __slots__ = ("pairs",)

    def __init__(self, pairs=()):
        self.pairs = [(k, v) for k, v in pairs]

    def __repr__(self):
        return "Map(%r)" % (self.pairs,)


class F32:
    """A float that originated as (and is exactly representable as) a 32-bit float."""
    __slots__ = ("value",)

    def __init__(self, value):
        value = float(value)
        if value == value and value not in (math.inf, -math.inf):
            try:
                value = struct.unpack("<f", struct.pack("<f", value))[0]
            except OverflowError:  # rounds beyond the largest finite float32
                value = math.copysign(math.inf, value)
        self.value = value

    def __repr__(self):
        return "F32(%r)" % (self.value,)


def _bits(f):
    return struct.unpack("<Q", struct.pack("<d", f))[0]


def _float_eq(a, b):
    if a != a or b != b:
        return a != a and b != b
    return _bits(a) == _bits(b)


def _as_pairs(v):
    """dict or Map -> list of pairs, plus whether it is 'dict-like' (unique str keys)."""
    if type(v) is dict:
        return list(v.items()), True
    pairs = v.pairs
    seen = set()
    for k, _ in pairs:
        if type(k) is not str or k in seen:
            return pairs, False
        seen.add(k)
    return pairs, True


def values_equal(a, b):
    """Strict structural equality (iterative, safe for any depth)."""
    stack = [(a, b)]
    while stack:
        a, b = stack.pop()
        if type(a) is F32:
            a = a.value
        if type(b) is F32:
            b = b.value
        ta, tb = type(a), type(b)
        if ta is Map or tb is Map:
            if not ((ta is Map or ta is dict) and (tb is Map or tb is dict)):
                return False
            pa, da = _as_pairs(a)
            pb, db = _as_pairs(b)
            if da != db or len(pa) != len(pb):
                return False
            for (ka, va), (kb, vb) in zip(pa, pb):
                stack.append((ka, kb))
                stack.append((va, vb))
            continue
        if ta is not tb:
            return False
        if ta is float:
            if not _float_eq(a, b):
                return False
        elif ta is list:
            if len(a) != len(b):
                return False
            stack.extend(zip(a, b))
        elif ta is dict:
            if len(a) != len(b):
                return False
            for (ka, va), (kb, vb) in zip(a.items(), b.items()):
                if ka != kb:
                    return False
                stack.append((va, vb))
        else:
            if a != b:
                return False
    return True


def _is_table_value(v):
    if type(v) is dict:
        return True
    return type(v) is list and len(v) > 0 and all(type(e) is dict for e in v)


def toml_reorder(v):
    """TOML's permitted reordering, recursively: in every dict the entries whose
    value is not a table (dict / non-empty list of dicts) first, then the table
    entries, each group in input order."""
    t = type(v)
    if t is dict:
        items = [(k, toml_reorder(x)) for k, x in v.items()]
        out = {}
        for k, x in items:
            if not _is_table_value(x):
                out[k] = x
        for k, x in items:
            if _is_table_value(x):
                out[k] = x
        return out
    if t is list:
        return [toml_reorder(x) for x in v]
    if t is Map:
        return Map([(toml_reorder(k), toml_reorder(x)) for k, x in v.pairs])
    return v


def toml_reorder_xt(v):
    """The entry order xt 0.19 (toml 0.8 with preserve_order) is OBSERVED to write,
    which is not toml_reorder(): the root table keeps input order, but every nested
    table is first regrouped by toml::Value's Serialize impl into
    [neither table nor array containing a table] + [arrays with a table element] +
    [tables]; the document
    writer then moves the entries it writes as [table]/[[array of tables]] after
    the ones it writes inline.  Dicts inside inline arrays only get the regrouping.
    Extra to the required API; used by test_gen.py to explain mismatches."""
    def go(v, table_ctx, root):
        t = type(v)
        if t is dict:
            items = list(v.items())
            if not root:
                def has_table(x):
                    return type(x) is list and any(type(e) is dict for e in x)
                items = ([kv for kv in items if type(kv[1]) is not dict and not has_table(kv[1])] +
                         [kv for kv in items if has_table(kv[1])] +
                         [kv for kv in items if type(kv[1]) is dict])
            if table_ctx:
                items = ([kv for kv in items if not _is_table_value(kv[1])] +
                         [kv for kv in items if _is_table_value(kv[1])])
            out = {}
            for k, x in items:
                if type(x) is dict:
                    out[k] = go(x, table_ctx, False)
                elif type(x) is list:
                    aot = table_ctx and _is_table_value(x)
                    out[k] = [go(e, aot, False) for e in x]
                else:
                    out[k] = x
            return out
        if t is list:
            return [go(e, False, False) for e in v]
        return v
    return go(v, True, True)


def _copy(v):
    t = type(v)
    if t is dict:
        return {k: _copy(x) for k, x in v.items()}
    if t is list:
        return [_copy(x) for x in v]
    if t is Map:
        return Map([(_copy(k), _copy(x)) for k, x in v.pairs])
    return v


def toml_spelled_order(v):
    """Entry order a reader of spell(v, "toml", rng) sees: spell() never reorders,
    so this is a deep copy of v."""
    return _copy(v)


def representable(v, fmt):
    """Can `fmt` represent v with its own native types?"""
    if fmt not in ("json", "yaml", "toml", "msgpack"):
        raise ValueError("unknown format %r" % (fmt,))
    if fmt == "toml" and type(v) is not dict:
        return False
    stack = [v]
    while stack:
        x = stack.pop()
        t = type(x)
        if t is F32:
            x, t = x.value, float
        if x is None:
            if fmt == "toml":
                return False
        elif t is bool or t is str:
            if t is str:
                try:
                    x.encode("utf-8")
                except UnicodeEncodeError:
                    return False
        elif t is int:
            if fmt == "toml" and not I64_MIN <= x <= I64_MAX:
                return False
            if fmt == "msgpack" and not I64_MIN <= x <= U64_MAX:
                return False
        elif t is float:
            if fmt == "json" and (x != x or x in (math.inf, -math.inf)):
                return False
        elif t is bytes:
            if fmt != "msgpack":
                return False
        elif t is list:
            stack.extend(x)
        elif t is dict:
            for k, y in x.items():
                if type(k) is not str:
                    return False
                stack.append(k)
                stack.append(y)
        elif t is Map:
            if fmt in ("json", "toml"):
                return False
            for k, y in x.pairs:
                if fmt == "yaml" and type(k) in (list, dict, Map):
                    pass  # complex keys are YAML-representable
                stack.append(k)
                stack.append(y)
        else:
            return False
    return True


# ------------------------------------------------------------------ generation

STRING_POOL = [
    # type look-alikes
    "yes", "no", "Yes", "NO", "on", "off", "y", "n", "Y", "N", "true", "false", "True", "FALSE",
    "null", "Null", "NULL", "~", "nil", "none", "nan", "inf", "NaN", "Infinity", "-Infinity",
    ".inf", "-.inf", "+.inf", ".Inf", ".INF", ".nan", ".NaN", ".NAN",
    "0", "1", "-1", "-0", "+1", "+0", "12", "012", "0123", "-012", "00", "1e3", "1E3", "1e+3", "1.0",
    "1.", ".5", "-.5", "+.5", "0.", "1.5e+3", "1_000", "1__0", "0x1F", "0x1f", "0X1F", "-0x1F",
    "0x_1", "0o7", "0o17", "0O7", "07", "0b11", "0b1", "1:20", "1:20:30", "190:20:30.15", "1,000",
    "2001-01-01", "2001-01-01T00:00:00Z", "2001-01-01 00:00:00", "12:30:45", "1979-05-27T07:32:00-08:00",
    "18446744073709551615", "18446744073709551616", "9223372036854775808", "-9223372036854775809",
    "1e400", "-1e400", "4.9e-324", "0.1", "1.7976931348623157e308", "<<", "=", "!", "!!", "!!str",
    # whitespace
    "", " ", "  ", "   ", " leading", "trailing ", " both ", "two  spaces", "multi\nline",
    "multi\nline\n", "multi\nline\n\n", "\nleading newline", "\n", "\n\n", "a\n\nb", "a\n b\n  c",
    " a\nb", "a \nb", "line\r\nfeed", "cr\rcr", "tab\t", "\ttab", "a\tb", "\t", "trail\n ", "x\n\ty",
    # quoting and syntax
    "'", "\"", "''", "\"\"", "'''", "\"\"\"", "it's", "say \"hi\"", "'quoted'", "\"quoted\"",
    "a'''b", "a\"\"\"b", "ends with '", "ends with \"", "\\", "\\\\", "back\\slash", "\\n", "\\u0041",
    "C:\\path\\to", "trailing\\", "# not comment", "a # b", "a #b", "a# b", "#", "key: value",
    "key:value", "key:", ": value", ":", "a: b: c", "- item", "-", "- ", "-item", "--", "---",
    "--- a", "...", "... x", "[", "]", "{", "}", "[]", "{}", "[a, b]", "{a: b}", "a, b", ",", "a,b",
    "%", "%YAML 1.2", "@", "@at", "`", "`tick`", "!tag", "!!int 1", "&a", "&anchor x", "*a", "*",
    "|", "|-", "|+", ">", ">-", "| text", "> text", "?", "? key", "? ", "a=b", "a = b", "[table]",
    "[[aot]]", "a.b", "a.b.c", ".", "..", "a b", "a-b", "a_b", "A", "a", "z9", "_", "-a", "a-",
    "$", "$var", "${x}", "<a>", "a/b", "/", "\\/", "a|b", "a>b", "a&b", "a*b", "a!b", "a%b", "a@b",
    # control characters and special code points
    "\x00", "a\x00b", "\x01", "\x07", "\x08", "\x0b", "\x0c", "\x0e", "\x1b", "\x1b[0m", "\x1f",
    "\x7f", "a\x7fb", "\x80", "\x85", "a\x85b", "\x9f", "\xa0", "a\xa0b", "\xad", "\u2028", "a\u2028b",
    "\u2029", "a\u2029b", "\ufeff", "\ufeffbom first", "bom\ufefflater", "\ufffe", "\uffff",
    "a\uffffb", "\ufffd", "\ud7ff", "\ue000", "\ufdd0", "\u200b", "\u200e", "\u202e", "\u0301",
    "".join(chr(c) for c in range(0x20)), "".join(chr(c) for c in range(1, 0x20)),
    # non-ASCII and astral
    "\u00e9", "caf\u00e9", "na\u00efve", "\u00df", "\u00fc\u00f1\u00ee", "\u65e5\u672c\u8a9e",
    "\u0416\u0443\u043a", "\u05e9\u05dc\u05d5\u05dd", "\u0645\u0631\u062d\u0628\u0627",
    "\U0001f600", "a\U0001f600b", "\U0001f468\u200d\U0001f469\u200d\U0001f467", "\U00010000",
    "\U0010ffff", "\U0001fffe", "\U0010fffe", "\U00020000", "\U000e0001", "\u00e9\U0001f600\x00",
    # long
    "a" * 101, "long " * 40, "x" * 255, "y" * 256, "z" * 300, "\u00e9" * 130, "\U0001f600" * 60,
    " " * 120, "ab\n" * 50, ("line one\n" * 20) + "end", "w" * 31, "w" * 32, "w" * 33, "0" * 120,
    "key " * 30 + "end", "\"" * 110, "'" * 110, "\\" * 110,
]

_SIMPLE_WORDS = [
    "a", "b", "c", "x", "y1", "id", "name", "key", "value", "item", "type", "data", "list", "map",
    "foo", "bar", "baz", "alpha", "beta", "k0", "k_1", "k-2", "Key", "camelCase", "snake_case",
    "kebab-case", "UPPER", "v2", "n0", "x_y-z",
]

_ODD_CHARS = (
    [chr(c) for c in range(0x20)] + list(" !\"#$%&'()*+,-./:;<=>?@[\\]^_`{|}~") +
    list("\x7f\x80\x85\x9f\xa0\xad\u00e9\u00df\u0301\u200b\u2028\u2029\ud7ff\ue000\ufdd0\ufeff"
         "\ufffd\ufffe\uffff\U00010000\U0001f600\U0001fffe\U0010ffff") + list("aZ09")
)


def _int_pool():
    out = {0, 1, -1, 2, -2, 10, -10, 23, 24, 31, 32, -31, -32, -33, 100, 1000, 12345678}
    for k in (4, 5, 7, 8, 15, 16, 24, 31, 32, 52, 53, 54, 62, 63, 64):
        for d in (-2, -1, 0, 1, 2):
            out.add((1 << k) + d)
            out.add(-(1 << k) + d)
    out.update((10 ** 15, 10 ** 16, 10 ** 17, 10 ** 18, 10 ** 19, -10 ** 18, 9007199254740993))
    return sorted(x for x in out if I64_MIN <= x <= U64_MAX)


INT_POOL = _int_pool()

FLOAT_POOL = [
    0.0, -0.0, 1.0, -1.0, 2.0, 0.5, 1.5, -1.5, 10.0, 100.0, 1000.0, 1e15, 1e16, 1e17, 1e21, 1e22,
    1e23, 1e100, 1e-4, 1e-5, 1e-6, 1e-7, 1e-10, 0.1, 0.2, 0.3, 0.1 + 0.2, 1 / 3, 2 / 3, 4.35, 2.675,
    5e-324, 1e-323, 2.225073858507201e-308, 2.2250738585072014e-308, 2.2250738585072011e-308,
    1.7976931348623157e308, -1.7976931348623157e308, 8.98846567431158e307, 9007199254740992.0,
    9007199254740994.0, 9007199254740993.0, 4503599627370496.5, 123456789012345680.0,
    9223372036854775807.0, 9223372036854775808.0, -9223372036854775808.0, 18446744073709551615.0,
    18446744073709551616.0, 4294967296.0, 2147483648.0, 3.4028234663852886e38, 1.401298464324817e-45,
    1.1754943508222875e-38, 0.30000000000000004, 5e-320, 1.0000000000000002, 0.9999999999999999,
    123456.789, 3.141592653589793, 2.718281828459045, 6.02214076e23, 6.62607015e-34, 1e308, 1e-308,
    7.038531e-26, 1.2345678901234567e-5, 9.5367431640625e-07, 8.41e21, 2.2250738585072009e-308,
    17976931348623157e292, 0.000001, 0.0000001, 123e-20, 9.999999999999999e22,
]

F32_POOL = [0.0, -0.0, 1.0, -1.5, 0.1, 3.4028234663852886e38, 1.401298464324817e-45,
            1.1754943508222875e-38, 16777216.0, 0.333333343267440796, 1e10, 1e-10,
            # the decades where ryu's f32 and f64 printers lay a number out differently, and their neighbours
            9.999999974752427e-07, 1.5e-6, 9.99999993922529e-06, 9.999999747378752e-06, 9.99999982451e12, 1e13, 1.5e13, 1e14, 3e15, 9.99999986991104e15, 1.00000003318135e16]

_PROFILES = {
    #            nulls  bytes  nskeys nonfinite f32    u64    rootdict
    "common":   (False, False, False, False,    False, False, True),
    "json":     (True,  False, False, False,    False, True,  False),
    "yaml":     (True,  False, True,  True,     False, True,  False),
    "msgpack":  (True,  True,  True,  True,     True,  True,  False),
    "toml":     (False, False, False, True,     False, False, True),
}


class _Gen:
    def __init__(self, rng, profile):
        if profile not in _PROFILES:
            raise ValueError("unknown profile %r" % (profile,))
        (self.nulls, self.has_bytes, self.nskeys, self.nonfinite, self.has_f32, self.u64,
         self.rootdict) = _PROFILES[profile]
        self.rng = rng
        self.budget = 0

    # -- scalars
    def string(self):
        rng = self.rng
        r = rng.random()
        if r < 0.55:
            return rng.choice(STRING_POOL)
        if r < 0.70:
            return rng.choice(_SIMPLE_WORDS)
        if r < 0.80:
            return rng.choice(STRING_POOL) + rng.choice(STRING_POOL)
        if r < 0.90:
            return "".join(rng.choice(_ODD_CHARS) for _ in range(rng.randint(1, 8)))
        if r < 0.95:
            return rng.choice(_SIMPLE_WORDS) + rng.choice(_ODD_CHARS) + rng.choice(_SIMPLE_WORDS)
        # arbitrary scalar values (no surrogates)
        out = []
        for _ in range(rng.randint(1, 6)):
            c = rng.randrange(0x110000)
            if 0xD800 <= c <= 0xDFFF:
                c = 0xFFFD
            out.append(chr(c))
        return "".join(out)

    def integer(self):
        rng = self.rng
        r = rng.random()
        if r < 0.5:
            x = rng.choice(INT_POOL)
        elif r < 0.7:
            x = rng.randint(-40, 300)
        else:
            x = rng.getrandbits(rng.randint(1, 64))
            if rng.random() < 0.5:
                x = -x
        if not self.u64 and x > I64_MAX:
            x = x - (1 << 63) if rng.random() < 0.5 else I64_MAX
        if x < I64_MIN:
            x = I64_MIN
        return x

    def real(self):
        rng = self.rng
        r = rng.random()
        if self.nonfinite and r < 0.08:
            return rng.choice((math.inf, -math.inf, math.nan))
        if r < 0.45:
            return rng.choice(FLOAT_POOL)
        if r < 0.70:
            while True:
                f = struct.unpack("<d", struct.pack("<Q", rng.getrandbits(64)))[0]
                if f == f and f not in (math.inf, -math.inf):
                    return f
        if r < 0.85:  # 17 significant digit decimals
            digits = "%d.%016d" % (rng.randint(1, 9), rng.getrandbits(64) % 10 ** 16)
            f = float("%s%se%d" % (rng.choice(("", "-")), digits, rng.randint(-320, 307)))
            return f
        if r < 0.92:  # subnormals
            f = struct.unpack("<d", struct.pack("<Q", rng.getrandbits(rng.randint(1, 52))))[0]
            return -f if rng.random() < 0.3 else f
        if r < 0.97:  # integer-valued
            return float(rng.choice(INT_POOL))
        return rng.randint(-10 ** 6, 10 ** 6) / rng.choice((10, 100, 1000, 8, 3))

    def f32(self):
        rng = self.rng
        r = rng.random()
        if r < 0.08:
            return F32(rng.choice((math.inf, -math.inf, math.nan)))
        if r < 0.5:
            return F32(rng.choice(F32_POOL))
        while True:
            f = struct.unpack("<f", struct.pack("<I", rng.getrandbits(32)))[0]
            if f == f and f not in (math.inf, -math.inf):
                return F32(f)

    def binary(self):
        rng = self.rng
        r = rng.random()
        if r < 0.2:
            return b""
        if r < 0.5:
            return rng.choice(STRING_POOL).encode("utf-8")  # valid UTF-8 on purpose
        if r < 0.6:
            return bytes(rng.getrandbits(8) for _ in range(rng.choice((255, 256, 300))))
        return bytes(rng.getrandbits(8) for _ in range(rng.randint(1, 12)))

    def scalar(self):
        rng = self.rng
        r = rng.random()
        if r < 0.34:
            return self.string()
        if r < 0.56:
            return self.integer()
        if r < 0.78:
            return self.real()
        if r < 0.86:
            return rng.random() < 0.5
        if r < 0.92 and self.nulls:
            return None
        if r < 0.96 and self.has_bytes:
            return self.binary()
        if self.has_f32:
            return self.f32()
        return self.string() if rng.random() < 0.5 else self.integer()

    def key_str(self):
        rng = self.rng
        return rng.choice(_SIMPLE_WORDS) if rng.random() < 0.4 else self.string()

    def key_other(self):
        rng = self.rng
        r = rng.random()
        if r < 0.4:
            return self.integer()
        if r < 0.55:
            return rng.random() < 0.5
        if r < 0.65:
            return None
        if r < 0.85:
            f = self.real()
            return 1.5 if f != f else f
        if self.has_bytes:
            return self.binary()
        return self.integer()

    # -- structure
    def value(self, depth, kind=None):
        rng = self.rng
        self.budget -= 1
        if kind is None:
            if depth <= 0 or self.budget <= 0 or rng.random() < 0.45:
                kind = "scalar"
            else:
                kind = "map" if rng.random() < 0.55 else "seq"
        if kind == "scalar":
            return self.scalar()
        n = 0 if rng.random() < 0.12 else rng.choice((1, 1, 2, 2, 3, 3, 4, 5, 8, 17))
        if self.budget <= 0:
            n = min(n, 1)
        child = depth - 1
        if kind == "seq":
            r = rng.random()
            if r < 0.15 and child > 0:   # array-of-tables shaped
                return [self.value(child, "map") for _ in range(n)]
            if r < 0.25:                 # homogeneous scalars
                f = rng.choice((self.string, self.integer, self.real))
                return [f() for _ in range(n)]
            return [self.value(child) for _ in range(n)]
        # map
        nonstr = self.nskeys and rng.random() < 0.2
        pairs, seen = [], set()
        for _ in range(n):
            for _attempt in range(8):
                k = self.key_other() if nonstr and rng.random() < 0.6 else self.key_str()
                ident = (type(k).__name__, _bits(k) if type(k) is float else k)
                if ident not in seen:
                    seen.add(ident)
                    pairs.append((k, self.value(child)))
                    break
        if any(type(k) is not str for k, _ in pairs):
            return Map(pairs)
        return dict(pairs)

    def spine(self, depth, kind):
        """A chain of containers nested exactly `depth` deep with a little
        decoration along the way."""
        rng = self.rng
        v = self.scalar()
        for level in range(depth):
            last = level == depth - 1
            k = kind if last and kind in ("map", "seq") else rng.choice(("map", "seq"))
            if k == "seq":
                items = [v]
                if rng.random() < 0.3:
                    items.insert(rng.randint(0, 1), self.scalar())
                v = items
            else:
                pairs = [(self.key_str(), v)]
                if rng.random() < 0.3:
                    k2 = self.key_str()
                    if k2 != pairs[0][0]:
                        pairs.insert(rng.randint(0, 1), (k2, self.scalar()))
                v = dict(pairs)
        return v


def gen_value(rng, depth=4, profile="common", root=None):
    """Random value biased to hard cases.  `depth` is the maximum nesting depth of
    containers (a scalar has depth 0; root="map"/"seq" implies at least 1).
    Profiles "common" and "toml" default to a dict root when root is None."""
    g = _Gen(rng, profile)
    if root not in (None, "map", "seq", "scalar"):
        raise ValueError("unknown root %r" % (root,))
    if root is None and g.rootdict:
        root = "map"
    if root in ("map", "seq"):
        depth = max(depth, 1)
    if root == "scalar":
        return g.scalar()
    g.budget = rng.choice((4, 8, 16, 30, 60))
    if depth >= 3 and root != "scalar" and rng.random() < 0.12:
        d = depth if rng.random() < 0.7 else rng.randint(1, depth)
        return g.spine(d, root)
    return g.value(depth, root)


# -------------------------------------------------------------------- spelling

def _dec_parts(f):
    """finite float -> (sign, digits, exp10) with value = sign 0.d1d2d3.. * 10**exp10,
    digits being the shortest round-trip digits (or 17 significant ones)."""
    r = repr(abs(f))
    if "e" in r:
        mant, e = r.split("e")
        e = int(e)
    else:
        mant, e = r, 0
    if "." in mant:
        ip, fp = mant.split(".")
    else:
        ip, fp = mant, ""
    digits = (ip + fp).lstrip("0")
    exp10 = e + len(ip)
    if not digits:
        return ("-" if math.copysign(1.0, f) < 0 else ""), "0", 1
    lead = len(ip + fp) - len((ip + fp).lstrip("0"))
    exp10 -= lead
    digits = digits.rstrip("0") or "0"
    return ("-" if f < 0 else ""), digits, exp10


def _float_text(f, rng, style):
    """A decimal spelling of finite f that denotes f exactly under correct
    rounding.  style: 'json' | 'yaml' | 'toml' (controls which shapes are legal)."""
    sign, digits, exp10 = _dec_parts(f)
    r = rng.random()
    if r < 0.35:
        t = repr(f)
        if style == "yaml":
            t = _yaml_fix_float(t)
        elif style == "toml" and rng.random() < 0.3 and not t.startswith("-"):
            t = "+" + t
        return t
    if r < 0.45 and digits != "0":
        # 17 significant digits
        t = "%.17g" % f
        if "e" not in t and "." not in t and "n" not in t:
            t += ".0"
        if style == "yaml":
            t = _yaml_fix_float(t)
        return t
    if rng.random() < 0.25:
        digits += "0" * rng.randint(1, 3)
    us = style == "toml" and rng.random() < 0.3
    positional = -8 <= exp10 <= 24 and rng.random() < 0.5
    if positional:
        if exp10 <= 0:
            ip, fp = "0", "0" * (-exp10) + digits
        elif exp10 >= len(digits):
            ip, fp = digits + "0" * (exp10 - len(digits)), "0"
        else:
            ip, fp = digits[:exp10], digits[exp10:]
        if us:
            ip, fp = _underscore(ip, rng), _underscore(fp, rng)
        t = ip + "." + fp
    else:
        # scientific with the point after k digits
        k = rng.randint(1, min(len(digits), 3))
        ip, fp = digits[:k], digits[k:]
        e = exp10 - k
        if ip != "0":
            ip = ip.lstrip("0") or "0"
        if ip == "0" and len(digits[:k]) > 1:
            ip = "0"
        if us:
            ip, fp = _underscore(ip, rng), _underscore(fp, rng)
        if style == "yaml":
            fp = fp or ("0" if rng.random() < 0.7 else "")
            esign = "+" if e >= 0 else "-"
            t = ip + "." + fp
        else:
            if not fp and rng.random() < 0.5:
                t = ip
            else:
                t = ip + "." + (fp or "0")
            esign = ("+" if rng.random() < 0.5 else "") if e >= 0 else "-"
        ez = "0" * (rng.randint(1, 2) if rng.random() < 0.2 else 0)
        t += rng.choice("eE") + esign + ez + str(abs(e))
    if style != "json" and not sign and rng.random() < 0.15:
        sign = "+"
    return sign + t


def _yaml_fix_float(t):
    """Make repr()-style text a float under YAML 1.1 and 1.2: needs '.', and a signed exponent."""
    if "e" in t:
        m, e = t.split("e")
        if "." not in m:
            m += ".0"
        if e[0] not in "+-":
            e = "+" + e
        return m + "e" + e
    return t


def _underscore(digits, rng):
    if len(digits) < 2:
        return digits
    out = [digits[0]]
    for c in digits[1:]:
        if rng.random() < 0.3:
            out.append("_")
        out.append(c)
    return "".join(out)


def _check_repr(v, fmt):
    if not representable(v, fmt):
        raise ValueError("value is not representable in %s" % fmt)


class _NoRng:
    """Deterministic stand-in for random.Random used by spell_canonical: always
    takes the first / plainest alternative."""

    def random(self):
        return 0.999999

    def randint(self, a, b):
        return a

    def randrange(self, a, b=None):
        return 0 if b is None else a

    def choice(self, seq):
        return seq[0]

    def getrandbits(self, n):
        return 0


# ---- JSON

_JSON_SHORT = {'"': '\\"', "\\": "\\\\", "\b": "\\b", "\f": "\\f", "\n": "\\n", "\r": "\\r", "\t": "\\t"}


def _json_u(cp, rng):
    def one(u):
        h = "%04x" % u
        return "\\u" + (h.upper() if rng.random() < 0.5 else h)
    if cp >= 0x10000:
        cp -= 0x10000
        return one(0xD800 + (cp >> 10)) + one(0xDC00 + (cp & 0x3FF))
    return one(cp)


def _json_str(s, rng, canonical):
    out = ['"']
    p_esc = 0.0 if canonical else rng.choice((0.0, 0.0, 0.1, 0.5, 1.0))
    for ch in s:
        cp = ord(ch)
        if ch in _JSON_SHORT:
            out.append(_JSON_SHORT[ch] if canonical or rng.random() < 0.7 else _json_u(cp, rng))
        elif cp < 0x20:
            out.append(_json_u(cp, rng))
        elif not canonical and ch == "/" and rng.random() < 0.4:
            out.append("\\/")
        elif p_esc and rng.random() < p_esc:
            out.append(_json_u(cp, rng))
        else:
            out.append(ch)
    out.append('"')
    return "".join(out)


def _json_ws(rng):
    r = rng.random()
    if r < 0.7:
        return ""
    if r < 0.85:
        return " "
    return "".join(rng.choice(" \n\t\r") for _ in range(rng.randint(1, 3)))


def _spell_json(v, rng, canonical=False):
    ws = (lambda: "") if canonical else (lambda: _json_ws(rng))
    out = []

    def go(v):
        t = type(v)
        if t is F32:
            v, t = v.value, float
        if v is None:
            out.append("null")
        elif t is bool:
            out.append("true" if v else "false")
        elif t is int:
            out.append(str(v))
        elif t is float:
            out.append(repr(v) if canonical else _float_text(v, rng, "json"))
        elif t is str:
            out.append(_json_str(v, rng, canonical))
        elif t is list:
            out.append("[" + ws())
            for i, x in enumerate(v):
                if i:
                    out.append(ws() + "," + ws())
                go(x)
            out.append(ws() + "]")
        elif t is dict:
            out.append("{" + ws())
            for i, (k, x) in enumerate(v.items()):
                if i:
                    out.append(ws() + "," + ws())
                out.append(_json_str(k, rng, canonical) + ws() + ":" + ws())
                go(x)
            out.append(ws() + "}")
        else:
            raise ValueError("not JSON: %r" % (t,))

    out.append(ws())
    go(v)
    out.append(ws())
    if canonical or rng.random() < 0.7:
        out.append("\n")
    return "".join(out).encode("utf-8")


# ---- MessagePack

def _mp_int(n, rng, minimal):
    opts = []
    if n >= 0:
        if n < 128:
            opts.append(bytes([n]))
        for lim, mark, fmt in ((1 << 8, 0xCC, ">B"), (1 << 16, 0xCD, ">H"), (1 << 32, 0xCE, ">I"),
                               (1 << 64, 0xCF, ">Q")):
            if n < lim:
                opts.append(bytes([mark]) + struct.pack(fmt, n))
        if not minimal:
            for lim, mark, fmt in ((1 << 7, 0xD0, ">b"), (1 << 15, 0xD1, ">h"), (1 << 31, 0xD2, ">i"),
                                   (1 << 63, 0xD3, ">q")):
                if n < lim:
                    opts.append(bytes([mark]) + struct.pack(fmt, n))
    else:
        if n >= -32:
            opts.append(struct.pack(">b", n))
        for lim, mark, fmt in ((1 << 7, 0xD0, ">b"), (1 << 15, 0xD1, ">h"), (1 << 31, 0xD2, ">i"),
                               (1 << 63, 0xD3, ">q")):
            if n >= -lim:
                opts.append(bytes([mark]) + struct.pack(fmt, n))
    if not opts:
        raise ValueError("integer out of MessagePack range: %d" % n)
    if minimal or rng.random() < 0.5:
        return opts[0]
    return rng.choice(opts)


def _mp_len(n, rng, minimal, fix, wide):
    """Header for a length: fix = (base, limit) or None; wide = [(marker, fmt, limit)...]."""
    opts = []
    if fix and n < fix[1]:
        opts.append(bytes([fix[0] | n]))
    for mark, fmt, lim in wide:
        if n < lim:
            opts.append(bytes([mark]) + struct.pack(fmt, n))
    if minimal or rng.random() < 0.5:
        return opts[0]
    return rng.choice(opts)


_MP_STR = [(0xD9, ">B", 1 << 8), (0xDA, ">H", 1 << 16), (0xDB, ">I", 1 << 32)]
_MP_BIN = [(0xC4, ">B", 1 << 8), (0xC5, ">H", 1 << 16), (0xC6, ">I", 1 << 32)]
_MP_ARR = [(0xDC, ">H", 1 << 16), (0xDD, ">I", 1 << 32)]
_MP_MAP = [(0xDE, ">H", 1 << 16), (0xDF, ">I", 1 << 32)]


def _spell_msgpack(v, rng, canonical=False):
    out = []

    def go(v):
        t = type(v)
        if v is None:
            out.append(b"\xc0")
        elif t is bool:
            out.append(b"\xc3" if v else b"\xc2")
        elif t is int:
            out.append(_mp_int(v, rng, canonical))
        elif t is float:
            out.append(b"\xcb" + struct.pack(">d", v))
        elif t is F32:
            if v.value != v.value:
                out.append(b"\xca\x7f\xc0\x00\x00")
            else:
                out.append(b"\xca" + struct.pack(">f", v.value))
        elif t is str:
            b = v.encode("utf-8")
            out.append(_mp_len(len(b), rng, canonical, (0xA0, 32), _MP_STR) + b)
        elif t is bytes:
            out.append(_mp_len(len(v), rng, canonical, None, _MP_BIN) + v)
        elif t is list:
            out.append(_mp_len(len(v), rng, canonical, (0x90, 16), _MP_ARR))
            for x in v:
                go(x)
        elif t is dict or t is Map:
            pairs = list(v.items()) if t is dict else v.pairs
            out.append(_mp_len(len(pairs), rng, canonical, (0x80, 16), _MP_MAP))
            for k, x in pairs:
                go(k)
                go(x)
        else:
            raise ValueError("not MessagePack: %r" % (t,))

    go(v)
    return b"".join(out)


# ---- YAML

_YL = "A-Za-z_À-ɏ぀-ヿ一-鿿"
_YAML_PLAIN_RE = re.compile("^[%s](?:[%s0-9 ./()+\\-]*[%s0-9./()+\\-])?$" % (_YL, _YL, _YL))
_YAML_PLAIN_BAD = frozenset(("y", "n", "yes", "no", "true", "false", "on", "off", "null", "nan",
                             "inf", "infinity", "nil", "none"))
# characters that may appear raw inside a single-line quoted scalar
_YAML_RAW_RE = re.compile("^[\\t\\x20-\\x7e\\xa0-\\u2027\\u202a-\\ud7ff\\ue000-\\ufefe\\uff00-\\ufffd"
                          "\\U00010000-\\U0010ffff]*$")
_YAML_NAMED = {0: "\\0", 7: "\\a", 8: "\\b", 9: "\\t", 10: "\\n", 11: "\\v", 12: "\\f", 13: "\\r",
               27: "\\e", 0x22: "\\\"", 0x5C: "\\\\", 0x85: "\\N", 0xA0: "\\_", 0x2028: "\\L",
               0x2029: "\\P"}
_YAML_COMMENTS = ["# comment", "#", "# key: value", "# - item", "#comment", "# [", "# 'q", "# \"q",
                  "# --- not a marker", "# |", "#\t tab"]
_BRK = "\x01"  # break opportunity inside flow text (never occurs in rendered scalars)


def _yaml_plain_ok(s):
    return bool(_YAML_PLAIN_RE.fullmatch(s)) and s.lower() not in _YAML_PLAIN_BAD


def _yaml_num_escape(cp, rng):
    if cp < 0x100 and rng.random() < 0.6:
        return "\\x%02x" % cp
    if cp < 0x10000 and rng.random() < 0.8:
        return ("\\u%04X" if rng.random() < 0.5 else "\\u%04x") % cp
    return "\\U%08x" % cp


def _yaml_dq(s, rng, canonical=False):
    out = ['"']
    p = 0.0 if canonical else rng.choice((0.0, 0.0, 0.0, 0.15, 1.0))
    for ch in s:
        cp = ord(ch)
        if ch == '"' or ch == "\\":
            out.append(_YAML_NAMED[cp])
        elif ch == "\t":
            out.append("\t" if (not canonical and rng.random() < 0.3) else "\\t")
        elif _YAML_RAW_RE.fullmatch(ch):
            if cp == 0xA0 and not canonical and rng.random() < 0.3:
                out.append("\\_")
            elif ch == "/" and not canonical and rng.random() < 0.1:
                out.append("\\/")
            elif ch == " " and not canonical and rng.random() < 0.05:
                out.append("\\ ")
            elif p and rng.random() < p:
                out.append(_yaml_num_escape(cp, rng))
            else:
                out.append(ch)
        elif cp in _YAML_NAMED and (canonical or rng.random() < 0.7):
            out.append(_YAML_NAMED[cp])
        elif cp == 0xFEFF and not canonical and rng.random() < 0.5:
            # a literal byte order mark is allowed inside a double-quoted scalar (nb-json), not at its very start
            out.append(ch if len(out) > 1 else _yaml_num_escape(cp, rng))
        else:
            out.append(_yaml_num_escape(cp, rng))
    out.append('"')
    return "".join(out)


def _yaml_literal_ok(s):
    """Can s be written exactly as a literal block scalar with auto-detected indentation?"""
    if not s or not s.strip("\n"):
        return False
    body = s.replace("\n", "")
    if "\t" in body or not _YAML_RAW_RE.fullmatch(body):
        return False
    for line in s.split("\n"):
        if line.startswith(" ") or line.endswith(" "):
            return False
    return True


class _YamlSpeller:
    def __init__(self, rng, canonical=False):
        self.rng = rng
        self.canonical = canonical
        self.lines = []  # (text, commentable, may_insert_after)

    # -- scalars
    def str_text(self, s):
        rng = self.rng
        plain = _yaml_plain_ok(s)
        if self.canonical:
            return s if plain else _yaml_dq(s, rng, True)
        r = rng.random()
        if plain and r < 0.6:
            return s
        if _YAML_RAW_RE.fullmatch(s) and r < 0.8:
            return "'" + s.replace("'", "''") + "'"
        return _yaml_dq(s, rng)

    def scalar_text(self, v):
        rng = self.rng
        t = type(v)
        if t is F32:
            v, t = v.value, float
        if v is None:
            return "null" if self.canonical or rng.random() < 0.5 else "~"
        if t is bool:
            if self.canonical or rng.random() < 0.8:
                return "true" if v else "false"
            return rng.choice(("True", "TRUE") if v else ("False", "FALSE"))
        if t is int:
            if self.canonical:
                return str(v)
            r = rng.random()
            if v >= 0 and r < 0.15:
                return "+" + str(v)
            if v >= 0 and r < 0.3:
                h = "%x" % v
                return "0x" + (h.upper() if rng.random() < 0.5 else h)
            if v == 0 and r < 0.4:
                return "-0"
            return str(v)
        if t is float:
            if v != v:
                return ".nan" if self.canonical else rng.choice((".nan", ".nan", ".NaN", ".NAN"))
            if v in (math.inf, -math.inf):
                base = ".inf" if self.canonical else rng.choice((".inf", ".inf", ".Inf", ".INF"))
                if v < 0:
                    return "-" + base
                return base if self.canonical or rng.random() < 0.8 else "+" + base
            if self.canonical:
                return _yaml_fix_float(repr(v))
            return _float_text(v, rng, "yaml")
        if t is str:
            return self.str_text(v)
        raise ValueError("not a YAML scalar: %r" % (t,))

    # -- flow
    def flow(self, v):
        t = type(v)
        if t is list:
            if not v:
                return "[]"
            sp = "" if self.canonical or self.rng.random() < 0.7 else " "
            return "[" + sp + _BRK + ("," + _BRK + " ").join(self.flow(x) for x in v) + _BRK + sp + "]"
        if t is dict or t is Map:
            pairs = list(v.items()) if t is dict else v.pairs
            if not pairs:
                return "{}"
            sp = "" if self.canonical or self.rng.random() < 0.7 else " "
            items = []
            for k, x in pairs:
                kt = self.flow(k).replace(_BRK, "")
                vt = self.flow(x)
                if len(kt) > 900 or type(k) in (list, dict, Map) or \
                        (not self.canonical and self.rng.random() < 0.05):
                    items.append("? " + kt + " : " + vt)
                else:
                    items.append(kt + ": " + vt)
            return "{" + sp + _BRK + ("," + _BRK + " ").join(items) + _BRK + sp + "}"
        return self.scalar_text(v)

    def put_flow(self, prefix, text, cont):
        """Append flow text, possibly broken over lines continued at column `cont`."""
        rng = self.rng
        if _BRK in text and not self.canonical and rng.random() < 0.25:
            p = rng.choice((0.2, 0.5, 1.0))
            parts = text.split(_BRK)
            buf = [parts[0]]
            for part in parts[1:]:
                if rng.random() < p:
                    buf.append("\n" + " " * cont + part.lstrip(" "))
                else:
                    buf.append(part)
            chunks = "".join(buf).split("\n")
            chunks = [c.rstrip(" ") if i < len(chunks) - 1 else c for i, c in enumerate(chunks)]
            chunks = [c for i, c in enumerate(chunks) if c.strip(" ") or i == 0]
            self.lines.append((self.join(prefix, chunks[0]), False, False))
            for c in chunks[1:-1]:
                self.lines.append((c, False, False))
            if len(chunks) > 1:
                self.lines.append((chunks[-1], True, True))
            else:
                self.lines[-1] = (self.lines[-1][0], True, True)
        else:
            self.lines.append((self.join(prefix, text.replace(_BRK, "")), True, True))

    @staticmethod
    def join(prefix, text):
        if not prefix.strip(" "):
            return prefix + text
        return prefix + " " + text

    # -- block
    def step(self):
        return 2 if self.canonical else self.rng.choice((2, 2, 2, 3, 4, 1))

    def emit_value(self, v, n, prefix, kind):
        """Emit v attached to `prefix` (an already indented 'key:', '-', '---', ':' or
        blank text).  n is the indentation of the enclosing block collection (-1 at
        the root).  kind: 'root' | 'mapval' | 'seqitem' | 'expval'."""
        rng = self.rng
        t = type(v)
        base = max(n, 0)
        is_coll = t in (list, dict, Map)
        size = len(v.pairs) if t is Map else (len(v) if is_coll else 0)
        if is_coll and size and (self.canonical or rng.random() < 0.7):
            bare = not prefix.strip(" ")
            if kind == "root":
                m = len(prefix) if bare else (0 if self.canonical or rng.random() < 0.8 else rng.randint(1, 3))
                if not bare:
                    self.lines.append((prefix, True, True))
                self.block(v, m)
            elif kind == "seqitem" and (self.canonical or rng.random() < 0.7):
                s = 1 if self.canonical or rng.random() < 0.8 else rng.randint(2, 3)
                c = n + 1 + s
                at = len(self.lines)
                self.block(v, c)
                first = self.lines[at]
                self.lines[at] = (prefix + " " * s + first[0][c:],) + first[1:]
            else:
                self.lines.append((prefix, True, True))
                if kind == "mapval" and t is list and not self.canonical and rng.random() < 0.4:
                    m = n
                else:
                    m = base + (self.step() if n >= 0 else 0)
                self.block(v, m)
            return
        if t is str and not self.canonical and _yaml_literal_ok(v) and \
                rng.random() < (0.6 if "\n" in v else 0.08):
            body = v.rstrip("\n")
            trail = len(v) - len(body)
            chomp = "-" if trail == 0 else ("" if trail == 1 else "+")
            ind = base + rng.randint(1, 4) if n >= 0 else rng.randint(1, 4)
            self.lines.append((self.join(prefix, "|" + chomp), False, False))
            for line in body.split("\n"):
                self.lines.append(((" " * ind + line) if line else "", False, False))
            for _ in range(trail - 1):
                self.lines.append(("", False, False))
            return
        if is_coll:
            cont = base + 1 + rng.randint(0, 3) if n >= 0 else rng.randint(0, 3)
            self.put_flow(prefix, self.flow(v), cont)
            return
        if v is None and kind == "mapval" and not self.canonical and rng.random() < 0.15:
            self.lines.append((prefix, True, True))
            return
        self.lines.append((self.join(prefix, self.scalar_text(v)), True, True))

    def block(self, v, m):
        rng = self.rng
        pad = " " * m
        if type(v) is list:
            for x in v:
                self.emit_value(x, m, pad + "-", "seqitem")
            return
        pairs = list(v.items()) if type(v) is dict else v.pairs
        for k, x in pairs:
            kt = self.flow(k).replace(_BRK, "")
            if len(kt) > 900 or type(k) in (list, dict, Map) or \
                    (not self.canonical and rng.random() < 0.06):
                self.lines.append((pad + "? " + kt, True, True))
                self.emit_value(x, m, pad + ":", "expval")
            else:
                self.emit_value(x, m, pad + kt + ":", "mapval")

    def document(self, v):
        rng = self.rng
        if self.canonical:
            self.emit_value(v, -1, "", "root")
            return ("\n".join(l[0] for l in self.lines) + "\n").encode("utf-8")
        r = rng.random()
        if r < 0.4:
            prefix = "---"
        elif r < 0.9:
            prefix = ""
        else:
            prefix = " " * rng.randint(1, 3)
        self.emit_value(v, -1, prefix, "root")
        out = []
        p_c = rng.choice((0.0, 0.0, 0.1, 0.4))
        prev_ok = True  # may insert before the first line
        for text, commentable, after_ok in self.lines:
            if prev_ok and p_c and rng.random() < p_c:
                for _ in range(rng.randint(1, 2)):
                    if rng.random() < 0.5:
                        out.append(" " * rng.choice((0, 0, 2, 5)) if rng.random() < 0.3 else "")
                    else:
                        out.append(" " * rng.randint(0, 6) + rng.choice(_YAML_COMMENTS))
            if commentable and p_c and rng.random() < p_c:
                text += " " * rng.randint(1, 3) + rng.choice(_YAML_COMMENTS)
            out.append(text)
            prev_ok = after_ok
        data = "\n".join(out) + "\n"
        if prev_ok and rng.random() < 0.1:
            data = data[:-1]
        elif prev_ok and p_c and rng.random() < p_c:
            data += rng.choice(_YAML_COMMENTS) + "\n"
        return data.encode("utf-8")


def _spell_yaml(v, rng, canonical=False):
    return _YamlSpeller(rng, canonical).document(v)


# ---- TOML

_TOML_BARE_RE = re.compile(r"^[A-Za-z0-9_-]+$")
_TOML_SHORT = {"\b": "\\b", "\t": "\\t", "\n": "\\n", "\f": "\\f", "\r": "\\r", '"': '\\"', "\\": "\\\\"}
_TOML_COMMENTS = ["# comment", "#", "# key = value", "# [table]", "#comment", "# \"", "# '''", "#\ttab",
                  "# café \U0001f600"]


def _toml_lit_ok(s, multiline=False):
    for ch in s:
        c = ord(ch)
        if ch == "\t" or (multiline and ch == "\n"):
            continue
        if c < 0x20 or c == 0x7F:
            return False
    if multiline:
        return "''" not in s and not s.endswith("'")
    return "'" not in s


def _toml_uesc(cp, rng):
    if cp < 0x10000 and rng.random() < 0.8:
        return ("\\u%04X" if rng.random() < 0.5 else "\\u%04x") % cp
    return ("\\U%08X" if rng.random() < 0.5 else "\\U%08x") % cp


class _TomlSpeller:
    def __init__(self, rng, canonical=False):
        self.rng = rng
        self.canonical = canonical
        self.out = []  # statements (header or key/value, possibly multi-line)

    # -- strings and keys
    def basic(self, s, multiline=False):
        rng = self.rng
        canonical = self.canonical
        p = 0.0 if canonical else rng.choice((0.0, 0.0, 0.0, 0.15, 1.0))
        out = []
        prev_raw_quote = False
        n = len(s)
        for i, ch in enumerate(s):
            cp = ord(ch)
            raw_quote = False
            if multiline and ch == "\n" and (canonical or rng.random() < 0.8):
                out.append("\n")
            elif multiline and ch == '"' and not prev_raw_quote and i < n - 1 and rng.random() < 0.6:
                out.append('"')
                raw_quote = True
            elif ch in _TOML_SHORT:
                if ch == "\t" and not canonical and rng.random() < 0.4:
                    out.append("\t")
                elif canonical or rng.random() < 0.8:
                    out.append(_TOML_SHORT[ch])
                else:
                    out.append(_toml_uesc(cp, rng))
            elif cp < 0x20 or cp == 0x7F:
                out.append(_toml_uesc(cp, rng))
            elif p and rng.random() < p:
                out.append(_toml_uesc(cp, rng))
            else:
                if multiline and not canonical and ch not in " \t" and i > 0 and rng.random() < 0.04:
                    out.append("\\" + rng.choice(("\n", " \n", "\n  ", "\n\n\t ")))
                out.append(ch)
            prev_raw_quote = raw_quote
        return "".join(out)

    def string(self, s, allow_multiline=True):
        rng = self.rng
        if self.canonical:
            return '"' + self.basic(s) + '"'
        r = rng.random()
        nl = "\n" in s
        if allow_multiline and r < (0.5 if nl else 0.1):
            lead = "\n" if s.startswith("\n") or rng.random() < 0.6 else ""
            if _toml_lit_ok(s, True) and rng.random() < 0.5:
                return "'''" + lead + s + "'''"
            return '"""' + lead + self.basic(s, True) + '"""'
        if _toml_lit_ok(s) and r < 0.75:
            return "'" + s + "'"
        return '"' + self.basic(s) + '"'

    def key(self, k):
        if _TOML_BARE_RE.fullmatch(k) and (self.canonical or self.rng.random() < 0.75):
            return k
        return self.string(k, allow_multiline=False)

    def path(self, parts):
        if self.canonical or self.rng.random() < 0.85:
            return ".".join(parts)
        return self.rng.choice((" . ", ". ", " .", "\t.")).join(parts)

    # -- values
    def integer(self, v):
        rng = self.rng
        if self.canonical:
            return str(v)
        r = rng.random()
        if v >= 0 and r < 0.3:
            digits, prefix = rng.choice(((format(v, "x"), "0x"), (format(v, "X"), "0x"),
                                         (format(v, "o"), "0o"), (format(v, "b"), "0b")))
            if rng.random() < 0.3:
                digits = "0" * rng.randint(1, 3) + digits
            if rng.random() < 0.4:
                digits = _underscore(digits, rng)
            return prefix + digits
        sign, digits = ("-", str(-v)) if v < 0 else ("", str(v))
        if v == 0 and r < 0.5:
            sign = rng.choice("+-")
        elif v > 0 and r < 0.5:
            sign = "+"
        if rng.random() < 0.3:
            digits = _underscore(digits, rng)
        return sign + digits

    def real(self, v):
        rng = self.rng
        if v != v:
            return "nan" if self.canonical else rng.choice(("nan", "nan", "+nan", "-nan"))
        if v in (math.inf, -math.inf):
            if v < 0:
                return "-inf"
            return "inf" if self.canonical or rng.random() < 0.7 else "+inf"
        if self.canonical:
            return repr(v)
        return _float_text(v, rng, "toml")

    def inline(self, v, depth=0):
        rng = self.rng
        t = type(v)
        if t is F32:
            v, t = v.value, float
        if t is bool:
            return "true" if v else "false"
        if t is int:
            return self.integer(v)
        if t is float:
            return self.real(v)
        if t is str:
            return self.string(v)
        if t is list:
            if not v:
                return "[]" if self.canonical or rng.random() < 0.7 else rng.choice(("[ ]", "[\n]", "[ # c\n]"))
            items = [self.inline(x, depth + 1) for x in v]
            if self.canonical or rng.random() < 0.7:
                sep = ", " if self.canonical or rng.random() < 0.7 else rng.choice((",", " , ", ",  "))
                tail = "" if self.canonical or rng.random() < 0.8 else ","
                pad = "" if self.canonical or rng.random() < 0.7 else " "
                return "[" + pad + sep.join(items) + tail + pad + "]"
            ind = " " * rng.randint(0, 4)
            buf = ["["]
            if rng.random() < 0.2:
                buf.append(" " + rng.choice(_TOML_COMMENTS))
            buf.append("\n")
            for i, item in enumerate(items):
                last = i == len(items) - 1
                buf.append(ind + item + ("," if not last or rng.random() < 0.5 else ""))
                if rng.random() < 0.15:
                    buf.append(" " + rng.choice(_TOML_COMMENTS))
                buf.append("\n")
            buf.append(ind[:rng.randint(0, len(ind))] + "]")
            return "".join(buf)
        if t is dict:
            if not v:
                return "{}" if self.canonical or rng.random() < 0.7 else "{ }"
            items = []
            for k, x in v.items():
                self.inline_entries([self.key(k)], x, items, depth + 1)
            pad = "" if not self.canonical and rng.random() < 0.3 else " "
            return "{" + pad + ", ".join(items) + pad + "}"
        raise ValueError("not TOML: %r" % (t,))

    def eq(self):
        if self.canonical or self.rng.random() < 0.7:
            return " = "
        return self.rng.choice(("=", " =", "= ", "  =  ", "\t=\t"))

    def inline_entries(self, keys, v, items, depth=0):
        """'key = value' texts for one entry; a non-empty dict may be spread over dotted keys."""
        if type(v) is dict and v and not self.canonical and self.rng.random() < 0.4:
            for k, x in v.items():
                self.inline_entries(keys + [self.key(k)], x, items, depth)
        else:
            items.append(self.path(keys) + self.eq() + self.inline(v, depth))

    # -- tables
    def table(self, path, d, kind):
        """kind: 'root' | 'std' ([path] header) | 'elem' ([[path]] element, header already out)."""
        rng = self.rng
        canonical = self.canonical
        entries = list(d.items())
        n = len(entries)
        is_tab = [_is_table_value(x) for _, x in entries]
        non = [i for i in range(n) if not is_tab[i]]
        last_non = non[-1] if non else -1
        first_non = non[0] if non else n
        # entries[sp:] (all tables) get their own headers after the body
        sp = last_non + 1
        if not canonical:
            while sp < n and rng.random() < 0.25:
                sp += 1
        # entries[:pre] (all tables) get their headers *before* [path] (super-table defined later)
        pre = 0
        if kind == "std" and non and first_non > 0 and not canonical and rng.random() < 0.6:
            pre = rng.randint(1, first_non)
        for k, x in entries[:pre]:
            self.section(path + [self.key(k)], x)
        body = entries[pre:sp]
        if kind == "std":
            has_children = pre > 0 or sp < n
            if body or not has_children or (not canonical and rng.random() < 0.5):
                self.out.append("[" + self.hpad() + self.path(path) + self.hpad() + "]")
        for k, x in body:
            items = []
            self.inline_entries([self.key(k)], x, items)
            self.out.extend(items)
        for k, x in entries[sp:]:
            self.section(path + [self.key(k)], x)

    def hpad(self):
        return "" if self.canonical or self.rng.random() < 0.85 else " "

    def section(self, path, x):
        if type(x) is dict:
            self.table(path, x, "std")
        else:
            for elem in x:
                self.out.append("[[" + self.hpad() + self.path(path) + self.hpad() + "]]")
                self.table(path, elem, "elem")

    def document(self, v):
        rng = self.rng
        self.table([], v, "root")
        if not self.out:
            # never emit zero bytes: read_documents(b"", "toml") means "no document"
            return b"\n" if self.canonical else rng.choice((b"\n", b"# empty\n", b" \n", b"#"))
        if self.canonical:
            return ("".join(s + "\n" for s in self.out)).encode("utf-8")
        p_c = rng.choice((0.0, 0.0, 0.1, 0.4))
        p_i = rng.choice((0.0, 0.0, 0.0, 0.3))
        nl = "\r\n" if rng.random() < 0.05 else "\n"
        buf = []
        for st in self.out:
            if p_c and rng.random() < p_c:
                for _ in range(rng.randint(1, 2)):
                    buf.append((rng.choice(("", "", "  ", "\t")) if rng.random() < 0.5
                                else " " * rng.randint(0, 3) + rng.choice(_TOML_COMMENTS)) + nl)
            if p_i and rng.random() < p_i:
                st = rng.choice((" ", "  ", "    ", "\t")) + st
            if p_c and rng.random() < p_c:
                st += " " * rng.randint(0, 2) + rng.choice(_TOML_COMMENTS)
            elif rng.random() < 0.03:
                st += " "
            buf.append(st + nl)
        data = "".join(buf)
        if data and rng.random() < 0.1:
            data = data[:-len(nl)]
        return data.encode("utf-8")


def _spell_toml(v, rng, canonical=False):
    return _TomlSpeller(rng, canonical).document(v)


# ---- front door

_SPELLERS = {"json": _spell_json, "yaml": _spell_yaml, "toml": _spell_toml, "msgpack": _spell_msgpack}


def spell(v, fmt, rng):
    """A randomly varied spelling of v in fmt that every conforming reader must read back as v."""
    _check_repr(v, fmt)
    return _SPELLERS[fmt](v, rng, False)


def spell_canonical(v, fmt):
    """One plain spelling of v in fmt (no variation)."""
    _check_repr(v, fmt)
    return _SPELLERS[fmt](v, _NoRng(), True)


# --------------------------------------------------------------------- readers

def _pairs_to_map(pairs):
    seen = set()
    for k, _ in pairs:
        if type(k) is not str or k in seen:
            return Map(pairs)
        seen.add(k)
    return dict(pairs)


def _json_const(name):
    raise ValueError("non-standard JSON constant %s" % name)


def _json_float(text):
    f = float(text)
    if f in (math.inf, -math.inf):
        raise ValueError("JSON number out of double range: %s" % text[:40])
    return f


_JSON_DECODER = json.JSONDecoder(object_pairs_hook=_pairs_to_map, parse_float=_json_float,
                                 parse_int=int, parse_constant=_json_const, strict=True)
_JSON_WS = " \t\n\r"


def _read_json(data):
    """Stream of JSON values separated by optional whitespace.  Two adjacent values
    need whitespace between them unless one side is a bracket/brace/quote."""
    text = data.decode("utf-8")
    docs = []
    i, n = 0, len(text)
    prev_end = None
    while True:
        while i < n and text[i] in _JSON_WS:
            i += 1
        if i >= n:
            return docs
        if prev_end == i and text[i - 1] not in ']}"' and text[i] not in '[{"':
            raise ValueError("adjacent JSON scalars without separator at %d" % i)
        try:
            v, i = _JSON_DECODER.raw_decode(text, i)
        except RecursionError:
            raise ValueError("JSON nesting too deep for this reader")
        prev_end = i
        docs.append(v)


_MP_FIXED = {0xCC: ">B", 0xCD: ">H", 0xCE: ">I", 0xCF: ">Q", 0xD0: ">b", 0xD1: ">h", 0xD2: ">i",
             0xD3: ">q", 0xCB: ">d"}
_MP_LEN = {0xD9: ">B", 0xDA: ">H", 0xDB: ">I", 0xC4: ">B", 0xC5: ">H", 0xC6: ">I",
           0xDC: ">H", 0xDD: ">I", 0xDE: ">H", 0xDF: ">I"}


def _read_msgpack(data):
    """Own decoder, iterative.  str with invalid UTF-8 -> bytes; ext -> ValueError;
    float32 -> F32; map -> dict if all keys are unique str, else Map."""
    docs = []
    n = len(data)
    pos = 0
    # stack frames: [kind, remaining, items]  kind 'a' array, 'm' map (items alternate k, v)
    stack = []

    def need(k):
        if pos + k > n:
            raise ValueError("truncated MessagePack at %d" % pos)

    while pos < n or stack:
        need(1)
        b = data[pos]
        pos += 1
        opened = None
        if b <= 0x7F:
            v = b
        elif b >= 0xE0:
            v = b - 0x100
        elif 0xA0 <= b <= 0xBF or b in (0xD9, 0xDA, 0xDB, 0xC4, 0xC5, 0xC6):
            if 0xA0 <= b <= 0xBF:
                ln = b & 0x1F
            else:
                f = _MP_LEN[b]
                k = struct.calcsize(f)
                need(k)
                ln = struct.unpack_from(f, data, pos)[0]
                pos += k
            need(ln)
            raw = bytes(data[pos:pos + ln])
            pos += ln
            if b in (0xC4, 0xC5, 0xC6):
                v = raw
            else:
                try:
                    v = raw.decode("utf-8")
                except UnicodeDecodeError:
                    v = raw
        elif 0x90 <= b <= 0x9F or b in (0xDC, 0xDD) or 0x80 <= b <= 0x8F or b in (0xDE, 0xDF):
            if b in _MP_LEN:
                f = _MP_LEN[b]
                k = struct.calcsize(f)
                need(k)
                ln = struct.unpack_from(f, data, pos)[0]
                pos += k
            else:
                ln = b & 0x0F
            is_map = 0x80 <= b <= 0x8F or b in (0xDE, 0xDF)
            if ln * (2 if is_map else 1) > n - pos:
                raise ValueError("truncated MessagePack collection at %d" % pos)
            opened = ["m" if is_map else "a", ln * 2 if is_map else ln, []]
        elif b == 0xC0:
            v = None
        elif b == 0xC2:
            v = False
        elif b == 0xC3:
            v = True
        elif b == 0xCA:
            need(4)
            v = F32(struct.unpack_from(">f", data, pos)[0])
            pos += 4
        elif b in _MP_FIXED:
            f = _MP_FIXED[b]
            k = struct.calcsize(f)
            need(k)
            v = struct.unpack_from(f, data, pos)[0]
            pos += k
        elif b == 0xC1:
            raise ValueError("reserved MessagePack marker 0xc1 at %d" % (pos - 1))
        else:
            raise ValueError("MessagePack ext type at %d" % (pos - 1))
        if opened is not None:
            stack.append(opened)
        else:
            if not stack:
                docs.append(v)
                continue
            stack[-1][2].append(v)
            stack[-1][1] -= 1
        # close finished collections
        while stack and stack[-1][1] == 0:
            kind, _, items = stack.pop()
            if kind == "a":
                v = items
            else:
                v = _pairs_to_map(list(zip(items[0::2], items[1::2])))
            if not stack:
                docs.append(v)
                break
            stack[-1][2].append(v)
            stack[-1][1] -= 1
    return docs


def _read_toml(data):
    if not data:
        return []
    try:
        return [tomllib.loads(data.decode("utf-8"))]
    except RecursionError:
        raise ValueError("TOML nesting too deep for this reader")


# ---- YAML (PyYAML node graph + YAML 1.2 core schema resolution)

_Y_PLAIN = "?plain"
_Y_PREFIX = "tag:yaml.org,2002:"
_Y_NULL = re.compile(r"null|Null|NULL|~|")
_Y_BOOL = re.compile(r"true|True|TRUE|false|False|FALSE")
_Y_INT10 = re.compile(r"[-+]?[0-9]+")
_Y_INT8 = re.compile(r"0o[0-7]+")
_Y_INT16 = re.compile(r"0x[0-9a-fA-F]+")
_Y_FLOAT = re.compile(r"[-+]?(\.[0-9]+|[0-9]+(\.[0-9]*)?)([eE][-+]?[0-9]+)?")
_Y_INF = re.compile(r"[-+]?\.(inf|Inf|INF)")
_Y_NAN = re.compile(r"\.(nan|NaN|NAN)")


class _CoreResolver(yaml.resolver.BaseResolver):
    """No implicit resolution by PyYAML: plain untagged scalars get a marker tag
    and are resolved by _core_scalar below."""

    def resolve(self, kind, value, implicit):
        if kind is yaml.nodes.ScalarNode:
            return _Y_PLAIN if implicit[0] else _Y_PREFIX + "str"
        if kind is yaml.nodes.SequenceNode:
            return _Y_PREFIX + "seq"
        return _Y_PREFIX + "map"


class _PyCoreLoader(yaml.reader.Reader, yaml.scanner.Scanner, yaml.parser.Parser,
                    yaml.composer.Composer, _CoreResolver):
    def __init__(self, stream):
        yaml.reader.Reader.__init__(self, stream)
        yaml.scanner.Scanner.__init__(self)
        yaml.parser.Parser.__init__(self)
        yaml.composer.Composer.__init__(self)
        _CoreResolver.__init__(self)


try:
    from yaml.cyaml import CParser as _CParser

    class _CCoreLoader(_CParser, _CoreResolver):
        def __init__(self, stream):
            _CParser.__init__(self, stream)
            _CoreResolver.__init__(self)
except ImportError:  # pragma: no cover
    _CCoreLoader = None

#: set to True to compose with libyaml (faster, but the same lineage as xt's parser)
YAML_USE_LIBYAML = False


def _y_int(text):
    if _Y_INT10.fullmatch(text):
        return int(text, 10)
    if _Y_INT8.fullmatch(text):
        return int(text[2:], 8)
    if _Y_INT16.fullmatch(text):
        return int(text[2:], 16)
    return None


def _y_float(text):
    if _Y_FLOAT.fullmatch(text):
        return float(text)
    if _Y_INF.fullmatch(text):
        return -math.inf if text[0] == "-" else math.inf
    if _Y_NAN.fullmatch(text):
        return math.nan
    return None


def _core_scalar(node):
    tag, text = node.tag, node.value
    if tag == _Y_PLAIN:
        if _Y_NULL.fullmatch(text):
            return None
        if _Y_BOOL.fullmatch(text):
            return text[0] in "tT"
        v = _y_int(text)
        if v is None:
            v = _y_float(text)
        return text if v is None else v
    if tag == _Y_PREFIX + "str" or tag == "!":
        return text
    if tag == _Y_PREFIX + "null":
        if not _Y_NULL.fullmatch(text):
            raise ValueError("bad !!null scalar %r" % text[:40])
        return None
    if tag == _Y_PREFIX + "bool":
        if not _Y_BOOL.fullmatch(text):
            raise ValueError("bad !!bool scalar %r" % text[:40])
        return text[0] in "tT"
    if tag == _Y_PREFIX + "int":
        v = _y_int(text)
        if v is None:
            raise ValueError("bad !!int scalar %r" % text[:40])
        return v
    if tag == _Y_PREFIX + "float":
        v = _y_float(text)
        if v is None:
            raise ValueError("bad !!float scalar %r" % text[:40])
        return v
    if tag == _Y_PREFIX + "binary":
        try:
            return base64.b64decode("".join(text.split()), validate=True)
        except Exception:
            raise ValueError("bad !!binary scalar")
    raise ValueError("unsupported YAML tag %r" % (tag,))


def _y_build(root):
    """Node graph -> value (iterative post-order; aliases share the built value;
    recursive aliases are rejected)."""
    done = {}
    active = set()
    stack = [(root, False)]
    while stack:
        node, ready = stack.pop()
        nid = id(node)
        if isinstance(node, yaml.nodes.ScalarNode):
            if nid not in done:
                done[nid] = _core_scalar(node)
            continue
        if not ready:
            if nid in done:
                continue
            if nid in active:
                raise ValueError("recursive YAML alias")
            active.add(nid)
            stack.append((node, True))
            if isinstance(node, yaml.nodes.SequenceNode):
                if node.tag != _Y_PREFIX + "seq":
                    raise ValueError("unsupported YAML tag %r" % (node.tag,))
                for ch in node.value:
                    stack.append((ch, False))
            else:
                if node.tag != _Y_PREFIX + "map":
                    raise ValueError("unsupported YAML tag %r" % (node.tag,))
                for k, v in node.value:
                    stack.append((k, False))
                    stack.append((v, False))
        else:
            active.discard(nid)
            if isinstance(node, yaml.nodes.SequenceNode):
                done[nid] = [done[id(ch)] for ch in node.value]
            else:
                done[nid] = _pairs_to_map([(done[id(k)], done[id(v)]) for k, v in node.value])
    return done[id(root)]


def _read_yaml(data):
    loader_cls = _CCoreLoader if (YAML_USE_LIBYAML and _CCoreLoader) else _PyCoreLoader
    docs = []
    try:
        loader = loader_cls(data)
        try:
            while loader.check_node():
                docs.append(_y_build(loader.get_node()))
        finally:
            loader.dispose()
    except yaml.YAMLError as e:
        raise ValueError("YAML: %s" % (str(e).replace("\n", " ")[:200],))
    except RecursionError:
        raise ValueError("YAML nesting too deep for this reader")
    return docs


_READERS = {"json": _read_json, "msgpack": _read_msgpack, "toml": _read_toml, "yaml": _read_yaml}


def read_documents(data, fmt):
    """All documents in data (bytes) read with a reader independent of xt.
    Raises ValueError on anything malformed."""
    if fmt not in _READERS:
        raise ValueError("unknown format %r" % (fmt,))
    try:
        return _READERS[fmt](bytes(data))
    except ValueError:
        raise
    except (OverflowError, MemoryError, struct.error) as e:
        raise ValueError("%s: %r" % (fmt, e))


# --------------------------------------------------------------------- mutation

TOKENS = [
    b"{", b"}", b"[", b"]", b",", b":", b": ", b"- ", b"-", b"---", b"---\n", b"...\n", b"\n", b"\r\n",
    b" ", b"  ", b"\t", b"#", b" #", b"\"", b"'", b"\"\"\"", b"'''", b"\\", b"\\u0000", b"\\ud800",
    b"\\n", b"null", b"~", b"true", b"false", b"True", b"yes", b"no", b"nan", b"inf", b".inf",
    b".nan", b"NaN", b"Infinity", b"0", b"-0", b"1", b"-1", b"1e3", b"1.0", b"0x1F", b"0o7",
    b"1_000", b"+1", b"1e400", b"18446744073709551616", b"9223372036854775808", b"-9223372036854775809",
    b"=", b" = ", b".", b"[[", b"]]", b"[a]", b"[[a]]", b"a.b", b"a = 1\n", b"2001-01-01",
    b"2001-01-01T00:00:00Z", b"|", b"|-", b">", b"? ", b"&a ", b"*a", b"!!str ", b"!!binary ",
    b"!!int ", b"!tag ", b"%YAML 1.2\n", b"<<", b"<<: *a", b"{}", b"[]", b"\"\"", b"''",
    b"\xef\xbb\xbf", b"\xff\xfe", b"\xfe\xff", b"\x00", b"\x7f", b"\x80", b"\xc0", b"\xc1", b"\xc2",
    b"\xc3", b"\xc4\x00", b"\xc4\x01a", b"\xca\x00\x00\x00\x00", b"\xcb\x7f\xf8\x00\x00\x00\x00\x00\x00",
    b"\xcc\xff", b"\xcd\x00\x01", b"\xcf\xff\xff\xff\xff\xff\xff\xff\xff", b"\xd0\x80",
    b"\xd3\x80\x00\x00\x00\x00\x00\x00\x00", b"\xd4\x01\x00", b"\xc7\x00\x01", b"\xd9\x01a", b"\xa1a",
    b"\xa0", b"\x90", b"\x80", b"\x91", b"\x81", b"\xdc\x00\x00", b"\xde\x00\x00", b"\xdd\x00\x00\x00\x01",
    b"\xdf\xff\xff\xff\xff", b"\xdb\xff\xff\xff\xff", b"\xe0", b"\xff", b"\xc2\x85", b"\xe2\x80\xa8",
    b"\xed\xa0\x80", b"\xf4\x90\x80\x80", b"\xf0\x9f\x98\x80",
]


def mutate(data, rng):
    """One random structure-aware-ish mutation of data (bytes)."""
    data = bytes(data)
    n = len(data)

    def span():
        if n == 0:
            return 0, 0
        a = rng.randrange(n)
        ln = rng.choice((1, 1, 2, 3, 4, 8, 16, 64))
        return a, min(n, a + ln)

    op = rng.randrange(12)
    if n == 0:
        op = 10
    if op == 0:    # flip a bit
        i = rng.randrange(n)
        return data[:i] + bytes([data[i] ^ (1 << rng.randrange(8))]) + data[i + 1:]
    if op == 1:    # replace a byte
        i = rng.randrange(n)
        return data[:i] + bytes([rng.getrandbits(8)]) + data[i + 1:]
    if op == 2:    # insert a byte
        i = rng.randint(0, n)
        return data[:i] + bytes([rng.getrandbits(8)]) + data[i:]
    if op == 3:    # delete a span
        a, b = span()
        return data[:a] + data[b:]
    if op == 4:    # duplicate a span in place
        a, b = span()
        return data[:b] + data[a:b] + data[b:]
    if op == 5:    # truncate
        return data[:rng.randrange(n)]
    if op == 6:    # drop a prefix
        return data[rng.randrange(n):]
    if op == 7:    # splice: copy one region over/into another position
        a, b = span()
        i = rng.randint(0, n)
        j = min(n, i + (b - a)) if rng.random() < 0.5 else i
        return data[:i] + data[a:b] + data[j:]
    if op == 8:    # swap two regions
        a, b = span()
        c, d = span()
        if b <= c:
            return data[:a] + data[c:d] + data[b:c] + data[a:b] + data[d:]
        if d <= a:
            return data[:c] + data[a:b] + data[d:a] + data[c:d] + data[b:]
        return data[:a] + data[c:d] + data[b:]
    if op == 9:    # replace a span with a token
        a, b = span()
        return data[:a] + rng.choice(TOKENS) + data[b:]
    if op == 10:   # insert a token
        i = rng.randint(0, n)
        return data[:i] + rng.choice(TOKENS) + data[i:]
    # op 11: repeat a span many times (depth / length stress)
    a, b = span()
    return data[:b] + data[a:b] * rng.choice((2, 8, 64)) + data[b:]
