#!/usr/bin/env python3
"""seedmatrix.py [<seeded id>...] — development aid, never called by a registered check.  For each seeded change kept under
/verif/seeded/<id>/ : apply its patch to /repo's working tree, run the quick check of the property it was written against
(plus the neighbours listed in EXTRA), undo it, and record what each check said in seeded/RESULTS.json / RESULTS.md."""
import json
import os
import subprocess
import sys
import time

VERIF = os.path.dirname(os.path.dirname(os.path.abspath(__file__)))
SEEDED = os.path.join(VERIF, "seeded")
REPO = os.environ.get("XT_REPO", "/repo")
EXTRA = {"C01-m1": ["C06"], "C01-m2": ["C02"], "C02-m1": ["C07"], "C02-m2": ["C09", "C05"], "C03-m2": ["C08"], "C04-m1": ["C18"],
         "C05-m1": ["C09"], "C05-m2": ["C03"], "C06-m1": ["C01"], "C06-m2": ["C01", "C02"], "C09-m1": ["C02", "C10"], "C09-m2": ["C02"],
         "C16-m2": ["C15"], "C17-m2": ["C07"], "C18-m1": ["C04"], "C18-m2": ["C02"],
         "C04-m3": ["C12", "C11"], "C03-m4": ["C02"], "C02-m3": ["C17"], "C01-m3": ["C06", "C02"], "C13-m4": ["C16", "C15"], "C16-m3": ["C13"],
         "C03-m6": ["C08"], "C02-m5": ["C09"], "C02-m6": ["C18"], "C05-m6": ["C17"], "C04-m6": ["C08"], "C10-m5": ["C01"], "C10-m6": ["C02"], "C08-m5": ["C14", "C03"],
         "C01-m7": ["C07"], "C01-m8": ["C16", "C15"], "C02-m8": ["C09"], "C03-m7": ["C02"], "C04-m7": ["C07"], "C04-m8": ["C11"],
         "C05-m8": ["C09", "C10"], "C06-m7": ["C02"], "C06-m8": ["C01"], "C08-m7": ["C03", "C02"], "C08-m8": ["C03"], "C11-m7": ["C02"],
         "C11-m8": ["C02", "C04"], "C12-m8": ["C11"], "C13-m7": ["C14"], "C14-m8": ["C13"], "C15-m8": ["C16"], "C17-m7": ["C07"],
         "C18-m8": ["C04"],
         "C01-m9": ["C06"], "C01-m10": ["C02", "C09"], "C02-m10": ["C09"], "C03-m9": ["C02", "C10"], "C03-m10": ["C14"], "C04-m9": ["C02"],
         "C04-m10": ["C18"], "C06-m9": ["C01"], "C06-m10": ["C18", "C02"],
         "C08-m10": ["C02"], "C09-m9": ["C02"], "C10-m10": ["C09", "C12"], "C11-m9": ["C12"], "C12-m9": ["C09"], "C13-m9": ["C14", "C03"], "C14-m9": ["C13", "C03"],
         "C15-m10": ["C13"], "C16-m9": ["C13"], "C17-m9": ["C05"], "C18-m9": ["C02"], "C18-m10": ["C04"], "C03-m10": ["C14", "C13"], "C07-m10": ["C17"]}


def main():
    ids = sys.argv[1:] or sorted(d for d in os.listdir(SEEDED) if os.path.isdir(os.path.join(SEEDED, d)))
    st = subprocess.run(["git", "-C", REPO, "status", "--short", "--untracked-files=no"], stdout=subprocess.PIPE).stdout.decode().strip()
    if st:
        print("refusing: /repo has local changes:\n" + st)
        return 2
    path = os.path.join(SEEDED, "RESULTS.json")
    results = json.load(open(path)) if os.path.exists(path) else {}
    for sid in ids:
        patch = os.path.join(SEEDED, sid, "patch.diff")
        prop = sid.split("-")[0]
        if subprocess.run(["git", "-C", REPO, "apply", patch]).returncode != 0:
            results[sid] = {"error": "patch does not apply"}
            continue
        res = {}
        try:
            for p in [prop] + EXTRA.get(sid, []):
                t0 = time.time()
                try:
                    q = subprocess.run([os.path.join(VERIF, "vcheck"), p, "--tier", "quick"], cwd=VERIF, stdout=subprocess.PIPE,
                                       stderr=subprocess.DEVNULL, timeout=2400)
                except subprocess.TimeoutExpired:
                    res[p] = {"verdict": "timeout"}
                    continue
                lines = [l for l in q.stdout.decode().split("\n") if l.startswith(("VIOLATION", "OK "))]
                v = "quiet" if q.returncode == 0 else ("VIOLATION, no-failing-input-found" if any("no-failing-input-found" in l for l in lines)
                                                       else "VIOLATION with a failing input" if lines else "exit %d" % q.returncode)
                what = ""
                for l in lines:
                    if l.startswith("VIOLATION") and "replay=" in l:
                        rp = l.split("replay=")[1].split()[0]
                        try:
                            r = json.load(open(rp))
                            f = r.get("failure") or (r.get("broken") or [[None, ""]])[0]
                            what = (f.get("what") if isinstance(f, dict) else str(f))[:300]
                        except Exception:
                            pass
                res[p] = {"verdict": v, "seconds": round(time.time() - t0), "what": what}
                print("%s %s %-36s %4ds  %s" % (sid, p, v, time.time() - t0, what[:110]), flush=True)
        finally:
            subprocess.run(["git", "-C", REPO, "checkout", "--", "."])
            subprocess.run(["git", "-C", REPO, "clean", "-fdq", "src"])      # files a patch added
        results[sid] = res
        json.dump(results, open(path, "w"), indent=1, sort_keys=True)
    with open(os.path.join(SEEDED, "RESULTS.md"), "w") as f:
        f.write("# Seeded changes against the quick checks\n\nWritten by tools/seedmatrix.py (patch applied to /repo's working tree, check run, patch undone).\n\n"
                "| seeded change | check | verdict | what the check reported |\n|---|---|---|---|\n")
        for sid in sorted(results):
            for p, r in sorted(results[sid].items()):
                if isinstance(r, dict):
                    f.write("| %s | %s | %s | %s |\n" % (sid, p, r.get("verdict"), (r.get("what") or "").replace("|", "/").replace("\n", " ")[:160]))
    return 0


if __name__ == "__main__":
    sys.exit(main())
