(* driver.ml — runs the extracted Gallina model on cases read from stdin, one
   per line, and prints one result per line.  No logic of its own: it parses a
   line into the Coq datatypes, calls the extracted function and prints the
   result in the canonical form that the Rust harness also prints. *)
open Model

(* ---------- conversions ---------- *)

let rec nat_of_int (i : int) : nat = if i <= 0 then O else S (nat_of_int (i - 1))
let nat_of_int i =
  (* tail-recursive for big values *)
  let rec go acc i = if i <= 0 then acc else go (S acc) (i - 1) in
  ignore nat_of_int; go O i
let rec int_of_nat (n : nat) : int =
  let rec go acc = function O -> acc | S m -> go (acc + 1) m in
  ignore int_of_nat; go 0 n

let rec pos_of_int (i : int) : positive =
  if i = 1 then XH
  else if i land 1 = 0 then XO (pos_of_int (i lsr 1))
  else XI (pos_of_int (i lsr 1))
let n_of_int (i : int) : n = if i = 0 then N0 else Npos (pos_of_int i)
let rec int_of_pos = function
  | XH -> 1
  | XO p -> 2 * int_of_pos p
  | XI p -> 2 * int_of_pos p + 1
let int_of_n = function N0 -> 0 | Npos p -> int_of_pos p

let hexval c =
  match c with
  | '0' .. '9' -> Char.code c - 48
  | 'a' .. 'f' -> Char.code c - 87
  | 'A' .. 'F' -> Char.code c - 55
  | _ -> failwith "bad hex"

(* "-" is the empty string *)
let bytes_of_hex (s : string) : n list =
  if s = "-" then []
  else begin
    let len = String.length s / 2 in
    let rec go i acc =
      if i < 0 then acc
      else go (i - 1) (n_of_int ((hexval s.[2 * i] * 16) + hexval s.[(2 * i) + 1]) :: acc)
    in
    go (len - 1) []
  end

let hex_of_bytes (bs : n list) : string =
  if bs = [] then "-"
  else begin
    let b = Buffer.create 64 in
    List.iter (fun x -> Buffer.add_string b (Printf.sprintf "%02x" (int_of_n x))) bs;
    Buffer.contents b
  end

let split_on c s = if s = "-" || s = "" then [] else String.split_on_char c s
let ints_of s = List.map int_of_string (split_on ',' s)

(* ---------- H: input handle programs ----------
   H <id> <R|S> <datahex> <fault|-> <sched: comma list, one cap-1 per offset> <ops> <I|C>
   ops: comma list of b | r<n> | p<n> *)

let parse_op (s : string) : op =
  match s.[0] with
  | 'b' -> OReborrow
  | 'r' -> ORead (nat_of_int (int_of_string (String.sub s 1 (String.length s - 1))))
  | 'p' -> OPrefix (nat_of_int (int_of_string (String.sub s 1 (String.length s - 1))))
  | _ -> failwith "bad op"

let show_res tag (r : bytes ioresult) =
  match r with
  | Ok bs -> Printf.sprintf "%s:ok:%s" tag (hex_of_bytes bs)
  | Err e -> Printf.sprintf "%s:err:%d" tag (int_of_nat e)

let show_obs = function
  | ObsBorrow b -> if b then "B:slice" else "B:reader"
  | ObsRead r -> show_res "R" r
  | ObsPrefix r -> show_res "P" r
  | ObsNotReader -> "N"

let show_fobs = function
  | FSlice b -> "FS:" ^ hex_of_bytes b
  | FReader (b, None) -> "FR:" ^ hex_of_bytes b ^ ":eof"
  | FReader (b, Some e) -> Printf.sprintf "FR:%s:err:%d" (hex_of_bytes b) (int_of_nat e)
  | FCow r -> show_res "FC" r

let handle_h (f : string list) : string =
  match f with
  | [ id; mode; data; flt; sched; ops; fin ] ->
      let data = bytes_of_hex data in
      let flt = if flt = "-" then None else Some (nat_of_int (int_of_string flt)) in
      let sch = Array.of_list (ints_of sched) in
      let schedf (d : nat) : nat =
        let i = int_of_nat d in
        if i < Array.length sch then nat_of_int sch.(i) else O
      in
      let ops = List.map parse_op (split_on ',' ops) in
      let fin = if fin = "I" then FinInput else FinCow in
      let os, fo =
        if mode = "R" then run_reader schedf data flt ops fin else run_slice schedf data ops fin
      in
      id ^ " " ^ String.concat " " (List.map show_obs os @ [ show_fobs fo ])
  | _ -> failwith "bad H line"


(* ---------- M*: MessagePack ----------
   MS <id> <hex> <depth>   next_value_size
   MT <id> <S|R> <hex>     msgpack -> msgpack document loop: verdict and writer bytes
   MD <id> <hex>           msgpack::input_matches on fully available input *)

let show_sz = function
  | SzOk n -> Printf.sprintf "ok:%d" (int_of_n n)
  | SzErr Truncated -> "err:truncated"
  | SzErr InvalidMarker -> "err:marker"
  | SzErr DepthLimitExceeded -> "err:depth"
  | SzPanic -> "panic"
  | SzOutOfFuel -> "outoffuel"

let handle_ms = function
  | [ id; data; depth ] ->
      id ^ " " ^ show_sz (next_value_size (bytes_of_hex data) (nat_of_int (int_of_string depth)))
  | _ -> failwith "bad MS line"

let handle_mt = function
  | [ id; mode; data ] ->
      let inp = bytes_of_hex data in
      let r = if mode = "S" then transcode_slice utf8_valid inp else transcode_reader utf8_valid inp in
      let fin =
        match snd r with
        | MDone -> "ok"
        | MSizeErr _ | MDecErr _ -> "err"
        | MPanic -> "panic"
        | MOutOfFuel -> "outoffuel"
      in
      Printf.sprintf "%s %s docs:%d %s" id fin (List.length (fst r)) (hex_of_bytes (mm_output r))
  | _ -> failwith "bad MT line"

(* JT <id> <S|R> <hex>: JSON -> MessagePack through the slice or the reader loop *)
let handle_jt = function
  | [ id; mode; data ] ->
      let inp = bytes_of_hex data in
      let r = if mode = "S" then json_slice inp else json_reader inp in
      let fin =
        match snd r with
        | JDone -> "ok"
        | JFail JOutOfFuel -> "outoffuel"
        | JFail JTrailing -> "err:trailing"
        | JFail _ -> "err"
      in
      Printf.sprintf "%s %s docs:%d %s" id fin (List.length (fst r)) (hex_of_bytes (jm_output r))
  | _ -> failwith "bad JT line"

(* JW <id> <hex>: JSON -> JSON through the reader and writer models, floats spelled by the model of
   serde_json's serialize_f64 / ryu (fully translated inputs only) *)
let handle_jw = function
  | [ id; data ] ->
      (match json_to_json_f (bytes_of_hex data) with
      | None -> id ^ " none"
      | Some out -> id ^ " " ^ hex_of_bytes out)
  | _ -> failwith "bad JW line"

(* MJ <id> <hex>: MessagePack -> JSON through the MessagePack reader model and the JSON writer model *)
let handle_mj = function
  | [ id; data ] ->
      (match msgpack_to_json_f (bytes_of_hex data) with
      | None -> id ^ " none"
      | Some out -> id ^ " " ^ hex_of_bytes out)
  | _ -> failwith "bad MJ line"

(* RY <id> <16 hex digits>: the text serde_json writes for the binary64 with these bits (big-endian), and
   whether the model's search for the shortest digits succeeded *)
let handle_ry = function
  | [ id; data ] ->
      let bits = List.fold_left (fun acc b -> N.add (N.mul acc (n_of_int 256)) b) N0 (bytes_of_hex data) in
      let fin = f_finite bits in
      Printf.sprintf "%s %s %s" id (if fin then (if ryu_ok bits then "ok" else "notfound") else "nonfinite") (hex_of_bytes (json_f64 bits))
  | _ -> failwith "bad RY line"

(* RF <id> <8 hex digits>: the text serde_json writes for the binary32 with these bits (big-endian) *)
let handle_rf = function
  | [ id; data ] ->
      let bits = List.fold_left (fun acc b -> N.add (N.mul acc (n_of_int 256)) b) N0 (bytes_of_hex data) in
      Printf.sprintf "%s %s %s" id (if json_f32_found bits then "ok" else "notfound") (hex_of_bytes (json_f32 bits))
  | _ -> failwith "bad RF line"

(* JI <id> <hex>: xt's JSON detection trial (serde_json's ignore_value) on a slice and on a reader *)
let handle_ji = function
  | [ id; data ] ->
      let inp = bytes_of_hex data in
      Printf.sprintf "%s %d %d" id (if json_trial_slice inp then 1 else 0) (if json_trial_reader inp then 1 else 0)
  | _ -> failwith "bad JI line"

(* TV <id> <hex>: the verdict of a TOML output on one MessagePack document *)
let handle_tv = function
  | [ id; data ] ->
      id ^ " " ^ (match msgpack_toml_verdict (bytes_of_hex data) with
                  | TVNone -> "none"
                  | TVAccept -> "ok"
                  | TVRefuse TRNull -> "null"
                  | TVRefuse TRBigInt -> "bigint"
                  | TVRefuse TRBytes -> "bytes"
                  | TVRefuse TRKey -> "key"
                  | TVRefuse TRDupKey -> "dupkey"
                  | TVRefuse TRNotTable -> "nottable")
  | _ -> failwith "bad TV line"

let handle_md = function
  | [ id; data ] -> id ^ " " ^ if msgpack_matches utf8_valid (bytes_of_hex data) then "match" else "nomatch"
  | _ -> failwith "bad MD line"


(* ---------- U*: YAML re-encoder ----------
   UD <id> <hex>                         Encoding::detect -> index
   UR <id> <N0..N4|F> <hex> <sizes>      Encoder::new(enc)/from_reader, read with the given buffer sizes *)

let enc_index = function Utf8 -> 0 | Utf16Big -> 1 | Utf32Big -> 2 | Utf16Little -> 3 | Utf32Little -> 4
let enc_of_index = function 0 -> Utf8 | 1 -> Utf16Big | 2 -> Utf32Big | 3 -> Utf16Little | _ -> Utf32Little

let handle_ud = function
  | [ id; data ] -> Printf.sprintf "%s %d" id (enc_index (detect (bytes_of_hex data)))
  | _ -> failwith "bad UD line"

let show_rend = function
  | Exhausted -> "exhausted"
  | AtEof -> "eof"
  | Failed EUnexpectedEof -> "ueof"
  | Failed (EInvalid (bits, u, pos)) -> Printf.sprintf "invalid:%d:%x:%d" (int_of_nat bits) (int_of_n u) (int_of_n pos)

let handle_ur = function
  | [ id; mode; data; sizes ] ->
      let inp = bytes_of_hex data in
      let e =
        if mode = "F" then encoder_from_reader inp
        else encoder_new inp (enc_of_index (int_of_string (String.sub mode 1 1)))
      in
      let out, fin = read_seq e (List.map nat_of_int (ints_of sizes)) in
      Printf.sprintf "%s %s %s" id (hex_of_bytes out) (show_rend fin)
  | _ -> failwith "bad UR line"


(* ---------- T: the streaming transcoder ----------
   T <id> <fails: step:id,...|-> <script tokens in prefix order>
   S,<method>,<payload> | F,<e> | Q,<hint>,<tail>,<post>,<n> <n scripts> | M,<hint>,<tail>,<post>,<n> <2n scripts> *)

let vmethod_of_int = function
  | 0 -> VUnit | 1 -> VBool | 2 -> VI8 | 3 -> VI16 | 4 -> VI32 | 5 -> VI64 | 6 -> VI128
  | 7 -> VU8 | 8 -> VU16 | 9 -> VU32 | 10 -> VU64 | 11 -> VU128 | 12 -> VF32 | 13 -> VF64
  | 14 -> VChar | 15 -> VStr | _ -> VBytes

let int_of_smethod = function
  | SUnit -> 0 | SBool -> 1 | SI8 -> 2 | SI16 -> 3 | SI32 -> 4 | SI64 -> 5 | SI128 -> 6
  | SU8 -> 7 | SU16 -> 8 | SU32 -> 9 | SU64 -> 10 | SU128 -> 11 | SF32 -> 12 | SF64 -> 13
  | SChar -> 14 | SStr -> 15 | SBytes -> 16

(* payloads are 64-bit: go through Int64/strings for values above max_int *)
let n_of_u64_string (s : string) : n =
  let rec go acc i =
    if i >= String.length s then acc
    else go (N.add (N.mul acc (n_of_int 10)) (n_of_int (Char.code s.[i] - 48))) (i + 1)
  in
  go N0 0

let rec string_of_n (x : n) : string =
  let ten = n_of_int 10 in
  let rec go x acc =
    if x = N0 then acc
    else go (N.div x ten) (string_of_int (int_of_n (N.modulo x ten)) ^ acc)
  in
  ignore string_of_n; if x = N0 then "0" else go x ""

let optn s = if s = "-" then None else Some (n_of_u64_string s)
let optnat s = if s = "-" then None else Some (nat_of_int (int_of_string s))

let rec parse_script (toks : string list) : dscript * string list =
  match toks with
  | [] -> failwith "script: out of tokens"
  | t :: rest -> (
      match String.split_on_char ',' t with
      | [ "S"; m; p ] -> (DScalar (vmethod_of_int (int_of_string m), n_of_u64_string p), rest)
      | [ "F"; e ] -> (DFail (nat_of_int (int_of_string e)), rest)
      | [ "Q"; h; tl; po; n ] ->
          let rec kids k toks acc =
            if k = 0 then (List.rev acc, toks)
            else
              let s, toks' = parse_script toks in
              kids (k - 1) toks' (s :: acc)
          in
          let els, rest' = kids (int_of_string n) rest [] in
          let tail = match optnat tl with None -> TEnd | Some e -> TErr e in
          (DSeq (optn h, els, tail, optnat po), rest')
      | [ "M"; h; tl; po; n ] ->
          let rec kids k toks acc =
            if k = 0 then (List.rev acc, toks)
            else
              let a, toks' = parse_script toks in
              let b, toks'' = parse_script toks' in
              kids (k - 1) toks'' ((a, b) :: acc)
          in
          let es, rest' = kids (int_of_string n) rest [] in
          let tail = match optnat tl with None -> TEnd | Some e -> TErr e in
          (DMap (optn h, es, tail, optnat po), rest')
      | _ -> failwith ("bad script token " ^ t))

let show_hint = function None -> "-" | Some h -> string_of_n h

let show_call = function
  | CScalar (m, p) -> Printf.sprintf "s%d:%s" (int_of_smethod m) (string_of_n p)
  | CSeq h -> "q" ^ show_hint h
  | CElemPre -> "e<" | CElemPost -> "e>" | CSeqEnd -> "Q"
  | CMap h -> "m" ^ show_hint h
  | CKeyPre -> "k<" | CKeyPost -> "k>" | CValuePre -> "v<" | CValuePost -> "v>" | CMapEnd -> "M"

let handle_t = function
  | id :: fails :: toks ->
      let tbl = Hashtbl.create 8 in
      List.iter
        (fun kv ->
          match String.split_on_char ':' kv with
          | [ k; v ] -> Hashtbl.replace tbl (int_of_string k) (int_of_string v)
          | _ -> ())
        (split_on ',' fails);
      let failsf (n : nat) : nat option =
        match Hashtbl.find_opt tbl (int_of_nat n) with Some v -> Some (nat_of_int v) | None -> None
      in
      let sc, _ = parse_script toks in
      let ss, o = transcode failsf false sc in
      let d = function DE i -> string_of_int (int_of_nat i) | DSyn -> "syn" in
      let s = function SE i -> string_of_int (int_of_nat i) | SSyn -> "syn" in
      let out =
        match o with
        | OutOk -> "ok"
        | OutErr (ErrDe e) -> "de:" ^ d e
        | OutErr (ErrSer (se, de)) -> "ser:" ^ s se ^ ":" ^ d de
        | OutPanic _ -> "panic"
      in
      Printf.sprintf "%s %s | %s" id out (String.concat " " (List.rev_map show_call ss.calls))
  | _ -> failwith "bad T line"


(* V <id> <script tokens>: Value::deserialize then Value::serialize *)
let handle_v = function
  | id :: toks ->
      let sc, _ = parse_script toks in
      (match value_roundtrip sc with
      | Ok cs -> Printf.sprintf "%s ok | %s" id (String.concat " " (List.map show_call cs))
      | Err (DE i) -> Printf.sprintf "%s de:%d | " id (int_of_nat i)
      | Err DSyn -> Printf.sprintf "%s de:syn | " id)
  | _ -> failwith "bad V line"

(* ---------- FT: a Translator over a history of calls ----------
   FT <id> <json|msgpack|toml|yaml> <call>;<call>;...   call = <1|0>:<doc>,<doc>,...   doc = o<hex> | r<hex> *)

let fmt_of_string = function "json" -> Json | "msgpack" -> Msgpack | "toml" -> Toml | _ -> Yaml

let handle_ft = function
  | [ id; to_; calls ] ->
      let parse_doc d =
        let h = String.sub d 1 (String.length d - 1) in
        if d.[0] = 'o' then DocOk (bytes_of_hex h) else DocRefused (bytes_of_hex h)
      in
      let parse_call c =
        match String.split_on_char ':' c with
        | [ ok; ds ] -> { docs = List.map parse_doc (if ds = "" then [] else String.split_on_char ',' ds); input_ok = ok = "1" }
        | _ -> failwith "bad call"
      in
      let cs = if calls = "-" then [] else List.map parse_call (String.split_on_char ';' calls) in
      let out, vs = translate_history (fmt_of_string to_) cs in
      let show_v = function
        | VOk -> "ok"
        | VErrDoc i -> Printf.sprintf "doc%d" (int_of_nat i)
        | VErrInput -> "input"
        | VErrMulti i -> Printf.sprintf "multi%d" (int_of_nat i)
      in
      Printf.sprintf "%s %s %s" id (hex_of_bytes out) (String.concat "," (List.map show_v vs))
  | _ -> failwith "bad FT line"

(* ---------- FW: a Translator over a short-writing / failing writer ----------
   FW <id> <to> <k|-> <wsched: comma list, cap-1 per accepted count> <call>;<call>;...   (calls as for FT)
   each document's bytes are handed over as two write_all calls (split in the middle) *)

let handle_fw = function
  | [ id; to_; k; sched; calls ] ->
      let sch = Array.of_list (ints_of sched) in
      let wsched (n : nat) : nat =
        let i = int_of_nat n in
        if i < Array.length sch then nat_of_int sch.(i) else O
      in
      let parse_doc d =
        let h = String.sub d 1 (String.length d - 1) in
        let bs = bytes_of_hex (if h = "" then "-" else h) in
        let n = List.length bs / 2 in
        let rec split i l acc = if i = 0 then (List.rev acc, l) else match l with [] -> (List.rev acc, []) | x :: r -> split (i - 1) r (x :: acc) in
        let a, b = split n bs [] in
        { chunks = [ a; b ]; finishes = d.[0] = 'o' }
      in
      let parse_call c =
        match String.split_on_char ':' c with
        | [ ok; ds ] -> { wdocs = List.map parse_doc (if ds = "" then [] else String.split_on_char ',' ds); winput_ok = ok = "1" }
        | _ -> failwith "bad call"
      in
      let cs = if calls = "-" then [] else List.map parse_call (String.split_on_char ';' calls) in
      let kk = if k = "-" then None else Some (nat_of_int (int_of_string k)) in
      let out, vs = translate_history_w wsched kk (fmt_of_string to_) cs in
      Printf.sprintf "%s %s %s" id (hex_of_bytes out) (String.concat "," (List.map (fun b -> if b then "ok" else "err") vs))
  | _ -> failwith "bad FW line"

(* ---------- CP / CR: the command line ----------
   CP <id> <arghex,arghex,...|->                      parse_args, and the resolved source format of every input
   CR <id> <P|F|T> <fault|-> <broken 0|1> <to|-> <bcap> <input;input;...|->   input = pathhex:E|S|D:ok:chunkhex+chunkhex *)

let fmt_name = function Json -> "json" | Msgpack -> "msgpack" | Toml -> "toml" | Yaml -> "yaml"
let optfmt = function None -> "-" | Some f -> fmt_name f
let lerr_name = function
  | EUnexpectedValue -> "unexpected-value" | EMissingValue -> "missing-value" | EUnexpectedOption -> "unexpected-option"
  | EBadFormat -> "bad-format" | EDupFrom -> "dup-from" | EDupTo -> "dup-to"

let handle_cp = function
  | [ id; args ] ->
      let argv = List.map (fun h -> if h = "e" then [] else bytes_of_hex h) (split_on ',' args) in
      (match parse_args argv with
      | PUsage e -> Printf.sprintf "%s usage %s" id (lerr_name e)
      | PExit0 XVersion -> id ^ " exit0 version"
      | PExit0 XHelpShort -> id ^ " exit0 help-short"
      | PExit0 XHelpLong -> id ^ " exit0 help-long"
      | POutOfFuel -> id ^ " outoffuel"
      | PArgs c ->
          let paths = match c.c_inputs with [] -> [ bytes_of_hex "2d" ] | ps -> ps in
          Printf.sprintf "%s args from=%s to=%s inputs=%s resolved=%s" id (optfmt c.c_from) (optfmt c.c_to)
            (String.concat "," (List.map (fun p -> if p = [] then "e" else hex_of_bytes p) paths))
            (String.concat "," (List.map (fun p -> optfmt (resolve_from c p)) paths)))
  | [ id ] -> (match parse_args [] with PArgs _ -> id ^ " args from=- to=- inputs=2d resolved=-" | _ -> id ^ " ?")
  | _ -> failwith "bad CP line"

let handle_cr = function
  | [ id; kind; fault; broken; to_; bcap; inputs ] ->
      let kind = match kind with "P" -> KPipe | "F" -> KFile | _ -> KTty in
      let flt = if fault = "-" then None else Some (nat_of_int (int_of_string fault)) in
      let d = { dsink = { acc = []; wfault = flt }; dbroken = broken = "1" } in
      let c = { c_inputs = []; c_from = None; c_to = (if to_ = "-" then None else Some (fmt_of_string to_)) } in
      let parse_inp s =
        match String.split_on_char ':' s with
        | [ path; o; ok; tr ] ->
            { i_path = bytes_of_hex path;
              i_open = (match o with "E" -> OpenErr | "S" -> OpenStdin | _ -> OpenData);
              i_trace = (if tr = "" then [] else List.map bytes_of_hex (String.split_on_char '+' tr));
              i_ok = ok = "1" }
        | _ -> failwith "bad input"
      in
      let ins = if inputs = "-" then [] else List.map parse_inp (String.split_on_char ';' inputs) in
      let o = run_cli (fun _ -> nat_of_int 1000000) (nat_of_int (int_of_string bcap)) c kind d ins in
      let st = match o.o_status with Exit n -> Printf.sprintf "exit%d" (int_of_nat n) | Signal13 -> "sigpipe" in
      let er = match o.o_stderr with ErrNone -> "none" | ErrPlain -> "plain" | ErrPath p -> "path:" ^ hex_of_bytes p | ErrUsage -> "usage" in
      Printf.sprintf "%s %s %s %s opened=%s stdin=%d" id st (hex_of_bytes o.o_stdout) er
        (String.concat "," (List.map hex_of_bytes o.o_opened)) (int_of_nat o.o_stdin_reads)
  | _ -> failwith "bad CR line"

(* K <id> <datahex> <events>: the YAML chunker over a libyaml event stream
   events: comma list of s | c | C | e<end>:<pulled> | E | o | x ; "P" = the parser panicked (no case) *)
let handle_k = function
  | [ id; data; evs ] ->
      let data = bytes_of_hex data in
      let parse_ev s =
        match s.[0] with
        | 's' -> YDocStart | 'c' -> YScalar | 'C' -> YCollStart | 'E' -> YStreamEnd | 'o' -> YOther | 'x' -> YErr
        | 'e' -> (
            match String.split_on_char ':' (String.sub s 1 (String.length s - 1)) with
            | [ a; b ] -> YDocEnd (nat_of_int (int_of_string a), nat_of_int (int_of_string b))
            | _ -> failwith "bad e")
        | _ -> failwith "bad event"
      in
      if evs = "P" then id ^ " panic"
      else
        let items = chunker data (List.map parse_ev (split_on ',' evs)) in
        let show = function
          | IDoc c -> Printf.sprintf "d%s:%d" (hex_of_bytes c.c_content) (if c.c_coll then 1 else 0)
          | IErr -> "err"
          | IPanic _ -> "panic"
        in
        let has_panic = List.exists (function IPanic _ -> true | _ -> false) items in
        if has_panic then id ^ " panic"
        else Printf.sprintf "%s %s" id (if items = [] then "-" else String.concat "," (List.map show items))
  | _ -> failwith "bad K line"

(* KH <id> <events>: the guard of the in-memory YAML path on the parser's events *)
let handle_kh = function
  | [ id; evs ] ->
      let parse_ev s =
        match s.[0] with
        | 's' -> YDocStart | 'c' -> YScalar | 'C' -> YCollStart | 'E' -> YStreamEnd | 'o' -> YOther | 'x' -> YErr
        | 'e' -> YDocEnd (nat_of_int 0, nat_of_int 0)
        | _ -> failwith "bad event"
      in
      if evs = "P" then id ^ " panic"
      else id ^ (if has_document (if evs = "-" then [] else List.map parse_ev (split_on ',' evs)) then " doc" else " nodoc")
  | _ -> failwith "bad KH line"

(* MP <id> <trace>: the resource trace of the libyaml binding through the protocol monitor.
   trace: comma list of I | A | c<len>:<size>:<bouncer> | R | D | F | e | d.  One run may create several parsers
   one after another (detection, then translation): the monitor is restarted at every I after a clean state. *)
let nat_cache : (string, nat) Hashtbl.t = Hashtbl.create 64
let handle_mp = function
  | [ id; tr ] ->
      let parse s =
        match s.[0] with
        | 'I' -> MParserInit | 'A' -> MStateAlloc | 'R' -> MRefuse | 'D' -> MParserDelete | 'F' -> MStateFree
        | 'e' -> MEventInit | 'd' -> MEventDelete
        | 'c' -> (
            match String.split_on_char ':' (String.sub s 1 (String.length s - 1)) with
            | [ a; b; c ] ->
                (* unary naturals are shared through a cache: the same buffer sizes recur in every event *)
                let cached s =
                  match Hashtbl.find_opt nat_cache s with
                  | Some n -> n
                  | None -> let n = nat_of_int (int_of_string s) in Hashtbl.replace nat_cache s n; n
                in
                MCopy (cached a, cached b, cached c)
            | _ -> failwith "bad c")
        | _ -> failwith "bad trace event"
      in
      let evs = List.map parse (split_on ',' tr) in
      (* split into sessions at each parser initialisation *)
      let rec sessions acc cur = function
        | [] -> List.rev (if cur = [] then acc else List.rev cur :: acc)
        | MParserInit :: rest -> sessions (if cur = [] then acc else List.rev cur :: acc) [ MParserInit ] rest
        | e :: rest -> sessions acc (e :: cur) rest
      in
      let show_v = function
        | VDoubleInit -> "double-init" | VUseAfterDelete -> "use-after-delete" | VUseBeforeInit -> "use-before-init"
        | VDoubleFree -> "double-free" | VStateFreedBeforeParser -> "read-state-freed-before-parser"
        | VCopyOutOfBounds -> "copy-out-of-bounds" | VEventUnderflow -> "event-deleted-twice"
      in
      let verdict =
        List.fold_left
          (fun acc s ->
            if acc <> "ok clean" then acc
            else match mrun m0 s with Ok st -> if mclean st then "ok clean" else "ok leak" | Err v -> "violation " ^ show_v v)
          "ok clean" (sessions [] [] evs)
      in
      id ^ " " ^ verdict
  | _ -> failwith "bad MP line"

(* DT <id> <hex> <json 0|1|s|r> <yaml 0|1> <toml 0|1>: detect.rs over a slice, the MessagePack trial from the model,
   the other three trials answering as given; json = s / r: the JSON trial from the model too (slice / reader form) *)
let handle_dt = function
  | [ id; data; j; y; t ] ->
      let inp = bytes_of_hex data in
      let mk b = { t_ops = []; t_verdict = (fun _ -> Ok b) } in
      let tm = mk (msgpack_matches utf8_valid inp) in
      let st = start (HSlice inp) in
      let jv = match j with "s" -> json_trial_slice inp | "r" -> json_trial_reader inp | _ -> j = "1" in
      let _, r = detect_format (fun _ -> O) (nat_of_int 2097152) (fun _ -> t = "1") tm (mk jv) (mk (y = "1")) st in
      (match r with
      | Ok None -> id ^ " none"
      | Ok (Some f) -> id ^ " " ^ fmt_name f
      | Err _ -> id ^ " error")
  | _ -> failwith "bad DT line"

let () =
  try
    while true do
      let line = input_line stdin in
      if line <> "" then begin
        let f = String.split_on_char ' ' line in
        let out =
          match f with
          | "H" :: rest -> handle_h rest
          | "MS" :: rest -> handle_ms rest
          | "FT" :: rest -> handle_ft rest
          | "FW" :: rest -> handle_fw rest
          | "K" :: rest -> handle_k rest
          | "KH" :: rest -> handle_kh rest
          | "MP" :: rest -> handle_mp rest
          | "DT" :: rest -> handle_dt rest
          | "CP" :: rest -> handle_cp rest
          | "CR" :: rest -> handle_cr rest
          | "T" :: rest -> handle_t rest
          | "V" :: rest -> handle_v rest
          | "UD" :: rest -> handle_ud rest
          | "UR" :: rest -> handle_ur rest
          | "MT" :: rest -> handle_mt rest
          | "MD" :: rest -> handle_md rest
          | "JT" :: rest -> handle_jt rest
          | "JW" :: rest -> handle_jw rest
          | "MJ" :: rest -> handle_mj rest
          | "TV" :: rest -> handle_tv rest
          | "RY" :: rest -> handle_ry rest
          | "JI" :: rest -> handle_ji rest
          | "RF" :: rest -> handle_rf rest
          | k :: _ -> failwith ("unknown case kind " ^ k)
          | [] -> ""
        in
        print_endline out
      end
    done
  with End_of_file -> ()
