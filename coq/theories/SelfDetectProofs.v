(* SelfDetectProofs.v — detection on fully available input is "the first trial
   that accepts, in the order MessagePack, JSON, YAML, TOML"; the first bytes
   xt's JSON and YAML writers emit can never be taken for MessagePack; the
   first byte the MessagePack writer emits for a collection is a collection
   marker. *)
From XtModel Require Import Base InputModel InputProofs FormatsModel DetectModel MsgpackModel.

Section Order.
  Variable sched : nat -> nat.
  Variable cutoff : nat.
  Variable toml_parses : bytes -> bool.

  (* what a trial observes on a slice handle: every prefix request returns the
     whole slice, reads are not available *)
  Definition slice_ob (d : bytes) (o : op) : obs :=
    match o with
    | OReborrow => ObsBorrow true
    | ORead _ => ObsNotReader
    | OPrefix _ => ObsPrefix (Ok d)
    end.

  Lemma step_slice d o :
    step sched (HSlice d, RSlice d) o = ((HSlice d, RSlice d), slice_ob d o).
  Proof. destruct o; reflexivity. Qed.

  Lemma run_slice_state d ops :
    run sched (HSlice d, RSlice d) ops = ((HSlice d, RSlice d), map (slice_ob d) ops).
  Proof.
    induction ops as [|o ops IH]; cbn [run map]; [reflexivity|].
    rewrite step_slice, IH. reflexivity.
  Qed.

  Definition slice_verdict (d : bytes) (t : trial) : ioresult bool :=
    t_verdict t (ObsBorrow true :: map (slice_ob d) (t_ops t)).

  Lemma run_trial_slice d t :
    run_trial sched t (HSlice d, RSlice d) = ((HSlice d, RSlice d), slice_verdict d t).
  Proof. unfold run_trial. rewrite step_slice, run_slice_state. reflexivity. Qed.

  Lemma toml_trial_slice d :
    toml_trial sched cutoff toml_parses (HSlice d, RSlice d) = ((HSlice d, RSlice d), Ok (toml_parses d)).
  Proof. unfold toml_trial. rewrite !step_slice. reflexivity. Qed.

  (* detect_format over a slice: the first trial that does not answer "no", in
     the fixed order; an error of a trial is returned as it is *)
  Definition cascade (d : bytes) (tm tj ty : trial) : ioresult (option fmt) :=
    match slice_verdict d tm with
    | Err e => Err e
    | Ok true => Ok (Some Msgpack)
    | Ok false =>
        match slice_verdict d tj with
        | Err e => Err e
        | Ok true => Ok (Some Json)
        | Ok false =>
            match slice_verdict d ty with
            | Err e => Err e
            | Ok true => Ok (Some Yaml)
            | Ok false => Ok (if toml_parses d then Some Toml else None)
            end
        end
    end.

  Theorem detect_slice_order d tm tj ty :
    snd (detect sched cutoff toml_parses tm tj ty (start (HSlice d))) = cascade d tm tj ty.
  Proof.
    unfold detect, cascade, start. cbn [borrow_mut].
    rewrite run_trial_slice. destruct (slice_verdict d tm) as [[|]|e]; try reflexivity.
    rewrite run_trial_slice. destruct (slice_verdict d tj) as [[|]|e]; try reflexivity.
    rewrite run_trial_slice. destruct (slice_verdict d ty) as [[|]|e]; try reflexivity.
    rewrite toml_trial_slice. destruct (toml_parses d); reflexivity.
  Qed.
End Order.

(* ---------- first bytes ---------- *)

(* the MessagePack trial looks at the first byte first *)
Lemma msgpack_needs_collection_marker utf8 b rest :
  is_collection_marker b = false -> msgpack_matches utf8 (b :: rest) = false.
Proof. intros H. unfold msgpack_matches. now rewrite H. Qed.

(* '{', '[' (JSON output of a map or an array) and '-' (YAML output: "---") *)
Lemma text_first_bytes_not_markers :
  is_collection_marker 123 = false /\ is_collection_marker 91 = false /\ is_collection_marker 45 = false.
Proof. repeat split. Qed.

(* no ASCII byte is a collection marker: no text output starting with an ASCII
   character is ever detected as MessagePack *)
Lemma ascii_not_marker b : (b < 128)%N -> is_collection_marker b = false.
Proof.
  intros H. unfold is_collection_marker.
  destruct (128 <=? b)%N eqn:E1; [apply N.leb_le in E1; lia|].
  destruct (220 <=? b)%N eqn:E2; [apply N.leb_le in E2; lia|]. reflexivity.
Qed.

(* what the MessagePack writer emits for an array or a map starts with a
   collection marker, whatever the length *)
Lemma array_header_is_marker n : exists b rest, enc_array_len n = b :: rest /\ is_collection_marker b = true.
Proof.
  unfold enc_array_len.
  destruct (n <? 16)%N eqn:E1.
  - apply N.ltb_lt in E1. eexists _, _. split; [reflexivity|]. unfold is_collection_marker.
    destruct (128 <=? 144 + n)%N eqn:A; [|apply N.leb_gt in A; lia].
    destruct (144 + n <? 160)%N eqn:B; [reflexivity|apply N.ltb_ge in B; lia].
  - destruct (n <? 65536)%N; eexists _, _; (split; [reflexivity|reflexivity]).
Qed.

Lemma map_header_is_marker n : exists b rest, enc_map_len n = b :: rest /\ is_collection_marker b = true.
Proof.
  unfold enc_map_len.
  destruct (n <? 16)%N eqn:E1.
  - apply N.ltb_lt in E1. eexists _, _. split; [reflexivity|]. unfold is_collection_marker.
    destruct (128 <=? 128 + n)%N eqn:A; [|apply N.leb_gt in A; lia].
    destruct (128 + n <? 160)%N eqn:B; [reflexivity|apply N.ltb_ge in B; lia].
  - destruct (n <? 65536)%N; eexists _, _; (split; [reflexivity|reflexivity]).
Qed.

(* ---------- xt's own output ---------- *)

Section Own.
  Variable sched : nat -> nat.
  Variable cutoff : nat.
  Variable toml_parses : bytes -> bool.
  Variable utf8 : bytes -> bool.

  (* the MessagePack trial as xt runs it on a slice, whatever operations it issues *)
  Variable tm : trial.
  Hypothesis tm_is_msgpack : forall d, slice_verdict d tm = Ok (msgpack_matches utf8 d).

  (* JSON output of a collection-rooted document starts with '{' or '[': if the
     JSON trial accepts it (contract: serde_json reads what it wrote), it is
     detected as JSON *)
  Theorem own_json_detected b rest tj ty :
    b = 123%N \/ b = 91%N ->
    slice_verdict (b :: rest) tj = Ok true ->
    snd (detect sched cutoff toml_parses tm tj ty (start (HSlice (b :: rest)))) = Ok (Some Json).
  Proof.
    intros Hb Hj. rewrite detect_slice_order. unfold cascade.
    rewrite tm_is_msgpack, msgpack_needs_collection_marker by (destruct Hb; subst; reflexivity).
    now rewrite Hj.
  Qed.

  (* YAML output starts with "---": not MessagePack (first byte), and if the JSON
     trial rejects it and the YAML trial accepts it (contracts), it is YAML *)
  Theorem own_yaml_detected rest tj ty :
    slice_verdict (dashes ++ rest) tj = Ok false ->
    slice_verdict (dashes ++ rest) ty = Ok true ->
    snd (detect sched cutoff toml_parses tm tj ty (start (HSlice (dashes ++ rest)))) = Ok (Some Yaml).
  Proof.
    intros Hj Hy. rewrite detect_slice_order. unfold cascade.
    rewrite tm_is_msgpack. cbn [dashes app]. rewrite msgpack_needs_collection_marker by reflexivity.
    cbn [dashes app] in Hj, Hy. now rewrite Hj, Hy.
  Qed.

  (* MessagePack output of a collection: if the trial's decode succeeds it wins *)
  Theorem own_msgpack_detected d tj ty :
    msgpack_matches utf8 d = true ->
    snd (detect sched cutoff toml_parses tm tj ty (start (HSlice d))) = Ok (Some Msgpack).
  Proof. intros Hm. rewrite detect_slice_order. unfold cascade. now rewrite tm_is_msgpack, Hm. Qed.

  (* TOML output is recognised whenever no earlier trial claims it (the
     property's own exclusions) and the TOML parser accepts it *)
  Theorem own_toml_detected d tj ty :
    msgpack_matches utf8 d = false ->
    slice_verdict d tj = Ok false -> slice_verdict d ty = Ok false -> toml_parses d = true ->
    snd (detect sched cutoff toml_parses tm tj ty (start (HSlice d))) = Ok (Some Toml).
  Proof.
    intros Hm Hj Hy Ht. rewrite detect_slice_order. unfold cascade. now rewrite tm_is_msgpack, Hm, Hj, Hy, Ht.
  Qed.
End Own.
