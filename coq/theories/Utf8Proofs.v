(* Utf8Proofs.v — well-formed UTF-8 as an inductive predicate equivalent to the
   executable validator, with the composition facts other proofs need:
   well-formed texts concatenate, a well-formed prefix can be cancelled, a text
   can be split wherever the remainder does not start with a continuation
   byte, ASCII text is well formed, and the UTF-8 encoding of every Unicode
   scalar value is well formed. *)
From XtModel Require Import Base Utf8.
Require Import ZifyBool ZifyNat ZifyN.
Ltac Zify.zify_post_hook ::= Z.div_mod_to_equations.

Definition cont (b : N) : bool := in_range 128 191 b.

Definition second3 (b0 b1 : N) : bool :=
  if (b0 =? 224)%N then in_range 160 191 b1
  else if (b0 =? 237)%N then in_range 128 159 b1
  else in_range 128 191 b1.

Definition second4 (b0 b1 : N) : bool :=
  if (b0 =? 240)%N then in_range 144 191 b1
  else if (b0 =? 244)%N then in_range 128 143 b1
  else in_range 128 191 b1.

Inductive wf8 : bytes -> Prop :=
| wf_nil : wf8 []
| wf_1 b r : (b <? 128)%N = true -> wf8 r -> wf8 (b :: r)
| wf_2 b0 b1 r : (b0 <? 128)%N = false -> in_range 194 223 b0 = true -> cont b1 = true -> wf8 r -> wf8 (b0 :: b1 :: r)
| wf_3 b0 b1 b2 r : (b0 <? 128)%N = false -> in_range 194 223 b0 = false -> in_range 224 239 b0 = true ->
    second3 b0 b1 = true -> cont b2 = true -> wf8 r -> wf8 (b0 :: b1 :: b2 :: r)
| wf_4 b0 b1 b2 b3 r : (b0 <? 128)%N = false -> in_range 194 223 b0 = false -> in_range 224 239 b0 = false ->
    in_range 240 244 b0 = true ->
    second4 b0 b1 = true -> cont b2 = true -> cont b3 = true -> wf8 r -> wf8 (b0 :: b1 :: b2 :: b3 :: r).

Lemma second3_cont b0 b1 : second3 b0 b1 = true -> cont b1 = true.
Proof. unfold second3, cont, in_range. destruct (b0 =? 224)%N; [lia|]. destruct (b0 =? 237)%N; lia. Qed.

Lemma second4_cont b0 b1 : second4 b0 b1 = true -> cont b1 = true.
Proof. unfold second4, cont, in_range. destruct (b0 =? 240)%N; [lia|]. destruct (b0 =? 244)%N; lia. Qed.

(* ---------- the validator decides wf8 ---------- *)

Lemma valid_fuel_wf : forall f bs, length bs <= f -> utf8_valid_fuel f bs = true -> wf8 bs.
Proof.
  induction f as [|f IH]; intros bs Hl H.
  - destruct bs; [constructor|discriminate].
  - cbn [utf8_valid_fuel] in H. destruct bs as [|b0 r0]; [constructor|]. cbn [length] in Hl.
    destruct (b0 <? 128)%N eqn:E1; [apply wf_1; [exact E1|apply IH; [lia|exact H]]|].
    destruct (in_range 194 223 b0) eqn:E2.
    { destruct r0 as [|b1 r1]; [discriminate|]. apply andb_true_iff in H as [H1 H2]. cbn [length] in Hl.
      apply wf_2; auto. apply IH; [lia|exact H2]. }
    destruct (in_range 224 239 b0) eqn:E3.
    { destruct r0 as [|b1 [|b2 r2]]; try discriminate. cbn [length] in Hl.
      apply andb_true_iff in H as [H12 H3]. apply andb_true_iff in H12 as [H1 H2].
      apply wf_3; auto. apply IH; [lia|exact H3]. }
    destruct (in_range 240 244 b0) eqn:E4; [|discriminate].
    destruct r0 as [|b1 [|b2 [|b3 r3]]]; try discriminate. cbn [length] in Hl.
    apply andb_true_iff in H as [H123 H4]. apply andb_true_iff in H123 as [H12 H3]. apply andb_true_iff in H12 as [H1 H2].
    apply wf_4; auto. apply IH; [lia|exact H4].
Qed.

Lemma wf_valid_fuel : forall bs, wf8 bs -> forall f, length bs <= f -> utf8_valid_fuel f bs = true.
Proof.
  induction 1 as [|b r Hb Hr IH|b0 b1 r H0 Hb0 Hb1 Hr IH|b0 b1 b2 r H0 H00 Hb0 Hb1 Hb2 Hr IH
                  |b0 b1 b2 b3 r H0 H00 H000 Hb0 Hb1 Hb2 Hb3 Hr IH]; intros f Hl.
  - destruct f; reflexivity.
  - destruct f as [|f]; [cbn in Hl; lia|]. cbn [utf8_valid_fuel]. rewrite Hb. apply IH. cbn [length] in Hl. lia.
  - destruct f as [|f]; [cbn in Hl; lia|]. cbn [utf8_valid_fuel]. rewrite H0, Hb0. unfold cont in Hb1. rewrite Hb1.
    cbn [andb]. apply IH. cbn [length] in Hl. lia.
  - destruct f as [|f]; [cbn in Hl; lia|]. cbn [utf8_valid_fuel]. rewrite H0, H00, Hb0.
    unfold second3 in Hb1. rewrite Hb1. unfold cont in Hb2. rewrite Hb2. cbn [andb]. apply IH. cbn [length] in Hl. lia.
  - destruct f as [|f]; [cbn in Hl; lia|]. cbn [utf8_valid_fuel]. rewrite H0, H00, H000, Hb0.
    unfold second4 in Hb1. rewrite Hb1. unfold cont in Hb2, Hb3. rewrite Hb2, Hb3. cbn [andb]. apply IH. cbn [length] in Hl. lia.
Qed.

Theorem utf8_valid_iff bs : utf8_valid bs = true <-> wf8 bs.
Proof.
  unfold utf8_valid. split; [apply valid_fuel_wf; lia|]. intros H. apply wf_valid_fuel; [exact H|lia].
Qed.

(* ---------- composition ---------- *)

Lemma wf8_app a b : wf8 a -> wf8 b -> wf8 (a ++ b).
Proof. induction 1; intros Hb; cbn [app]; [exact Hb|apply wf_1|apply wf_2|apply wf_3|apply wf_4]; auto. Qed.

Ltac lead_clash :=
  match goal with
  | H1 : (?b <? 128)%N = _, H2 : in_range _ _ ?b = _ |- _ => unfold in_range in *; lia
  | H1 : in_range _ _ ?b = _, H2 : in_range _ _ ?b = _ |- _ => unfold in_range in *; lia
  | H1 : (?b <? 128)%N = true, H2 : (?b <? 128)%N = false |- _ => congruence
  end.

Lemma wf8_app_inv_l a b : wf8 a -> wf8 (a ++ b) -> wf8 b.
Proof.
  induction 1 as [|x r Hx Hr IH|b0 b1 r H0 Hb0 Hb1 Hr IH|b0 b1 b2 r H0 H00 Hb0 Hb1 Hb2 Hr IH
                  |b0 b1 b2 b3 r H0 H00 H000 Hb0 Hb1 Hb2 Hb3 Hr IH]; cbn [app]; intros H; [exact H| | | |];
    inversion H; subst; try (apply IH; assumption); try congruence; try lead_clash.
Qed.

Definition starts_char (b : bytes) : Prop := match b with [] => True | x :: _ => cont x = false end.

Lemma wf8_split : forall n a b, length a <= n -> wf8 (a ++ b) -> starts_char b -> wf8 a /\ wf8 b.
Proof.
  induction n as [|n IH]; intros a b Hl H Hs.
  - destruct a; [split; [constructor|exact H]|cbn in Hl; lia].
  - destruct a as [|b0 a']; [split; [constructor|exact H]|]. cbn [app length] in *.
    inversion H as [|x r Hx Hr|x x1 r H0 Hb0 Hb1 Hr|x x1 x2 r H0 H00 Hb0 Hb1 Hb2 Hr|x x1 x2 x3 r H0 H00 H000 Hb0 Hb1 Hb2 Hb3 Hr]; subst.
    + destruct (IH a' b ltac:(lia) Hr Hs) as [Ha Hb]. split; [now apply wf_1|exact Hb].
    + destruct a' as [|y a'']; cbn [app] in *.
      * subst b. cbn in Hs. congruence.
      * injection H2 as ? ?; subst. cbn [length] in Hl. destruct (IH a'' b ltac:(lia) Hr Hs) as [Ha Hb]. split; [now apply wf_2|exact Hb].
    + pose proof (second3_cont _ _ Hb1) as Hc1.
      destruct a' as [|y [|z a'']]; cbn [app] in *.
      * subst b. cbn in Hs. congruence.
      * injection H2 as ? ?; subst. cbn in Hs. congruence.
      * injection H2 as ? ? ?; subst. cbn [length] in Hl. destruct (IH a'' b ltac:(lia) Hr Hs) as [Ha Hb]. split; [now apply wf_3|exact Hb].
    + pose proof (second4_cont _ _ Hb1) as Hc1.
      destruct a' as [|y [|z [|w a'']]]; cbn [app] in *.
      * subst b. cbn in Hs. congruence.
      * injection H2 as ? ?; subst. cbn in Hs. congruence.
      * injection H2 as ? ? ?; subst. cbn in Hs. congruence.
      * injection H2 as ? ? ? ?; subst. cbn [length] in Hl. destruct (IH a'' b ltac:(lia) Hr Hs) as [Ha Hb]. split; [now apply wf_4|exact Hb].
Qed.

Lemma wf8_split_at a b : wf8 (a ++ b) -> starts_char b -> wf8 a /\ wf8 b.
Proof. apply (wf8_split (length a)). lia. Qed.

(* ---------- ASCII ---------- *)

Definition ascii (l : bytes) : Prop := Forall (fun b => (b <? 128)%N = true) l.

Lemma ascii_wf8 l : ascii l -> wf8 l.
Proof. induction 1; constructor; auto. Qed.

Lemma ascii_app a b : ascii a -> ascii b -> ascii (a ++ b).
Proof. unfold ascii. intros. apply Forall_app. now split. Qed.

Lemma ascii_starts b r : (b <? 128)%N = true -> starts_char (b :: r).
Proof. intros H. cbn. unfold cont, in_range. lia. Qed.

(* an ASCII byte in the middle of a text separates two texts *)
Lemma wf8_cut_ascii a x b : (x <? 128)%N = true -> wf8 (a ++ x :: b) -> wf8 a /\ wf8 b.
Proof.
  intros Hx H. destruct (wf8_split_at a (x :: b) H (ascii_starts x b Hx)) as [Ha Hb].
  split; [exact Ha|]. inversion Hb; subst; try assumption; lead_clash.
Qed.

(* ---------- encodings of scalar values ---------- *)

Lemma utf8_encode_wf c : is_scalar c = true -> wf8 (utf8_encode c).
Proof.
  unfold is_scalar, utf8_encode. intros Hs.
  destruct (c <? 128)%N eqn:E1; [apply wf_1; [exact E1|constructor]|].
  destruct (c <? 2048)%N eqn:E2.
  { apply wf_2; [| | |constructor]; unfold cont, in_range; lia. }
  destruct (c <? 65536)%N eqn:E3.
  { apply wf_3; [| | | | |constructor]; unfold second3, cont, in_range; try lia.
    destruct (224 + c / 4096 =? 224)%N eqn:A; [lia|]. destruct (224 + c / 4096 =? 237)%N eqn:B; lia. }
  apply wf_4; [| | | | | | |constructor]; unfold second4, cont, in_range; try lia.
  destruct (240 + c / 262144 =? 240)%N eqn:A; [lia|]. destruct (240 + c / 262144 =? 244)%N eqn:B; lia.
Qed.

Lemma utf8_encode_starts c t : is_scalar c = true -> starts_char (utf8_encode c ++ t).
Proof.
  unfold is_scalar, utf8_encode. intros Hs.
  destruct (c <? 128)%N eqn:E1; [cbn; unfold cont, in_range; lia|].
  destruct (c <? 2048)%N eqn:E2; [cbn; unfold cont, in_range; lia|].
  destruct (c <? 65536)%N eqn:E3; cbn; unfold cont, in_range; lia.
Qed.
