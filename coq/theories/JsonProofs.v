(* JsonProofs.v — xt's two JSON document loops agree, except on the one class of
   inputs where serde_json's StreamDeserializer demands a delimiter after a
   scalar document and the reader loop does not (known finding
   K-C02-json-adjacent-scalars). *)
From XtModel Require Import Base Utf8 MsgpackModel JsonModel.
Require Import ZifyBool ZifyNat ZifyN.

Lemma prefix_of_cons {A} (x : A) a b : prefix_of a b -> prefix_of (x :: a) (x :: b).
Proof. intros [z ->]. now exists z. Qed.

Lemma prefix_of_flat_map {A B} (f : A -> list B) a b : prefix_of a b -> prefix_of (flat_map f a) (flat_map f b).
Proof. intros [z ->]. rewrite flat_map_app. now eexists. Qed.

(* The known class: the slice loop stops with "trailing characters" because a
   document that is a number, true, false or null is immediately followed by a
   byte that is neither whitespace nor a double quote, bracket, brace, comma or colon *)
Definition adjacent_scalars (inp : bytes) : Prop := snd (json_slice inp) = JFail JTrailing.

Lemma json_loops_agree : forall f inp,
  (snd (json_slice_loop f inp) <> JFail JTrailing -> json_slice_loop f inp = json_reader_loop f inp) /\
  prefix_of (fst (json_slice_loop f inp)) (fst (json_reader_loop f inp)).
Proof.
  induction f as [|f IH]; intros inp; [split; [reflexivity|apply prefix_of_refl]|].
  cbn [json_slice_loop json_reader_loop].
  destruct (skip_ws inp) as [|b r]; [split; [reflexivity|apply prefix_of_refl]|].
  destruct (json_value (b :: r)) as [evs [rest|e]]; [|split; [reflexivity|apply prefix_of_refl]].
  destruct (IH rest) as [IH1 IH2].
  destruct (if self_delineated b then true else match rest with [] => true | c :: _ => is_delim c end).
  - destruct (json_slice_loop f rest) as [ds fs]. destruct (json_reader_loop f rest) as [dr fr].
    cbn [fst snd] in *. split.
    + intros H. specialize (IH1 H). injection IH1 as -> ->. reflexivity.
    + now apply prefix_of_cons.
  - cbn [fst snd]. split; [congruence|apply prefix_of_nil].
Qed.

(* For every byte string that is valid UTF-8: outside the known class the two
   loops translate the same documents with the same events and end the same
   way; inside it, what the slice loop translated is a prefix of what the
   reader loop translated (so the outputs are prefix-comparable). *)
Theorem json_slice_reader_agree inp : utf8_valid inp = true ->
  (~ adjacent_scalars inp -> json_slice inp = json_reader inp) /\
  prefix_of (jm_output (json_slice inp)) (jm_output (json_reader inp)).
Proof.
  intros Hu. unfold adjacent_scalars, json_slice, json_reader, jm_output. rewrite Hu.
  destruct (json_loops_agree (S (length inp)) inp) as [H1 H2]. split; [exact H1|].
  now apply prefix_of_flat_map.
Qed.

(* An input that is not valid UTF-8 is refused by the slice path before anything
   is written: its output is a prefix of whatever the reader path wrote. *)
Theorem json_invalid_utf8_prefix inp : utf8_valid inp = false ->
  json_slice inp = ([], JFail JUtf8) /\ prefix_of (jm_output (json_slice inp)) (jm_output (json_reader inp)).
Proof.
  intros Hu. unfold json_slice. rewrite Hu. split; [reflexivity|]. apply prefix_of_nil.
Qed.

(* the class is inhabited, and on its witness the property does fail: the
   formal record of the finding *)
Definition truefalse : bytes := [116; 114; 117; 101; 102; 97; 108; 115; 101]%N.

Lemma adjacent_scalars_witness :
  utf8_valid truefalse = true /\ adjacent_scalars truefalse /\
  json_slice truefalse = ([], JFail JTrailing) /\
  json_reader truefalse = ([[EBool true]; [EBool false]], JDone).
Proof. unfold adjacent_scalars. vm_compute. repeat split. Qed.

(* and the theorem is about something: a stream of three documents, the last
   scalar at the end of input *)
Example json_agree_nonvacuous :
  let inp := [123; 34; 97; 34; 58; 91; 49; 44; 45; 50; 93; 125; 32; 34; 120; 34; 10; 52; 50]%N in   (* an object holding an array, a string, a number *)
  utf8_valid inp = true /\ ~ adjacent_scalars inp /\
  json_slice inp = ([[EMap 1; EStr [97]; ESeq 2; EUInt 64 1; ESInt 64 (-2); ESeqEnd; EMapEnd]; [EStr [120]]; [EUInt 64 42]]%N, JDone).
Proof. unfold adjacent_scalars. vm_compute. repeat split. discriminate. Qed.

(* ---------- totality: the reader never runs out of fuel, and a value consumes input ---------- *)

Definition le_res (r : jres) (n : nat) : Prop :=
  match r with JOk rest => length rest <= n | JErr e => e <> JOutOfFuel end.
Definition lt_res (r : jres) (n : nat) : Prop :=
  match r with JOk rest => length rest < n | JErr e => e <> JOutOfFuel end.

Lemma le_res_mono r n m : le_res r n -> n <= m -> le_res r m.
Proof. destruct r; cbn; [lia|auto]. Qed.

Lemma le_lt_res r n m : le_res r n -> n < m -> lt_res r m.
Proof. destruct r; cbn; [lia|auto]. Qed.

Lemma lt_le_res r n : lt_res r n -> le_res r n.
Proof. destruct r; cbn; [lia|auto]. Qed.

Lemma skip_ws_len inp : length (skip_ws inp) <= length inp.
Proof. induction inp as [|b r IH]; cbn [skip_ws]; [lia|]. destruct (is_ws b); cbn [length] in *; lia. Qed.

Lemma take_digits_len inp : length (snd (take_digits inp)) <= length inp.
Proof.
  induction inp as [|b r IH]; cbn [take_digits]; [cbn; lia|].
  destruct (is_digit b); [|cbn; lia]. destruct (take_digits r) as [ds rest]. cbn [snd length] in *. lia.
Qed.

Lemma parse_ident_le e inp : le_res (parse_ident e inp) (length inp).
Proof.
  revert inp. induction e as [|x e IH]; intros inp; cbn [parse_ident]; [cbn; lia|].
  destruct inp as [|b r]; [cbn; discriminate|]. destruct (b =? x)%N; [|cbn; discriminate].
  eapply le_res_mono; [apply IH|cbn [length]; lia].
Qed.

Lemma float_ev_le p ds E rest : le_res (snd (float_ev p ds E rest)) (length rest).
Proof. unfold float_ev. destruct (f64_of_decimal _ _); cbn; [lia|discriminate]. Qed.

Lemma exp_sign_len inp : length (snd (exp_sign inp)) <= length inp.
Proof.
  unfold exp_sign. destruct inp as [|c r]; [cbn; lia|].
  destruct (c =? 43)%N; [cbn [snd length]; lia|]. destruct (c =? 45)%N; cbn [snd length]; lia.
Qed.

Lemma exp_digits_le p i f pe r : le_res (snd (exp_digits p i f pe r)) (length r).
Proof.
  unfold exp_digits. destruct r as [|b r']; [cbn; discriminate|]. destruct (is_digit b); [|cbn; discriminate].
  pose proof (take_digits_len (b :: r')) as Ht. destruct (take_digits (b :: r')) as [es rest]. cbn [snd] in Ht.
  eapply le_res_mono; [apply float_ev_le|lia].
Qed.

Lemma parse_exp_le p i f inp : le_res (snd (parse_exp p i f inp)) (length inp).
Proof. unfold parse_exp. eapply le_res_mono; [apply exp_digits_le|apply exp_sign_len]. Qed.

Lemma int_ev_le p i rest : le_res (snd (int_ev p i rest)) (length rest).
Proof.
  unfold int_ev. destruct p.
  - destruct (_ <=? _)%N; [cbn; lia|apply float_ev_le].
  - destruct (_ =? _)%N; [cbn; lia|]. destruct (_ <=? _)%N; [cbn; lia|apply float_ev_le].
Qed.

Lemma frac_part_le p i r : le_res (snd (frac_part p i r)) (length r).
Proof.
  unfold frac_part. pose proof (take_digits_len r) as Ht. destruct (take_digits r) as [fs r2]. cbn [snd] in Ht.
  destruct fs as [|d fs]; [destruct r2; cbn; discriminate|].
  destruct r2 as [|c r3]; [eapply le_res_mono; [apply float_ev_le|lia]|].
  destruct (is_e c).
  - eapply le_res_mono; [apply parse_exp_le|cbn [length] in *; lia].
  - eapply le_res_mono; [apply float_ev_le|lia].
Qed.

Lemma after_int_le p i inp : le_res (snd (after_int p i inp)) (length inp).
Proof.
  unfold after_int. destruct inp as [|b r]; [apply int_ev_le|].
  destruct (b =? 46)%N; [eapply le_res_mono; [apply frac_part_le|cbn [length]; lia]|].
  destruct (is_e b); [eapply le_res_mono; [apply parse_exp_le|cbn [length]; lia]|apply int_ev_le].
Qed.

Lemma take_digits_cons b r : is_digit b = true -> snd (take_digits (b :: r)) = snd (take_digits r).
Proof. intros H. cbn [take_digits]. rewrite H. now destruct (take_digits r). Qed.

(* a number consumes at least its first character *)
Lemma parse_number_lt p inp : lt_res (snd (parse_number p inp)) (length inp).
Proof.
  unfold parse_number. destruct inp as [|b r]; [cbn; discriminate|].
  destruct (b =? 48)%N.
  - destruct r as [|d r']; [eapply le_lt_res; [apply after_int_le|cbn; lia]|].
    destruct (is_digit d); [cbn; discriminate|]. eapply le_lt_res; [apply after_int_le|cbn [length]; lia].
  - destruct (is_digit b) eqn:Hd; [|cbn; discriminate].
    pose proof (take_digits_cons b r Hd) as E. pose proof (take_digits_len r) as Hl.
    destruct (take_digits (b :: r)) as [ds rest]. cbn [snd] in E. subst rest.
    eapply le_lt_res; [apply after_int_le|cbn [length]; lia].
Qed.

(* ---------- strings ---------- *)

Lemma hex4_len inp n r : hex4 inp = HexOk n r -> length inp = 4 + length r.
Proof.
  unfold hex4. destruct inp as [|a [|b [|c [|d r']]]]; try discriminate.
  destruct (hexval a), (hexval b), (hexval c), (hexval d); try discriminate. intros [= _ <-]. reflexivity.
Qed.

Lemma parse_str_lt : forall f inp acc, length inp < f -> lt_res (snd (parse_str f inp acc)) (length inp).
Proof.
  induction f as [|f IH]; intros inp acc Hf; [lia|].
  cbn [parse_str]. destruct inp as [|b r]; [cbn; discriminate|]. cbn [length] in Hf.
  assert (IH' : forall x a, length x <= length r -> lt_res (snd (parse_str f x a)) (length (b :: r))).
  { intros x a Hx. specialize (IH x a ltac:(lia)). destruct (parse_str f x a) as [o [rest|e]]; cbn [snd lt_res length] in *; [lia|auto]. }
  destruct (b =? 34)%N.
  { destruct (utf8_valid (rev acc)); cbn [snd lt_res length]; [lia|discriminate]. }
  destruct (b =? 92)%N.
  2:{ destruct (b <? 32)%N; [cbn; discriminate|]. apply IH'. lia. }
  destruct r as [|c r1]; [cbn; discriminate|]. cbn [length] in *.
  destruct (simple_escape c); [apply IH'; cbn [length]; lia|].
  destruct (c =? 117)%N; [|cbn; discriminate].
  destruct (hex4 r1) as [n r2| |] eqn:Eh; [|cbn; discriminate|cbn; discriminate].
  apply hex4_len in Eh.
  destruct (is_trail n); [cbn; discriminate|].
  destruct (negb (is_lead n)); [apply IH'; cbn [length]; lia|].
  destruct r2 as [|c1 r3]; [cbn; discriminate|].
  destruct (negb (c1 =? 92)%N); [cbn; discriminate|].
  destruct r3 as [|c2 r4]; [cbn; discriminate|].
  destruct (negb (c2 =? 117)%N); [cbn; discriminate|].
  destruct (hex4 r4) as [n2 r5| |] eqn:Eh2; [|cbn; discriminate|cbn; discriminate].
  apply hex4_len in Eh2. cbn [length] in *.
  destruct (is_trail n2); [|cbn; discriminate]. apply IH'. cbn [length]. lia.
Qed.

Lemma parse_string_lt inp : lt_res (snd (parse_string inp)) (S (length inp)).
Proof.
  unfold parse_string. pose proof (parse_str_lt (S (length inp)) inp [] ltac:(lia)) as H.
  destruct (parse_str _ _ _) as [o [rest|e]]; cbn [snd lt_res] in *; [lia|auto].
Qed.

(* ---------- values ---------- *)

Lemma lt_res_mono r n m : lt_res r n -> n <= m -> lt_res r m.
Proof. destruct r; cbn; [lia|auto]. Qed.

Lemma lit_res r e : snd (lit r e) = r.
Proof. destruct r; reflexivity. Qed.

Definition V_ok (f : nat) : Prop :=
  forall depth inp, 2 * length inp + 2 <= f -> lt_res (snd (parse_value f depth inp)) (length inp).
Definition E_ok (f : nat) : Prop :=
  forall depth inp first, 2 * length inp + 3 <= f -> lt_res (snd (parse_elems f depth inp first)) (length inp).
Definition M_ok (f : nat) : Prop :=
  forall depth inp first, 2 * length inp + 3 <= f -> lt_res (snd (parse_members f depth inp first)) (length inp).

Definition element_of (f depth : nat) (at_ : bytes) : list ev * N * jres :=
  match parse_value f depth at_ with
  | (evs, JOk rest) =>
      match parse_elems f depth rest false with
      | (evs', n, res) => (evs ++ evs', (n + 1)%N, res)
      end
  | (_, JErr e) => ([], 0%N, JErr e)
  end.

Lemma parse_elems_unfold f depth inp first :
  parse_elems (S f) depth inp first =
    match skip_ws inp with
    | [] => ([], 0%N, JErr JEof)
    | b :: r =>
        if (b =? 93)%N then ([], 0%N, JOk r)
        else if first then element_of f depth (b :: r)
        else if (b =? 44)%N then
          match skip_ws r with
          | [] => ([], 0%N, JErr JEof)
          | c :: r' => if (c =? 93)%N then ([], 0%N, JErr JSyntax) else element_of f depth (c :: r')
          end
        else ([], 0%N, JErr JSyntax)
    end.
Proof. reflexivity. Qed.

Definition member_of (f depth : nat) (at_ : bytes) : list ev * N * jres :=
  match parse_string at_ with
  | (Some k, JOk r1) =>
      match skip_ws r1 with
      | [] => ([], 0%N, JErr JEof)
      | c :: r2 =>
          if (c =? 58)%N then
            match parse_value f depth r2 with
            | (evs, JOk rest) =>
                match parse_members f depth rest false with
                | (evs', n, res) => (EStr k :: evs ++ evs', (n + 1)%N, res)
                end
            | (_, JErr e) => ([], 0%N, JErr e)
            end
          else ([], 0%N, JErr JSyntax)
      end
  | (_, JErr e) => ([], 0%N, JErr e)
  | (None, JOk _) => ([], 0%N, JErr JSyntax)
  end.

Lemma parse_members_unfold f depth inp first :
  parse_members (S f) depth inp first =
    match skip_ws inp with
    | [] => ([], 0%N, JErr JEof)
    | b :: r =>
        if (b =? 125)%N then ([], 0%N, JOk r)
        else if first then (if (b =? 34)%N then member_of f depth r else ([], 0%N, JErr JSyntax))
        else if (b =? 44)%N then
          match skip_ws r with
          | [] => ([], 0%N, JErr JEof)
          | c :: r' => if (c =? 34)%N then member_of f depth r' else ([], 0%N, JErr JSyntax)
          end
        else ([], 0%N, JErr JSyntax)
    end.
Proof. reflexivity. Qed.

Lemma V_step f : E_ok f -> M_ok f -> V_ok (S f).
Proof.
  intros HE HM depth inp Hf. cbn [parse_value].
  pose proof (skip_ws_len inp) as Hs. destruct (skip_ws inp) as [|b r]; [cbn; discriminate|]. cbn [length] in Hs.
  destruct (b =? 110)%N.
  { rewrite lit_res. eapply le_lt_res; [apply parse_ident_le|lia]. }
  destruct (b =? 116)%N.
  { rewrite lit_res. eapply le_lt_res; [apply parse_ident_le|lia]. }
  destruct (b =? 102)%N.
  { rewrite lit_res. eapply le_lt_res; [apply parse_ident_le|lia]. }
  destruct (b =? 45)%N.
  { eapply lt_res_mono; [apply parse_number_lt|lia]. }
  destruct (is_digit b).
  { eapply lt_res_mono; [apply parse_number_lt|cbn [length]; lia]. }
  destruct (b =? 34)%N.
  { pose proof (parse_string_lt r) as Hp. destruct (parse_string r) as [[s|] [rest|e]]; cbn [snd lt_res] in *; try lia; auto; discriminate. }
  destruct (b =? 91)%N.
  { destruct (depth - 1 =? 0); [cbn; discriminate|].
    specialize (HE (depth - 1) r true ltac:(lia)).
    destruct (parse_elems f (depth - 1) r true) as [[evs n] [rest|e]]; cbn [snd lt_res] in *; [lia|auto]. }
  destruct (b =? 123)%N.
  { destruct (depth - 1 =? 0); [cbn; discriminate|].
    specialize (HM (depth - 1) r true ltac:(lia)).
    destruct (parse_members f (depth - 1) r true) as [[evs n] [rest|e]]; cbn [snd lt_res] in *; [lia|auto]. }
  cbn. discriminate.
Qed.

Lemma E_step f : V_ok f -> E_ok f -> E_ok (S f).
Proof.
  intros HV HE depth inp first Hf. rewrite parse_elems_unfold.
  assert (Hel : forall at_, length at_ <= length inp -> at_ <> [] -> lt_res (snd (element_of f depth at_)) (length inp)).
  { intros at_ Hl Hne. unfold element_of.
    specialize (HV depth at_ ltac:(lia)).
    destruct (parse_value f depth at_) as [evs [rest|e]]; cbn [snd lt_res] in HV; [|cbn; auto].
    specialize (HE depth rest false ltac:(lia)).
    destruct (parse_elems f depth rest false) as [[evs' n] [rest'|e]]; cbn [snd lt_res] in *; [lia|auto]. }
  pose proof (skip_ws_len inp) as Hs. destruct (skip_ws inp) as [|b r]; [cbn; discriminate|]. cbn [length] in Hs.
  destruct (b =? 93)%N; [cbn; lia|].
  destruct first; [apply Hel; [cbn [length]; lia|discriminate]|].
  destruct (b =? 44)%N; [|cbn; discriminate].
  pose proof (skip_ws_len r) as Hs2. destruct (skip_ws r) as [|c r']; [cbn; discriminate|]. cbn [length] in Hs2.
  destruct (c =? 93)%N; [cbn; discriminate|]. apply Hel; [cbn [length]; lia|discriminate].
Qed.

Lemma M_step f : V_ok f -> M_ok f -> M_ok (S f).
Proof.
  intros HV HM depth inp first Hf. rewrite parse_members_unfold.
  assert (Hmem : forall at_, S (length at_) <= length inp -> lt_res (snd (member_of f depth at_)) (length inp)).
  { intros at_ Hl. unfold member_of.
    pose proof (parse_string_lt at_) as Hp.
    destruct (parse_string at_) as [[k|] [r1|e]]; cbn [snd lt_res] in Hp; try (cbn; auto; discriminate).
    pose proof (skip_ws_len r1) as Hs1. destruct (skip_ws r1) as [|c r2]; [cbn; discriminate|]. cbn [length] in Hs1.
    destruct (c =? 58)%N; [|cbn; discriminate].
    specialize (HV depth r2 ltac:(lia)).
    destruct (parse_value f depth r2) as [evs [rest|e]]; cbn [snd lt_res] in HV; [|cbn; auto].
    specialize (HM depth rest false ltac:(lia)).
    destruct (parse_members f depth rest false) as [[evs' n] [rest'|e]]; cbn [snd lt_res] in *; [lia|auto]. }
  pose proof (skip_ws_len inp) as Hs. destruct (skip_ws inp) as [|b r]; [cbn; discriminate|]. cbn [length] in Hs.
  destruct (b =? 125)%N; [cbn; lia|].
  destruct first.
  { destruct (b =? 34)%N; [apply Hmem; lia|cbn; discriminate]. }
  destruct (b =? 44)%N; [|cbn; discriminate].
  pose proof (skip_ws_len r) as Hs2. destruct (skip_ws r) as [|c r']; [cbn; discriminate|]. cbn [length] in Hs2.
  destruct (c =? 34)%N; [apply Hmem; lia|cbn; discriminate].
Qed.

Lemma all_ok : forall f, V_ok f /\ E_ok f /\ M_ok f.
Proof.
  induction f as [|f (HV & HE & HM)].
  - repeat split; intros ? ? ?; try intros ?; lia.
  - repeat split; [apply V_step|apply E_step|apply M_step]; assumption.
Qed.

(* one value: never out of fuel, and a successful parse consumes input *)
Theorem json_value_total inp : lt_res (snd (json_value inp)) (length inp).
Proof. apply (proj1 (all_ok (json_fuel inp))). unfold json_fuel. lia. Qed.

(* ---------- the loops ---------- *)

Lemma slice_loop_total : forall f inp, length inp < f -> snd (json_slice_loop f inp) <> JFail JOutOfFuel.
Proof.
  induction f as [|f IH]; intros inp Hf; [lia|]. cbn [json_slice_loop].
  pose proof (skip_ws_len inp) as Hs. destruct (skip_ws inp) as [|b r]; [cbn; discriminate|].
  pose proof (json_value_total (b :: r)) as Hv.
  destruct (json_value (b :: r)) as [evs [rest|e]]; cbn [snd lt_res] in Hv; [|cbn; congruence].
  destruct (if self_delineated b then true else match rest with [] => true | c :: _ => is_delim c end); [|cbn; discriminate].
  specialize (IH rest ltac:(lia)). destruct (json_slice_loop f rest) as [ds fs]. exact IH.
Qed.

Lemma reader_loop_total : forall f inp, length inp < f -> snd (json_reader_loop f inp) <> JFail JOutOfFuel.
Proof.
  induction f as [|f IH]; intros inp Hf; [lia|]. cbn [json_reader_loop].
  pose proof (skip_ws_len inp) as Hs. destruct (skip_ws inp) as [|b r]; [cbn; discriminate|].
  pose proof (json_value_total (b :: r)) as Hv.
  destruct (json_value (b :: r)) as [evs [rest|e]]; cbn [snd lt_res] in Hv; [|cbn; congruence].
  specialize (IH rest ltac:(lia)). destruct (json_reader_loop f rest) as [ds fs]. exact IH.
Qed.

(* both document loops terminate with a verdict for every byte string *)
Theorem json_loops_total inp :
  snd (json_slice inp) <> JFail JOutOfFuel /\ snd (json_reader inp) <> JFail JOutOfFuel.
Proof.
  split.
  - unfold json_slice. destruct (utf8_valid inp); [apply slice_loop_total; lia|cbn; discriminate].
  - apply reader_loop_total. lia.
Qed.

(* ---------- more fuel never changes an answer ---------- *)

Definition not_fuel (r : jres) : Prop := r <> JErr JOutOfFuel.

Definition Vm (f : nat) : Prop := forall d inp evs r, parse_value f d inp = (evs, r) -> not_fuel r ->
  forall f', f <= f' -> parse_value f' d inp = (evs, r).
Definition Em (f : nat) : Prop := forall d inp first evs n r, parse_elems f d inp first = (evs, n, r) -> not_fuel r ->
  forall f', f <= f' -> parse_elems f' d inp first = (evs, n, r).
Definition Mm (f : nat) : Prop := forall d inp first evs n r, parse_members f d inp first = (evs, n, r) -> not_fuel r ->
  forall f', f <= f' -> parse_members f' d inp first = (evs, n, r).

Lemma Vm_step f : Em f -> Mm f -> Vm (S f).
Proof.
  intros HE HM d inp evs r H Hr f' Hf. destruct f' as [|f']; [lia|]. assert (Hle : f <= f') by lia.
  cbn [parse_value] in *. destruct (skip_ws inp) as [|b rest]; [exact H|].
  destruct (b =? 110)%N; [exact H|]. destruct (b =? 116)%N; [exact H|]. destruct (b =? 102)%N; [exact H|].
  destruct (b =? 45)%N; [exact H|]. destruct (is_digit b); [exact H|]. destruct (b =? 34)%N; [exact H|].
  destruct (b =? 91)%N.
  { destruct (d - 1 =? 0); [exact H|].
    destruct (parse_elems f (d - 1) rest true) as [[e n] res] eqn:E.
    assert (Hres : not_fuel res) by (destruct res; [discriminate|injection H as _ <-; exact Hr]).
    now rewrite (HE _ _ _ _ _ _ E Hres f' Hle). }
  destruct (b =? 123)%N; [|exact H].
  destruct (d - 1 =? 0); [exact H|].
  destruct (parse_members f (d - 1) rest true) as [[e n] res] eqn:E.
  assert (Hres : not_fuel res) by (destruct res; [discriminate|injection H as _ <-; exact Hr]).
  now rewrite (HM _ _ _ _ _ _ E Hres f' Hle).
Qed.

Lemma element_of_mono f f' d at_ evs n r : Vm f -> Em f -> f <= f' ->
  element_of f d at_ = (evs, n, r) -> not_fuel r -> element_of f' d at_ = (evs, n, r).
Proof.
  intros HV HE Hle H Hr. unfold element_of in *.
  destruct (parse_value f d at_) as [e1 [rest|e]] eqn:E1.
  - destruct (parse_elems f d rest false) as [[e2 n2] r2] eqn:E2. injection H as <- <- <-.
    rewrite (HV _ _ _ _ E1 ltac:(discriminate) f' Hle). now rewrite (HE _ _ _ _ _ _ E2 Hr f' Hle).
  - injection H as <- <- <-. now rewrite (HV _ _ _ _ E1 Hr f' Hle).
Qed.

Lemma Em_step f : Vm f -> Em f -> Em (S f).
Proof.
  intros HV HE d inp first evs n r H Hr f' Hf. destruct f' as [|f']; [lia|]. assert (Hle : f <= f') by lia.
  rewrite parse_elems_unfold in *. destruct (skip_ws inp) as [|b rest]; [exact H|].
  destruct (b =? 93)%N; [exact H|]. destruct first; [now apply (element_of_mono f)|].
  destruct (b =? 44)%N; [|exact H]. destruct (skip_ws rest) as [|c r']; [exact H|].
  destruct (c =? 93)%N; [exact H|]. now apply (element_of_mono f).
Qed.

Lemma member_of_mono f f' d at_ evs n r : Vm f -> Mm f -> f <= f' ->
  member_of f d at_ = (evs, n, r) -> not_fuel r -> member_of f' d at_ = (evs, n, r).
Proof.
  intros HV HM Hle H Hr. unfold member_of in *.
  destruct (parse_string at_) as [[k|] [r1|e]]; try exact H.
  destruct (skip_ws r1) as [|c r2]; [exact H|]. destruct (c =? 58)%N; [|exact H].
  destruct (parse_value f d r2) as [e1 [rest|e]] eqn:E1.
  - destruct (parse_members f d rest false) as [[e2 n2] r3] eqn:E2. injection H as <- <- <-.
    rewrite (HV _ _ _ _ E1 ltac:(discriminate) f' Hle). now rewrite (HM _ _ _ _ _ _ E2 Hr f' Hle).
  - injection H as <- <- <-. now rewrite (HV _ _ _ _ E1 Hr f' Hle).
Qed.

Lemma Mm_step f : Vm f -> Mm f -> Mm (S f).
Proof.
  intros HV HM d inp first evs n r H Hr f' Hf. destruct f' as [|f']; [lia|]. assert (Hle : f <= f') by lia.
  rewrite parse_members_unfold in *. destruct (skip_ws inp) as [|b rest]; [exact H|].
  destruct (b =? 125)%N; [exact H|].
  destruct first.
  { destruct (b =? 34)%N; [|exact H]. now apply (member_of_mono f). }
  destruct (b =? 44)%N; [|exact H]. destruct (skip_ws rest) as [|c r']; [exact H|].
  destruct (c =? 34)%N; [|exact H]. now apply (member_of_mono f).
Qed.

Lemma mono_all : forall f, Vm f /\ Em f /\ Mm f.
Proof.
  induction f as [|f (HV & HE & HM)].
  - repeat split.
    + intros d inp evs r H Hr. cbn in H. injection H as _ <-. now elim Hr.
    + intros d inp first evs n r H Hr. cbn in H. injection H as _ _ <-. now elim Hr.
    + intros d inp first evs n r H Hr. cbn in H. injection H as _ _ <-. now elim Hr.
  - repeat split; [apply Vm_step|apply Em_step|apply Mm_step]; assumption.
Qed.

(* If the reader gives an answer other than "out of fuel" with some fuel, json_value gives the same answer. *)
Theorem json_value_any_fuel f inp evs rest :
  parse_value f JSON_DEPTH inp = (evs, JOk rest) -> json_value inp = (evs, JOk rest).
Proof.
  intros H. unfold json_value. destruct (Nat.le_ge_cases f (json_fuel inp)) as [Hle|Hge].
  - exact (proj1 (mono_all f) _ _ _ _ H ltac:(discriminate) _ Hle).
  - pose proof (json_value_total inp) as Ht. unfold json_value in Ht.
    destruct (parse_value (json_fuel inp) JSON_DEPTH inp) as [e0 r0] eqn:E0. cbn [snd] in Ht.
    assert (Hnf : not_fuel r0) by (destruct r0; [discriminate|cbn [lt_res] in Ht; unfold not_fuel; congruence]).
    pose proof (proj1 (mono_all _) _ _ _ _ E0 Hnf f Hge) as E1. rewrite H in E1. now injection E1 as <- <-.
Qed.
