(* JsonDepthProofs.v — the JSON nesting limit on xt's own JSON output is exact
   and depends on nothing but the depth (C18): the text the JSON writer produces
   for a value is read back by the reader model if and only if fewer than
   JSON_DEPTH (128) collections surround its innermost value - for arrays,
   objects and every mixture of them; one level more is refused with the
   recursion-limit error.  Same premises on the spelling of floats as the
   read-back theorem. *)
From XtModel Require Import Base Utf8 MsgpackModel JsonModel JsonProofs JsonWriteModel JsonWriteProofs.
Require Import ZifyBool ZifyNat ZifyN.

Definition jok (r : jres) : bool := match r with JOk _ => true | JErr _ => false end.

Section Depth.
  Variable fmt_f64 : N -> bytes.
  Variable float_ok : N -> bool.
  Hypothesis fmt_reads : forall b, float_ok b = true -> forall f depth tail, val_end tail ->
    parse_value (S f) depth (fmt_f64 b ++ tail) = ([EF64 b], JOk tail).
  Hypothesis fmt_head : forall b, float_ok b = true ->
    exists c r, fmt_f64 b = c :: r /\ is_ws c = false /\ (c =? 93)%N = false /\ (c =? 125)%N = false /\ (c =? 44)%N = false.

  Notation jwrite := (jwrite fmt_f64).
  Notation jwf := (jwf float_ok).
  Notation reads_back := (reads_back fmt_f64 float_ok).
  Notation elems_tail := (elems_tail fmt_f64).
  Notation members_tail := (members_tail fmt_f64).
  Notation member_text := (member_text fmt_f64).

  Definition rejects_deep (v : jval) : Prop :=
    jwf v = true -> forall f depth tail, need v <= f -> 1 <= depth -> depth <= jdepth v -> val_end tail ->
      snd (parse_value f depth (jwrite v ++ tail)) = JErr JDepth.

  Lemma RB v : reads_back v.
  Proof. exact (read_write fmt_f64 float_ok fmt_reads fmt_head v). Qed.

  (* the elements after the first, one of which is too deep *)
  Lemma elems_too_deep : forall rest m d tail f,
    Forall rejects_deep rest -> forallb jwf rest = true ->
    Forall (fun x => need x <= m) rest -> length rest + 1 + m <= f -> 1 <= d ->
    (exists x, In x rest /\ d <= jdepth x) ->
    snd (parse_elems f d (elems_tail rest tail) false) = JErr JDepth.
  Proof.
    induction rest as [|v rest IH]; intros m d tail f HR HW HB Hf Hd (x & Hin & Hx); [destruct Hin|].
    inversion HR as [|? ? Rv Rrest]; subst. inversion HB as [|? ? Bn Brest]; subst.
    cbn [forallb] in HW. apply andb_true_iff in HW as [Wv Wrest].
    destruct f as [|f]; [cbn in Hf; lia|]. cbn [length] in Hf.
    destruct (jwrite_head fmt_f64 float_ok fmt_reads fmt_head v Wv) as (c & r & Ec & Hws & H93 & H125 & H44).
    rewrite parse_elems_unfold. unfold JsonWriteProofs.elems_tail at 1. rewrite join_elems, Ec. cbn [app].
    change (skip_ws (44%N :: c :: r ++ elems_tail rest tail)) with (44%N :: c :: r ++ elems_tail rest tail).
    change (44 =? 93)%N with false. change (44 =? 44)%N with true. cbv beta iota.
    rewrite skip_ws_head by exact Hws. rewrite H93. unfold element_of.
    change (c :: r ++ elems_tail rest tail) with ((c :: r) ++ elems_tail rest tail). rewrite <- Ec.
    destruct (Nat.ltb_spec (jdepth v) d) as [Hlt|Hge].
    - rewrite (RB v Wv f d (elems_tail rest tail)) by (try lia; try apply val_end_elems_tail).
      assert (Hx' : exists x0, In x0 rest /\ d <= jdepth x0).
      { exists x. split; [|exact Hx]. destruct Hin as [->|Hin]; [lia|exact Hin]. }
      pose proof (IH m d tail f Rrest Wrest Brest ltac:(lia) Hd Hx') as H.
      destruct (parse_elems f d (elems_tail rest tail) false) as [[e n] res]. exact H.
    - pose proof (Rv Wv f d (elems_tail rest tail) ltac:(lia) Hd Hge (val_end_elems_tail fmt_f64 rest tail)) as H.
      destruct (parse_value f d (jwrite v ++ elems_tail rest tail)) as [e [r0|err]]; cbn [snd] in *; [discriminate|].
      now rewrite H.
  Qed.

  Lemma members_too_deep : forall rest m d tail f,
    Forall (fun kv : bytes * jval => rejects_deep (snd kv)) rest ->
    forallb (fun kv : bytes * jval => let (k, x) := kv in utf8_valid k && jwf x) rest = true ->
    Forall (fun kv : bytes * jval => need (snd kv) <= m) rest -> length rest + 1 + m <= f -> 1 <= d ->
    (exists kv, In kv rest /\ d <= jdepth (snd kv)) ->
    snd (parse_members f d (members_tail rest tail) false) = JErr JDepth.
  Proof.
    induction rest as [|[k x] rest IH]; intros m d tail f HR HW HB Hf Hd (kv & Hin & Hx); [destruct Hin|].
    inversion HR as [|? ? Rv Rrest]; subst. inversion HB as [|? ? Bn Brest]; subst. cbn [snd] in *.
    cbn [forallb] in HW. apply andb_true_iff in HW as [Wkx Wrest]. apply andb_true_iff in Wkx as [Wk Wx].
    destruct f as [|f]; [cbn in Hf; lia|]. cbn [length] in Hf.
    rewrite parse_members_unfold. unfold JsonWriteProofs.members_tail at 1. rewrite join_members.
    change (skip_ws (44%N :: 34%N :: jescape k ++ 34%N :: 58%N :: jwrite x ++ members_tail rest tail))
      with (44%N :: 34%N :: jescape k ++ 34%N :: 58%N :: jwrite x ++ members_tail rest tail).
    change (44 =? 125)%N with false. change (44 =? 44)%N with true. cbv beta iota.
    change (skip_ws (34%N :: jescape k ++ 34%N :: 58%N :: jwrite x ++ members_tail rest tail))
      with (34%N :: jescape k ++ 34%N :: 58%N :: jwrite x ++ members_tail rest tail).
    change (34 =? 34)%N with true. cbv beta iota. unfold member_of.
    rewrite parse_jstring by exact Wk.
    change (skip_ws (58%N :: jwrite x ++ members_tail rest tail)) with (58%N :: jwrite x ++ members_tail rest tail).
    change (58 =? 58)%N with true. cbv beta iota.
    destruct (Nat.ltb_spec (jdepth x) d) as [Hlt|Hge].
    - rewrite (RB x Wx f d (members_tail rest tail)) by (try lia; try apply val_end_members_tail).
      assert (Hx' : exists kv0, In kv0 rest /\ d <= jdepth (snd kv0)).
      { exists kv. split; [|exact Hx]. destruct Hin as [<-|Hin]; [cbn [snd] in Hx; lia|exact Hin]. }
      pose proof (IH m d tail f Rrest Wrest Brest ltac:(lia) Hd Hx') as H.
      destruct (parse_members f d (members_tail rest tail) false) as [[e n] res]. exact H.
    - pose proof (Rv Wx f d (members_tail rest tail) ltac:(lia) Hd Hge (val_end_members_tail fmt_f64 rest tail)) as H.
      destruct (parse_value f d (jwrite x ++ members_tail rest tail)) as [e [r0|err]]; cbn [snd] in *; [discriminate|].
      now rewrite H.
  Qed.

  Lemma max_jdepth vs k : 1 <= k -> k <= fold_right (fun x acc => Nat.max (jdepth x) acc) 0 vs -> exists x, In x vs /\ k <= jdepth x.
  Proof.
    induction vs as [|v vs IH]; cbn [fold_right]; intros Hk H; [lia|].
    destruct (Nat.le_gt_cases k (jdepth v)) as [Hv|Hv]; [exists v; split; [now left|exact Hv]|].
    destruct (IH Hk ltac:(lia)) as (x & Hin & Hx). exists x. split; [now right|exact Hx].
  Qed.

  Lemma max_jdepth_obj (kvs : list (bytes * jval)) k : 1 <= k ->
    k <= fold_right (fun (kv : bytes * jval) acc => let (_, x) := kv in Nat.max (jdepth x) acc) 0 kvs ->
    exists kv, In kv kvs /\ k <= jdepth (snd kv).
  Proof.
    induction kvs as [|[a b] kvs IH]; cbn [fold_right]; intros Hk H; [lia|].
    destruct (Nat.le_gt_cases k (jdepth b)) as [Hv|Hv]; [exists (a, b); split; [now left|exact Hv]|].
    destruct (IH Hk ltac:(lia)) as (x & Hin & Hx). exists x. split; [now right|exact Hx].
  Qed.

  (* one level too many is refused with the recursion-limit error *)
  Theorem write_too_deep : forall v, rejects_deep v.
  Proof.
    induction v as [ |b|n|z|b|s|vs IHvs|kvs IHkvs] using jval_ind2; unfold rejects_deep; intros Hwf f depth tail Hf Hd Hdeep Ht;
      cbn [jdepth] in Hdeep; try lia; cbn [JsonWriteProofs.jwf need JsonWriteModel.jwrite] in *.
    - destruct f as [|f]; [lia|]. cbn [app]. rewrite <- app_assoc. cbn [app]. rewrite pv_array.
      destruct (depth - 1 =? 0) eqn:E0; [reflexivity|]. apply Nat.eqb_neq in E0.
      set (m := fold_right (fun x a => Nat.max (need x) a) 0 vs) in *.
      assert (HB : Forall (fun x => need x <= m) vs).
      { apply Forall_forall. intros x Hx. apply (fold_max_bound need vs x Hx). }
      destruct (max_jdepth vs (depth - 1) ltac:(lia) ltac:(lia)) as (x & Hin & Hx).
      destruct vs as [|v vs]; [destruct Hin|].
      inversion IHvs as [|? ? Rv Rrest]; subst. inversion HB as [|? ? Bn Brest]; subst.
      cbn [forallb] in Hwf. apply andb_true_iff in Hwf as [Wv Wrest]. cbn [length] in Hf.
      rewrite join_elems. destruct f as [|f]; [lia|].
      destruct (jwrite_head fmt_f64 float_ok fmt_reads fmt_head v Wv) as (c & r & Ec & Hws & H93 & H125 & H44).
      rewrite parse_elems_unfold. rewrite Ec. cbn [app]. rewrite skip_ws_head by exact Hws. rewrite H93.
      unfold element_of. change (c :: r ++ elems_tail vs tail) with ((c :: r) ++ elems_tail vs tail). rewrite <- Ec.
      destruct (Nat.ltb_spec (jdepth v) (depth - 1)) as [Hlt|Hge].
      + rewrite (RB v Wv f (depth - 1) (elems_tail vs tail)) by (try lia; try apply val_end_elems_tail).
        assert (Hx' : exists x0, In x0 vs /\ depth - 1 <= jdepth x0).
        { exists x. split; [|exact Hx]. destruct Hin as [->|Hin]; [lia|exact Hin]. }
        pose proof (elems_too_deep vs m (depth - 1) tail f Rrest Wrest Brest ltac:(lia) ltac:(lia) Hx') as H.
        destruct (parse_elems f (depth - 1) (elems_tail vs tail) false) as [[e n] res]. cbn [snd] in H. now rewrite H.
      + pose proof (Rv Wv f (depth - 1) (elems_tail vs tail) ltac:(lia) ltac:(lia) Hge (val_end_elems_tail fmt_f64 vs tail)) as H.
        destruct (parse_value f (depth - 1) (jwrite v ++ elems_tail vs tail)) as [e [r0|err]]; cbn [snd] in *; [discriminate|].
        now rewrite H.
    - destruct f as [|f]; [lia|]. cbn [app]. rewrite <- app_assoc. cbn [app]. rewrite pv_object.
      destruct (depth - 1 =? 0) eqn:E0; [reflexivity|]. apply Nat.eqb_neq in E0.
      change (fun kv : bytes * jval => let (k, x) := kv in jstring k ++ 58%N :: jwrite x) with member_text.
      set (m := fold_right (fun (kv : bytes * jval) a => let (_, x) := kv in Nat.max (need x) a) 0 kvs) in *.
      assert (Em : m = fold_right (fun (kv : bytes * jval) a => Nat.max (need (snd kv)) a) 0 kvs).
      { subst m. clear. induction kvs as [|[k x] kvs IH]; [reflexivity|]. cbn [fold_right snd]. now rewrite IH. }
      assert (HB : Forall (fun kv : bytes * jval => need (snd kv) <= m) kvs).
      { apply Forall_forall. intros kv Hx. rewrite Em. apply (fold_max_bound (fun kv : bytes * jval => need (snd kv)) kvs kv Hx). }
      destruct (max_jdepth_obj kvs (depth - 1) ltac:(lia) ltac:(lia)) as (kv & Hin & Hx).
      destruct kvs as [|[k x] kvs]; [destruct Hin|].
      inversion IHkvs as [|? ? Rv Rrest]; subst. inversion HB as [|? ? Bn Brest]; subst. cbn [snd] in *.
      cbn [forallb] in Hwf. apply andb_true_iff in Hwf as [Wkx Wrest]. apply andb_true_iff in Wkx as [Wk Wx]. cbn [length] in Hf.
      rewrite join_members. destruct f as [|f]; [lia|].
      rewrite parse_members_unfold.
      change (skip_ws (34%N :: jescape k ++ 34%N :: 58%N :: jwrite x ++ members_tail kvs tail))
        with (34%N :: jescape k ++ 34%N :: 58%N :: jwrite x ++ members_tail kvs tail).
      change (34 =? 125)%N with false. change (34 =? 34)%N with true. cbv beta iota. unfold member_of.
      rewrite parse_jstring by exact Wk.
      change (skip_ws (58%N :: jwrite x ++ members_tail kvs tail)) with (58%N :: jwrite x ++ members_tail kvs tail).
      change (58 =? 58)%N with true. cbv beta iota.
      destruct (Nat.ltb_spec (jdepth x) (depth - 1)) as [Hlt|Hge].
      + rewrite (RB x Wx f (depth - 1) (members_tail kvs tail)) by (try lia; try apply val_end_members_tail).
        assert (Hx' : exists kv0, In kv0 kvs /\ depth - 1 <= jdepth (snd kv0)).
        { exists kv. split; [|exact Hx]. destruct Hin as [<-|Hin]; [cbn [snd] in Hx; lia|exact Hin]. }
        pose proof (members_too_deep kvs m (depth - 1) tail f Rrest Wrest Brest ltac:(lia) ltac:(lia) Hx') as H.
        destruct (parse_members f (depth - 1) (members_tail kvs tail) false) as [[e n] res]. cbn [snd] in H. now rewrite H.
      + pose proof (Rv Wx f (depth - 1) (members_tail kvs tail) ltac:(lia) ltac:(lia) Hge (val_end_members_tail fmt_f64 kvs tail)) as H.
        destruct (parse_value f (depth - 1) (jwrite x ++ members_tail kvs tail)) as [e [r0|err]]; cbn [snd] in *; [discriminate|].
        now rewrite H.
  Qed.

  (* The limit, for every value the writer can produce: its text is read back
     (by the value parser, with enough fuel) iff its depth is below the limit. *)
  Theorem json_limit_exact v tail f :
    jwf v = true -> need v <= f -> val_end tail ->
    (jok (snd (parse_value f JSON_DEPTH (jwrite v ++ tail))) = true <-> jdepth v < JSON_DEPTH).
  Proof.
    intros Hwf Hf Ht. assert (Hpos : 1 <= JSON_DEPTH) by (unfold JSON_DEPTH; lia). split.
    - intros Hok. destruct (Nat.ltb_spec (jdepth v) JSON_DEPTH) as [H|H]; [exact H|exfalso].
      rewrite (write_too_deep v Hwf f JSON_DEPTH tail Hf Hpos H Ht) in Hok. discriminate.
    - intros H. rewrite (RB v Hwf f JSON_DEPTH tail Hf H Ht). reflexivity.
  Qed.

  (* any answer other than "out of fuel" is json_value's answer *)
  Lemma json_value_any_fuel_gen f inp evs r :
    parse_value f JSON_DEPTH inp = (evs, r) -> not_fuel r -> json_value inp = (evs, r).
  Proof.
    intros H Hr. unfold json_value. destruct (Nat.le_ge_cases f (json_fuel inp)) as [Hle|Hge].
    - exact (proj1 (mono_all f) _ _ _ _ H Hr _ Hle).
    - pose proof (json_value_total inp) as Ht. unfold json_value in Ht.
      destruct (parse_value (json_fuel inp) JSON_DEPTH inp) as [e0 r0] eqn:E0. cbn [snd] in Ht.
      assert (Hnf : not_fuel r0) by (destruct r0; [discriminate|cbn [lt_res] in Ht; unfold not_fuel; congruence]).
      pose proof (proj1 (mono_all _) _ _ _ _ E0 Hnf f Hge) as E1. rewrite H in E1. now injection E1 as <- <-.
  Qed.

  (* ... with the fuel json_value itself uses: xt's JSON output for a value is
     read back iff the value's depth is below the limit, whatever its shape *)
  Theorem json_value_limit_exact v tail :
    jwf v = true -> val_end tail ->
    (jok (snd (json_value (jwrite v ++ tail))) = true <-> jdepth v < JSON_DEPTH).
  Proof.
    intros Hwf Ht. split.
    - intros Hok. destruct (Nat.ltb_spec (jdepth v) JSON_DEPTH) as [H|H]; [exact H|exfalso].
      assert (Hpos : 1 <= JSON_DEPTH) by (unfold JSON_DEPTH; lia).
      pose proof (write_too_deep v Hwf (need v) JSON_DEPTH tail (le_n _) Hpos H Ht) as Hd.
      destruct (parse_value (need v) JSON_DEPTH (jwrite v ++ tail)) as [e r] eqn:E. cbn [snd] in Hd. subst r.
      rewrite (json_value_any_fuel_gen _ _ _ _ E) in Hok by (unfold not_fuel; discriminate). discriminate.
    - intros H. rewrite (json_value_reads_back fmt_f64 float_ok fmt_reads fmt_head v tail (conj Hwf H) Ht). reflexivity.
  Qed.

  Theorem json_verdict_depends_on_depth_only v w tail :
    jwf v = true -> jwf w = true -> val_end tail -> jdepth v = jdepth w ->
    jok (snd (json_value (jwrite v ++ tail))) = jok (snd (json_value (jwrite w ++ tail))).
  Proof.
    intros Hv Hw Ht Hd.
    pose proof (json_value_limit_exact v tail Hv Ht) as A. pose proof (json_value_limit_exact w tail Hw Ht) as B.
    rewrite Hd in A.
    destruct (jok (snd (json_value (jwrite v ++ tail)))), (jok (snd (json_value (jwrite w ++ tail)))); try reflexivity.
    - assert (false = true) by (apply B, A; reflexivity). discriminate.
    - assert (false = true) by (apply A, B; reflexivity). discriminate.
  Qed.
End Depth.
