(* JsonFloat32Model.v — how serde_json spells a 32-bit float (serialize_f32 ->
   ryu's `pretty::format32`), which is what xt's JSON output does with a
   MessagePack float32: `null` for non-finite values, otherwise the shortest
   decimal that reads back to the same binary32 (nearest, ties to even), laid
   out by format32's rules - which differ from format64's: positional notation
   for 1e-6 <= |x| < 1e13 (format64: 1e-5 <= |x| < 1e16).  That difference is the
   mechanism of the known findings K-C06-f32-small-magnitude-spelling and
   K-C06-f32-large-magnitude-spelling: the JSON reader reads every number as a
   binary64 and the writer then spells it by format64's rules.

   Same construction as JsonFloatModel.v (an executable specification, diffed
   against the implementation by the RF correspondence), with the binary32
   parameters: 24-bit significand, subnormal scale 2^-149. *)
From XtModel Require Import Base Utf8 MsgpackModel JsonModel JsonWriteModel JsonFloatModel.

Definition two23 : N := 8388608.
Definition inf_bits32 : N := 2139095040.        (* 0x7F800000 *)
Definition sign_bit32 : N := 2147483648.

(* the binary32 nearest to D * 10^E (ties to even), as its bit pattern without the sign; None when infinite *)
Definition f32_of_decimal (D : N) (E : Z) : option N :=
  if (D =? 0)%N then Some 0%N
  else if (400 <? E)%Z then None
  else if (E <? - (400 + Z.of_N (N.log2 D) / 3 + 1))%Z then Some 0%N
  else
    let num := if (0 <=? E)%Z then (D * 10 ^ Z.to_N E)%N else D in
    let den := if (0 <=? E)%Z then 1%N else (10 ^ Z.to_N (- E))%N in
    let lb := (Z.of_N (N.log2 num) - Z.of_N (N.log2 den))%Z in
    let s0 := (23 - lb)%Z in
    let q0 := fst (fst (scaled num den s0)) in
    let s1 := if (q0 <? two23)%N then (s0 + 1)%Z else s0 in
    let s := if (149 <? s1)%Z then 149%Z else s1 in
    let '(q, r, d) := scaled num den s in
    let q' := if ((d <? 2 * r) || ((d =? 2 * r) && N.odd q))%N then (q + 1)%N else q in
    let bits := (q' + Z.to_N (149 - s) * two23)%N in
    if (inf_bits32 <=? bits)%N then None else Some bits.

Definition g_neg (b : N) : bool := (sign_bit32 <=? b)%N.
Definition g_abs (b : N) : N := if g_neg b then (b - sign_bit32)%N else b.
Definition g_finite (b : N) : bool := ((b <? 4294967296) && (g_abs b <? inf_bits32))%N.

Definition g_bexp (a : N) : N := (a / two23)%N.
Definition g_mant (a : N) : N := if (g_bexp a =? 0)%N then (a mod two23)%N else (a mod two23 + two23)%N.
Definition g_exp2 (a : N) : Z := if (g_bexp a =? 0)%N then (-149)%Z else (Z.of_N (g_bexp a) - 150)%Z.
Definition g_num (a : N) : N := if (0 <=? g_exp2 a)%Z then (g_mant a * 2 ^ Z.to_N (g_exp2 a))%N else g_mant a.
Definition g_den (a : N) : N := if (0 <=? g_exp2 a)%Z then 1%N else (2 ^ Z.to_N (- g_exp2 a))%N.

(* pretty::format32 after f2d returned mantissa c, exponent k *)
Definition ryu32_shape (c : N) (k : Z) : fshape :=
  let ds := dec_digits c in
  let len := Z.of_nat (length ds) in
  let kk := (len + k)%Z in
  if ((0 <=? k) && (kk <=? 13))%Z then
    {| fs_ints := ds ++ zeros (Z.to_nat k); fs_fracs := [0%N]; fs_exp := None |}
  else if ((0 <? kk) && (kk <=? 13))%Z then
    {| fs_ints := firstn (Z.to_nat kk) ds; fs_fracs := skipn (Z.to_nat kk) ds; fs_exp := None |}
  else if ((-6 <? kk) && (kk <=? 0))%Z then
    {| fs_ints := [0%N]; fs_fracs := zeros (Z.to_nat (- kk)) ++ ds; fs_exp := None |}
  else if (len =? 1)%Z then
    {| fs_ints := ds; fs_fracs := []; fs_exp := Some (kk - 1)%Z |}
  else
    {| fs_ints := firstn 1 ds; fs_fracs := skipn 1 ds; fs_exp := Some (kk - 1)%Z |}.

(* the literal reads back to the binary32 with magnitude bits [a] *)
Definition shape_reads32 (a : N) (sh : fshape) : bool :=
  shape_wf sh &&
  match f32_of_decimal (shape_D sh) (shape_E sh) with
  | Some b => (b =? a)%N
  | None => false
  end.

Definition scale10_32 (a : N) (k : Z) : N * N :=
  if (0 <=? k)%Z then (g_num a, g_den a * 10 ^ Z.to_N k)%N else (g_num a * 10 ^ Z.to_N (- k), g_den a)%N.

Definition try_k32 (a : N) (k : Z) : option N :=
  let (n, d) := scale10_32 a k in
  let c := (n / d)%N in
  let lo := ((1 <=? c)%N && shape_reads32 a (ryu32_shape c k)) in
  let hi := shape_reads32 a (ryu32_shape (c + 1) k) in
  match lo, hi with
  | false, false => None
  | true, false => Some c
  | false, true => Some (c + 1)%N
  | true, true =>
      if (2 * n <? (2 * c + 1) * d)%N then Some c
      else if (2 * n =? (2 * c + 1) * d)%N then (if N.even c then Some c else Some (c + 1)%N)
      else Some (c + 1)%N
  end.

Fixpoint ryu32_ascend (steps : nat) (a : N) (k : Z) (best : option (N * Z)) : option (N * Z) :=
  match steps with
  | O => best
  | S s =>
      match try_k32 a k with
      | Some c => ryu32_ascend s a (k + 1)%Z (Some (c, k))
      | None => best
      end
  end.

Definition ryu32_top (a : N) : Z :=
  ((Z.of_N (N.log2 (g_num a)) - Z.of_N (N.log2 (g_den a)) + 1) * 30103 / 100000 + 2)%Z.

(* from an exponent that leaves 10 to 12 digits (9 always suffice for a binary32) *)
Definition ryu32_f2d (a : N) : option (N * Z) := ryu32_ascend 18 a (ryu32_top a - 13)%Z None.

Definition ryu32_abs (a : N) : option fshape :=
  if (a =? 0)%N then Some zero_shape
  else match ryu32_f2d a with
       | Some (c, k) => Some (ryu32_shape c k)
       | None => None
       end.

(* serde_json's serialize_f32 *)
Definition json_f32 (b : N) : bytes :=
  if g_finite b then
    (if g_neg b then [45%N] else []) ++ match ryu32_abs (g_abs b) with Some sh => shape_text sh | None => [] end
  else [110; 117; 108; 108]%N.

Definition json_f32_found (b : N) : bool :=
  negb (g_finite b) || match ryu32_abs (g_abs b) with Some _ => true | None => false end.
