(* F64Proofs.v — the decimal -> binary64 conversion of the JSON reader model
   (JsonModel.f64_of_decimal) is correctly rounded: the significand it returns is
   floor or floor+1 of the exact value scaled to the result's binade, chosen by
   round-half-to-even, and that binade is the normalised one (a 53-bit
   significand, or the fixed subnormal scale 2^-1074). *)
From XtModel Require Import Base Utf8 MsgpackModel JsonModel JsonWriteModel JsonFloatModel.
Require Import ZifyBool ZifyNat ZifyN.

Local Open Scope N_scope.

(* ---------- [scaled] without the case split ---------- *)

Definition sc_n (num : N) (s : Z) : N := num * 2 ^ Z.to_N s.
Definition sc_d (den : N) (s : Z) : N := den * 2 ^ Z.to_N (- s).
Definition qs (num den : N) (s : Z) : N := sc_n num s / sc_d den s.

Lemma scaled_eq num den s :
  scaled num den s = (qs num den s, sc_n num s mod sc_d den s, sc_d den s).
Proof.
  unfold scaled, qs, sc_n, sc_d. destruct (0 <=? s)%Z eqn:E.
  - replace (Z.to_N (- s)) with 0 by lia. rewrite N.pow_0_r, N.mul_1_r. reflexivity.
  - replace (Z.to_N s) with 0 by lia. rewrite N.pow_0_r, N.mul_1_r. reflexivity.
Qed.

Lemma pow2_pos n : 0 < 2 ^ n.
Proof. apply N.neq_0_lt_0. apply N.pow_nonzero. discriminate. Qed.

Lemma sc_d_pos den s : 0 < den -> 0 < sc_d den s.
Proof. intros H. unfold sc_d. pose proof (pow2_pos (Z.to_N (- s))). nia. Qed.

Lemma div2_cases P Q : 0 < Q -> (2 * P) / Q = 2 * (P / Q) \/ (2 * P) / Q = 2 * (P / Q) + 1.
Proof.
  intros HQ. pose proof (N.div_mod P Q ltac:(lia)) as E.
  pose proof (N.mod_lt P Q ltac:(lia)) as L.
  set (q := P / Q) in *. set (r := P mod Q) in *.
  destruct (N.lt_ge_cases (2 * r) Q) as [H|H].
  - left. symmetry. apply (N.div_unique (2 * P) Q (2 * q) (2 * r)); [exact H|nia].
  - right. symmetry. apply (N.div_unique (2 * P) Q (2 * q + 1) (2 * r - Q)); [lia|nia].
Qed.

Lemma qs_succ num den s : 0 < den ->
  qs num den (s + 1) = 2 * qs num den s \/ qs num den (s + 1) = 2 * qs num den s + 1.
Proof.
  intros Hd. unfold qs, sc_n, sc_d. destruct (0 <=? s)%Z eqn:E.
  - replace (Z.to_N (- s)) with 0 by lia. replace (Z.to_N (- (s + 1))) with 0 by lia.
    replace (Z.to_N (s + 1)) with (N.succ (Z.to_N s)) by lia. rewrite N.pow_succ_r', N.pow_0_r, N.mul_1_r.
    replace (num * (2 * 2 ^ Z.to_N s)) with (2 * (num * 2 ^ Z.to_N s)) by lia.
    apply div2_cases. exact Hd.
  - replace (Z.to_N s) with 0 by lia. replace (Z.to_N (s + 1)) with 0 by lia.
    replace (Z.to_N (- s)) with (N.succ (Z.to_N (- (s + 1)))) by lia.
    rewrite N.pow_succ_r', N.pow_0_r, N.mul_1_r.
    set (Q1 := den * 2 ^ Z.to_N (- (s + 1))).
    assert (HQ1 : 0 < Q1) by (subst Q1; pose proof (pow2_pos (Z.to_N (- (s + 1)))); nia).
    replace (den * (2 * 2 ^ Z.to_N (- (s + 1)))) with (Q1 * 2) by (subst Q1; lia).
    rewrite <- N.div_div by lia.
    pose proof (N.div_mod (num / Q1) 2 ltac:(lia)) as E2. pose proof (N.mod_lt (num / Q1) 2 ltac:(lia)) as L2.
    lia.
Qed.

Lemma qs_mono_nat num den s : 0 < den -> forall n : nat, qs num den s <= qs num den (s + Z.of_nat n).
Proof.
  intros Hd. induction n as [|n IH].
  - replace (s + Z.of_nat 0)%Z with s by lia. lia.
  - replace (s + Z.of_nat (S n))%Z with ((s + Z.of_nat n) + 1)%Z by lia.
    destruct (qs_succ num den (s + Z.of_nat n) Hd) as [H|H]; lia.
Qed.

Lemma qs_mono num den s t : 0 < den -> (s <= t)%Z -> qs num den s <= qs num den t.
Proof.
  intros Hd H. replace t with (s + Z.of_nat (Z.to_nat (t - s)))%Z by lia. apply qs_mono_nat. exact Hd.
Qed.

(* ---------- the first estimate of the scale is within one bit ---------- *)

Lemma qs_estimate num den : 0 < num -> 0 < den ->
  let s0 := (52 - (Z.of_N (N.log2 num) - Z.of_N (N.log2 den)))%Z in
  2 ^ 51 <= qs num den s0 < 2 ^ 53.
Proof.
  intros Hn Hd s0.
  destruct (N.log2_spec num Hn) as [La Ua]. destruct (N.log2_spec den Hd) as [Lb Ub].
  set (a := N.log2 num) in *. set (b := N.log2 den) in *.
  rewrite N.pow_succ_r' in Ua, Ub.
  unfold qs, sc_n, sc_d.
  destruct (0 <=? s0)%Z eqn:E.
  - replace (Z.to_N (- s0)) with 0 by lia. rewrite N.pow_0_r, N.mul_1_r.
    replace (Z.to_N s0) with (52 + b - a) by lia.
    assert (Hp : 2 ^ a * 2 ^ (52 + b - a) = 2 ^ 52 * 2 ^ b).
    { rewrite <- !N.pow_add_r. f_equal. lia. }
    set (X := 2 ^ (52 + b - a)) in *. set (A := 2 ^ a) in *. set (B := 2 ^ b) in *.
    split.
    + apply N.div_le_lower_bound; [lia|]. change (2 ^ 51) with 2251799813685248. change (2 ^ 52) with 4503599627370496 in Hp. nia.
    + apply N.div_lt_upper_bound; [lia|]. change (2 ^ 53) with 9007199254740992. change (2 ^ 52) with 4503599627370496 in Hp. nia.
  - replace (Z.to_N s0) with 0 by lia. rewrite N.pow_0_r, N.mul_1_r.
    replace (Z.to_N (- s0)) with (a - 52 - b) by lia.
    assert (Hp : 2 ^ 52 * 2 ^ b * 2 ^ (a - 52 - b) = 2 ^ a).
    { rewrite <- !N.pow_add_r. f_equal. lia. }
    set (X := 2 ^ (a - 52 - b)) in *. set (A := 2 ^ a) in *. set (B := 2 ^ b) in *.
    assert (HX : 0 < X) by (subst X; apply pow2_pos).
    split.
    + apply N.div_le_lower_bound; [nia|]. change (2 ^ 51) with 2251799813685248. change (2 ^ 52) with 4503599627370496 in Hp. nia.
    + apply N.div_lt_upper_bound; [nia|]. change (2 ^ 53) with 9007199254740992. change (2 ^ 52) with 4503599627370496 in Hp. nia.
Qed.

(* ---------- the scale the conversion settles on ---------- *)

Definition pick_scale (num den : N) : Z :=
  let lb := (Z.of_N (N.log2 num) - Z.of_N (N.log2 den))%Z in
  let s0 := (52 - lb)%Z in
  let q0 := qs num den s0 in
  let s1 := if (q0 <? two52) then (s0 + 1)%Z else s0 in
  if (1074 <? s1)%Z then 1074%Z else s1.

(* normalised: a 53-bit significand, or the subnormal scale with a smaller one *)
Definition normalised (num den : N) (s : Z) : Prop :=
  (s = 1074%Z /\ qs num den s < 2 ^ 53) \/ ((s < 1074)%Z /\ 2 ^ 52 <= qs num den s < 2 ^ 53).

Lemma pick_scale_normalised num den : 0 < num -> 0 < den -> normalised num den (pick_scale num den).
Proof.
  intros Hn Hd. pose proof (qs_estimate num den Hn Hd) as He. cbv zeta in He.
  unfold pick_scale. set (s0 := (52 - (Z.of_N (N.log2 num) - Z.of_N (N.log2 den)))%Z) in *.
  change two52 with (2 ^ 52). change (2 ^ 51) with 2251799813685248 in *. change (2 ^ 52) with 4503599627370496 in *.
  change (2 ^ 53) with 9007199254740992 in *.
  assert (H1 : let s1 := (if qs num den s0 <? 4503599627370496 then (s0 + 1)%Z else s0) in
               4503599627370496 <= qs num den s1 < 9007199254740992).
  { cbv zeta. destruct (qs num den s0 <? 4503599627370496) eqn:E.
    - destruct (qs_succ num den s0 Hd) as [H|H]; lia.
    - lia. }
  cbv zeta in H1. set (s1 := (if qs num den s0 <? 4503599627370496 then (s0 + 1)%Z else s0)) in *.
  unfold normalised. change (2 ^ 52) with 4503599627370496. change (2 ^ 53) with 9007199254740992.
  destruct (1074 <? s1)%Z eqn:E.
  - left. split; [reflexivity|]. pose proof (qs_mono num den 1074 s1 Hd ltac:(lia)). lia.
  - destruct (Z.eq_dec s1 1074) as [->|Hne]; [left; split; [reflexivity|lia]|right; split; [lia|exact H1]].
Qed.

(* ---------- round half to even on (quotient, remainder, divisor) ---------- *)

Definition rne (q r d : N) : N := if (d <? 2 * r) || ((d =? 2 * r) && N.odd q) then q + 1 else q.

(* [m] is the integer nearest to P/Q, the even one on a tie *)
Definition nearest_even (P Q m : N) : Prop :=
  (2 * P <= (2 * m + 1) * Q) /\ ((2 * m) * Q <= 2 * P + Q) /\
  (2 * P = (2 * m + 1) * Q -> N.even m = true) /\ ((2 * m) * Q = 2 * P + Q -> N.even m = true).

Lemma rne_nearest P Q : 0 < Q -> nearest_even P Q (rne (P / Q) (P mod Q) Q).
Proof.
  intros HQ. pose proof (N.div_mod P Q ltac:(lia)) as E. pose proof (N.mod_lt P Q ltac:(lia)) as L.
  set (q := P / Q) in *. set (r := P mod Q) in *. unfold rne, nearest_even.
  destruct (Q <? 2 * r) eqn:E1; cbn [orb].
  - split; [nia|]. split; [nia|]. split; intros H; exfalso; nia.
  - destruct (Q =? 2 * r) eqn:E2; cbn [andb].
    + destruct (N.odd q) eqn:Eo.
      * split; [nia|]. split; [nia|]. split; [intros H; exfalso; nia|].
        intros _. rewrite N.add_1_r, N.even_succ. exact Eo.
      * split; [nia|]. split; [nia|]. split; [|intros H; exfalso; nia].
        intros _. rewrite <- N.negb_odd, Eo. reflexivity.
    + split; [nia|]. split; [nia|]. split; intros H; exfalso; nia.
Qed.

(* ---------- the conversion, step by step ---------- *)

Definition dec_num (D : N) (E : Z) : N := if (0 <=? E)%Z then D * 10 ^ Z.to_N E else D.
Definition dec_den (E : Z) : N := if (0 <=? E)%Z then 1 else 10 ^ Z.to_N (- E).

Lemma dec_num_pos D E : 0 < D -> 0 < dec_num D E.
Proof.
  intros H. unfold dec_num. destruct (0 <=? E)%Z; [|exact H].
  assert (0 < 10 ^ Z.to_N E) by (apply N.neq_0_lt_0, N.pow_nonzero; discriminate). nia.
Qed.

Lemma dec_den_pos E : 0 < dec_den E.
Proof.
  unfold dec_den. destruct (0 <=? E)%Z; [lia|]. apply N.neq_0_lt_0, N.pow_nonzero. discriminate.
Qed.

(* in range: neither of the two early exits *)
Definition dec_in_range (D : N) (E : Z) : bool :=
  negb (400 <? E)%Z && negb (E <? - (400 + Z.of_N (N.log2 D) / 3 + 1))%Z.

Lemma f64_of_decimal_unfold D E : D <> 0 -> dec_in_range D E = true ->
  let num := dec_num D E in let den := dec_den E in
  let s := pick_scale num den in
  let q' := rne (qs num den s) (sc_n num s mod sc_d den s) (sc_d den s) in
  let bits := q' + Z.to_N (1074 - s) * two52 in
  f64_of_decimal D E = if inf_bits <=? bits then None else Some bits.
Proof.
  intros HD Hr. unfold dec_in_range in Hr. apply andb_prop in Hr as (H1 & H2).
  cbv zeta. unfold f64_of_decimal.
  destruct (D =? 0) eqn:E0; [lia|]. destruct (400 <? E)%Z; [discriminate|].
  destruct (E <? - (400 + Z.of_N (N.log2 D) / 3 + 1))%Z; [discriminate|].
  fold (dec_num D E). fold (dec_den E).
  set (num := dec_num D E). set (den := dec_den E).
  rewrite !scaled_eq. cbn [fst].
  fold (pick_scale num den). set (s := pick_scale num den).
  unfold rne. reflexivity.
Qed.

(* ---------- what the returned bit pattern denotes ---------- *)

(* f_bexp, f_mant, f_exp2 (JsonFloatModel.v): biased exponent, significand and
   power of two of a magnitude bit pattern: its value is f_mant * 2^f_exp2 *)

(* the bits assembled from a rounded significand at scale s decode to that
   significand at that scale (or, when rounding carried into the next binade,
   to 2^52 one binade up) *)
Lemma assemble_decodes s q' : (s <= 1074)%Z -> q' <= 2 ^ 53 -> ((s < 1074)%Z -> 2 ^ 52 <= q') ->
  let a := q' + Z.to_N (1074 - s) * two52 in
  (q' < 2 ^ 53 /\ f_mant a = q' /\ f_exp2 a = (- s)%Z) \/
  (q' = 2 ^ 53 /\ f_mant a = 2 ^ 52 /\ f_exp2 a = (1 - s)%Z).
Proof.
  intros Hs Hq Hn. cbv zeta. unfold f_mant, f_exp2, f_bexp.
  change two52 with 4503599627370496. change (2 ^ 53) with 9007199254740992 in *. change (2 ^ 52) with 4503599627370496 in *.
  set (k := Z.to_N (1074 - s)).
  destruct (N.lt_ge_cases q' 4503599627370496) as [Hlt|Hge].
  - assert (s = 1074%Z) by lia. subst s. replace k with 0 by lia.
    left. rewrite N.mul_0_l, N.add_0_r. rewrite N.div_small by lia. rewrite N.mod_small by lia.
    change (0 =? 0) with true. cbv iota. repeat split; lia.
  - destruct (N.eq_dec q' 9007199254740992) as [->|Hne].
    + right. replace (9007199254740992 + k * 4503599627370496) with (0 + (k + 2) * 4503599627370496) by lia.
      rewrite N.div_add by lia. rewrite N.mod_add by lia.
      change (0 / 4503599627370496) with 0. change (0 mod 4503599627370496) with 0.
      destruct (0 + (k + 2) =? 0) eqn:E; [lia|]. repeat split; lia.
    + left. replace (q' + k * 4503599627370496) with ((q' - 4503599627370496) + (k + 1) * 4503599627370496) by lia.
      rewrite N.div_add by lia. rewrite N.mod_add by lia.
      rewrite N.div_small by lia. rewrite N.mod_small by lia.
      destruct (0 + (k + 1) =? 0) eqn:E; [lia|]. repeat split; lia.
Qed.

Lemma rne_le q r d : rne q r d <= q + 1.
Proof. unfold rne. destruct ((d <? 2 * r) || ((d =? 2 * r) && N.odd q)); lia. Qed.
Lemma rne_ge q r d : q <= rne q r d.
Proof. unfold rne. destruct ((d <? 2 * r) || ((d =? 2 * r) && N.odd q)); lia. Qed.

(* ---------- correct rounding ---------- *)

(* For a decimal D * 10^E with D > 0 inside the range the conversion computes
   on, a result Some a means: at some scale s <= 1074, the significand q' that
   is nearest (ties to even) to D * 10^E * 2^s has 53 bits or s is the
   subnormal scale, and a's bits decode to q' * 2^-s (or to 2^52 * 2^(1-s)
   when q' = 2^53). *)
Theorem f64_of_decimal_correctly_rounded D E a :
  D <> 0 -> dec_in_range D E = true -> f64_of_decimal D E = Some a ->
  let num := dec_num D E in let den := dec_den E in
  exists (s : Z) (q' : N),
    (s <= 1074)%Z /\ normalised num den s /\
    nearest_even (sc_n num s) (sc_d den s) q' /\
    a < inf_bits /\
    ((q' < 2 ^ 53 /\ f_mant a = q' /\ f_exp2 a = (- s)%Z) \/
     (q' = 2 ^ 53 /\ f_mant a = 2 ^ 52 /\ f_exp2 a = (1 - s)%Z)).
Proof.
  intros HD Hr H. cbv zeta. rewrite (f64_of_decimal_unfold D E HD Hr) in H. cbv zeta in H.
  set (num := dec_num D E) in *. set (den := dec_den E) in *.
  assert (Hn : 0 < num) by (apply dec_num_pos; lia). assert (Hd : 0 < den) by apply dec_den_pos.
  set (s := pick_scale num den) in *.
  pose proof (pick_scale_normalised num den Hn Hd) as Hnorm. fold s in Hnorm.
  set (q' := rne (qs num den s) (sc_n num s mod sc_d den s) (sc_d den s)) in *.
  destruct (inf_bits <=? q' + Z.to_N (1074 - s) * two52) eqn:Ei; [discriminate|]. inversion H; subst a; clear H.
  exists s, q'.
  assert (Hs : (s <= 1074)%Z) by (destruct Hnorm as [[-> _]|[H _]]; lia).
  pose proof (rne_le (qs num den s) (sc_n num s mod sc_d den s) (sc_d den s)) as Hle. fold q' in Hle.
  pose proof (rne_ge (qs num den s) (sc_n num s mod sc_d den s) (sc_d den s)) as Hge. fold q' in Hge.
  split; [exact Hs|]. split; [exact Hnorm|].
  split; [exact (rne_nearest (sc_n num s) (sc_d den s) (sc_d_pos den s Hd))|].
  split; [apply N.leb_gt in Ei; exact Ei|].
  unfold normalised in Hnorm.
  apply assemble_decodes; [exact Hs| |].
  - destruct Hnorm as [[_ H]|[_ [_ H]]]; change (2 ^ 53) with 9007199254740992 in *; lia.
  - intros Hlt. destruct Hnorm as [[-> _]|[_ [H _]]]; change (2 ^ 52) with 4503599627370496 in *; lia.
Qed.

(* ---------- uniqueness facts used to recognise a result ---------- *)

Lemma nearest_even_unique P Q m1 m2 : 0 < Q -> nearest_even P Q m1 -> nearest_even P Q m2 -> m1 = m2.
Proof.
  intros HQ (A1 & B1 & C1 & D1) (A2 & B2 & C2 & D2).
  destruct (N.lt_trichotomy m1 m2) as [H|[H|H]]; [|exact H|].
  - exfalso. assert (m2 = m1 + 1) by nia. subst m2.
    assert (E1 : 2 * P = (2 * m1 + 1) * Q) by nia. assert (E2 : 2 * (m1 + 1) * Q = 2 * P + Q) by nia.
    specialize (C1 E1). specialize (D2 E2). rewrite N.add_1_r, N.even_succ, <- N.negb_even, C1 in D2. discriminate.
  - exfalso. assert (m1 = m2 + 1) by nia. subst m1.
    assert (E1 : 2 * P = (2 * m2 + 1) * Q) by nia. assert (E2 : 2 * (m2 + 1) * Q = 2 * P + Q) by nia.
    specialize (C2 E1). specialize (D1 E2). rewrite N.add_1_r, N.even_succ, <- N.negb_even, C2 in D1. discriminate.
Qed.

(* the same ratio, written with other numerator and denominator *)
Lemma nearest_even_scale P1 Q1 P2 Q2 m : 0 < Q1 -> 0 < Q2 -> P1 * Q2 = P2 * Q1 ->
  nearest_even P1 Q1 m -> nearest_even P2 Q2 m.
Proof.
  intros H1 H2 E (A & B & C & D). unfold nearest_even.
  assert (A' : 2 * P2 <= (2 * m + 1) * Q2).
  { apply (N.mul_le_mono_pos_r _ _ Q1 H1). nia. }
  assert (B' : 2 * m * Q2 <= 2 * P2 + Q2).
  { apply (N.mul_le_mono_pos_r _ _ Q1 H1). nia. }
  split; [exact A'|]. split; [exact B'|]. split.
  - intros H. apply C. apply (N.mul_cancel_r _ _ Q2 ltac:(lia)). nia.
  - intros H. apply D. apply (N.mul_cancel_r _ _ Q2 ltac:(lia)). nia.
Qed.

Lemma sc_succ num den s : sc_n num (s + 1) * sc_d den s = 2 * sc_n num s * sc_d den (s + 1).
Proof.
  unfold sc_n, sc_d. destruct (0 <=? s)%Z eqn:E.
  - replace (Z.to_N (- s)) with 0 by lia. replace (Z.to_N (- (s + 1))) with 0 by lia.
    replace (Z.to_N (s + 1)) with (N.succ (Z.to_N s)) by lia. rewrite N.pow_succ_r'. nia.
  - replace (Z.to_N s) with 0 by lia. replace (Z.to_N (s + 1)) with 0 by lia.
    replace (Z.to_N (- s)) with (N.succ (Z.to_N (- (s + 1)))) by lia. rewrite N.pow_succ_r'. nia.
Qed.

Lemma normalised_unique num den s t : 0 < den -> normalised num den s -> normalised num den t -> s = t.
Proof.
  intros Hd Hs Ht. unfold normalised in *. change (2 ^ 52) with 4503599627370496 in *. change (2 ^ 53) with 9007199254740992 in *.
  destruct (Z.lt_trichotomy s t) as [H|[H|H]]; [|exact H|]; exfalso.
  - assert (Hs' : 4503599627370496 <= qs num den s) by (destruct Hs as [[-> _]|[_ [Hs _]]]; [destruct Ht as [[Ht _]|[Ht _]]; lia|exact Hs]).
    pose proof (qs_mono num den (s + 1) t Hd ltac:(lia)).
    destruct (qs_succ num den s Hd) as [E|E]; destruct Ht as [[_ Ht]|[_ [_ Ht]]]; lia.
  - assert (Ht' : 4503599627370496 <= qs num den t) by (destruct Ht as [[-> _]|[_ [Ht _]]]; [destruct Hs as [[Hs _]|[Hs _]]; lia|exact Ht]).
    pose proof (qs_mono num den (t + 1) s Hd ltac:(lia)).
    destruct (qs_succ num den t Hd) as [E|E]; destruct Hs as [[_ Hs]|[_ [_ Hs]]]; lia.
Qed.
