(* MsgpackSizeProofs.v — the size calculator without its fuel: results do not
   depend on the fuel once there is enough, giving fuel-free unfolding
   equations for next_value_size and total_seq_size. *)
From XtModel Require Import Base MsgpackModel MsgpackProofs.
Require Import ZifyBool ZifyNat ZifyN.

(* the two collection computations of nvs, over an abstract total_seq *)
Definition seq_size (ts : bytes -> N -> szres) (inp : bytes) (hdr count : N) : szres :=
  sz_slice inp hdr (fun rest => sz_bind (ts rest count) (fun t => sz_finish inp (hdr + t)%N)).

Definition map_size (ts : bytes -> N -> szres) (inp : bytes) (hdr pairs : N) : szres :=
  sz_slice inp hdr (fun rest =>
    sz_bind (ts rest pairs) (fun first =>
      sz_slice rest first (fun rest2 =>
        sz_bind (ts rest2 pairs) (fun second => sz_finish inp (hdr + (first + second))%N)))).

(* one step of nvs on a non-empty input with a positive depth budget *)
Definition size_step (ts : bytes -> N -> szres) (m : N) (inp : bytes) : szres :=
  match classify m with
  | MkReserved => SzErr InvalidMarker
  | MkScalar p => sz_finish inp (1 + p)%N
  | MkStrFix n => sz_finish inp (1 + n)%N
  | MkStrLen w | MkBinLen w => sz_with_len w inp (fun n => sz_finish inp (1 + N.of_nat w + n)%N)
  | MkExtFix n => sz_finish inp (2 + n)%N
  | MkExtLen w => sz_with_len w inp (fun n => sz_finish inp (2 + N.of_nat w + n)%N)
  | MkArrFix n => seq_size ts inp 1%N n
  | MkArrLen w => sz_with_len w inp (fun n => seq_size ts inp (1 + N.of_nat w)%N n)
  | MkMapFix n => map_size ts inp 1%N n
  | MkMapLen w => sz_with_len w inp (fun n => map_size ts inp (1 + N.of_nat w)%N n)
  end.

Lemma nvs_unfold f inp dl :
  nvs (S f) inp dl =
    if dl =? 0 then SzErr DepthLimitExceeded
    else match inp with
         | [] => SzOk 0%N
         | m :: _ => size_step (fun r c => total_seq f r c dl) m inp
         end.
Proof.
  cbn [nvs]. destruct (dl =? 0); [reflexivity|]. destruct inp as [|m tl]; [reflexivity|].
  unfold size_step, seq_size, map_size. destruct (classify m); reflexivity.
Qed.

Lemma total_seq_unfold f seq count dl :
  total_seq (S f) seq count dl =
    if (count =? 0)%N then SzOk 0%N
    else match seq with
         | [] => SzErr Truncated
         | _ :: _ =>
             if dl =? 0 then SzPanic
             else sz_bind (nvs f seq (dl - 1)) (fun size =>
                    sz_slice seq size (fun rest =>
                      sz_bind (total_seq f rest (count - 1)%N dl) (fun t => SzOk (size + t)%N)))
         end.
Proof. reflexivity. Qed.

(* ---------- extensionality of one step in its total_seq ---------- *)

Definition agrees_unless_fuel (ts ts' : bytes -> N -> szres) : Prop :=
  forall r c, ts r c <> SzOutOfFuel -> ts' r c = ts r c.

Lemma seq_size_ext ts ts' inp hdr count :
  agrees_unless_fuel ts ts' -> seq_size ts inp hdr count <> SzOutOfFuel ->
  seq_size ts' inp hdr count = seq_size ts inp hdr count.
Proof.
  intros H. unfold seq_size, sz_slice. destruct (slice_from inp hdr) as [rest|]; [|reflexivity].
  intros Hnf. assert (Hts : ts rest count <> SzOutOfFuel) by (intros E; rewrite E in Hnf; now elim Hnf).
  now rewrite (H _ _ Hts).
Qed.

Lemma map_size_ext ts ts' inp hdr pairs :
  agrees_unless_fuel ts ts' -> map_size ts inp hdr pairs <> SzOutOfFuel ->
  map_size ts' inp hdr pairs = map_size ts inp hdr pairs.
Proof.
  intros H. unfold map_size, sz_slice. destruct (slice_from inp hdr) as [rest|]; [|reflexivity].
  intros Hnf. assert (Hts : ts rest pairs <> SzOutOfFuel) by (intros E; rewrite E in Hnf; now elim Hnf).
  rewrite (H _ _ Hts). destruct (ts rest pairs) as [first| | |]; cbn [sz_bind] in *; try reflexivity.
  destruct (slice_from rest first) as [rest2|]; [|reflexivity].
  assert (Hts2 : ts rest2 pairs <> SzOutOfFuel) by (intros E; rewrite E in Hnf; now elim Hnf).
  now rewrite (H _ _ Hts2).
Qed.

Lemma size_step_ext ts ts' m inp :
  agrees_unless_fuel ts ts' -> size_step ts m inp <> SzOutOfFuel ->
  size_step ts' m inp = size_step ts m inp.
Proof.
  intros H. unfold size_step, sz_with_len.
  destruct (classify m); try reflexivity.
  - apply seq_size_ext; assumption.
  - destruct (try_read_length w inp); [apply seq_size_ext; assumption|reflexivity].
  - apply map_size_ext; assumption.
  - destruct (try_read_length w inp); [apply map_size_ext; assumption|reflexivity].
Qed.

(* ---------- the result does not depend on the fuel ---------- *)

Definition smono_at (f : nat) : Prop :=
  (forall inp dl, nvs f inp dl <> SzOutOfFuel -> forall f', f <= f' -> nvs f' inp dl = nvs f inp dl) /\
  (forall seq c dl, total_seq f seq c dl <> SzOutOfFuel ->
                    forall f', f <= f' -> total_seq f' seq c dl = total_seq f seq c dl).

Lemma smono_all : forall f, smono_at f.
Proof.
  induction f as [|f [IHn IHs]]; split.
  - intros inp dl H. now elim H.
  - intros seq c dl H. now elim H.
  - intros inp dl Hnf f' Hle. destruct f' as [|f']; [lia|].
    rewrite !nvs_unfold in *. destruct (dl =? 0); [reflexivity|]. destruct inp as [|m tl]; [reflexivity|].
    apply size_step_ext; [|exact Hnf].
    intros r c Hts. apply IHs; [exact Hts|lia].
  - intros seq c dl Hnf f' Hle. destruct f' as [|f']; [lia|].
    rewrite !total_seq_unfold in *. destruct (c =? 0)%N; [reflexivity|]. destruct seq as [|b tl]; [reflexivity|].
    destruct (dl =? 0); [reflexivity|].
    assert (H1 : nvs f (b :: tl) (dl - 1) <> SzOutOfFuel) by (intros E; rewrite E in Hnf; now elim Hnf).
    rewrite (IHn _ _ H1 f' ltac:(lia)).
    destruct (nvs f (b :: tl) (dl - 1)) as [size| | |]; cbn [sz_bind] in *; try reflexivity.
    unfold sz_slice in *. destruct (slice_from (b :: tl) size) as [rest|]; [|reflexivity].
    assert (H2 : total_seq f rest (c - 1)%N dl <> SzOutOfFuel) by (intros E; rewrite E in Hnf; now elim Hnf).
    now rewrite (IHs _ _ _ H2 f' ltac:(lia)).
Qed.

(* ---------- fuel-free size calculation ---------- *)

Definition NV (inp : bytes) (dl : nat) : szres := nvs (2 * length inp + 1) inp dl.
Definition TS (dl : nat) (seq : bytes) (c : N) : szres := total_seq (2 * length seq + 2) seq c dl.

Lemma NV_fuel inp dl f : 2 * length inp + 1 <= f -> nvs f inp dl = NV inp dl.
Proof.
  intros H. unfold NV. apply (proj1 (smono_all _)); [|exact H].
  apply (proj1 (fuel_all _)). lia.
Qed.

Lemma NV_is_next_value_size inp dl : next_value_size inp dl = NV inp dl.
Proof. unfold next_value_size, nvs_fuel. apply NV_fuel. lia. Qed.

Lemma TS_fuel dl seq c f : dl <> 0 -> 2 * length seq + 2 <= f -> total_seq f seq c dl = TS dl seq c.
Proof.
  intros Hdl H. unfold TS. apply (proj2 (smono_all _)); [|exact H].
  apply (proj2 (fuel_all _)); [exact Hdl|lia].
Qed.

Lemma NV_not_fuel inp dl : NV inp dl <> SzOutOfFuel.
Proof. unfold NV. apply (proj1 (fuel_all _)). lia. Qed.

Lemma TS_not_fuel dl seq c : dl <> 0 -> TS dl seq c <> SzOutOfFuel.
Proof. intros H. unfold TS. apply (proj2 (fuel_all _)); [exact H|lia]. Qed.

Lemma NV_bounds inp dl n : NV inp dl = SzOk n -> (n <= len_n inp)%N /\ (inp <> [] -> 1 <= n)%N.
Proof. unfold NV. apply (proj1 (good_all _)). Qed.

Lemma TS_bounds dl seq c t : dl <> 0 -> TS dl seq c = SzOk t -> (t <= len_n seq)%N.
Proof. intros Hdl. unfold TS. apply (proj2 (good_all _)). exact Hdl. Qed.

Lemma NV_eq inp dl :
  NV inp dl =
    if dl =? 0 then SzErr DepthLimitExceeded
    else match inp with
         | [] => SzOk 0%N
         | m :: _ => size_step (TS dl) m inp
         end.
Proof.
  unfold NV. replace (2 * length inp + 1) with (S (2 * length inp)) by lia. rewrite nvs_unfold.
  destruct (dl =? 0) eqn:Hdl; [reflexivity|]. apply Nat.eqb_neq in Hdl.
  destruct inp as [|m tl]; [reflexivity|].
  (* every total_seq call is on a suffix of the input *)
  unfold size_step, sz_with_len, seq_size, map_size, sz_slice.
  assert (Hs : forall k rest, slice_from (m :: tl) k = Some rest -> (1 <= k)%N ->
               forall c, total_seq (2 * length (m :: tl)) rest c dl = TS dl rest c).
  { intros k rest Hk H1 c. apply slice_from_some in Hk as [Hle ->]. apply TS_fuel; [exact Hdl|].
    rewrite skipn_length. unfold len_n in Hle. cbn [length] in *. lia. }
  assert (Hs2 : forall k rest, slice_from (m :: tl) k = Some rest -> (1 <= k)%N ->
                forall k2 rest2, slice_from rest k2 = Some rest2 ->
                forall c, total_seq (2 * length (m :: tl)) rest2 c dl = TS dl rest2 c).
  { intros k rest Hk H1 k2 rest2 Hk2 c. apply slice_from_some in Hk as [Hle ->]. apply slice_from_some in Hk2 as [Hle2 ->].
    apply TS_fuel; [exact Hdl|]. rewrite !skipn_length. unfold len_n in *. cbn [length] in *. lia. }
  destruct (classify m); try reflexivity.
  - destruct (slice_from (m :: tl) 1) as [rest|] eqn:E; [|reflexivity]. now rewrite (Hs _ _ E ltac:(lia)).
  - destruct (try_read_length w (m :: tl)); [|reflexivity].
    destruct (slice_from (m :: tl) (1 + N.of_nat w)) as [rest|] eqn:E; [|reflexivity]. now rewrite (Hs _ _ E ltac:(lia)).
  - destruct (slice_from (m :: tl) 1) as [rest|] eqn:E; [|reflexivity]. rewrite (Hs _ _ E ltac:(lia)).
    destruct (TS dl rest n) as [first| | |]; cbn [sz_bind]; try reflexivity.
    destruct (slice_from rest first) as [rest2|] eqn:E2; [|reflexivity]. now rewrite (Hs2 _ _ E ltac:(lia) _ _ E2).
  - destruct (try_read_length w (m :: tl)); [|reflexivity].
    destruct (slice_from (m :: tl) (1 + N.of_nat w)) as [rest|] eqn:E; [|reflexivity]. rewrite (Hs _ _ E ltac:(lia)).
    destruct (TS dl rest n) as [first| | |]; cbn [sz_bind]; try reflexivity.
    destruct (slice_from rest first) as [rest2|] eqn:E2; [|reflexivity]. now rewrite (Hs2 _ _ E ltac:(lia) _ _ E2).
Qed.

Lemma TS_eq dl seq c :
  dl <> 0 ->
  TS dl seq c =
    if (c =? 0)%N then SzOk 0%N
    else match seq with
         | [] => SzErr Truncated
         | _ :: _ =>
             sz_bind (NV seq (dl - 1)) (fun size =>
               sz_slice seq size (fun rest =>
                 sz_bind (TS dl rest (c - 1)%N) (fun t => SzOk (size + t)%N)))
         end.
Proof.
  intros Hdl. unfold TS at 1. replace (2 * length seq + 2) with (S (2 * length seq + 1)) by lia.
  rewrite total_seq_unfold. destruct (c =? 0)%N; [reflexivity|]. destruct seq as [|b tl]; [reflexivity|].
  destruct (dl =? 0) eqn:E; [apply Nat.eqb_eq in E; contradiction|].
  rewrite (NV_fuel (b :: tl) (dl - 1) _ (le_n _)).
  destruct (NV (b :: tl) (dl - 1)) as [size| | |] eqn:En; cbn [sz_bind]; try reflexivity.
  destruct (NV_bounds _ _ _ En) as [Hle Hpos]. specialize (Hpos ltac:(discriminate)).
  unfold sz_slice. destruct (slice_from (b :: tl) size) as [rest|] eqn:Es; [|reflexivity].
  apply slice_from_some in Es as [_ ->].
  rewrite (TS_fuel dl _ _ (2 * length (b :: tl) + 1) Hdl); [reflexivity|].
  rewrite skipn_length. unfold len_n in Hle. cbn [length] in *. lia.
Qed.
