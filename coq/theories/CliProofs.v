(* CliProofs.v — exit status, stream discipline, source-format resolution,
   survival of earlier output and broken-pipe handling of the xt command line,
   for every argument vector, every list of inputs, every pattern of short
   writes and every point at which stdout starts to fail. *)
From XtModel Require Import Base FormatsModel IoModel IoProofs CliModel.

Lemma cap_at_extends k a bs :
  fits k (length a) = true ->
  prefix_of a (cap_at k (a ++ bs)) /\ prefix_of (cap_at k (a ++ bs)) (a ++ bs).
Proof.
  destruct k as [k|]; cbn [fits cap_at]; intros H.
  - apply Nat.leb_le in H. split; [|apply prefix_of_firstn].
    rewrite firstn_app, (firstn_all2 a) by lia. apply prefix_of_app.
  - split; [apply prefix_of_app|apply prefix_of_refl].
Qed.

(* ================= stdout: BufWriter + pipecheck over a device ================= *)

Section Stdout.
  Variable wsched : nat -> nat.
  Variable bcap : nat.
  Hypothesis bcap_pos : 0 < bcap.     (* BufWriter's capacity is 8192 *)

  Definition dev_ok (d : device) : Prop := sink_ok (dsink d).
  Definition dacc (d : device) : bytes := acc (dsink d).

  Lemma dev_put_spec d bs :
    dev_ok d ->
    let r := dev_put wsched d bs in
    dev_ok (fst r) /\ dbroken (fst r) = dbroken d /\ wfault (dsink (fst r)) = wfault (dsink d) /\
    prefix_of (dacc d) (dacc (fst r)) /\ prefix_of (dacc (fst r)) (dacc d ++ bs) /\
    (snd r = true -> dacc (fst r) = dacc d ++ bs) /\
    (wfault (dsink d) = None -> snd r = true).
  Proof.
    intros Hok. cbn zeta. unfold dev_put, dev_ok, dacc in *.
    pose proof (put_spec wsched (dsink d) bs Hok) as H. cbn zeta in H.
    destruct (put wsched (dsink d) bs) as [s' r]. cbn [fst snd] in H.
    destruct H as (Hf & Ha & Hok' & Hr).
    destruct (cap_at_extends (wfault (dsink d)) (acc (dsink d)) bs Hok) as [P1 P2].
    rewrite <- Ha in P1, P2.
    destruct Hr as [[-> Hfit]|[-> Hfit]]; cbn [fst snd dsink dbroken];
      (split; [exact Hok'|split; [reflexivity|split; [exact Hf|split; [exact P1|split; [exact P2|split]]]]]).
    - intros _. rewrite Ha. now apply cap_at_fits.
    - reflexivity.
    - discriminate.
    - intros Hn. rewrite Hn in Hfit. discriminate.
  Qed.

  (* What one writer call did: on success every byte is accounted for (on the
     device or in the buffer); on failure the device holds a prefix, the kind of
     failure follows the device, and the error is never dropped. *)
  Definition step_post (w : bufw) (bs : bytes) (w' : bufw) (r : wout) : Prop :=
    dev_ok (bdev w') /\ dbroken (bdev w') = dbroken (bdev w) /\
    wfault (dsink (bdev w')) = wfault (dsink (bdev w)) /\
    prefix_of (dacc (bdev w)) (dacc (bdev w')) /\
    prefix_of (dacc (bdev w')) (dacc (bdev w) ++ bbuf w ++ bs) /\
    match r with
    | WoOk => dacc (bdev w') ++ bbuf w' = dacc (bdev w) ++ bbuf w ++ bs
    | WoSigpipe => dbroken (bdev w) = true /\ wfault (dsink (bdev w)) <> None
    | WoErr => dbroken (bdev w) = false /\ wfault (dsink (bdev w)) <> None
    end.

  Lemma pc_fail d : pc d false = if dbroken d then WoSigpipe else WoErr.
  Proof. reflexivity. Qed.

  Lemma bw_write_all_spec w bs :
    dev_ok (bdev w) ->
    step_post w bs (fst (bw_write_all wsched bcap w bs)) (snd (bw_write_all wsched bcap w bs)).
  Proof.
    intros Hok. unfold bw_write_all, step_post.
    destruct (length bs <? bcap - length (bbuf w)) eqn:Hfast.
    - cbn [fst snd bbuf bdev].
      repeat split; try assumption; try apply prefix_of_refl; try apply prefix_of_app; try (now rewrite app_assoc).
    - (* flush when it does not fit *)
      pose proof (dev_put_spec (bdev w) (bbuf w) Hok) as Hfl. cbn zeta in Hfl.
      destruct (bcap - length (bbuf w) <? length bs) eqn:Hneed.
      + destruct (dev_put wsched (bdev w) (bbuf w)) as [d1 ok1]. cbn [fst snd] in Hfl.
        destruct Hfl as (Hok1 & Hb1 & Hf1 & P1 & P2 & Hall1 & Hnf1).
        destruct ok1.
        * specialize (Hall1 eq_refl).
          cbn [fst snd bbuf bdev].
          destruct (bcap <=? length bs) eqn:Hbig.
          -- pose proof (dev_put_spec d1 bs Hok1) as H2. cbn zeta in H2.
             destruct (dev_put wsched d1 bs) as [d2 ok2]. cbn [fst snd] in H2.
             destruct H2 as (Hok2 & Hb2 & Hf2 & Q1 & Q2 & Hall2 & Hnf2).
             cbn [fst snd bbuf bdev].
             split; [exact Hok2|]. split; [congruence|]. split; [congruence|].
             split; [eapply prefix_of_trans; eassumption|].
             split; [rewrite Hall1 in Q2; now rewrite <- app_assoc in Q2|].
             destruct ok2.
             ++ cbn [pc]. rewrite (Hall2 eq_refl), Hall1, app_nil_r. now rewrite app_assoc.
             ++ rewrite pc_fail, Hb2, Hb1.
                assert (Hne : wfault (dsink (bdev w)) <> None).
                { intros Hn. rewrite <- Hf1 in Hn. specialize (Hnf2 Hn). discriminate. }
                destruct (dbroken (bdev w)); split; auto.
          -- cbn [fst snd bbuf bdev].
             split; [exact Hok1|]. split; [first [exact Hb1|reflexivity]|]. split; [exact Hf1|].
             split; [exact P1|]. split.
             ++ rewrite Hall1. exists bs. now rewrite app_assoc.
             ++ rewrite Hall1. cbn [app]. now rewrite app_assoc.
        * cbn [fst snd bbuf bdev]. rewrite pc_fail, Hb1.
          split; [exact Hok1|]. split; [first [exact Hb1|reflexivity]|]. split; [exact Hf1|].
          split; [exact P1|]. split.
          -- eapply prefix_of_trans; [exact P2|]. exists bs. now rewrite app_assoc.
          -- assert (Hne : wfault (dsink (bdev w)) <> None).
             { intros Hn. specialize (Hnf1 Hn). discriminate. }
             destruct (dbroken (bdev w)); split; auto.
      + (* it fits exactly: no flush *)
        destruct (bcap <=? length bs) eqn:Hbig.
        * pose proof (dev_put_spec (bdev w) bs Hok) as H2. cbn zeta in H2.
          destruct (dev_put wsched (bdev w) bs) as [d2 ok2]. cbn [fst snd] in H2.
          destruct H2 as (Hok2 & Hb2 & Hf2 & Q1 & Q2 & Hall2 & Hnf2).
          (* then the buffer is empty *)
          apply Nat.ltb_ge in Hfast. apply Nat.ltb_ge in Hneed. apply Nat.leb_le in Hbig.
          assert (Hempty : bbuf w = []) by (destruct (bbuf w); [reflexivity|cbn [length] in *; lia]).
          cbn [fst snd bbuf bdev]. rewrite Hempty. cbn [app].
          split; [exact Hok2|]. split; [first [exact Hb2|reflexivity|congruence]|]. split; [exact Hf2|].
          split; [exact Q1|]. split; [exact Q2|].
          destruct ok2.
          -- cbn [pc]. rewrite app_nil_r. now apply Hall2.
          -- rewrite pc_fail, Hb2.
             assert (Hne : wfault (dsink (bdev w)) <> None).
             { intros Hn. specialize (Hnf2 Hn). discriminate. }
             destruct (dbroken (bdev w)); split; auto.
        * cbn [fst snd bbuf bdev].
          repeat split; try assumption; try apply prefix_of_refl; try apply prefix_of_app; try (now rewrite app_assoc).
  Qed.

  Lemma bw_flush_spec w :
    dev_ok (bdev w) ->
    step_post w [] (fst (bw_flush wsched w)) (snd (bw_flush wsched w)) /\
    (snd (bw_flush wsched w) = WoOk -> bbuf (fst (bw_flush wsched w)) = []).
  Proof.
    intros Hok. unfold bw_flush, step_post.
    pose proof (dev_put_spec (bdev w) (bbuf w) Hok) as Hfl. cbn zeta in Hfl.
    destruct (dev_put wsched (bdev w) (bbuf w)) as [d1 ok1]. cbn [fst snd] in Hfl.
    destruct Hfl as (Hok1 & Hb1 & Hf1 & P1 & P2 & Hall1 & Hnf1).
    rewrite app_nil_r.
    destruct ok1; cbn [fst snd bbuf bdev].
    - split; [|reflexivity]. repeat split; try assumption. rewrite app_nil_r. now apply Hall1.
    - split; [|rewrite pc_fail; destruct (dbroken d1); discriminate].
      rewrite pc_fail, Hb1.
      split; [exact Hok1|]. split; [first [exact Hb1|reflexivity]|]. split; [exact Hf1|]. split; [exact P1|]. split; [exact P2|].
      assert (Hne : wfault (dsink (bdev w)) <> None).
      { intros Hn. specialize (Hnf1 Hn). discriminate. }
      destruct (dbroken (bdev w)); split; auto.
  Qed.

  Lemma bw_run_spec tr : forall w,
    dev_ok (bdev w) ->
    step_post w (concat tr) (fst (bw_run wsched bcap w tr)) (snd (bw_run wsched bcap w tr)).
  Proof.
    induction tr as [|c tr IH]; intros w Hok; cbn [bw_run concat].
    - cbn [fst snd]. unfold step_post. rewrite app_nil_r.
      repeat split; try assumption; try apply prefix_of_refl. apply prefix_of_app.
    - pose proof (bw_write_all_spec w c Hok) as H1.
      destruct (bw_write_all wsched bcap w c) as [w1 r1]. cbn [fst snd] in H1.
      destruct H1 as (Hok1 & Hb1 & Hf1 & P1 & P2 & Hr1).
      destruct r1.
      + specialize (IH w1 Hok1).
        destruct (bw_run wsched bcap w1 tr) as [w2 r2]. cbn [fst snd] in *.
        destruct IH as (Hok2 & Hb2 & Hf2 & Q1 & Q2 & Hr2).
        unfold step_post.
        split; [exact Hok2|]. split; [congruence|]. split; [congruence|].
        split; [eapply prefix_of_trans; eassumption|].
        assert (E : dacc (bdev w1) ++ bbuf w1 ++ concat tr = dacc (bdev w) ++ bbuf w ++ c ++ concat tr).
        { rewrite app_assoc, Hr1. now rewrite <- !app_assoc. }
        split; [now rewrite <- E|].
        destruct r2.
        * now rewrite Hr2.
        * now rewrite <- Hb1, <- Hf1.
        * now rewrite <- Hb1, <- Hf1.
      + cbn [fst snd]. unfold step_post.
        split; [exact Hok1|]. split; [first [exact Hb1|reflexivity]|]. split; [exact Hf1|]. split; [exact P1|].
        split; [|exact Hr1].
        eapply prefix_of_trans; [exact P2|]. exists (concat tr). now rewrite <- !app_assoc.
      + cbn [fst snd]. unfold step_post.
        split; [exact Hok1|]. split; [first [exact Hb1|reflexivity]|]. split; [exact Hf1|]. split; [exact P1|].
        split; [|exact Hr1].
        eapply prefix_of_trans; [exact P2|]. exists (concat tr). now rewrite <- !app_assoc.
  Qed.

  (* ================= the loop over inputs ================= *)

  Definition all_out (ins : list inp) : bytes := flat_map (fun i => concat (i_trace i)) ins.

  Definition good (i : inp) : Prop := i_open i <> OpenErr /\ i_ok i = true.

  Definition status_ok (st : status) : Prop := st = Exit 0 \/ st = Exit 1 \/ st = Signal13.

  (* The facts that hold of every run of the loop. *)
  Record loop_facts (w : bufw) (ins : list inp) (o : outcome) : Prop := {
    lf_status : status_ok (o_status o);
    lf_grows : prefix_of (dacc (bdev w)) (o_stdout o);
    lf_clean : prefix_of (o_stdout o) (dacc (bdev w) ++ all_out ins);
    lf_exit0 : o_status o = Exit 0 ->
               o_stdout o = dacc (bdev w) ++ all_out ins /\ o_stderr o = ErrNone /\ Forall good ins;
    lf_sigpipe : o_status o = Signal13 -> dbroken (bdev w) = true /\ o_stderr o = ErrNone /\
                                          wfault (dsink (bdev w)) <> None;
    lf_exit1 : o_status o = Exit 1 -> o_stderr o <> ErrNone /\ o_stderr o <> ErrUsage;
    lf_nofault : wfault (dsink (bdev w)) = None -> o_status o <> Signal13;
  }.

  Lemma finish_facts_fail w0 ins w e op sr :
    prefix_of (dacc (bdev w0)) (dacc (bdev w)) ->
    prefix_of (dacc (bdev w)) (dacc (bdev w0) ++ all_out ins) ->
    e <> ErrNone -> e <> ErrUsage ->
    loop_facts w0 ins (finish (Exit 1) w e op sr).
  Proof.
    intros P1 P2 He1 He2. constructor; cbn [finish o_status o_stdout o_stderr]; try discriminate.
    - right. now left.
    - exact P1.
    - exact P2.
    - intros _. now split.
  Qed.

  Lemma finish_facts_sig w0 ins w op sr :
    prefix_of (dacc (bdev w0)) (dacc (bdev w)) ->
    prefix_of (dacc (bdev w)) (dacc (bdev w0) ++ all_out ins) ->
    dbroken (bdev w0) = true -> wfault (dsink (bdev w0)) <> None ->
    loop_facts w0 ins (finish Signal13 w ErrNone op sr).
  Proof.
    intros P1 P2 Hb Hf. constructor; cbn [finish o_status o_stdout o_stderr]; try discriminate.
    - right. now right.
    - exact P1.
    - exact P2.
    - intros _. now repeat split.
    - intros Hn. now elim Hf.
  Qed.

  Lemma main_loop_facts ins : forall w su op sr,
    dev_ok (bdev w) -> bbuf w = [] ->
    loop_facts w ins (main_loop wsched bcap w su op sr ins).
  Proof.
    induction ins as [|i rest IH]; intros w su op sr Hok Hbuf; cbn [main_loop].
    - constructor; cbn [finish o_status o_stdout o_stderr all_out flat_map]; try discriminate.
      + now left.
      + apply prefix_of_refl.
      + rewrite app_nil_r. apply prefix_of_refl.
      + intros _. rewrite app_nil_r. repeat split. constructor.
    - assert (Pre : forall z, prefix_of (dacc (bdev w)) (dacc (bdev w) ++ z)) by (intros; apply prefix_of_app).
      destruct (i_open i) eqn:Hopen.
      + apply finish_facts_fail; [apply prefix_of_refl|apply Pre|discriminate|discriminate].
      + (* stdin *)
        cbn [andb]. destruct su.
        * apply finish_facts_fail; [apply prefix_of_refl|apply Pre|discriminate|discriminate].
        * cbn [orb].
          pose proof (bw_run_spec (i_trace i) w Hok) as Hr.
          destruct (bw_run wsched bcap w (i_trace i)) as [w1 r1]. cbn [fst snd] in Hr.
          destruct Hr as (Hok1 & Hb1 & Hf1 & P1 & P2 & Hr1). rewrite Hbuf in P2, Hr1. cbn [app] in P2, Hr1.
          assert (P2' : prefix_of (dacc (bdev w1)) (dacc (bdev w) ++ all_out (i :: rest))).
          { eapply prefix_of_trans; [exact P2|]. cbn [all_out flat_map]. exists (all_out rest).
            unfold all_out. now rewrite <- app_assoc. }
          destruct r1.
          -- destruct (i_ok i) eqn:Hiok; cbn [negb].
             ++ pose proof (bw_flush_spec w1 Hok1) as [Hfl Hfe].
                destruct (bw_flush wsched w1) as [w2 r2]. cbn [fst snd] in Hfl, Hfe.
                destruct Hfl as (Hok2 & Hb2 & Hf2 & Q1 & Q2 & Hr2). rewrite app_nil_r in Q2, Hr2.
                assert (Q2' : prefix_of (dacc (bdev w2)) (dacc (bdev w) ++ all_out (i :: rest))).
                { eapply prefix_of_trans; [exact Q2|]. rewrite Hr1. cbn [all_out flat_map]. exists (all_out rest).
                  unfold all_out. now rewrite <- app_assoc. }
                assert (Q1' : prefix_of (dacc (bdev w)) (dacc (bdev w2))) by (eapply prefix_of_trans; eassumption).
                destruct r2.
                ** specialize (Hfe eq_refl). rewrite Hfe, app_nil_r in Hr2.
                   specialize (IH w2 true (op ++ [i_path i]) (S sr) Hok2 Hfe).
                   destruct IH as [I1 I2 I3 I4 I5 I6 I7].
                   assert (E : dacc (bdev w2) ++ all_out rest = dacc (bdev w) ++ all_out (i :: rest)).
                   { rewrite Hr2, Hr1. cbn [all_out flat_map]. unfold all_out. now rewrite <- app_assoc. }
                   constructor.
                   --- exact I1.
                   --- eapply prefix_of_trans; [exact Q1'|exact I2].
                   --- now rewrite <- E.
                   --- intros H0. destruct (I4 H0) as (A & B & C). rewrite <- E. repeat split; try assumption.
                       constructor; [|exact C]. split; [rewrite Hopen; discriminate|exact Hiok].
                   --- intros Hs. destruct (I5 Hs) as (A & B & C). repeat split; congruence.
                   --- exact I6.
                   --- intros Hn. apply I7. congruence.
                ** destruct Hr2 as [Hbr Hnf].
                   apply finish_facts_sig; try assumption; congruence.
                ** apply finish_facts_fail; try assumption; discriminate.
             ++ apply finish_facts_fail; try assumption; discriminate.
          -- destruct Hr1 as [Hbr Hnf]. apply finish_facts_sig; assumption.
          -- apply finish_facts_fail; try assumption; discriminate.
      + (* a file *)
        cbn [andb orb].
        pose proof (bw_run_spec (i_trace i) w Hok) as Hr.
        destruct (bw_run wsched bcap w (i_trace i)) as [w1 r1]. cbn [fst snd] in Hr.
        destruct Hr as (Hok1 & Hb1 & Hf1 & P1 & P2 & Hr1). rewrite Hbuf in P2, Hr1. cbn [app] in P2, Hr1.
        assert (P2' : prefix_of (dacc (bdev w1)) (dacc (bdev w) ++ all_out (i :: rest))).
        { eapply prefix_of_trans; [exact P2|]. cbn [all_out flat_map]. exists (all_out rest).
          unfold all_out. now rewrite <- app_assoc. }
        destruct r1.
        * destruct (i_ok i) eqn:Hiok; cbn [negb].
          -- pose proof (bw_flush_spec w1 Hok1) as [Hfl Hfe].
             destruct (bw_flush wsched w1) as [w2 r2]. cbn [fst snd] in Hfl, Hfe.
             destruct Hfl as (Hok2 & Hb2 & Hf2 & Q1 & Q2 & Hr2). rewrite app_nil_r in Q2, Hr2.
             assert (Q2' : prefix_of (dacc (bdev w2)) (dacc (bdev w) ++ all_out (i :: rest))).
             { eapply prefix_of_trans; [exact Q2|]. rewrite Hr1. cbn [all_out flat_map]. exists (all_out rest).
               unfold all_out. now rewrite <- app_assoc. }
             assert (Q1' : prefix_of (dacc (bdev w)) (dacc (bdev w2))) by (eapply prefix_of_trans; eassumption).
             destruct r2.
             ++ specialize (Hfe eq_refl). rewrite Hfe, app_nil_r in Hr2.
                specialize (IH w2 su (op ++ [i_path i]) sr Hok2 Hfe).
                destruct IH as [I1 I2 I3 I4 I5 I6 I7].
                assert (E : dacc (bdev w2) ++ all_out rest = dacc (bdev w) ++ all_out (i :: rest)).
                { rewrite Hr2, Hr1. cbn [all_out flat_map]. unfold all_out. now rewrite <- app_assoc. }
                rewrite Bool.orb_false_r.
                constructor.
                ** exact I1.
                ** eapply prefix_of_trans; [exact Q1'|exact I2].
                ** now rewrite <- E.
                ** intros H0. destruct (I4 H0) as (A & B & C). rewrite <- E. repeat split; try assumption.
                   constructor; [|exact C]. split; [rewrite Hopen; discriminate|exact Hiok].
                ** intros Hs. destruct (I5 Hs) as (A & B & C). repeat split; congruence.
                ** exact I6.
                ** intros Hn. apply I7. congruence.
             ++ destruct Hr2 as [Hbr Hnf].
                apply finish_facts_sig; try assumption; congruence.
             ++ apply finish_facts_fail; try assumption; discriminate.
          -- apply finish_facts_fail; try assumption; discriminate.
        * destruct Hr1 as [Hbr Hnf]. apply finish_facts_sig; assumption.
        * apply finish_facts_fail; try assumption; discriminate.
  Qed.
End Stdout.

(* ================= argument parsing terminates ================= *)

Definition src_weight (l : list bytes) : nat := fold_right (fun a n => S (length a) + n) 0 l.
Definition st_weight (st : lstate) : nat :=
  match st with LShorts arg pos => S (length arg - pos) | LPending _ => 1 | _ => 0 end.
Definition weight (p : lparser) : nat := src_weight (lsrc p) + st_weight (lst p).

Lemma next_from_source_decr p p' a :
  st_weight (lst p) = 0 -> next_from_source p = (p', Ok (Some a)) -> weight p' < weight p.
Proof.
  intros Hst. unfold next_from_source, weight. rewrite Hst.
  destruct (lsrc p) as [|x rest]; [discriminate|]. cbn [src_weight fold_right].
  destruct (beq x s_dashdash).
  - destruct rest as [|b rest']; intros H; inversion H; subst; cbn; lia.
  - destruct (is_long x) eqn:Hl.
    + destruct (index_of 61 x 0); intros H; inversion H; subst; cbn [lsrc lst st_weight];
        fold (src_weight rest); destruct x as [|x1 [|x2 l]]; try discriminate; cbn [length]; lia.
    + destruct (is_cluster x) eqn:Hc; intros H; inversion H; subst; cbn [lsrc lst st_weight]; fold (src_weight rest).
      * destruct x as [|x1 [|x2 l]]; try discriminate. cbn [length]. lia.
      * lia.
Qed.

Lemma lex_next_decr p p' a : lex_next p = (p', Ok (Some a)) -> weight p' < weight p.
Proof.
  unfold lex_next. destruct (lst p) as [|v|arg pos|] eqn:Hst.
  - apply next_from_source_decr. now rewrite Hst.
  - discriminate.
  - destruct (nth_error arg pos) as [c|] eqn:Hn.
    + destruct (N.eqb c 61 && (1 <? pos)); [discriminate|].
      intros H; inversion H; subst. unfold weight. rewrite Hst. cbn [lsrc lst st_weight].
      assert (pos < length arg) by (apply nth_error_Some; congruence). lia.
    + intros H. apply next_from_source_decr in H; [|reflexivity].
      unfold weight in *. rewrite Hst. cbn [lsrc lst st_weight] in *. lia.
  - destruct (lsrc p) as [|x rest] eqn:Hs; [discriminate|].
    intros H; inversion H; subst. unfold weight. rewrite Hst, Hs. cbn. lia.
Qed.

Lemma lex_value_nonincr p : weight (fst (lex_value p)) <= weight p.
Proof.
  unfold lex_value, weight.
  destruct (lst p) as [|v|arg pos|] eqn:Hst; cbn [st_weight].
  - destruct (lsrc p) as [|x rest]; cbn [fst lsrc lst st_weight src_weight fold_right]; lia.
  - cbn [fst lsrc lst st_weight]. lia.
  - destruct (length arg <=? pos).
    + destruct (lsrc p) as [|x rest]; cbn [fst lsrc lst st_weight src_weight fold_right]; lia.
    + cbn [fst lsrc lst st_weight]. lia.
  - destruct (lsrc p) as [|x rest]; cbn [fst lsrc lst st_weight src_weight fold_right]; lia.
Qed.

Lemma parse_loop_fuel : forall fuel p c, weight p < fuel -> parse_loop fuel p c <> POutOfFuel.
Proof.
  induction fuel as [|f IH]; intros p c Hw; [lia|]. cbn [parse_loop].
  destruct (lex_next p) as [p1 [[a|]|e]] eqn:Hn; try discriminate.
  apply lex_next_decr in Hn.
  assert (Hv : forall wf : bool, (match (if wf then c_from c else c_to c) with
               | Some _ => PUsage (if wf then EDupFrom else EDupTo)
               | None => match lex_value p1 with
                         | (_, Err e) => PUsage e
                         | (p2, Ok v) => match try_parse_format v with
                                         | Some x => parse_loop f p2 (set_format wf c x)
                                         | None => PUsage EBadFormat end end end) <> POutOfFuel).
  { intros wf. destruct (if wf then c_from c else c_to c); [discriminate|].
    pose proof (lex_value_nonincr p1) as Hle.
    destruct (lex_value p1) as [p2 [v|e]]; [|discriminate]. cbn [fst] in Hle.
    destruct (try_parse_format v); [|discriminate]. apply IH. lia. }
  destruct a as [ch|name|v].
  - destruct (N.eqb ch 102); [exact (Hv true)|]. destruct (N.eqb ch 116); [exact (Hv false)|].
    destruct (N.eqb ch 86); [discriminate|]. destruct (N.eqb ch 104); discriminate.
  - destruct (beq name s_version); [discriminate|]. destruct (beq name s_help); discriminate.
  - apply IH. lia.
Qed.

(* Argument parsing never runs out of fuel: it always ends in parsed arguments,
   a usage error, or a help/version exit. *)
Theorem parse_args_total argv : parse_args argv <> POutOfFuel.
Proof.
  unfold parse_args. apply parse_loop_fuel. unfold weight, args_fuel. cbn [lsrc lst st_weight].
  fold (src_weight argv). lia.
Qed.

(* ================= stdin is read at most once ================= *)

Section Stdin.
  Variable wsched : nat -> nat.
  Variable bcap : nat.

  Lemma stdin_once ins : forall w su op sr,
    sr <= 1 -> (su = false -> sr = 0) ->
    o_stdin_reads (main_loop wsched bcap w su op sr ins) <= 1.
  Proof.
    induction ins as [|i rest IH]; intros w su op sr H1 H2; cbn [main_loop]; [exact H1|].
    destruct (i_open i); cbn [andb orb finish o_stdin_reads]; try exact H1.
    - destruct su; cbn [finish o_stdin_reads]; [exact H1|].
      rewrite (H2 eq_refl).
      destruct (bw_run wsched bcap w (i_trace i)) as [w1 [| |]]; cbn [finish o_stdin_reads]; try lia.
      destruct (negb (i_ok i)); cbn [finish o_stdin_reads]; try lia.
      destruct (bw_flush wsched w1) as [w2 [| |]]; cbn [finish o_stdin_reads]; try lia.
      apply IH; [lia|discriminate].
    - destruct (bw_run wsched bcap w (i_trace i)) as [w1 [| |]]; cbn [finish o_stdin_reads]; try lia.
      destruct (negb (i_ok i)); cbn [finish o_stdin_reads]; try lia.
      destruct (bw_flush wsched w1) as [w2 [| |]]; cbn [finish o_stdin_reads]; try lia.
      rewrite Bool.orb_false_r. apply IH; assumption.
  Qed.
End Stdin.

(* ================= earlier output survives a later failure ================= *)

Section Survive.
  Variable wsched : nat -> nat.
  Variable bcap : nat.
  Hypothesis bcap_pos : 0 < bcap.

  Definition is_stdin_inp (i : inp) : bool := match i_open i with OpenStdin => true | _ => false end.
  Definition passes (su : bool) (i : inp) : Prop :=
    i_open i <> OpenErr /\ (is_stdin_inp i && su) = false /\ i_ok i = true.
  Definition fails (su : bool) (i : inp) : Prop :=
    i_open i = OpenErr \/ (is_stdin_inp i && su) = true \/ i_ok i = false.

  (* the inputs of [pre] all translate and [i] is the first one that does not *)
  Fixpoint first_failure (su : bool) (pre : list inp) (i : inp) : Prop :=
    match pre with
    | [] => fails su i
    | p :: pre' => passes su p /\ first_failure (su || is_stdin_inp p) pre' i
    end.

  Lemma run_ok_nofault w tr :
    dev_ok (bdev w) -> wfault (dsink (bdev w)) = None ->
    snd (bw_run wsched bcap w tr) = WoOk.
  Proof.
    intros Hok Hn. pose proof (bw_run_spec wsched bcap bcap_pos tr w Hok) as (_ & _ & _ & _ & _ & Hr).
    destruct (snd (bw_run wsched bcap w tr)); [reflexivity| |]; destruct Hr as [_ Hne]; now elim Hne.
  Qed.

  Lemma flush_ok_nofault w :
    dev_ok (bdev w) -> wfault (dsink (bdev w)) = None -> snd (bw_flush wsched w) = WoOk.
  Proof.
    intros Hok Hn. pose proof (bw_flush_spec wsched w Hok) as [(_ & _ & _ & _ & _ & Hr) _].
    destruct (snd (bw_flush wsched w)); [reflexivity| |]; destruct Hr as [_ Hne]; now elim Hne.
  Qed.

  Theorem earlier_output_survives pre : forall i post w su op sr,
    dev_ok (bdev w) -> bbuf w = [] -> wfault (dsink (bdev w)) = None ->
    first_failure su pre i ->
    let o := main_loop wsched bcap w su op sr (pre ++ i :: post) in
    o_status o = Exit 1 /\
    prefix_of (dacc (bdev w) ++ all_out pre) (o_stdout o) /\
    prefix_of (o_stdout o) (dacc (bdev w) ++ all_out pre ++ concat (i_trace i)).
  Proof.
    induction pre as [|p pre IH]; intros i post w su op sr Hok Hbuf Hnf Hff; cbn zeta; cbn [app main_loop first_failure] in *.
    - cbn [all_out flat_map app]. rewrite app_nil_r.
      destruct Hff as [Ho|[Hs|Hk]].
      + rewrite Ho. cbn [finish o_status o_stdout]. split; [reflexivity|].
        split; [apply prefix_of_refl|apply prefix_of_app].
      + unfold is_stdin_inp in Hs. destruct (i_open i); try discriminate. cbn [andb] in Hs. subst su.
        cbn [andb finish o_status o_stdout]. split; [reflexivity|]. split; [apply prefix_of_refl|apply prefix_of_app].
      + pose proof (bw_run_spec wsched bcap bcap_pos (i_trace i) w Hok) as Hr.
        pose proof (run_ok_nofault w (i_trace i) Hok Hnf) as Hrok.
        destruct (bw_run wsched bcap w (i_trace i)) as [w1 r1]. cbn [fst snd] in *. subst r1.
        destruct Hr as (_ & _ & _ & P1 & P2 & _). rewrite Hbuf in P2. cbn [app] in P2.
        destruct (i_open i); cbn [andb]; [cbn [finish o_status o_stdout]; split; [reflexivity|split; [apply prefix_of_refl|apply prefix_of_app]]| |].
        * destruct su; cbn [finish o_status o_stdout].
          -- split; [reflexivity|]. split; [apply prefix_of_refl|apply prefix_of_app].
          -- rewrite Hk. cbn [negb finish o_status o_stdout]. split; [reflexivity|]. split; assumption.
        * rewrite Hk. cbn [negb finish o_status o_stdout]. split; [reflexivity|]. split; assumption.
    - destruct Hff as [(Hpo & Hps & Hpk) Hrest].
      pose proof (bw_run_spec wsched bcap bcap_pos (i_trace p) w Hok) as Hr.
      pose proof (run_ok_nofault w (i_trace p) Hok Hnf) as Hrok.
      destruct (bw_run wsched bcap w (i_trace p)) as [w1 r1]. cbn [fst snd] in *. subst r1.
      destruct Hr as (Hok1 & _ & Hf1 & _ & _ & Hr1). rewrite Hbuf in Hr1. cbn [app] in Hr1.
      pose proof (bw_flush_spec wsched w1 Hok1) as [Hfl Hfe].
      pose proof (flush_ok_nofault w1 Hok1 ltac:(congruence)) as Hfok.
      destruct (bw_flush wsched w1) as [w2 r2]. cbn [fst snd] in *. subst r2.
      destruct Hfl as (Hok2 & _ & Hf2 & _ & _ & Hr2). specialize (Hfe eq_refl).
      rewrite Hfe, !app_nil_r in Hr2.
      assert (E : dacc (bdev w2) = dacc (bdev w) ++ concat (i_trace p)) by (rewrite Hr2; exact Hr1).
      assert (Hnf2 : wfault (dsink (bdev w2)) = None) by congruence.
      unfold is_stdin_inp in Hps, Hrest.
      destruct (i_open p) eqn:Hop; [now elim Hpo| |]; cbn [andb] in *.
      + subst su. cbn [andb orb]. rewrite Hpk. cbn [negb].
        specialize (IH i post w2 true (op ++ [i_path p]) (S sr) Hok2 Hfe Hnf2 Hrest). cbn zeta in IH.
        rewrite E in IH. cbn [all_out flat_map]. fold (all_out pre).
        rewrite <- !app_assoc in IH. rewrite <- !app_assoc. exact IH.
      + rewrite Hpk. cbn [negb]. rewrite Bool.orb_false_r in *.
        specialize (IH i post w2 su (op ++ [i_path p]) sr Hok2 Hfe Hnf2 Hrest). cbn zeta in IH.
        rewrite E in IH. cbn [all_out flat_map]. fold (all_out pre).
        rewrite <- !app_assoc in IH. rewrite <- !app_assoc. exact IH.
  Qed.
End Survive.

(* ================= the whole program ================= *)

Section Program.
  Variable wsched : nat -> nat.
  Variable bcap : nat.
  Hypothesis bcap_pos : 0 < bcap.
  Variable env : cli -> list bytes -> list inp.
  Variable help : exit0 -> bytes.

  Lemma run_cli_status c kind d ins :
    dev_ok d -> status_ok (o_status (run_cli wsched bcap c kind d ins)).
  Proof.
    intros Hok. unfold run_cli.
    assert (G : status_ok (o_status (main_loop wsched bcap (fresh d) false [] 0 ins))).
    { destruct (main_loop_facts wsched bcap bcap_pos ins (fresh d) false [] 0 Hok eq_refl) as [H _ _ _ _ _ _]. exact H. }
    destruct kind; try exact G. destruct (c_to c) as [[| | |]|]; try exact G.
    right. now left.
  Qed.

  (* exit status 2 exactly when the command line is invalid; then nothing is
     written to stdout, no input is opened or read, and stderr is the usage error *)
  Theorem exit2_iff_usage argv kind d :
    dev_ok d ->
    let o := xt_main wsched bcap argv kind d env help in
    (o_status o = Exit 2 <-> exists e, parse_args argv = PUsage e) /\
    (o_status o = Exit 2 ->
       o_stdout o = dacc d /\ o_opened o = [] /\ o_stdin_reads o = 0 /\ o_stderr o = ErrUsage).
  Proof.
    intros Hok. cbn zeta. unfold xt_main.
    pose proof (parse_args_total argv) as Htot.
    destruct (parse_args argv) as [c|e|k|] eqn:Hp.
    - match goal with |- context [run_cli _ _ c kind d ?ins] =>
        pose proof (run_cli_status c kind d ins Hok) as Hs; set (o := run_cli wsched bcap c kind d ins) in * end.
      split.
      + split; [|intros [e He]; discriminate].
        intros H2. rewrite H2 in Hs. destruct Hs as [Hs|[Hs|Hs]]; discriminate.
      + intros H2. rewrite H2 in Hs. destruct Hs as [Hs|[Hs|Hs]]; discriminate.
    - cbn [finish o_status o_stdout o_stderr o_opened o_stdin_reads fresh bdev]. split.
      + split; [intros _; now exists e|reflexivity].
      + intros _. repeat split.
    - destruct (dev_put wsched d (help k)) as [d' b]. cbn [finish o_status]. split.
      + split; [discriminate|intros [e He]; discriminate].
      + discriminate.
    - now elim Htot.
  Qed.

  (* MessagePack is never written to a terminal *)
  Theorem no_msgpack_on_tty c d ins :
    c_to c = Some Msgpack ->
    let o := run_cli wsched bcap c KTty d ins in
    o_status o = Exit 1 /\ o_stdout o = dacc d /\ o_opened o = [] /\ o_stderr o = ErrPlain.
  Proof. intros H. cbn zeta. unfold run_cli. rewrite H. repeat split. Qed.

  (* everything the loop guarantees, for the loop as main() starts it *)
  Theorem run_cli_facts c kind d ins :
    dev_ok d -> (kind = KTty -> c_to c <> Some Msgpack) ->
    loop_facts (fresh d) ins (run_cli wsched bcap c kind d ins).
  Proof.
    intros Hok Hk. unfold run_cli.
    assert (G : loop_facts (fresh d) ins (main_loop wsched bcap (fresh d) false [] 0 ins))
      by (apply main_loop_facts; [exact bcap_pos|exact Hok|reflexivity]).
    destruct kind; try exact G. destruct (c_to c) as [[| | |]|]; try exact G.
    now elim (Hk eq_refl).
  Qed.
End Program.

(* ================= source-format resolution ================= *)

Theorem resolve_prefers_option c p f : c_from c = Some f -> resolve_from c p = Some f.
Proof. unfold resolve_from. now intros ->. Qed.

Theorem resolve_falls_back_to_extension c p :
  c_from c = None -> is_stdin_path p = false -> resolve_from c p = extension_format p.
Proof. unfold resolve_from. now intros -> ->. Qed.

Lemma lower_idem b : lower (lower b) = lower b.
Proof.
  unfold lower. destruct ((65 <=? b)%N && (b <=? 90)%N) eqn:E; [|now rewrite E].
  apply andb_true_iff in E as [E1 E2]. apply N.leb_le in E1. apply N.leb_le in E2.
  destruct ((65 <=? b + 32)%N && (b + 32 <=? 90)%N) eqn:E'; [|reflexivity].
  apply andb_true_iff in E' as [_ E4]. apply N.leb_le in E4. lia.
Qed.

(* the extension is matched case-insensitively: any spelling of its letters in
   upper or lower case selects the same format *)
Theorem extension_case_insensitive e e' :
  map lower e = map lower e' -> ext_table (map lower e) = ext_table (map lower e').
Proof. now intros ->. Qed.

Fixpoint no_byte (x : N) (l : bytes) : bool :=
  match l with [] => true | y :: l' => negb (N.eqb x y) && no_byte x l' end.

Lemma last_component_plain name : forall acc0,
  no_byte 47 name = true -> last_component name acc0 = acc0 ++ name.
Proof.
  induction name as [|b name IH]; intros acc0 H; cbn [last_component]; [now rewrite app_nil_r|].
  cbn [no_byte] in H. apply andb_true_iff in H as [Hb Hn].
  assert (E : b <> 47%N) by (intros ->; discriminate).
  replace (match b with 47%N => last_component name [] | _ => last_component name (acc0 ++ [b]) end)
    with (last_component name (acc0 ++ [b])).
  - rewrite IH by exact Hn. now rewrite <- app_assoc.
  - destruct b as [|p]; [reflexivity|].
    do 6 (destruct p as [p|p|]; try reflexivity). now elim E.
Qed.

Lemma after_last_dot_plain e : forall cur,
  no_byte 46 e = true -> after_last_dot e (Some cur) = Some (cur ++ e).
Proof.
  induction e as [|b e IH]; intros cur H; cbn [after_last_dot]; [now rewrite app_nil_r|].
  cbn [no_byte] in H. apply andb_true_iff in H as [Hb Hn].
  assert (E : b <> 46%N) by (intros ->; discriminate).
  replace (match b with 46%N => after_last_dot e (Some []) | _ => after_last_dot e (Some (cur ++ [b])) end)
    with (after_last_dot e (Some (cur ++ [b]))).
  - rewrite IH by exact Hn. now rewrite <- app_assoc.
  - destruct b as [|p]; [reflexivity|].
    do 6 (destruct p as [p|p|]; try reflexivity). now elim E.
Qed.

Lemma after_last_dot_app stem e : forall cur,
  no_byte 46 e = true -> after_last_dot (stem ++ 46%N :: e) cur = Some e.
Proof.
  induction stem as [|b stem IH]; intros cur H; cbn [app after_last_dot].
  - now rewrite after_last_dot_plain.
  - destruct b as [|p]; [apply IH; exact H|].
    do 6 (destruct p as [p|p|]; try (apply IH; exact H)).
Qed.

(* only the last extension counts, whatever precedes it (multi-dot names
   included), for a file name in any directory *)
Theorem extension_is_last dir c stem e :
  no_byte 47 (c :: stem) = true -> no_byte 47 e = true -> no_byte 46 e = true -> c <> 46%N ->
  extension (dir ++ 47%N :: c :: stem ++ 46%N :: e) = Some e.
Proof.
  intros Hs He Hd Hc. unfold extension.
  assert (Hl : last_component (dir ++ 47%N :: c :: stem ++ 46%N :: e) [] = c :: stem ++ 46%N :: e).
  { assert (G : forall acc0, last_component (dir ++ 47%N :: c :: stem ++ 46%N :: e) acc0 = c :: stem ++ 46%N :: e).
    { induction dir as [|b dir IHd]; intros acc0; cbn [app].
      - change (last_component (47%N :: c :: stem ++ 46%N :: e) acc0) with (last_component (c :: stem ++ 46%N :: e) []).
        rewrite last_component_plain; [reflexivity|].
        cbn [no_byte] in *. apply andb_true_iff in Hs as [H1 H2]. rewrite H1. cbn [andb].
        clear -H2 He. induction stem as [|x stem IHs]; cbn [app no_byte] in *; [exact He|].
        apply andb_true_iff in H2 as [Ha Hb]. rewrite Ha. now apply IHs.
      - cbn [last_component]. destruct b as [|p]; [apply IHd|].
        do 6 (destruct p as [p|p|]; try apply IHd). }
    apply G. }
  rewrite Hl.
  assert (Hm : forall (A : Type) (x y : A), match c with 46%N => x | _ => y end = y).
  { intros A x y. destruct c as [|p]; [reflexivity|].
    do 6 (destruct p as [p|p|]; try reflexivity). now elim Hc. }
  rewrite Hm. apply (after_last_dot_app (c :: stem) e None Hd).
Qed.

Example resolve_examples :
  extension_format [97; 47; 98; 46; 116; 97; 114; 46; 89; 109; 76]%N = Some Yaml /\      (* a/b.tar.YmL *)
  extension_format [46; 106; 115; 111; 110]%N = None /\                                  (* .json *)
  extension_format [120; 46; 74; 83; 79; 78]%N = Some Json /\                            (* x.JSON *)
  extension_format [120; 46; 106; 115; 111; 110; 46; 98; 97; 107]%N = None.              (* x.json.bak *)
Proof. vm_compute. repeat split. Qed.
