(* JsonUtf8Proofs.v — whatever the JSON reader loop accepts is valid UTF-8.

   The slice path validates the whole input up front; the reader path only
   validates the decoded text of each string.  This file proves that the second
   check is as strong as the first: every byte the reader consumes outside
   strings is ASCII, and the raw text of a string is well-formed UTF-8 whenever
   its decoded text is (escapes are ASCII and decode to complete characters).
   Consequence: if the reader path translates an input to the end, the slice
   path's up-front check passes too, so the two verdicts agree on inputs that
   are not valid UTF-8 as well. *)
From XtModel Require Import Base Utf8 Utf8Proofs MsgpackModel JsonModel JsonProofs.
Require Import ZifyBool ZifyNat ZifyN.

Definition cons_ascii (inp : bytes) (r : jres) : Prop :=
  match r with JOk rest => exists c, inp = c ++ rest /\ ascii c | JErr _ => True end.
Definition cons_wf (inp : bytes) (r : jres) : Prop :=
  match r with JOk rest => exists c, inp = c ++ rest /\ wf8 c | JErr _ => True end.

Lemma cons_ascii_wf inp r : cons_ascii inp r -> cons_wf inp r.
Proof. destruct r; cbn; [|auto]. intros (c & E & A). exists c. split; [exact E|now apply ascii_wf8]. Qed.

Lemma cons_ascii_trans inp c1 mid r : inp = c1 ++ mid -> ascii c1 -> cons_ascii mid r -> cons_ascii inp r.
Proof.
  intros -> A1 H. destruct r; cbn in *; [|auto]. destruct H as (c & -> & A). exists (c1 ++ c).
  split; [now rewrite app_assoc|now apply ascii_app].
Qed.

Lemma cons_wf_trans inp c1 mid r : inp = c1 ++ mid -> wf8 c1 -> cons_wf mid r -> cons_wf inp r.
Proof.
  intros -> A1 H. destruct r; cbn in *; [|auto]. destruct H as (c & -> & A). exists (c1 ++ c).
  split; [now rewrite app_assoc|now apply wf8_app].
Qed.

Lemma ascii_nil : ascii []. Proof. constructor. Qed.
Lemma ascii_cons b l : (b <? 128)%N = true -> ascii l -> ascii (b :: l). Proof. intros. now constructor. Qed.

Lemma cons_ascii_refl rest : cons_ascii rest (JOk rest).
Proof. exists []. split; [reflexivity|apply ascii_nil]. Qed.

Lemma ws_ascii b : is_ws b = true -> (b <? 128)%N = true.
Proof. unfold is_ws. lia. Qed.
Lemma digit_ascii b : is_digit b = true -> (b <? 128)%N = true.
Proof. unfold is_digit. lia. Qed.

Lemma skip_ws_cons inp : exists c, inp = c ++ skip_ws inp /\ ascii c.
Proof.
  induction inp as [|b r (c & E & A)]; [exists []; split; [reflexivity|apply ascii_nil]|].
  cbn [skip_ws]. destruct (is_ws b) eqn:W.
  - exists (b :: c). split; [cbn; now rewrite <- E|apply ascii_cons; [now apply ws_ascii|exact A]].
  - exists []. split; [reflexivity|apply ascii_nil].
Qed.

Lemma take_digits_consumed inp : exists c, inp = c ++ snd (take_digits inp) /\ ascii c.
Proof.
  induction inp as [|b r (c & E & A)]; [exists []; split; [reflexivity|apply ascii_nil]|].
  cbn [take_digits]. destruct (is_digit b) eqn:D.
  - destruct (take_digits r) as [ds rest]. cbn [snd] in *. exists (b :: c).
    split; [cbn; now rewrite <- E|apply ascii_cons; [now apply digit_ascii|exact A]].
  - exists []. split; [reflexivity|apply ascii_nil].
Qed.

Lemma parse_ident_cons e inp rest : parse_ident e inp = JOk rest -> inp = e ++ rest.
Proof.
  revert inp. induction e as [|x e IH]; intros inp; cbn [parse_ident]; [now intros [= ->]|].
  destruct inp as [|b r]; [discriminate|]. destruct (b =? x)%N eqn:E; [|discriminate].
  intros H. apply IH in H. subst r. cbn. f_equal. lia.
Qed.

Lemma float_ev_cons p ds E rest : cons_ascii rest (snd (float_ev p ds E rest)).
Proof. unfold float_ev. destruct (f64_of_decimal _ _); cbn [snd]; [apply cons_ascii_refl|exact I]. Qed.

Lemma exp_sign_cons inp : exists c, inp = c ++ snd (exp_sign inp) /\ ascii c.
Proof.
  unfold exp_sign. destruct inp as [|c r]; [exists []; split; [reflexivity|apply ascii_nil]|].
  destruct (c =? 43)%N eqn:E1; [exists [c]; split; [reflexivity|apply ascii_cons; [lia|apply ascii_nil]]|].
  destruct (c =? 45)%N eqn:E2; [exists [c]; split; [reflexivity|apply ascii_cons; [lia|apply ascii_nil]]|].
  exists []. split; [reflexivity|apply ascii_nil].
Qed.

Lemma exp_digits_cons p i f pe r : cons_ascii r (snd (exp_digits p i f pe r)).
Proof.
  unfold exp_digits. destruct r as [|b r']; [exact I|]. destruct (is_digit b); [|exact I].
  destruct (take_digits_consumed (b :: r')) as (c & E & A). destruct (take_digits (b :: r')) as [es rest]. cbn [snd] in E.
  eapply cons_ascii_trans; [exact E|exact A|apply float_ev_cons].
Qed.

Lemma parse_exp_cons p i f inp : cons_ascii inp (snd (parse_exp p i f inp)).
Proof.
  unfold parse_exp. destruct (exp_sign_cons inp) as (c & E & A).
  eapply cons_ascii_trans; [exact E|exact A|apply exp_digits_cons].
Qed.

Lemma int_ev_cons p i rest : cons_ascii rest (snd (int_ev p i rest)).
Proof.
  unfold int_ev. destruct p.
  - destruct (_ <=? _)%N; [apply cons_ascii_refl|apply float_ev_cons].
  - destruct (_ =? _)%N; [apply cons_ascii_refl|]. destruct (_ <=? _)%N; [apply cons_ascii_refl|apply float_ev_cons].
Qed.

Lemma is_e_ascii c : is_e c = true -> (c <? 128)%N = true.
Proof. unfold is_e. lia. Qed.

Lemma frac_part_cons p i r : cons_ascii r (snd (frac_part p i r)).
Proof.
  unfold frac_part. destruct (take_digits_consumed r) as (c & E & A). destruct (take_digits r) as [fs r2]. cbn [snd] in E.
  destruct fs as [|d fs]; [destruct r2; exact I|].
  destruct r2 as [|x r3]; [eapply cons_ascii_trans; [exact E|exact A|apply float_ev_cons]|].
  destruct (is_e x) eqn:Ee.
  - eapply cons_ascii_trans; [exact E|exact A|].
    eapply (cons_ascii_trans _ [x]); [reflexivity|apply ascii_cons; [now apply is_e_ascii|apply ascii_nil]|apply parse_exp_cons].
  - eapply cons_ascii_trans; [exact E|exact A|apply float_ev_cons].
Qed.

Lemma after_int_cons p i inp : cons_ascii inp (snd (after_int p i inp)).
Proof.
  unfold after_int. destruct inp as [|b r]; [apply int_ev_cons|].
  destruct (b =? 46)%N eqn:E1.
  { eapply (cons_ascii_trans _ [b]); [reflexivity|apply ascii_cons; [lia|apply ascii_nil]|apply frac_part_cons]. }
  destruct (is_e b) eqn:E2.
  { eapply (cons_ascii_trans _ [b]); [reflexivity|apply ascii_cons; [now apply is_e_ascii|apply ascii_nil]|apply parse_exp_cons]. }
  apply int_ev_cons.
Qed.

Lemma parse_number_cons p inp : cons_ascii inp (snd (parse_number p inp)).
Proof.
  unfold parse_number. destruct inp as [|b r]; [exact I|].
  destruct (b =? 48)%N eqn:E0.
  - assert (A : ascii [b]) by (apply ascii_cons; [lia|apply ascii_nil]).
    destruct r as [|d r']; [eapply (cons_ascii_trans _ [b]); [reflexivity|exact A|apply after_int_cons]|].
    destruct (is_digit d); [exact I|]. eapply (cons_ascii_trans _ [b]); [reflexivity|exact A|apply after_int_cons].
  - destruct (is_digit b) eqn:Hd; [|exact I].
    destruct (take_digits_consumed (b :: r)) as (c & E & A). destruct (take_digits (b :: r)) as [ds rest]. cbn [snd] in E.
    eapply cons_ascii_trans; [exact E|exact A|apply after_int_cons].
Qed.

(* ---------- strings ---------- *)

(* [pre] is raw text whose decoded form is [rev acc]: whatever well-formed text
   the decoded form can be continued to, the raw text can be too *)
Definition tracks (pre acc : bytes) : Prop := forall t, wf8 (rev acc ++ t) -> wf8 (pre ++ t).

Lemma tracks_nil : tracks [] [].
Proof. intros t H. exact H. Qed.

Lemma tracks_raw pre acc b : tracks pre acc -> tracks (pre ++ [b]) (b :: acc).
Proof.
  intros T t H. cbn [rev] in H. rewrite <- app_assoc in H. cbn [app] in H.
  rewrite <- app_assoc. cbn [app]. now apply T.
Qed.

Lemma tracks_esc pre acc esc dec :
  tracks pre acc -> ascii esc -> wf8 dec -> (forall t, starts_char (dec ++ t)) -> tracks (pre ++ esc) (rev dec ++ acc).
Proof.
  intros T A W S t H. rewrite rev_app_distr, rev_involutive, <- app_assoc in H.
  destruct (wf8_split_at _ _ H (S t)) as [Ha Hdt].
  pose proof (wf8_app_inv_l _ _ W Hdt) as Ht.
  rewrite <- app_assoc. apply T. apply wf8_app; [exact Ha|]. apply wf8_app; [now apply ascii_wf8|exact Ht].
Qed.

Lemma simple_escape_ascii c x : simple_escape c = Some x -> (c <? 128)%N = true /\ (x <? 128)%N = true.
Proof.
  unfold simple_escape.
  destruct (c =? 34)%N eqn:E1; [intros [= <-]; lia|]. destruct (c =? 92)%N eqn:E2; [intros [= <-]; lia|].
  destruct (c =? 47)%N eqn:E3; [intros [= <-]; lia|]. destruct (c =? 98)%N eqn:E4; [intros [= <-]; lia|].
  destruct (c =? 102)%N eqn:E5; [intros [= <-]; lia|]. destruct (c =? 110)%N eqn:E6; [intros [= <-]; lia|].
  destruct (c =? 114)%N eqn:E7; [intros [= <-]; lia|]. destruct (c =? 116)%N eqn:E8; [intros [= <-]; lia|]. discriminate.
Qed.

Lemma hexval_facts b v : hexval b = Some v -> (b <? 128)%N = true /\ (v < 16)%N.
Proof.
  unfold hexval, is_digit. destruct ((48 <=? b) && (b <=? 57))%N eqn:E1; [intros [= <-]; lia|].
  destruct ((97 <=? b) && (b <=? 102))%N eqn:E2; [intros [= <-]; lia|].
  destruct ((65 <=? b) && (b <=? 70))%N eqn:E3; [intros [= <-]; lia|]. discriminate.
Qed.

Lemma hex4_cons inp n r : hex4 inp = HexOk n r -> exists h, inp = h ++ r /\ ascii h /\ (n < 65536)%N.
Proof.
  unfold hex4. destruct inp as [|a [|b [|c [|d r']]]]; try discriminate.
  destruct (hexval a) as [x|] eqn:Ea; [|discriminate]. destruct (hexval b) as [y|] eqn:Eb; [|discriminate].
  destruct (hexval c) as [z|] eqn:Ec; [|discriminate]. destruct (hexval d) as [w|] eqn:Ed; [|discriminate].
  intros [= <- <-]. apply hexval_facts in Ea as [A1 B1]. apply hexval_facts in Eb as [A2 B2].
  apply hexval_facts in Ec as [A3 B3]. apply hexval_facts in Ed as [A4 B4].
  exists [a; b; c; d]. split; [reflexivity|]. split; [|lia].
  repeat (apply ascii_cons; [assumption|]). apply ascii_nil.
Qed.

Lemma single_starts x t : (x <? 128)%N = true -> starts_char ([x] ++ t).
Proof. intros H. cbn. unfold cont, in_range. lia. Qed.

Lemma parse_str_tracks : forall f inp acc o rest, parse_str f inp acc = (o, JOk rest) ->
  exists c, inp = c ++ rest /\ forall pre, tracks pre acc -> wf8 (pre ++ c).
Proof.
  induction f as [|f IH]; intros inp acc o rest H; [discriminate|].
  cbn [parse_str] in H. destruct inp as [|b r]; [discriminate|].
  destruct (b =? 34)%N eqn:Eq.
  { destruct (utf8_valid (rev acc)) eqn:U; [|discriminate]. injection H as _ <-.
    exists [b]. split; [reflexivity|]. intros pre T. apply T. apply wf8_app; [now apply utf8_valid_iff|].
    apply wf_1; [lia|constructor]. }
  destruct (b =? 92)%N eqn:Eb.
  2:{ destruct (b <? 32)%N; [discriminate|]. apply IH in H as (c & -> & Hc).
      exists (b :: c). split; [reflexivity|]. intros pre T. specialize (Hc (pre ++ [b]) (tracks_raw _ _ b T)).
      now rewrite <- app_assoc in Hc. }
  destruct r as [|c r1]; [discriminate|].
  destruct (simple_escape c) as [x|] eqn:Es.
  { apply simple_escape_ascii in Es as [Ac Ax]. apply IH in H as (c' & -> & Hc).
    exists (b :: c :: c'). split; [reflexivity|]. intros pre T.
    assert (T' : tracks (pre ++ [b; c]) (rev [x] ++ acc)).
    { apply tracks_esc; [exact T|apply ascii_cons; [lia|apply ascii_cons; [exact Ac|apply ascii_nil]]|apply wf_1; [exact Ax|constructor]|].
      intros t. now apply single_starts. }
    specialize (Hc _ T'). now rewrite <- app_assoc in Hc. }
  destruct (c =? 117)%N eqn:Eu; [|discriminate].
  destruct (hex4 r1) as [n r2| |] eqn:Eh; [|discriminate|discriminate].
  destruct (hex4_cons _ _ _ Eh) as (h & -> & Ah & Hn).
  destruct (is_trail n) eqn:Et; [discriminate|].
  assert (Abc : ascii (b :: c :: h)) by (apply ascii_cons; [lia|apply ascii_cons; [lia|exact Ah]]).
  destruct (negb (is_lead n)) eqn:El.
  { assert (Sc : is_scalar n = true) by (unfold is_scalar, is_trail, is_lead in *; lia).
    apply IH in H as (c' & -> & Hc).
    exists (b :: c :: h ++ c'). split; [cbn [app]; now rewrite <- app_assoc|]. intros pre T.
    assert (T' : tracks (pre ++ (b :: c :: h)) (rev (utf8_encode n) ++ acc)).
    { apply tracks_esc; [exact T|exact Abc|now apply utf8_encode_wf|]. intros t. now apply utf8_encode_starts. }
    specialize (Hc _ T'). rewrite <- app_assoc in Hc. exact Hc. }
  destruct r2 as [|c1 r3]; [discriminate|]. destruct (negb (c1 =? 92)%N) eqn:E1; [discriminate|].
  destruct r3 as [|c2 r4]; [discriminate|]. destruct (negb (c2 =? 117)%N) eqn:E2; [discriminate|].
  destruct (hex4 r4) as [n2 r5| |] eqn:Eh2; [|discriminate|discriminate].
  destruct (hex4_cons _ _ _ Eh2) as (h2 & -> & Ah2 & Hn2).
  destruct (is_trail n2) eqn:Et2; [|discriminate].
  set (cp := (65536 + (n - 55296) * 1024 + (n2 - 56320))%N) in *.
  assert (Sc : is_scalar cp = true) by (unfold is_scalar, is_trail, is_lead in *; subst cp; lia).
  apply IH in H as (c' & -> & Hc).
  exists (b :: c :: h ++ c1 :: c2 :: h2 ++ c'). split; [cbn [app]; rewrite <- !app_assoc; cbn [app]; rewrite <- !app_assoc; reflexivity|]. intros pre T.
  assert (Aall : ascii ((b :: c :: h) ++ c1 :: c2 :: h2)).
  { apply ascii_app; [exact Abc|]. apply ascii_cons; [lia|apply ascii_cons; [lia|exact Ah2]]. }
  assert (T' : tracks (pre ++ ((b :: c :: h) ++ c1 :: c2 :: h2)) (rev (utf8_encode cp) ++ acc)).
  { apply tracks_esc; [exact T|exact Aall|now apply utf8_encode_wf|]. intros t. now apply utf8_encode_starts. }
  specialize (Hc _ T').
  match goal with |- wf8 ?g => replace g with ((pre ++ (b :: c :: h) ++ c1 :: c2 :: h2) ++ c'); [exact Hc|] end.
  rewrite <- !app_assoc. cbn [app]. rewrite <- ?app_assoc. reflexivity.
Qed.

Lemma parse_string_cons inp o rest : parse_string inp = (o, JOk rest) -> exists c, inp = c ++ rest /\ wf8 c.
Proof.
  unfold parse_string. intros H. apply parse_str_tracks in H as (c & E & Hc). exists c. split; [exact E|].
  exact (Hc [] tracks_nil).
Qed.

(* ---------- values ---------- *)

Definition Vw (f : nat) : Prop := forall depth inp, cons_wf inp (snd (parse_value f depth inp)).
Definition Ew (f : nat) : Prop := forall depth inp first, cons_wf inp (snd (parse_elems f depth inp first)).
Definition Mw (f : nat) : Prop := forall depth inp first, cons_wf inp (snd (parse_members f depth inp first)).

Lemma ascii_1 b : (b <? 128)%N = true -> ascii [b].
Proof. intros. apply ascii_cons; [assumption|apply ascii_nil]. Qed.

Lemma lit_case e b r inp w : inp = w ++ b :: r -> ascii w -> (b <? 128)%N = true -> ascii e -> cons_wf inp (parse_ident e r).
Proof.
  intros -> Aw Ab Ae. destruct (parse_ident e r) as [rest|x] eqn:E; [|exact I].
  apply parse_ident_cons in E as ->. exists (w ++ b :: e). split; [now rewrite <- app_assoc|].
  apply ascii_wf8. apply ascii_app; [exact Aw|apply ascii_cons; assumption].
Qed.

Lemma Vw_step f : Ew f -> Mw f -> Vw (S f).
Proof.
  intros HE HM depth inp. cbn [parse_value].
  destruct (skip_ws_cons inp) as (w & E & Aw). destruct (skip_ws inp) as [|b r]; [exact I|].
  destruct (b =? 110)%N eqn:E1.
  { rewrite lit_res. eapply lit_case; [exact E|exact Aw|lia|]. repeat (apply ascii_cons; [reflexivity|]). apply ascii_nil. }
  destruct (b =? 116)%N eqn:E2.
  { rewrite lit_res. eapply lit_case; [exact E|exact Aw|lia|]. repeat (apply ascii_cons; [reflexivity|]). apply ascii_nil. }
  destruct (b =? 102)%N eqn:E3.
  { rewrite lit_res. eapply lit_case; [exact E|exact Aw|lia|]. repeat (apply ascii_cons; [reflexivity|]). apply ascii_nil. }
  destruct (b =? 45)%N eqn:E4.
  { apply cons_ascii_wf. eapply (cons_ascii_trans _ (w ++ [b])); [rewrite <- app_assoc; exact E| |apply parse_number_cons].
    apply ascii_app; [exact Aw|apply ascii_1; lia]. }
  destruct (is_digit b) eqn:E5.
  { apply cons_ascii_wf. eapply cons_ascii_trans; [exact E|exact Aw|apply parse_number_cons]. }
  assert (Hpre : forall x rr, (x <? 128)%N = true -> b = x -> cons_wf r rr -> cons_wf inp rr).
  { intros x rr Hx -> Hr. eapply (cons_wf_trans _ (w ++ [x])); [rewrite <- app_assoc; exact E| |exact Hr].
    apply ascii_wf8. apply ascii_app; [exact Aw|now apply ascii_1]. }
  destruct (b =? 34)%N eqn:E6.
  { destruct (parse_string r) as [[s|] [rest|e]] eqn:Ep; cbn [snd]; try exact I.
    apply (Hpre 34%N); [reflexivity|lia|]. apply parse_string_cons in Ep. exact Ep. }
  destruct (b =? 91)%N eqn:E7.
  { destruct (depth - 1 =? 0); [exact I|]. specialize (HE (depth - 1) r true).
    destruct (parse_elems f (depth - 1) r true) as [[evs n] [rest|e]]; cbn [snd] in *; [|exact I].
    apply (Hpre 91%N); [reflexivity|lia|exact HE]. }
  destruct (b =? 123)%N eqn:E8.
  { destruct (depth - 1 =? 0); [exact I|]. specialize (HM (depth - 1) r true).
    destruct (parse_members f (depth - 1) r true) as [[evs n] [rest|e]]; cbn [snd] in *; [|exact I].
    apply (Hpre 123%N); [reflexivity|lia|exact HM]. }
  exact I.
Qed.

Lemma element_of_cons f depth at_ : Vw f -> Ew f -> cons_wf at_ (snd (element_of f depth at_)).
Proof.
  intros HV HE. unfold element_of. specialize (HV depth at_).
  destruct (parse_value f depth at_) as [evs [rest|e]]; cbn [snd] in *; [|exact I].
  destruct HV as (c & -> & Wc). specialize (HE depth rest false).
  destruct (parse_elems f depth rest false) as [[evs' n] res]. cbn [snd] in *.
  eapply cons_wf_trans; [reflexivity|exact Wc|exact HE].
Qed.

Lemma Ew_step f : Vw f -> Ew f -> Ew (S f).
Proof.
  intros HV HE depth inp first. rewrite parse_elems_unfold.
  destruct (skip_ws_cons inp) as (w & E & Aw). destruct (skip_ws inp) as [|b r]; [exact I|].
  destruct (b =? 93)%N eqn:E1.
  { exists (w ++ [b]). split; [now rewrite <- app_assoc|]. apply ascii_wf8. apply ascii_app; [exact Aw|apply ascii_1; lia]. }
  destruct first.
  { eapply cons_wf_trans; [exact E|now apply ascii_wf8|now apply element_of_cons]. }
  destruct (b =? 44)%N eqn:E2; [|exact I].
  destruct (skip_ws_cons r) as (w2 & E' & Aw2). destruct (skip_ws r) as [|c r']; [exact I|].
  destruct (c =? 93)%N; [exact I|].
  eapply (cons_wf_trans _ (w ++ b :: w2)); [rewrite <- app_assoc; cbn [app]; now rewrite <- E'| |now apply element_of_cons].
  apply ascii_wf8. apply ascii_app; [exact Aw|apply ascii_cons; [lia|exact Aw2]].
Qed.

Lemma member_of_cons f depth at_ : Vw f -> Mw f -> cons_wf at_ (snd (member_of f depth at_)).
Proof.
  intros HV HM. unfold member_of.
  destruct (parse_string at_) as [[k|] [r1|e]] eqn:Ep; cbn [snd]; try exact I.
  apply parse_string_cons in Ep as (ck & -> & Wk).
  destruct (skip_ws_cons r1) as (w & E & Aw). destruct (skip_ws r1) as [|c r2]; [exact I|].
  destruct (c =? 58)%N eqn:Ec; [|exact I].
  specialize (HV depth r2). destruct (parse_value f depth r2) as [evs [rest|e]]; cbn [snd] in *; [|exact I].
  destruct HV as (cv & -> & Wv). specialize (HM depth rest false).
  destruct (parse_members f depth rest false) as [[evs' n] res]. cbn [snd] in *.
  eapply (cons_wf_trans _ (ck ++ w ++ c :: cv)); [| |exact HM].
  - rewrite E. rewrite <- !app_assoc. cbn [app]. rewrite <- ?app_assoc. reflexivity.
  - apply wf8_app; [exact Wk|]. apply wf8_app; [now apply ascii_wf8|]. apply wf_1; [lia|exact Wv].
Qed.

Lemma Mw_step f : Vw f -> Mw f -> Mw (S f).
Proof.
  intros HV HM depth inp first. rewrite parse_members_unfold.
  destruct (skip_ws_cons inp) as (w & E & Aw). destruct (skip_ws inp) as [|b r]; [exact I|].
  destruct (b =? 125)%N eqn:E1.
  { exists (w ++ [b]). split; [now rewrite <- app_assoc|]. apply ascii_wf8. apply ascii_app; [exact Aw|apply ascii_1; lia]. }
  destruct first.
  { destruct (b =? 34)%N eqn:Eq; [|exact I].
    eapply (cons_wf_trans _ (w ++ [b])); [rewrite <- app_assoc; exact E| |now apply member_of_cons].
    apply ascii_wf8. apply ascii_app; [exact Aw|apply ascii_1; lia]. }
  destruct (b =? 44)%N eqn:E2; [|exact I].
  destruct (skip_ws_cons r) as (w2 & E' & Aw2). destruct (skip_ws r) as [|c r']; [exact I|].
  destruct (c =? 34)%N eqn:Eq; [|exact I].
  eapply (cons_wf_trans _ (w ++ b :: w2 ++ [c])); [| |now apply member_of_cons].
  - rewrite E, E'. rewrite <- !app_assoc. cbn [app]. rewrite <- ?app_assoc. reflexivity.
  - apply ascii_wf8. apply ascii_app; [exact Aw|]. apply ascii_cons; [lia|]. apply ascii_app; [exact Aw2|apply ascii_1; lia].
Qed.

Lemma all_wf : forall f, Vw f /\ Ew f /\ Mw f.
Proof.
  induction f as [|f (HV & HE & HM)].
  - repeat split; intros ? ?; try intros ?; exact I.
  - repeat split; [apply Vw_step|apply Ew_step|apply Mw_step]; assumption.
Qed.

Lemma json_value_cons inp : cons_wf inp (snd (json_value inp)).
Proof. apply (proj1 (all_wf _)). Qed.

(* ---------- the reader loop ---------- *)

Lemma reader_loop_wf : forall f inp docs, json_reader_loop f inp = (docs, JDone) -> wf8 inp.
Proof.
  induction f as [|f IH]; intros inp docs H; [discriminate|]. cbn [json_reader_loop] in H.
  destruct (skip_ws_cons inp) as (w & E & Aw). destruct (skip_ws inp) as [|b r].
  { rewrite E, app_nil_r. now apply ascii_wf8. }
  pose proof (json_value_cons (b :: r)) as Hv.
  destruct (json_value (b :: r)) as [evs [rest|e]]; cbn [snd] in Hv; [|discriminate].
  destruct Hv as (c & Ec & Wc).
  destruct (json_reader_loop f rest) as [ds fin] eqn:El. injection H as _ ->.
  apply IH in El. rewrite E, Ec. apply wf8_app; [now apply ascii_wf8|]. now apply wf8_app.
Qed.

(* If the reader path translates an input to the end, the input is valid UTF-8. *)
Theorem reader_ok_utf8 inp : jm_ok (json_reader inp) = true -> utf8_valid inp = true.
Proof.
  unfold jm_ok, json_reader. destruct (json_reader_loop (S (length inp)) inp) as [docs fin] eqn:E. cbn [snd].
  destruct fin; [|discriminate]. intros _. apply utf8_valid_iff. eapply reader_loop_wf. exact E.
Qed.

(* ---------- the two loops, for every byte string ---------- *)

(* Outside the known class: same verdict, and when it is success the same
   documents with the same events.  Always: what the slice path wrote for its
   complete documents is a prefix of what the reader path wrote. *)
Theorem json_agree_all inp :
  (~ adjacent_scalars inp ->
     jm_ok (json_slice inp) = jm_ok (json_reader inp) /\
     (jm_ok (json_slice inp) = true -> json_slice inp = json_reader inp)) /\
  prefix_of (jm_output (json_slice inp)) (jm_output (json_reader inp)).
Proof.
  destruct (utf8_valid inp) eqn:U.
  - destruct (json_slice_reader_agree inp U) as [H1 H2]. split; [|exact H2].
    intros HK. rewrite (H1 HK). split; [reflexivity|reflexivity].
  - destruct (json_invalid_utf8_prefix inp U) as [H1 H2]. split; [|exact H2].
    intros _. rewrite H1. cbn [jm_ok snd]. split; [|discriminate].
    destruct (jm_ok (json_reader inp)) eqn:R; [|reflexivity].
    apply reader_ok_utf8 in R. congruence.
Qed.
