(* InputModel.v — src/input.rs: the rewindable input handle.

   Transliteration of CaptureReader / GuardedCaptureReader / Handle / Ref /
   Input / FusedReader, over a source with an arbitrary short-read schedule
   and an optional sticky fault point.  Definitions only; proofs are in
   InputProofs.v. *)
From XtModel Require Import Base.

(* An I/O error coming from the input source: it failed once [at] bytes had
   been delivered. *)
Inductive ioerr := SrcFault (at_ : nat).

Definition ioresult := result ioerr.

(* ---------- the source ---------- *)

(* [data]: the complete byte stream.  [deliv]: bytes delivered so far.
   [fault]: Some k = every read fails once k bytes have been delivered. *)
Record src := { data : bytes; deliv : nat; fault : option nat }.

(* Bytes the source can still deliver before EOF or the fault. *)
Definition visible_end (s : src) : nat :=
  match fault s with
  | Some k => Nat.min k (length (data s))
  | None => length (data s)
  end.

Definition faulted (s : src) : bool :=
  match fault s with
  | Some k => k <=? deliv s
  | None => false
  end.

Definition fault_err (s : src) : ioerr :=
  match fault s with Some k => SrcFault k | None => SrcFault 0 end.

Section Sched.
  (* The read schedule: a read issued when d bytes have been delivered returns
     at most S (sched d) bytes.  Any function; theorems quantify over it. *)
  Variable sched : nat -> nat.

  Definition src_with (s : src) (d : nat) : src :=
    {| data := data s; deliv := d; fault := fault s |}.

  (* One read(buf) with |buf| = n. *)
  Definition src_read (s : src) (n : nat) : src * ioresult bytes :=
    if faulted s then (s, Err (fault_err s))
    else
      let k := Nat.min n (Nat.min (S (sched (deliv s))) (visible_end s - deliv s)) in
      (src_with s (deliv s + k), Ok (firstn k (skipn (deliv s) (data s)))).

  (* std::io::Read::read_to_end on [source.take(limit)] (limit = None: no
     Take).  Returns the new source, the bytes appended to the buffer (also
     appended when the call then fails), and Ok (Some l) = finished with Take
     limit l left / Ok None = finished without a Take / Err. *)
  Definition src_read_to_end (s : src) (limit : option nat)
    : src * bytes * ioresult (option nat) :=
    if faulted s then (s, [], Err (fault_err s))
    else
      let avail := visible_end s - deliv s in
      let m := match limit with Some l => Nat.min l avail | None => avail end in
      let s' := src_with s (deliv s + m) in
      let bs := firstn m (skipn (deliv s) (data s)) in
      match limit with
      | Some l =>
          if m =? l then (s', bs, Ok (Some 0))
          else if faulted s' then (s', bs, Err (fault_err s))
          else (s', bs, Ok (Some (l - m)))
      | None =>
          if faulted s' then (s', bs, Err (fault_err s))
          else (s', bs, Ok None)
      end.

  (* ---------- CaptureReader (input.rs:260-382) ---------- *)

  (* prefix: Cursor<Vec<u8>> = (bytes, position). *)
  Record cap := { prefix : bytes; pos : nat; eof : bool; source : src }.

  Definition cap_new (s : src) : cap :=
    {| prefix := []; pos := 0; eof := false; source := s |}.

  Definition captured_unread_size (c : cap) : nat := length (prefix c) - pos c.

  Definition cap_rewind (c : cap) : cap :=
    {| prefix := prefix c; pos := 0; eof := eof c; source := source c |}.

  (* Cursor<Vec<u8>>::write_all at position p: overwrite, extending the vector
     as needed (p <= length is an invariant of the caller, proved later). *)
  Definition cursor_write (v : bytes) (p : nat) (bs : bytes) : bytes :=
    firstn p v ++ bs ++ skipn (p + length bs) v.

  (* impl Read for CaptureReader: read(buf) with |buf| = n. *)
  Definition cap_read (c : cap) (n : nat) : cap * ioresult bytes :=
    let prefix_size := Nat.min n (captured_unread_size c) in
    let out1 := firstn prefix_size (skipn (pos c) (prefix c)) in
    let pos1 := pos c + prefix_size in
    if (0 <? length (prefix c) - pos1) || (prefix_size =? n) then
      ({| prefix := prefix c; pos := pos1; eof := eof c; source := source c |}, Ok out1)
    else
      match src_read (source c) (n - prefix_size) with
      | (s', Err e) =>
          ({| prefix := prefix c; pos := pos1; eof := eof c; source := s' |}, Err e)
      | (s', Ok bs) =>
          ({| prefix := cursor_write (prefix c) pos1 bs;
              pos := pos1 + length bs;
              eof := (length bs =? 0);
              source := s' |}, Ok (out1 ++ bs))
      end.

  (* capture_up_to_size (input.rs:319-331). *)
  Definition cap_capture_up_to (c : cap) (size : nat) : cap * ioresult unit :=
    let needed := size - length (prefix c) in
    if needed =? 0 then (c, Ok tt)
    else
      match src_read_to_end (source c) (Some needed) with
      | (s', bs, Err e) =>
          ({| prefix := prefix c ++ bs; pos := pos c; eof := eof c; source := s' |}, Err e)
      | (s', bs, Ok lim) =>
          let hit_eof := match lim with Some l => 0 <? l | None => false end in
          ({| prefix := prefix c ++ bs; pos := pos c;
              eof := if hit_eof then true else eof c; source := s' |}, Ok tt)
      end.

  (* capture_to_end (input.rs:305-311). *)
  Definition cap_capture_to_end (c : cap) : cap * ioresult unit :=
    if eof c then (c, Ok tt)
    else
      match src_read_to_end (source c) None with
      | (s', bs, Err e) =>
          ({| prefix := prefix c ++ bs; pos := pos c; eof := eof c; source := s' |}, Err e)
      | (s', bs, Ok _) =>
          ({| prefix := prefix c ++ bs; pos := pos c; eof := true; source := s' |}, Ok tt)
      end.

  (* ---------- Handle, Ref, Input ---------- *)

  Inductive handle := HSlice (b : bytes) | HReader (c : cap).

  (* What a borrow hands out. *)
  Inductive refkind := RSlice (b : bytes) | RReader.

  (* Handle::borrow_mut (input.rs:82-94). *)
  Definition borrow_mut (h : handle) : handle * refkind :=
    match h with
    | HSlice b => (h, RSlice b)
    | HReader c =>
        let c := cap_rewind c in
        (HReader c, if eof c then RSlice (prefix c) else RReader)
    end.

  (* An owned reader as Input::from builds it: the unread part of a chained,
     fused prefix cursor followed by the bare source. *)
  Record owned_reader := { chained : bytes; osource : src }.

  Inductive input := ISlice (b : bytes) | IReader (r : owned_reader).

  (* impl From<Handle> for Input (input.rs:126-144). *)
  Definition into_input (h : handle) : input :=
    match h with
    | HSlice b => ISlice b
    | HReader c =>
        let c := cap_rewind c in
        if eof c then ISlice (prefix c)
        else IReader {| chained := skipn (pos c) (prefix c); osource := source c |}
    end.

  (* impl TryFrom<Handle> for Cow<[u8]> (input.rs:99-112). *)
  Definition into_cow (h : handle) : ioresult bytes :=
    match h with
    | HSlice b => Ok b
    | HReader c =>
        match cap_capture_to_end (cap_rewind c) with
        | (_, Err e) => Err e
        | (c', Ok _) => Ok (prefix c')
        end
    end.

  (* read(buf), |buf| = n, on FusedReader(cursor).chain(source): the first
     reader until it returns 0 for a non-empty buffer, then the second. *)
  Definition owned_read (r : owned_reader) (n : nat) : owned_reader * ioresult bytes :=
    match chained r with
    | _ :: _ =>
        let k := Nat.min n (length (chained r)) in
        ({| chained := skipn k (chained r); osource := osource r |}, Ok (firstn k (chained r)))
    | [] =>
        match src_read (osource r) n with
        | (s', res) => ({| chained := []; osource := s' |}, res)
        end
    end.

  (* Everything an owned reader yields when read to its end: the bytes, and
     the error that ended the stream if it was not EOF. *)
  Definition owned_drain (r : owned_reader) : bytes * option ioerr :=
    match src_read_to_end (osource r) None with
    | (_, bs, Err e) => (chained r ++ bs, Some e)
    | (_, bs, Ok _) => (chained r ++ bs, None)
    end.

  (* ---------- operation programs ---------- *)

  Inductive op := OReborrow | ORead (n : nat) | OPrefix (n : nat).

  Inductive obs :=
  | ObsBorrow (is_slice : bool)
  | ObsRead (r : ioresult bytes)
  | ObsPrefix (r : ioresult bytes)
  | ObsNotReader.

  (* A program state: the handle and the reference currently borrowed. *)
  Definition pstate := (handle * refkind)%type.

  Definition step (st : pstate) (o : op) : pstate * obs :=
    let '(h, r) := st in
    match o with
    | OReborrow =>
        let '(h', r') := borrow_mut h in
        ((h', r'), ObsBorrow (match r' with RSlice _ => true | RReader => false end))
    | ORead n =>
        match r, h with
        | RReader, HReader c =>
            let '(c', res) := cap_read c n in ((HReader c', RReader), ObsRead res)
        | _, _ => (st, ObsNotReader)
        end
    | OPrefix n =>
        match r, h with
        | RSlice b, _ => (st, ObsPrefix (Ok b))
        | RReader, HReader c =>
            match cap_capture_up_to c n with
            | (c', Err e) => ((HReader c', RReader), ObsPrefix (Err e))
            | (c', Ok _) => ((HReader c', RReader), ObsPrefix (Ok (prefix c')))
            end
        | RReader, HSlice _ => (st, ObsNotReader)
        end
    end.

  Fixpoint run (st : pstate) (ops : list op) : pstate * list obs :=
    match ops with
    | [] => (st, [])
    | o :: ops' =>
        let '(st', ob) := step st o in
        let '(st'', obs') := run st' ops' in
        (st'', ob :: obs')
    end.

  Definition start (h : handle) : pstate := borrow_mut h.

  Inductive final := FinInput | FinCow.

  Inductive fobs :=
  | FSlice (b : bytes)
  | FReader (stream : bytes) (e : option ioerr)
  | FCow (r : ioresult bytes).

  Definition finish (h : handle) (f : final) : fobs :=
    match f with
    | FinInput =>
        match into_input h with
        | ISlice b => FSlice b
        | IReader r => let '(bs, e) := owned_drain r in FReader bs e
        end
    | FinCow => FCow (into_cow h)
    end.

  Definition from_reader (d : bytes) (flt : option nat) : handle :=
    HReader (cap_new {| data := d; deliv := 0; fault := flt |}).

  (* The whole experiment: a reader handle over [d], the initial borrow, a
     program, and one way of taking ownership. *)
  Definition run_reader (d : bytes) (flt : option nat) (ops : list op) (f : final)
    : list obs * fobs :=
    let '((h, _), os) := run (start (from_reader d flt)) ops in
    (os, finish h f).

  Definition run_slice (d : bytes) (ops : list op) (f : final) : list obs * fobs :=
    let '((h, _), os) := run (start (HSlice d)) ops in
    (os, finish h f).
End Sched.
