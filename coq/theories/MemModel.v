(* MemModel.v — the resource protocol of src/yaml/chunker/parser.rs (the safe
   face xt puts on unsafe-libyaml) and the guarded memcpy of its read callback.

   (a) read_handler (parser.rs:120-192): the reader's answer and the size of
       libyaml's buffer decide whether bytes are copied, how many, and what
       libyaml is told.
   (b) the protocol: parser initialise -> use -> delete, read state allocate ->
       free, event initialise -> delete, as a monitor over the trace of
       resource events that the binding emits.
   (c) the binding itself as a generator of such traces from client programs
       (what Rust's ownership rules let a client do with Parser and Event).
   Definitions only. *)
From XtModel Require Import Base.

(* ---------- (a) the read callback ---------- *)

Inductive ranswer := RBytes (n : nat) | RFail.          (* Read::read returned Ok(n) / Err *)

Record rh_result := {
  rh_copy : option (nat * nat * nat);   (* Some (len, buffer_size, bouncer_len): copy_nonoverlapping of len bytes *)
  rh_size_read : option nat;            (* what *size_read is set to *)
  rh_success : bool;
  rh_error_stashed : bool
}.

(* bouncer.resize(buffer_size, 0) precedes the read, so the bounce buffer has
   exactly buffer_size bytes *)
Definition read_handler (buffer_size : nat) (a : ranswer) : rh_result :=
  match a with
  | RBytes n =>
      if n <=? buffer_size then
        {| rh_copy := Some (n, buffer_size, buffer_size); rh_size_read := Some n; rh_success := true; rh_error_stashed := false |}
      else
        {| rh_copy := None; rh_size_read := None; rh_success := false; rh_error_stashed := true |}
  | RFail => {| rh_copy := None; rh_size_read := None; rh_success := false; rh_error_stashed := true |}
  end.

(* ---------- (b) the protocol monitor ---------- *)

Inductive mev :=
| MParserInit | MStateAlloc
| MCopy (len size bouncer : nat)
| MRefuse
| MParserDelete | MStateFree
| MEventInit | MEventDelete.

Inductive life := NotYet | Live | Gone.

Record mstate := { m_parser : life; m_state : life; m_events : nat (* initialised, not yet deleted *) }.

Definition m0 : mstate := {| m_parser := NotYet; m_state := NotYet; m_events := 0 |}.

Inductive mviolation :=
| VDoubleInit | VUseAfterDelete | VUseBeforeInit | VDoubleFree | VStateFreedBeforeParser
| VCopyOutOfBounds | VEventUnderflow.

(* One resource event: the new state, or the violation it constitutes. *)
Definition mstep (s : mstate) (e : mev) : result mviolation mstate :=
  match e with
  | MParserInit =>
      match m_parser s with
      | NotYet => Ok {| m_parser := Live; m_state := m_state s; m_events := m_events s |}
      | _ => Err VDoubleInit
      end
  | MStateAlloc =>
      match m_state s with
      | NotYet => Ok {| m_parser := m_parser s; m_state := Live; m_events := m_events s |}
      | _ => Err VDoubleInit
      end
  | MCopy len size bouncer =>
      (* the callback runs inside yaml_parser_parse: parser and read state must be alive;
         the copy must fit both buffers *)
      match m_parser s, m_state s with
      | Live, Live => if (len <=? size) && (len <=? bouncer) then Ok s else Err VCopyOutOfBounds
      | Gone, _ | _, Gone => Err VUseAfterDelete
      | _, _ => Err VUseBeforeInit
      end
  | MRefuse =>
      match m_parser s, m_state s with
      | Live, Live => Ok s
      | Gone, _ | _, Gone => Err VUseAfterDelete
      | _, _ => Err VUseBeforeInit
      end
  | MEventInit =>
      match m_parser s with
      | Live => Ok {| m_parser := Live; m_state := m_state s; m_events := S (m_events s) |}
      | Gone => Err VUseAfterDelete
      | NotYet => Err VUseBeforeInit
      end
  | MEventDelete =>
      (* an event owns its memory: deleting it after the parser is fine *)
      match m_events s with
      | O => Err VEventUnderflow
      | S n => Ok {| m_parser := m_parser s; m_state := m_state s; m_events := n |}
      end
  | MParserDelete =>
      match m_parser s with
      | Live => Ok {| m_parser := Gone; m_state := m_state s; m_events := m_events s |}
      | Gone => Err VDoubleFree
      | NotYet => Err VUseBeforeInit
      end
  | MStateFree =>
      match m_state s, m_parser s with
      | Live, Gone => Ok {| m_parser := Gone; m_state := Gone; m_events := m_events s |}
      | Live, _ => Err VStateFreedBeforeParser     (* the parser could still call the read handler *)
      | Gone, _ => Err VDoubleFree
      | NotYet, _ => Err VUseBeforeInit
      end
  end.

Fixpoint mrun (s : mstate) (tr : list mev) : result mviolation mstate :=
  match tr with
  | [] => Ok s
  | e :: tr' => match mstep s e with Ok s' => mrun s' tr' | Err v => Err v end
  end.

(* nothing left alive: no leak *)
Definition mclean (s : mstate) : bool :=
  match m_parser s, m_state s, m_events s with
  | Gone, Gone, O => true
  | _, _, _ => false
  end.

(* ---------- (c) the binding as a trace generator ---------- *)

(* What a client can do, by Rust's ownership rules: call next_event while it
   holds the parser (each call makes libyaml invoke the read handler some
   number of times, then yields an event or an error); drop an event it holds;
   drop the parser (at most once, after which no next_event is possible; events
   it still holds may be dropped later). *)
Inductive cop :=
| CNext (reads : list (nat * ranswer)) (ok : bool)    (* (buffer_size, answer) per callback *)
| CDropEvent
| CDropParser.

Definition handler_events (r : nat * ranswer) : list mev :=
  match rh_copy (read_handler (fst r) (snd r)) with
  | Some (len, size, bouncer) => [MCopy len size bouncer]
  | None => [MRefuse]
  end.

(* client state: does it hold the parser, how many events does it hold *)
Fixpoint binding (holds_parser : bool) (held : nat) (prog : list cop) : list mev :=
  match prog with
  | [] =>
      (* end of scope: everything still held is dropped (events first or last makes no difference) *)
      repeat MEventDelete held ++ (if holds_parser then [MParserDelete; MStateFree] else [])
  | CNext reads ok :: prog' =>
      if holds_parser then
        flat_map handler_events reads ++ (if ok then MEventInit :: binding true (S held) prog' else binding true held prog')
      else binding holds_parser held prog'             (* not expressible in safe Rust: skipped *)
  | CDropEvent :: prog' =>
      match held with
      | O => binding holds_parser held prog'           (* nothing to drop *)
      | S n => MEventDelete :: binding holds_parser n prog'
      end
  | CDropParser :: prog' =>
      if holds_parser then MParserDelete :: MStateFree :: binding false held prog'
      else binding false held prog'
  end.

Definition session (prog : list cop) : list mev := MParserInit :: MStateAlloc :: binding true 0 prog.
