(* MsgpackProofs.v — facts about the MessagePack model: the size calculator
   never panics, never reports more than the input holds, and terminates within
   its fuel. *)
From XtModel Require Import Base MsgpackModel.
Require Import ZifyBool ZifyNat ZifyN.

Lemma len_n_nil : len_n [] = 0%N. Proof. reflexivity. Qed.

Lemma len_n_cons b bs : len_n (b :: bs) = (1 + len_n bs)%N.
Proof. unfold len_n. cbn [length]. lia. Qed.

Lemma len_n_skipn k bs : (k <= len_n bs)%N -> len_n (skipn (N.to_nat k) bs) = (len_n bs - k)%N.
Proof. unfold len_n. intros H. rewrite skipn_length. lia. Qed.

Lemma slice_from_some inp k rest :
  slice_from inp k = Some rest -> (k <= len_n inp)%N /\ rest = skipn (N.to_nat k) inp.
Proof.
  unfold slice_from. destruct (k <=? len_n inp)%N eqn:E; [|discriminate].
  intros [= <-]. split; [lia|reflexivity].
Qed.

Lemma slice_from_ok inp k : (k <= len_n inp)%N -> slice_from inp k = Some (skipn (N.to_nat k) inp).
Proof. unfold slice_from. intros H. destruct (k <=? len_n inp)%N eqn:E; [reflexivity|lia]. Qed.

Lemma sz_slice_ok inp k (g : bytes -> szres) :
  (k <= len_n inp)%N -> sz_slice inp k g = g (skipn (N.to_nat k) inp).
Proof. intros H. unfold sz_slice. now rewrite slice_from_ok. Qed.

Lemma try_read_length_some w inp n :
  try_read_length w inp = Some n -> (1 + N.of_nat w <= len_n inp)%N.
Proof.
  unfold try_read_length, len_n. destruct (1 + w <=? length inp) eqn:E; [|discriminate].
  intros _. lia.
Qed.

Lemma sz_finish_ok inp total n : sz_finish inp total = SzOk n -> n = total /\ (total <= len_n inp)%N.
Proof.
  unfold sz_finish. destruct (total <=? len_n inp)%N eqn:E; [|discriminate].
  intros [= <-]. split; [reflexivity|lia].
Qed.

Lemma sz_finish_not_panic inp total : sz_finish inp total <> SzPanic.
Proof. unfold sz_finish. destruct (total <=? len_n inp)%N; discriminate. Qed.

Lemma sz_finish_not_fuel inp total : sz_finish inp total <> SzOutOfFuel.
Proof. unfold sz_finish. destruct (total <=? len_n inp)%N; discriminate. Qed.

(* ---------- no panic, and the size never exceeds the input ---------- *)

Definition nvs_good (f : nat) : Prop :=
  forall inp dl,
    nvs f inp dl <> SzPanic /\
    forall n, nvs f inp dl = SzOk n ->
      (n <= len_n inp)%N /\ (inp <> [] -> 1 <= n)%N.

Definition seq_good (f : nat) : Prop :=
  forall seq c dl, dl <> 0 ->
    total_seq f seq c dl <> SzPanic /\
    forall t, total_seq f seq c dl = SzOk t -> (t <= len_n seq)%N.

(* The two shared sub-computations of nvs, given a good total_seq. *)
Lemma seq_of_good f inp dl hdr count :
  seq_good f -> dl <> 0 -> (1 <= hdr <= len_n inp)%N ->
  let r := sz_slice inp hdr (fun rest =>
             sz_bind (total_seq f rest count dl) (fun t => sz_finish inp (hdr + t)%N)) in
  r <> SzPanic /\ forall n, r = SzOk n -> (n <= len_n inp)%N /\ (1 <= n)%N.
Proof.
  intros Hs Hdl Hh r. subst r. rewrite sz_slice_ok by lia.
  destruct (Hs (skipn (N.to_nat hdr) inp) count dl Hdl) as [Hnp Hb].
  destruct (total_seq f (skipn (N.to_nat hdr) inp) count dl) as [t| | |] eqn:E; cbn [sz_bind];
    try (split; [discriminate|intros n [=]]); [|congruence].
  split; [apply sz_finish_not_panic|].
  intros n Hn. apply sz_finish_ok in Hn as [-> Hle]. split; lia.
Qed.

Lemma map_of_good f inp dl hdr pairs :
  seq_good f -> dl <> 0 -> (1 <= hdr <= len_n inp)%N ->
  let r := sz_slice inp hdr (fun rest =>
             sz_bind (total_seq f rest pairs dl) (fun first =>
               sz_slice rest first (fun rest2 =>
                 sz_bind (total_seq f rest2 pairs dl) (fun second =>
                   sz_finish inp (hdr + (first + second))%N)))) in
  r <> SzPanic /\ forall n, r = SzOk n -> (n <= len_n inp)%N /\ (1 <= n)%N.
Proof.
  intros Hs Hdl Hh r. subst r. rewrite sz_slice_ok by lia.
  set (rest := skipn (N.to_nat hdr) inp).
  destruct (Hs rest pairs dl Hdl) as [Hnp Hb].
  destruct (total_seq f rest pairs dl) as [first| | |] eqn:E; cbn [sz_bind];
    try (split; [discriminate|intros n [=]]); [|congruence].
  specialize (Hb first eq_refl).
  rewrite sz_slice_ok by exact Hb.
  set (rest2 := skipn (N.to_nat first) rest).
  destruct (Hs rest2 pairs dl Hdl) as [Hnp2 Hb2].
  destruct (total_seq f rest2 pairs dl) as [second| | |] eqn:E2; cbn [sz_bind];
    try (split; [discriminate|intros n [=]]); [|congruence].
  split; [apply sz_finish_not_panic|].
  intros n Hn. apply sz_finish_ok in Hn as [-> Hle]. split; lia.
Qed.

Lemma with_len_good w inp (k : N -> szres) :
  (forall n, (1 + N.of_nat w <= len_n inp)%N ->
     k n <> SzPanic /\ forall x, k n = SzOk x -> (x <= len_n inp)%N /\ (1 <= x)%N) ->
  sz_with_len w inp k <> SzPanic /\
  forall x, sz_with_len w inp k = SzOk x -> (x <= len_n inp)%N /\ (1 <= x)%N.
Proof.
  intros H. unfold sz_with_len. destruct (try_read_length w inp) as [n|] eqn:E.
  - apply H. eapply try_read_length_some; eassumption.
  - split; [discriminate|intros x [=]].
Qed.

Lemma finish_good inp total : (1 <= total)%N ->
  sz_finish inp total <> SzPanic /\
  forall x, sz_finish inp total = SzOk x -> (x <= len_n inp)%N /\ (1 <= x)%N.
Proof.
  intros H. split; [apply sz_finish_not_panic|].
  intros x Hx. apply sz_finish_ok in Hx as [-> Hle]. split; lia.
Qed.

Lemma good_step f : nvs_good f /\ seq_good f -> nvs_good (S f) /\ seq_good (S f).
Proof.
  intros [Hn Hs]. split.
  - intros inp dl. cbn [nvs].
    destruct (dl =? 0) eqn:Hdl; [split; [discriminate|intros n [=]]|].
    apply Nat.eqb_neq in Hdl.
    destruct inp as [|m tl]; [split; [discriminate|intros n [= <-]; split; [rewrite len_n_nil; lia|congruence]]|].
    assert (Hlen : (1 <= len_n (m :: tl))%N) by (rewrite len_n_cons; lia).
    enough (G : forall r, r = (match classify m with
       | MkReserved => SzErr InvalidMarker
       | MkScalar p => sz_finish (m :: tl) (1 + p)%N
       | MkStrFix n => sz_finish (m :: tl) (1 + n)%N
       | MkStrLen w | MkBinLen w =>
           sz_with_len w (m :: tl) (fun n => sz_finish (m :: tl) (1 + N.of_nat w + n)%N)
       | MkExtFix n => sz_finish (m :: tl) (2 + n)%N
       | MkExtLen w =>
           sz_with_len w (m :: tl) (fun n => sz_finish (m :: tl) (2 + N.of_nat w + n)%N)
       | MkArrFix n => sz_slice (m :: tl) 1%N (fun rest =>
             sz_bind (total_seq f rest n dl) (fun t => sz_finish (m :: tl) (1 + t)%N))
       | MkArrLen w => sz_with_len w (m :: tl) (fun n =>
           sz_slice (m :: tl) (1 + N.of_nat w)%N (fun rest =>
             sz_bind (total_seq f rest n dl) (fun t => sz_finish (m :: tl) (1 + N.of_nat w + t)%N)))
       | MkMapFix n => sz_slice (m :: tl) 1%N (fun rest =>
             sz_bind (total_seq f rest n dl) (fun first =>
               sz_slice rest first (fun rest2 =>
                 sz_bind (total_seq f rest2 n dl) (fun second =>
                   sz_finish (m :: tl) (1 + (first + second))%N))))
       | MkMapLen w => sz_with_len w (m :: tl) (fun n =>
           sz_slice (m :: tl) (1 + N.of_nat w)%N (fun rest =>
             sz_bind (total_seq f rest n dl) (fun first =>
               sz_slice rest first (fun rest2 =>
                 sz_bind (total_seq f rest2 n dl) (fun second =>
                   sz_finish (m :: tl) (1 + N.of_nat w + (first + second))%N)))))
       end) ->
       r <> SzPanic /\ forall x, r = SzOk x -> (x <= len_n (m :: tl))%N /\ (1 <= x)%N).
    { destruct (G _ eq_refl) as [G1 G2]. split; [exact G1|].
      intros n Hn0. destruct (G2 n Hn0). split; [assumption|intros _; assumption]. }
    intros r ->.
    destruct (classify m) as [p|n|w|w|n|w|n|w|n|w|].
    + apply finish_good; lia.
    + apply finish_good; lia.
    + apply with_len_good. intros n Hw. apply finish_good; lia.
    + apply with_len_good. intros n Hw. apply finish_good; lia.
    + apply finish_good; lia.
    + apply with_len_good. intros n Hw. apply finish_good; lia.
    + apply (seq_of_good f (m :: tl) dl 1%N n Hs Hdl). lia.
    + apply with_len_good. intros n Hw.
      apply (seq_of_good f (m :: tl) dl (1 + N.of_nat w)%N n Hs Hdl). lia.
    + apply (map_of_good f (m :: tl) dl 1%N n Hs Hdl). lia.
    + apply with_len_good. intros n Hw.
      apply (map_of_good f (m :: tl) dl (1 + N.of_nat w)%N n Hs Hdl). lia.
    + split; [discriminate|intros x [=]].
  - intros seq c dl Hdl. cbn [total_seq].
    destruct (c =? 0)%N; [split; [discriminate|intros t [= <-]; lia]|].
    destruct seq as [|b tl]; [split; [discriminate|intros t [=]]|].
    destruct (dl =? 0) eqn:E; [apply Nat.eqb_eq in E; contradiction|].
    destruct (Hn (b :: tl) (dl - 1)) as [Hnp Hb].
    destruct (nvs f (b :: tl) (dl - 1)) as [size| | |] eqn:En; cbn [sz_bind];
      try (split; [discriminate|intros t [=]]); [|congruence].
    destruct (Hb size eq_refl) as [Hle _].
    rewrite sz_slice_ok by exact Hle.
    set (rest := skipn (N.to_nat size) (b :: tl)).
    destruct (Hs rest (c - 1)%N dl Hdl) as [Hnp2 Hb2].
    destruct (total_seq f rest (c - 1)%N dl) as [t| | |] eqn:Et; cbn [sz_bind];
      try (split; [discriminate|intros x [=]]); [|congruence].
    subst x. specialize (Hb2 t eq_refl). subst rest. rewrite len_n_skipn in Hb2 by exact Hle. lia.
Qed.

Lemma good_all f : nvs_good f /\ seq_good f.
Proof.
  induction f as [|f IH]; [|apply good_step; exact IH].
  split.
  - intros inp dl. cbn [nvs]. split; [discriminate|intros n [=]].
  - intros seq c dl _. cbn [total_seq]. split; [discriminate|intros n [=]].
Qed.

Theorem next_value_size_no_panic inp dl : next_value_size inp dl <> SzPanic.
Proof. unfold next_value_size. apply (proj1 (good_all _)). Qed.

Theorem next_value_size_in_bounds inp dl n :
  next_value_size inp dl = SzOk n -> (n <= len_n inp)%N /\ (inp <> [] -> 1 <= n)%N.
Proof. unfold next_value_size. apply (proj1 (good_all _)). Qed.

(* ---------- termination: the fuel of next_value_size is adequate ---------- *)

Definition nvs_fueled (f : nat) : Prop :=
  forall inp dl, 2 * length inp + 1 <= f -> nvs f inp dl <> SzOutOfFuel.

Definition seq_fueled (f : nat) : Prop :=
  forall seq c dl, dl <> 0 -> 2 * length seq + 2 <= f -> total_seq f seq c dl <> SzOutOfFuel.

Lemma length_skipn_le {A} k (l : list A) : length (skipn k l) <= length l.
Proof. rewrite skipn_length. lia. Qed.

Lemma len_n_length bs : len_n bs = N.of_nat (length bs).
Proof. reflexivity. Qed.

Lemma seq_of_fuel f inp dl hdr count :
  seq_fueled f -> dl <> 0 -> (1 <= hdr <= len_n inp)%N -> 2 * length inp <= f ->
  sz_slice inp hdr (fun rest =>
    sz_bind (total_seq f rest count dl) (fun t => sz_finish inp (hdr + t)%N)) <> SzOutOfFuel.
Proof.
  intros Hs Hdl Hh Hf. rewrite sz_slice_ok by lia.
  assert (Hl : 2 * length (skipn (N.to_nat hdr) inp) + 2 <= f).
  { rewrite skipn_length. rewrite len_n_length in Hh. lia. }
  pose proof (Hs _ count dl Hdl Hl) as Hnf.
  destruct (total_seq f (skipn (N.to_nat hdr) inp) count dl); cbn [sz_bind];
    try discriminate; [apply sz_finish_not_fuel|congruence].
Qed.

Lemma map_of_fuel f inp dl hdr pairs :
  seq_fueled f -> dl <> 0 -> (1 <= hdr <= len_n inp)%N -> 2 * length inp <= f ->
  sz_slice inp hdr (fun rest =>
    sz_bind (total_seq f rest pairs dl) (fun first =>
      sz_slice rest first (fun rest2 =>
        sz_bind (total_seq f rest2 pairs dl) (fun second =>
          sz_finish inp (hdr + (first + second))%N)))) <> SzOutOfFuel.
Proof.
  intros Hs Hdl Hh Hf. rewrite sz_slice_ok by lia.
  set (rest := skipn (N.to_nat hdr) inp).
  assert (Hl : 2 * length rest + 2 <= f).
  { subst rest. rewrite skipn_length. rewrite len_n_length in Hh. lia. }
  pose proof (Hs rest pairs dl Hdl Hl) as Hnf.
  destruct (proj2 (good_all f) rest pairs dl Hdl) as [_ Hb].
  destruct (total_seq f rest pairs dl) as [first| | |]; cbn [sz_bind];
    try discriminate; [|congruence].
  specialize (Hb first eq_refl). rewrite sz_slice_ok by exact Hb.
  set (rest2 := skipn (N.to_nat first) rest).
  assert (Hl2 : 2 * length rest2 + 2 <= f).
  { subst rest2. pose proof (length_skipn_le (N.to_nat first) rest). lia. }
  pose proof (Hs rest2 pairs dl Hdl Hl2) as Hnf2.
  destruct (total_seq f rest2 pairs dl); cbn [sz_bind];
    try discriminate; [apply sz_finish_not_fuel|congruence].
Qed.

Lemma with_len_fuel w inp (k : N -> szres) :
  (forall n, (1 + N.of_nat w <= len_n inp)%N -> k n <> SzOutOfFuel) ->
  sz_with_len w inp k <> SzOutOfFuel.
Proof.
  intros H. unfold sz_with_len. destruct (try_read_length w inp) as [n|] eqn:E.
  - apply H. eapply try_read_length_some; eassumption.
  - discriminate.
Qed.

Lemma fuel_step f : nvs_fueled f /\ seq_fueled f -> nvs_fueled (S f) /\ seq_fueled (S f).
Proof.
  intros [Hn Hs]. split.
  - intros inp dl Hf. cbn [nvs].
    destruct (dl =? 0) eqn:Hdl; [discriminate|]. apply Nat.eqb_neq in Hdl.
    destruct inp as [|m tl]; [discriminate|].
    assert (Hlen : (1 <= len_n (m :: tl))%N) by (rewrite len_n_cons; lia).
    assert (Hf' : 2 * length (m :: tl) <= f) by lia.
    destruct (classify m) as [p|n|w|w|n|w|n|w|n|w|].
    + apply sz_finish_not_fuel.
    + apply sz_finish_not_fuel.
    + apply with_len_fuel. intros; apply sz_finish_not_fuel.
    + apply with_len_fuel. intros; apply sz_finish_not_fuel.
    + apply sz_finish_not_fuel.
    + apply with_len_fuel. intros; apply sz_finish_not_fuel.
    + apply seq_of_fuel; try assumption. lia.
    + apply with_len_fuel. intros n Hw. apply seq_of_fuel; try assumption. lia.
    + apply map_of_fuel; try assumption. lia.
    + apply with_len_fuel. intros n Hw. apply map_of_fuel; try assumption. lia.
    + discriminate.
  - intros seq c dl Hdl Hf. cbn [total_seq].
    destruct (c =? 0)%N; [discriminate|].
    destruct seq as [|b tl]; [discriminate|].
    destruct (dl =? 0) eqn:E; [apply Nat.eqb_eq in E; contradiction|].
    assert (Hf1 : 2 * length (b :: tl) + 1 <= f) by lia.
    pose proof (Hn (b :: tl) (dl - 1) Hf1) as Hnf.
    destruct (proj1 (good_all f) (b :: tl) (dl - 1)) as [_ Hb].
    destruct (nvs f (b :: tl) (dl - 1)) as [size| | |]; cbn [sz_bind];
      try discriminate; [|congruence].
    destruct (Hb size eq_refl) as [Hle Hpos]. specialize (Hpos ltac:(discriminate)).
    rewrite sz_slice_ok by exact Hle.
    set (rest := skipn (N.to_nat size) (b :: tl)).
    assert (Hl : 2 * length rest + 2 <= f).
    { subst rest. rewrite skipn_length. rewrite len_n_length in Hle. lia. }
    pose proof (Hs rest (c - 1)%N dl Hdl Hl) as Hnf2.
    destruct (total_seq f rest (c - 1)%N dl); cbn [sz_bind]; try discriminate; congruence.
Qed.

Lemma fuel_all f : nvs_fueled f /\ seq_fueled f.
Proof.
  induction f as [|f IH]; [|apply fuel_step; exact IH].
  split.
  - intros inp dl H. lia.
  - intros seq c dl _ H. lia.
Qed.

Theorem next_value_size_terminates inp dl : next_value_size inp dl <> SzOutOfFuel.
Proof. unfold next_value_size, nvs_fuel. apply (proj1 (fuel_all _)). lia. Qed.

(* The recursion depth of the size calculator is bounded by the depth limit:
   with depth limit dl the answer never depends on more than dl nested levels.
   Formally, a limit of 0 is refused outright, and each level of nesting passes
   dl - 1 down (see [nvs]); so an accepted value has fewer than dl levels. *)
Theorem next_value_size_depth0 inp : next_value_size inp 0 = SzErr DepthLimitExceeded.
Proof. unfold next_value_size, nvs_fuel. rewrite Nat.add_comm. reflexivity. Qed.
