(* JsonModel.v — serde_json 1.0.138 as xt drives it, and xt's two JSON document
   loops (src/json.rs).

   (1) the reader: whitespace, literals, the number grammar with serde_json's
       classification into u64 / i64 / f64 (float_roundtrip: correctly rounded,
       "number out of range" when the result is infinite), strings with every
       escape form and surrogate pairing, arrays and objects with the comma and
       colon rules, the recursion limit of 128 — producing the visitor events
       xt forwards (the event type is shared with the MessagePack model, so the
       MessagePack writer model gives the bytes of a JSON -> MessagePack
       translation);
   (2) exact decimal -> binary64 conversion by integer arithmetic;
   (3) the slice loop (whole-input UTF-8 check, StreamDeserializer with its
       end-of-value delimiter rule) and the reader loop (end() / transcode).

   Error positions and error wording are not modelled; every failure is a
   [jerr] class.  The events of a document that fails are not modelled either
   (the slice path writes nothing for it, the reader path may have written a
   part of it). *)
From XtModel Require Import Base Utf8 MsgpackModel.

Inductive jerr := JEof | JSyntax | JDepth | JRange | JTrailing | JUtf8 | JOutOfFuel.
Inductive jres := JOk (rest : bytes) | JErr (e : jerr).

(* ---------- lexical classes ---------- *)

Definition is_ws (b : N) : bool := ((b =? 32) || (b =? 10) || (b =? 9) || (b =? 13))%N.
Definition is_digit (b : N) : bool := ((48 <=? b) && (b <=? 57))%N.

Fixpoint skip_ws (inp : bytes) : bytes :=
  match inp with
  | b :: r => if is_ws b then skip_ws r else inp
  | [] => []
  end.

(* the digits at the front of the input, as values 0..9, and what follows *)
Fixpoint take_digits (inp : bytes) : list N * bytes :=
  match inp with
  | b :: r => if is_digit b then let (ds, rest) := take_digits r in ((b - 48)%N :: ds, rest) else ([], inp)
  | [] => ([], [])
  end.

Definition digits_val (ds : list N) : N := fold_left (fun a d => (a * 10 + d)%N) ds 0%N.

Fixpoint parse_ident (expected inp : bytes) : jres :=
  match expected with
  | [] => JOk inp
  | e :: es =>
      match inp with
      | [] => JErr JEof
      | b :: r => if (b =? e)%N then parse_ident es r else JErr JSyntax
      end
  end.

(* ---------- decimal -> binary64, exactly ---------- *)

(* floor (num * 2^s / den), the remainder and the divisor it is a remainder of *)
Definition scaled (num den : N) (s : Z) : N * N * N :=
  if (0 <=? s)%Z then let n' := (num * 2 ^ Z.to_N s)%N in (n' / den, n' mod den, den)%N
  else let d' := (den * 2 ^ Z.to_N (- s))%N in (num / d', num mod d', d')%N.

Definition two52 : N := 4503599627370496.
Definition inf_bits : N := 9218868437227405312.      (* 0x7FF0000000000000 *)

(* The binary64 nearest to D * 10^E (ties to even), as its bit pattern without
   the sign; None when that is infinite. *)
Definition f64_of_decimal (D : N) (E : Z) : option N :=
  if (D =? 0)%N then Some 0%N
  else if (400 <? E)%Z then None
  else if (E <? - (400 + Z.of_N (N.log2 D) / 3 + 1))%Z then Some 0%N
  else
    let num := if (0 <=? E)%Z then (D * 10 ^ Z.to_N E)%N else D in
    let den := if (0 <=? E)%Z then 1%N else (10 ^ Z.to_N (- E))%N in
    let lb := (Z.of_N (N.log2 num) - Z.of_N (N.log2 den))%Z in
    let s0 := (52 - lb)%Z in
    let q0 := fst (fst (scaled num den s0)) in
    let s1 := if (q0 <? two52)%N then (s0 + 1)%Z else s0 in
    let s := if (1074 <? s1)%Z then 1074%Z else s1 in
    let '(q, r, d) := scaled num den s in
    let q' := if ((d <? 2 * r) || ((d =? 2 * r) && N.odd q))%N then (q + 1)%N else q in
    let bits := (q' + Z.to_N (1074 - s) * two52)%N in
    if (inf_bits <=? bits)%N then None else Some bits.

Definition sign_bit : N := 9223372036854775808.      (* 2^63 *)
Definition u64_max : N := 18446744073709551615.

(* ---------- numbers ---------- *)

Definition float_ev (positive : bool) (digits : list N) (E : Z) (rest : bytes) : list ev * jres :=
  match f64_of_decimal (digits_val digits) E with
  | None => ([], JErr JRange)
  | Some bits => ([EF64 (if positive then bits else (sign_bit + bits)%N)], JOk rest)
  end.

(* after the exponent marker: optional sign, at least one digit *)
Definition exp_sign (inp : bytes) : bool * bytes :=
  match inp with
  | c :: r => if (c =? 43)%N then (true, r) else if (c =? 45)%N then (false, r) else (true, inp)
  | [] => (true, inp)
  end.

Definition exp_digits (positive : bool) (ints fracs : list N) (pos_exp : bool) (r : bytes) : list ev * jres :=
  match r with
  | [] => ([], JErr JEof)
  | b :: _ =>
      if is_digit b then
        let (es, rest) := take_digits r in
        let e := Z.of_N (digits_val es) in
        float_ev positive (ints ++ fracs) ((if pos_exp then e else - e) - Z.of_nat (length fracs))%Z rest
      else ([], JErr JSyntax)
  end.

Definition parse_exp (positive : bool) (ints fracs : list N) (inp : bytes) : list ev * jres :=
  exp_digits positive ints fracs (fst (exp_sign inp)) (snd (exp_sign inp)).

Definition is_e (b : N) : bool := ((b =? 101) || (b =? 69))%N.

(* an integer literal: u64 if it fits, i64 if negative and it fits, otherwise a float *)
Definition int_ev (positive : bool) (ints : list N) (rest : bytes) : list ev * jres :=
  let D := digits_val ints in
  if positive then
    if (D <=? u64_max)%N then ([EUInt 64 D], JOk rest) else float_ev true ints 0%Z rest
  else if (D =? 0)%N then ([EF64 sign_bit], JOk rest)
  else if (D <=? sign_bit)%N then ([ESInt 64 (- Z.of_N D)%Z], JOk rest)
  else float_ev false ints 0%Z rest.

(* after the decimal point: at least one digit, then an optional exponent *)
Definition frac_part (positive : bool) (ints : list N) (r : bytes) : list ev * jres :=
  let (fs, r2) := take_digits r in
  match fs with
  | [] => ([], JErr (match r2 with [] => JEof | _ => JSyntax end))
  | _ :: _ =>
      match r2 with
      | c :: r3 => if is_e c then parse_exp positive ints fs r3
                   else float_ev positive (ints ++ fs) (- Z.of_nat (length fs))%Z r2
      | [] => float_ev positive (ints ++ fs) (- Z.of_nat (length fs))%Z r2
      end
  end.

(* after the integer part *)
Definition after_int (positive : bool) (ints : list N) (inp : bytes) : list ev * jres :=
  match inp with
  | b :: r =>
      if (b =? 46)%N then frac_part positive ints r
      else if is_e b then parse_exp positive ints [] r
      else int_ev positive ints inp
  | [] => int_ev positive ints inp
  end.

(* [inp] starts at the first character after an optional '-' *)
Definition parse_number (positive : bool) (inp : bytes) : list ev * jres :=
  match inp with
  | [] => ([], JErr JEof)
  | b :: r =>
      if (b =? 48)%N then
        match r with
        | d :: _ => if is_digit d then ([], JErr JSyntax) else after_int positive [0%N] r
        | [] => after_int positive [0%N] r
        end
      else if is_digit b then let (ds, rest) := take_digits inp in after_int positive ds rest
      else ([], JErr JSyntax)
  end.

(* ---------- strings ---------- *)

Definition hexval (b : N) : option N :=
  if is_digit b then Some (b - 48)%N
  else if ((97 <=? b) && (b <=? 102))%N then Some (b - 87)%N
  else if ((65 <=? b) && (b <=? 70))%N then Some (b - 55)%N
  else None.

Inductive hexres := HexOk (n : N) (rest : bytes) | HexBad | HexEof.

Definition hex4 (inp : bytes) : hexres :=
  match inp with
  | a :: b :: c :: d :: r =>
      match hexval a, hexval b, hexval c, hexval d with
      | Some x, Some y, Some z, Some w => HexOk (x * 4096 + y * 256 + z * 16 + w)%N r
      | _, _, _, _ => HexBad
      end
  | _ => HexEof
  end.

Definition simple_escape (c : N) : option N :=
  if (c =? 34)%N then Some 34%N          (* quote *)
  else if (c =? 92)%N then Some 92%N     (* backslash *)
  else if (c =? 47)%N then Some 47%N     (* slash *)
  else if (c =? 98)%N then Some 8%N      (* escape b *)
  else if (c =? 102)%N then Some 12%N    (* escape f *)
  else if (c =? 110)%N then Some 10%N    (* escape n *)
  else if (c =? 114)%N then Some 13%N    (* escape r *)
  else if (c =? 116)%N then Some 9%N     (* escape t *)
  else None.

Definition is_trail (n : N) : bool := ((56320 <=? n) && (n <=? 57343))%N.
Definition is_lead (n : N) : bool := ((55296 <=? n) && (n <=? 56319))%N.

(* [inp] starts after the opening quote; [acc] is the decoded text so far, reversed *)
Fixpoint parse_str (fuel : nat) (inp : bytes) (acc : bytes) : option bytes * jres :=
  match fuel with
  | O => (None, JErr JOutOfFuel)
  | S f =>
      match inp with
      | [] => (None, JErr JEof)
      | b :: r =>
          if (b =? 34)%N then
            let s := rev acc in
            if utf8_valid s then (Some s, JOk r) else (None, JErr JSyntax)
          else if (b =? 92)%N then
            match r with
            | [] => (None, JErr JEof)
            | c :: r1 =>
                match simple_escape c with
                | Some x => parse_str f r1 (x :: acc)
                | None =>
                    if (c =? 117)%N then
                      match hex4 r1 with
                      | HexEof => (None, JErr JEof)
                      | HexBad => (None, JErr JSyntax)
                      | HexOk n r2 =>
                          if is_trail n then (None, JErr JSyntax)
                          else if negb (is_lead n) then parse_str f r2 (rev (utf8_encode n) ++ acc)
                          else
                            match r2 with
                            | [] => (None, JErr JEof)
                            | c1 :: r3 =>
                                if negb (c1 =? 92)%N then (None, JErr JSyntax)
                                else
                                  match r3 with
                                  | [] => (None, JErr JEof)
                                  | c2 :: r4 =>
                                      if negb (c2 =? 117)%N then (None, JErr JSyntax)
                                      else
                                        match hex4 r4 with
                                        | HexEof => (None, JErr JEof)
                                        | HexBad => (None, JErr JSyntax)
                                        | HexOk n2 r5 =>
                                            if is_trail n2 then
                                              parse_str f r5
                                                (rev (utf8_encode (65536 + (n - 55296) * 1024 + (n2 - 56320))%N) ++ acc)
                                            else (None, JErr JSyntax)
                                        end
                                  end
                            end
                      end
                    else (None, JErr JSyntax)
                end
            end
          else if (b <? 32)%N then (None, JErr JSyntax)
          else parse_str f r (b :: acc)
      end
  end.

Definition parse_string (inp : bytes) : option bytes * jres := parse_str (S (length inp)) inp [].

(* ---------- values ---------- *)

Definition lit (r : jres) (e : ev) : list ev * jres :=
  match r with JOk rest => ([e], JOk rest) | JErr x => ([], JErr x) end.

Definition JSON_DEPTH : nat := 128.

Fixpoint parse_value (fuel : nat) (depth : nat) (inp : bytes) {struct fuel} : list ev * jres :=
  match fuel with
  | O => ([], JErr JOutOfFuel)
  | S f =>
      match skip_ws inp with
      | [] => ([], JErr JEof)
      | b :: r =>
          if (b =? 110)%N then lit (parse_ident [117; 108; 108]%N r) EUnit
          else if (b =? 116)%N then lit (parse_ident [114; 117; 101]%N r) (EBool true)
          else if (b =? 102)%N then lit (parse_ident [97; 108; 115; 101]%N r) (EBool false)
          else if (b =? 45)%N then parse_number false r
          else if is_digit b then parse_number true (b :: r)
          else if (b =? 34)%N then
            match parse_string r with
            | (Some s, JOk rest) => ([EStr s], JOk rest)
            | (_, JErr e) => ([], JErr e)
            | (None, JOk _) => ([], JErr JSyntax)
            end
          else if (b =? 91)%N then
            if depth - 1 =? 0 then ([], JErr JDepth)
            else
              match parse_elems f (depth - 1) r true with
              | (evs, n, JOk rest) => (ESeq n :: evs ++ [ESeqEnd], JOk rest)
              | (_, _, JErr e) => ([], JErr e)
              end
          else if (b =? 123)%N then
            if depth - 1 =? 0 then ([], JErr JDepth)
            else
              match parse_members f (depth - 1) r true with
              | (evs, n, JOk rest) => (EMap n :: evs ++ [EMapEnd], JOk rest)
              | (_, _, JErr e) => ([], JErr e)
              end
          else ([], JErr JSyntax)
      end
  end
(* SeqAccess::next_element_seed until ']', then end_seq *)
with parse_elems (fuel : nat) (depth : nat) (inp : bytes) (first : bool) {struct fuel} : list ev * N * jres :=
  match fuel with
  | O => ([], 0%N, JErr JOutOfFuel)
  | S f =>
      let element (at_ : bytes) : list ev * N * jres :=
        match parse_value f depth at_ with
        | (evs, JOk rest) =>
            match parse_elems f depth rest false with
            | (evs', n, res) => (evs ++ evs', (n + 1)%N, res)
            end
        | (_, JErr e) => ([], 0%N, JErr e)
        end in
      match skip_ws inp with
      | [] => ([], 0%N, JErr JEof)
      | b :: r =>
          if (b =? 93)%N then ([], 0%N, JOk r)
          else if first then element (b :: r)
          else if (b =? 44)%N then
            match skip_ws r with
            | [] => ([], 0%N, JErr JEof)
            | c :: r' => if (c =? 93)%N then ([], 0%N, JErr JSyntax) else element (c :: r')
            end
          else ([], 0%N, JErr JSyntax)
      end
  end
(* MapAccess::next_key_seed / next_value_seed until '}', then end_map *)
with parse_members (fuel : nat) (depth : nat) (inp : bytes) (first : bool) {struct fuel} : list ev * N * jres :=
  match fuel with
  | O => ([], 0%N, JErr JOutOfFuel)
  | S f =>
      (* [at_] starts after the key's opening quote *)
      let member (at_ : bytes) : list ev * N * jres :=
        match parse_string at_ with
        | (Some k, JOk r1) =>
            match skip_ws r1 with
            | [] => ([], 0%N, JErr JEof)
            | c :: r2 =>
                if (c =? 58)%N then
                  match parse_value f depth r2 with
                  | (evs, JOk rest) =>
                      match parse_members f depth rest false with
                      | (evs', n, res) => (EStr k :: evs ++ evs', (n + 1)%N, res)
                      end
                  | (_, JErr e) => ([], 0%N, JErr e)
                  end
                else ([], 0%N, JErr JSyntax)
            end
        | (_, JErr e) => ([], 0%N, JErr e)
        | (None, JOk _) => ([], 0%N, JErr JSyntax)
        end in
      match skip_ws inp with
      | [] => ([], 0%N, JErr JEof)
      | b :: r =>
          if (b =? 125)%N then ([], 0%N, JOk r)
          else if first then (if (b =? 34)%N then member r else ([], 0%N, JErr JSyntax))
          else if (b =? 44)%N then
            match skip_ws r with
            | [] => ([], 0%N, JErr JEof)
            | c :: r' => if (c =? 34)%N then member r' else ([], 0%N, JErr JSyntax)
            end
          else ([], 0%N, JErr JSyntax)
      end
  end.

Definition json_fuel (inp : bytes) : nat := 2 * length inp + 2.

(* one value from the front of [inp] *)
Definition json_value (inp : bytes) : list ev * jres := parse_value (json_fuel inp) JSON_DEPTH inp.

(* ---------- xt's two document loops (json.rs) ---------- *)

Inductive jend := JDone | JFail (e : jerr).

(* StreamDeserializer::peek_end_of_value *)
Definition is_delim (b : N) : bool :=
  (is_ws b || (b =? 34) || (b =? 91) || (b =? 93) || (b =? 123) || (b =? 125) || (b =? 44) || (b =? 58))%N.

Definition self_delineated (b : N) : bool := ((b =? 91) || (b =? 34) || (b =? 123))%N.

(* Input::Slice: str::from_utf8 on the whole input, then StreamDeserializer *)
Fixpoint json_slice_loop (fuel : nat) (inp : bytes) : list (list ev) * jend :=
  match fuel with
  | O => ([], JFail JOutOfFuel)
  | S f =>
      match skip_ws inp with
      | [] => ([], JDone)
      | b :: r =>
          match json_value (b :: r) with
          | (_, JErr e) => ([], JFail e)
          | (evs, JOk rest) =>
              let ended := if self_delineated b then true
                           else match rest with [] => true | c :: _ => is_delim c end in
              if ended then let (docs, fin) := json_slice_loop f rest in (evs :: docs, fin)
              else ([], JFail JTrailing)
          end
      end
  end.

Definition json_slice (inp : bytes) : list (list ev) * jend :=
  if utf8_valid inp then json_slice_loop (S (length inp)) inp else ([], JFail JUtf8).

(* Input::Reader: loop { de.end() is Ok => break; otherwise transcode one value } *)
Fixpoint json_reader_loop (fuel : nat) (inp : bytes) : list (list ev) * jend :=
  match fuel with
  | O => ([], JFail JOutOfFuel)
  | S f =>
      match skip_ws inp with
      | [] => ([], JDone)
      | b :: r =>
          match json_value (b :: r) with
          | (_, JErr e) => ([], JFail e)
          | (evs, JOk rest) => let (docs, fin) := json_reader_loop f rest in (evs :: docs, fin)
          end
      end
  end.

Definition json_reader (inp : bytes) : list (list ev) * jend := json_reader_loop (S (length inp)) inp.

(* JSON -> MessagePack: what the MessagePack writer receives for the complete documents *)
Definition jm_output (r : list (list ev) * jend) : bytes := flat_map enc_evs (fst r).
Definition jm_ok (r : list (list ev) * jend) : bool := match snd r with JDone => true | JFail _ => false end.
