(* JsonMsgpackAllProofs.v — the round-trip clause of C06 for the pair
   JSON / MessagePack, for EVERY JSON input: whatever text JSON -> JSON translates
   (to an output shorter than 4 GiB, the largest length MessagePack can declare),
   JSON -> MessagePack -> JSON writes the same bytes.  What was missing: the values
   the reader reads from any text fit MessagePack's ranges - their sizes are bounded
   by the length of the text the writer writes for them. *)
From XtModel Require Import Base Utf8 Utf8Proofs MsgpackModel MsgpackCodecProofs JsonModel JsonProofs JsonUtf8Proofs JsonWriteModel JsonWriteProofs
  JsonMsgpackProofs JsonRoundTripProofs JsonFloatModel JsonFloatProofs JsonFloatTotalProofs JsonIdemProofs.
Require Import ZifyBool ZifyNat ZifyN.

(* every string and every collection inside [v] is shorter than [L] *)
Fixpoint smallb (L : N) (v : jval) : bool :=
  match v with
  | JStr s => (len_n s <? L)%N
  | JArr vs => (lenL vs <? L)%N && forallb (smallb L) vs
  | JObj kvs => (lenL kvs <? L)%N && forallb (fun kv : bytes * jval => (len_n (fst kv) <? L)%N && smallb L (snd kv)) kvs
  | _ => true
  end.

Section Sizes.
  Variable fmt : N -> bytes.
  Notation jwrite := (jwrite fmt).

  Lemma jescape_length s : length s <= length (jescape s).
  Proof.
    induction s as [|b s IH]; [cbn; lia|]. unfold jescape in *. cbn [flat_map]. rewrite app_length. cbn [length].
    assert (1 <= length (escape_byte b)).
    { unfold escape_byte. repeat match goal with |- context [if ?c then _ else _] => destruct c end; cbn [length]; lia. }
    lia.
  Qed.

  Lemma jstring_length s : length s + 2 <= length (jstring s).
  Proof. unfold jstring. cbn [length]. rewrite app_length. cbn [length]. pose proof (jescape_length s). lia. Qed.

  Lemma join_comma_count parts : length parts <= S (length (join_comma parts)).
  Proof.
    induction parts as [|p [|q rest] IH]; cbn [join_comma length] in *; try lia.
    rewrite app_length. cbn [length]. lia.
  Qed.

  Lemma join_comma_part parts p : In p parts -> length p <= length (join_comma parts).
  Proof.
    induction parts as [|q [|q' rest] IH]; intros H; [destruct H| |].
    - destruct H as [->|[]]. cbn [join_comma]. lia.
    - cbn [join_comma]. rewrite app_length. cbn [length]. destruct H as [->|H]; [lia|]. specialize (IH H). cbn [join_comma] in IH. lia.
  Qed.

  Lemma write_small L : forall v, (N.of_nat (length (jwrite v)) < L)%N -> smallb L v = true.
  Proof.
    induction v as [ |b|n|z|b|s|vs IHvs|kvs IHkvs] using jval_ind2; intros H; try reflexivity.
    - cbn [JsonWriteModel.jwrite smallb] in *. pose proof (jstring_length s). unfold len_n. lia.
    - cbn [JsonWriteModel.jwrite smallb] in *. cbn [length] in H. rewrite app_length in H. cbn [length] in H.
      pose proof (join_comma_count (map jwrite vs)) as Hc. rewrite map_length in Hc.
      apply andb_true_intro. split; [unfold lenL; lia|].
      apply forallb_forall. intros x Hx. rewrite Forall_forall in IHvs. apply (IHvs x Hx).
      pose proof (join_comma_part (map jwrite vs) (jwrite x) (in_map _ _ _ Hx)). lia.
    - cbn [JsonWriteModel.jwrite smallb] in *. cbn [length] in H. rewrite app_length in H. cbn [length] in H.
      set (part := fun kv : bytes * jval => let (k, x) := kv in jstring k ++ 58%N :: jwrite x) in *.
      pose proof (join_comma_count (map part kvs)) as Hc. rewrite map_length in Hc.
      apply andb_true_intro. split; [unfold lenL; lia|].
      apply forallb_forall. intros [k x] Hx. rewrite Forall_forall in IHkvs. cbn [fst snd].
      pose proof (join_comma_part (map part kvs) (part (k, x)) (in_map _ _ _ Hx)) as Hp.
      unfold part in Hp at 1. rewrite app_length in Hp. cbn [length] in Hp. pose proof (jstring_length k).
      apply andb_true_intro. split; [unfold len_n; lia|]. apply (IHkvs (k, x) Hx). cbn [snd]. lia.
  Qed.
End Sizes.

Lemma wfb_uint n : jwf f_finite (JUInt n) = true -> wfb utf8_valid (to_mval (JUInt n)) = true.
Proof.
  intros W. change ((n <=? u64_max)%N = true) in W. change ((n <? 18446744073709551616)%N = true).
  apply N.ltb_lt. apply N.leb_le in W. unfold u64_max in W. apply N.lt_succ_r in W. exact W.
Qed.

Lemma wfb_arr vs : Forall (fun v => wfb utf8_valid (to_mval v) = true) vs -> (lenL vs <? 4294967296)%N = true ->
  wfb utf8_valid (to_mval (JArr vs)) = true.
Proof.
  intros F L. cbn [to_mval wfb]. apply andb_true_intro. split; [unfold lenN, lenL in *; rewrite map_length; exact L|].
  rewrite forallb_forall. intros x Hx. apply in_map_iff in Hx as (y & <- & Hy). rewrite Forall_forall in F. exact (F y Hy).
Qed.

Lemma wfb_obj kvs : Forall (fun kv : bytes * jval => (len_n (fst kv) <? 4294967296)%N = true /\ utf8_valid (fst kv) = true /\
                                                     wfb utf8_valid (to_mval (snd kv)) = true) kvs ->
  (lenL kvs <? 4294967296)%N = true -> wfb utf8_valid (to_mval (JObj kvs)) = true.
Proof.
  intros F L. cbn [to_mval wfb]. apply andb_true_intro. split; [unfold lenN, lenL in *; rewrite map_length; exact L|].
  rewrite forallb_forall. intros x Hx. apply in_map_iff in Hx as ([k y] & <- & Hy). rewrite Forall_forall in F.
  destruct (F (k, y) Hy) as (A & B & C). cbn [fst snd] in *. cbn [wfb]. now rewrite A, B, C.
Qed.

Lemma wfb_of_small : forall v, jwf f_finite v = true -> smallb 4294967296 v = true -> wfb utf8_valid (to_mval v) = true.
Proof.
  induction v as [ |b|n|z|b|s|vs IHvs|kvs IHkvs] using jval_ind2; intros W S.
  - reflexivity.
  - reflexivity.
  - exact (wfb_uint n W).
  - cbn [jwf] in W. cbn [to_mval wfb]. exact W.
  - cbn [jwf] in W. cbn [to_mval wfb]. unfold f_finite in W. apply andb_prop in W as (W & _). exact W.
  - cbn [jwf] in W. cbn [smallb] in S. cbn [to_mval wfb]. now rewrite S, W.
  - cbn [jwf] in W. cbn [smallb] in S. apply andb_prop in S as (S1 & S2). apply wfb_arr; [|exact S1].
    rewrite Forall_forall in *. rewrite forallb_forall in W, S2. intros x Hx. apply (IHvs x Hx); [apply W|apply S2]; exact Hx.
  - cbn [jwf] in W. cbn [smallb] in S. apply andb_prop in S as (S1 & S2). apply wfb_obj; [|exact S1].
    rewrite Forall_forall in *. rewrite forallb_forall in W, S2. intros [k y] Hx.
    specialize (W _ Hx). specialize (S2 _ Hx). cbn [fst snd] in *.
    apply andb_prop in W as (W1 & W2). apply andb_prop in S2 as (S3 & S4).
    repeat split; [exact S3|exact W1|]. apply (IHkvs (k, y) Hx); assumption.
Qed.

Lemma depth_to_mval : forall v, depth (to_mval v) = jdepth v.
Proof.
  induction v as [ |b|n|z|b|s|vs IHvs|kvs IHkvs] using jval_ind2; cbn [to_mval depth jdepth]; try reflexivity.
  - f_equal. induction IHvs as [|x xs Hx _ IH]; [reflexivity|]. cbn [map fold_right]. now rewrite Hx, IH.
  - f_equal. induction IHkvs as [|[k x] xs Hx _ IH]; [reflexivity|]. cbn [map fold_right fst snd depth] in *. now rewrite Hx, IH.
Qed.

Lemma doc_length fmt v vs : In v vs -> length (jwrite fmt v) <= length (jwrite_docs fmt vs).
Proof.
  induction vs as [|x xs IH]; intros H; [destruct H|]. unfold jwrite_docs in *. cbn [flat_map]. rewrite !app_length.
  destruct H as [->|H]; [lia|]. specialize (IH H). lia.
Qed.

(* JSON -> MessagePack -> JSON reproduces JSON -> JSON, for every input *)
Theorem json_msgpack_json_every_input inp o :
  json_to_json_f inp = Some o -> (N.of_nat (length o) < 4294967296)%N ->
  let mp := flat_map enc_evs (fst (json_slice inp)) in
  mm_ok (transcode_reader utf8_valid mp) = true /\ mm_ok (transcode_slice utf8_valid mp) = true /\
  json_of_docs json_f64 (fst (transcode_reader utf8_valid mp)) = Some o /\
  json_of_docs json_f64 (fst (transcode_slice utf8_valid mp)) = Some o.
Proof.
  intros H Hlen. destruct (json_to_json_output _ _ H) as (vs & F & Es & ->). rewrite Es. cbn [fst].
  assert (Henc : Forall jencodable vs).
  { rewrite Forall_forall in *. intros v Hv. destruct (F v Hv) as (W & D). split.
    - apply wfb_of_small; [exact W|]. apply (write_small json_f64). pose proof (doc_length json_f64 v vs Hv). lia.
    - rewrite depth_to_mval. unfold DEPTH_LIMIT, JSON_DEPTH in *. lia. }
  destruct (json_msgpack_json json_f64 vs Henc) as (_ & R1 & R2 & R3 & R4). repeat split; assumption.
Qed.
