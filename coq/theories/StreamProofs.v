(* StreamProofs.v — bounded lag: in every run of the per-document loop, for any
   packetisation of the stream, when the source is asked for data beyond what
   document k needs, document k has already been handed to the writer. *)
From XtModel Require Import Base StreamModel.

Section Proofs.
  Variable need : nat -> nat.
  Variable ndocs total : nat.
  Variable sched : nat -> nat.
  Hypothesis need_mono : forall i j, i <= j -> need i <= need j.

  Lemma prompt_pump fuel : forall delivered k before,
    (forall j, j < k -> written j before) ->
    (forall j, j < ndocs -> need j <= delivered -> k <= j -> False) \/ need k <= delivered \/ True ->
    prompt need ndocs before (pump need ndocs total sched fuel delivered k).
  Proof.
    induction fuel as [|f IH]; intros delivered k before Hw _; cbn [pump prompt]; [exact I|].
    destruct (k <? ndocs) eqn:Hk.
    - destruct (need k <=? delivered) eqn:Hn.
      + cbn [prompt]. apply IH; [|right; right; exact I].
        intros j Hj. unfold written. apply in_or_app.
        destruct (Nat.eq_dec j k) as [->|Hne]; [right; now left|left; apply Hw; lia].
      + apply Nat.leb_gt in Hn.
        assert (Hall : forall j, j < ndocs -> need j <= delivered -> written j before).
        { intros j Hj Hnj. apply Hw. destruct (Nat.lt_ge_cases j k) as [|Hge]; [assumption|].
          pose proof (need_mono k j Hge). lia. }
        destruct (delivered <? total); cbn [prompt].
        * split; [exact Hall|]. apply IH; [|right; right; exact I].
          intros j Hj. unfold written. apply in_or_app. left. now apply Hw.
        * split; [exact Hall|exact I].
    - apply Nat.ltb_ge in Hk.
      assert (Hall : forall j, j < ndocs -> need j <= delivered -> written j before).
      { intros j Hj _. apply Hw. lia. }
      destruct (delivered <? total); cbn [prompt].
      + split; [exact Hall|]. apply IH; [|right; right; exact I].
        intros j Hj. unfold written. apply in_or_app. left. now apply Hw.
      + split; [exact Hall|exact I].
  Qed.

  (* Bounded lag, for every stream length, document count, look-ahead function
     and packetisation. *)
  Theorem run_is_prompt : prompt need ndocs [] (run need ndocs total sched).
  Proof. unfold run. apply prompt_pump; [intros j Hj; lia|right; right; exact I]. Qed.
End Proofs.

(* The property's reading: [ends k] is the offset at which document k ends; if
   the parser never needs more than the end of document k+2 to complete
   document k (JSON, MessagePack: its own end plus one byte of look-ahead;
   YAML: the start of the next document plus libyaml's look-ahead), then by the
   time the reader is asked for data beyond document k+2, document k's
   translation has been handed to the writer. *)
Theorem lag_at_most_two need ndocs total sched (ends : nat -> nat) :
  (forall i j, i <= j -> need i <= need j) ->
  (forall k, need k <= ends (k + 2)) ->
  forall before d after,
    run need ndocs total sched = before ++ TR d :: after ->
    forall k, k < ndocs -> ends (k + 2) <= d -> written k before.
Proof.
  intros Hmono Hneed before d after Hrun k Hk Hd.
  pose proof (run_is_prompt need ndocs total sched Hmono) as Hp. rewrite Hrun in Hp.
  assert (G : forall tr b, prompt need ndocs b (tr ++ TR d :: after) ->
              forall j, j < ndocs -> need j <= d -> written j (b ++ tr)).
  { induction tr as [|e tr IH]; intros b Hpr j Hj Hn; cbn [app prompt] in Hpr.
    - destruct Hpr as [H _]. rewrite app_nil_r. now apply H.
    - destruct e as [d'|k']; [destruct Hpr as [_ Hpr]|];
        specialize (IH _ Hpr j Hj Hn); now rewrite <- app_assoc in IH. }
  specialize (G before [] Hp k Hk). cbn [app] in G. apply G. specialize (Hneed k). lia.
Qed.

Example lag_nonvacuous :
  (* three 4-byte documents, no look-ahead, 3-byte packets *)
  run (fun k => 4 * S k) 3 12 (fun _ => 2) =
    [TR 0; TR 3; TW 0; TR 6; TW 1; TR 9; TW 2; TR 12].
Proof. vm_compute. reflexivity. Qed.
