(* IoProofs.v — what a short-writing and/or failing writer receives:
   write_all and write traces, then the whole Translator history. *)
From XtModel Require Import Base FormatsModel FormatsProofs IoModel.

Definition sink_ok (s : wsink) : Prop := fits (wfault s) (length (acc s)) = true.

Lemma cap_at_fits k bs : fits k (length bs) = true -> cap_at k bs = bs.
Proof.
  destruct k as [k|]; cbn [fits cap_at]; [|reflexivity].
  intros H. apply Nat.leb_le in H. now apply firstn_all2.
Qed.

Lemma cap_at_full k a b : length a = k -> cap_at (Some k) (a ++ b) = a.
Proof. intros <-. cbn [cap_at]. apply firstn_app_exact. Qed.

Section Sink.
  Variable wsched : nat -> nat.

  (* write_all: the writer ends up with exactly the bytes it can take, in order;
     it succeeds iff everything fitted; it never reports WriteZero and never
     runs out of fuel. *)
  Lemma write_all_spec : forall fuel s buf,
    sink_ok s -> length buf <= fuel ->
    let r := write_all wsched fuel s buf in
    wfault (fst r) = wfault s /\
    acc (fst r) = cap_at (wfault s) (acc s ++ buf) /\
    sink_ok (fst r) /\
    (snd r = WOk /\ fits (wfault s) (length (acc s ++ buf)) = true \/
     snd r = WErr /\ fits (wfault s) (length (acc s ++ buf)) = false).
  Proof.
    induction fuel as [|f IH]; intros s buf Hok Hlen; cbn zeta.
    - destruct buf as [|b buf]; [|cbn in Hlen; lia].
      cbn [write_all fst snd]. rewrite app_nil_r.
      repeat split; try assumption; [symmetry; now apply cap_at_fits|left; split; [reflexivity|exact Hok]].
    - destruct buf as [|b buf].
      + cbn [write_all fst snd]. rewrite app_nil_r.
        repeat split; try assumption; [symmetry; now apply cap_at_fits|left; split; [reflexivity|exact Hok]].
      + cbn [write_all]. unfold sink_write.
        set (bf := b :: buf) in *.
        assert (Hbf : 1 <= length bf) by (subst bf; cbn; lia).
        set (want := Nat.min (length bf) (S (wsched (length (acc s))))).
        assert (Hw : 1 <= want /\ want <= length bf) by (subst want; lia).
        replace (match bf with [] => (s, Some 0) | _ :: _ => _ end) with
          (match wfault s with
           | Some k => if k <=? length (acc s) then (s, None)
                       else ({| acc := acc s ++ firstn (Nat.min want (k - length (acc s))) bf; wfault := wfault s |},
                             Some (Nat.min want (k - length (acc s))))
           | None => ({| acc := acc s ++ firstn want bf; wfault := wfault s |}, Some want)
           end) by (subst bf; reflexivity).
        unfold sink_ok in Hok.
        destruct (wfault s) as [k|] eqn:Hk.
        * cbn [fits] in Hok. apply Nat.leb_le in Hok.
          destruct (k <=? length (acc s)) eqn:Hfull.
          -- apply Nat.leb_le in Hfull. cbn [fst snd]. rewrite Hk.
             assert (Hl : length (acc s) = k) by lia.
             repeat split.
             ++ symmetry. now apply cap_at_full.
             ++ unfold sink_ok. rewrite Hk. cbn [fits]. apply Nat.leb_le. lia.
             ++ right. split; [reflexivity|]. cbn [fits]. apply Nat.leb_gt. rewrite app_length. lia.
          -- apply Nat.leb_gt in Hfull.
             set (n := Nat.min want (k - length (acc s))).
             assert (Hn : 1 <= n /\ n <= length bf /\ length (acc s) + n <= k) by (subst n; lia).
             destruct n as [|n'] eqn:En; [lia|]. rewrite <- En in *.
             set (s' := {| acc := acc s ++ firstn n bf; wfault := Some k |}).
             assert (Hok' : sink_ok s').
             { unfold sink_ok. cbn [wfault acc s' fits]. apply Nat.leb_le.
               rewrite app_length, firstn_length_le by lia. lia. }
             assert (Hlen' : length (skipn n bf) <= f).
             { rewrite skipn_length. subst bf. cbn [length] in *. lia. }
             specialize (IH s' (skipn n bf) Hok' Hlen'). cbn zeta in IH.
             destruct IH as (Hf & Ha & Hs & Hr).
             cbn [wfault acc s'] in *.
             assert (E : (acc s ++ firstn n bf) ++ skipn n bf = acc s ++ bf)
               by (now rewrite <- app_assoc, firstn_skipn).
             rewrite E in *.
             repeat split; assumption.
        * destruct want as [|w'] eqn:Ew; [lia|]. rewrite <- Ew in *.
          set (s' := {| acc := acc s ++ firstn want bf; wfault := None |}).
          assert (Hok' : sink_ok s') by reflexivity.
          assert (Hlen' : length (skipn want bf) <= f).
          { rewrite skipn_length. subst bf. cbn [length] in *. lia. }
          specialize (IH s' (skipn want bf) Hok' Hlen'). cbn zeta in IH.
          destruct IH as (Hf & Ha & Hs & Hr).
          cbn [wfault acc s'] in *.
          assert (E : (acc s ++ firstn want bf) ++ skipn want bf = acc s ++ bf)
            by (now rewrite <- app_assoc, firstn_skipn).
          rewrite E in *.
          repeat split; assumption.
  Qed.

  Lemma put_spec s buf :
    sink_ok s ->
    let r := put wsched s buf in
    wfault (fst r) = wfault s /\
    acc (fst r) = cap_at (wfault s) (acc s ++ buf) /\
    sink_ok (fst r) /\
    (snd r = WOk /\ fits (wfault s) (length (acc s ++ buf)) = true \/
     snd r = WErr /\ fits (wfault s) (length (acc s ++ buf)) = false).
  Proof. intros H. apply write_all_spec; [exact H|apply le_n]. Qed.

  Lemma cap_at_cap_app k a b :
    fits k (length (a ++ b)) = false -> forall c, cap_at k (a ++ b) = cap_at k ((a ++ b) ++ c).
  Proof.
    destruct k as [k|]; cbn [fits cap_at]; [|discriminate].
    intros H c. apply Nat.leb_gt in H. rewrite (firstn_app k (a ++ b) c).
    replace (k - length (a ++ b)) with 0 by lia.
    cbn. now rewrite app_nil_r.
  Qed.

  (* A whole write trace. *)
  Lemma run_trace_spec : forall tr s,
    sink_ok s ->
    let r := run_trace wsched s tr in
    wfault (fst r) = wfault s /\
    acc (fst r) = cap_at (wfault s) (acc s ++ concat tr) /\
    sink_ok (fst r) /\
    (snd r = WOk /\ fits (wfault s) (length (acc s ++ concat tr)) = true \/
     snd r = WErr /\ fits (wfault s) (length (acc s ++ concat tr)) = false).
  Proof.
    induction tr as [|c tr IH]; intros s Hok; cbn zeta; cbn [run_trace concat].
    - rewrite app_nil_r. cbn [fst snd].
      repeat split; try assumption; [symmetry; now apply cap_at_fits|left; split; [reflexivity|exact Hok]].
    - pose proof (put_spec s c Hok) as Hp. cbn zeta in Hp.
      destruct (put wsched s c) as [s1 r1] eqn:Ep. cbn [fst snd] in Hp.
      destruct Hp as (Hf1 & Ha1 & Hok1 & Hr1).
      destruct Hr1 as [[-> Hfit]|[-> Hfit]].
      + specialize (IH s1 Hok1). cbn zeta in IH. destruct IH as (Hf & Ha & Hs & Hr).
        rewrite (cap_at_fits _ _ Hfit) in Ha1.
        rewrite Hf1, Ha1, <- app_assoc in *.
        repeat split; assumption.
      + cbn [fst snd]. repeat split; try assumption.
        * rewrite Ha1, app_assoc. now apply cap_at_cap_app.
        * right. split; [reflexivity|].
          destruct (wfault s) as [k|]; cbn [fits] in *; [|discriminate].
          apply Nat.leb_gt in Hfit. apply Nat.leb_gt. rewrite !app_length in *. lia.
  Qed.

  (* ---------- the Translator over a short-writing / failing writer ---------- *)

  (* In step with the ideal run, or frozen at exactly k accepted bytes that are
     the first k bytes of what the ideal run has written so far. *)
  Definition Lock (k : option nat) (ws : wstate) (is_ : tstate) : Prop :=
    wfault (wsnk ws) = k /\ acc (wsnk ws) = sink is_ /\ wused ws = used is_ /\ sink_ok (wsnk ws).
  Definition Dead (k : option nat) (ws : wstate) (is_ : tstate) : Prop :=
    exists n, k = Some n /\ wfault (wsnk ws) = k /\ length (acc (wsnk ws)) = n /\
              acc (wsnk ws) = firstn n (sink is_).

  Lemma dead_extends k ws is1 is2 :
    Dead k ws is1 -> prefix_of (sink is1) (sink is2) -> Dead k ws is2.
  Proof.
    intros (n & -> & Hf & Hl & Ha) [z Hz]. exists n. repeat split; try assumption.
    rewrite Hz, firstn_app. rewrite Ha in Hl. rewrite firstn_length in Hl.
    replace (n - length (sink is1)) with 0 by lia. cbn. now rewrite app_nil_r.
  Qed.

  Lemma dead_sink_ok k ws is_ : Dead k ws is_ -> sink_ok (wsnk ws).
  Proof.
    intros (n & -> & Hf & Hl & _). unfold sink_ok. rewrite Hf. cbn [fits]. apply Nat.leb_le. lia.
  Qed.

  (* a frozen writer accepts nothing more *)
  Lemma dead_trace k ws is_ tr :
    Dead k ws is_ -> acc (fst (run_trace wsched (wsnk ws) tr)) = acc (wsnk ws) /\
                     wfault (fst (run_trace wsched (wsnk ws) tr)) = wfault (wsnk ws).
  Proof.
    intros HD. pose proof (dead_sink_ok _ _ _ HD) as Hok.
    destruct HD as (n & -> & Hf & Hl & Ha).
    pose proof (run_trace_spec tr (wsnk ws) Hok) as H. cbn zeta in H.
    destruct H as (Hf' & Ha' & _ & _). split; [|exact Hf'].
    rewrite Ha', Hf. now apply cap_at_full.
  Qed.

  Lemma dead_emit k to ws is_ d :
    Dead k ws is_ -> Dead k (fst (emit_w wsched to ws d)) is_.
  Proof.
    intros HD. unfold emit_w. destruct (doc_trace to d) as [tr ok].
    destruct (dead_trace k ws is_ tr HD) as [Ha Hf].
    destruct HD as (n & -> & Hf0 & Hl & Ha0).
    destruct (run_trace wsched (wsnk ws) tr) as [s' r]. cbn [fst] in *.
    exists n. destruct r; cbn [fst wsnk]; rewrite Ha, Hf; repeat split; assumption.
  Qed.

  Lemma dead_docs k to ds : forall ws is_,
    Dead k ws is_ -> Dead k (fst (run_docs_w wsched to ws ds)) is_.
  Proof.
    induction ds as [|d ds IH]; intros ws is_ HD; cbn [run_docs_w fst]; [exact HD|].
    assert (G : Dead k (fst (match emit_w wsched to ws d with
                             | (st', true) => run_docs_w wsched to st' ds
                             | (st', false) => (st', false)
                             end)) is_).
    { pose proof (dead_emit k to ws is_ d HD) as He.
      destruct (emit_w wsched to ws d) as [st' [|]]; cbn [fst] in *; [now apply IH|exact He]. }
    destruct to; try exact G. destruct (wused ws); [exact HD|exact G].
  Qed.

  Lemma run_calls_extends to cs : forall st, prefix_of (sink st) (sink (fst (run_calls to st cs))).
  Proof.
    induction cs as [|c cs IH]; intros st; cbn [run_calls fst]; [apply prefix_of_refl|].
    unfold run_call.
    pose proof (run_docs_extends to (docs c) st 0) as Hd.
    destruct (run_docs to st (docs c) 0) as [st1 ov]. cbn [fst] in Hd.
    assert (E : forall v, fst (let '(st'', vs) := run_calls to st1 cs in (st'', v :: vs)) = fst (run_calls to st1 cs)).
    { intros v. destruct (run_calls to st1 cs). reflexivity. }
    destruct ov; rewrite E; (eapply prefix_of_trans; [exact Hd|apply IH]).
  Qed.

  Lemma fst_run_calls_w to ws c cs :
    fst (run_calls_w wsched to ws (c :: cs)) = fst (run_calls_w wsched to (fst (run_docs_w wsched to ws (wdocs c))) cs).
  Proof.
    cbn [run_calls_w]. unfold run_call_w.
    destruct (run_docs_w wsched to ws (wdocs c)) as [ws1 b]. cbn [fst].
    destruct b; destruct (run_calls_w wsched to ws1 cs); reflexivity.
  Qed.

  Lemma fst_run_calls to st c cs :
    fst (run_calls to st (c :: cs)) = fst (run_calls to (fst (run_docs to st (docs c) 0)) cs).
  Proof.
    cbn [run_calls]. unfold run_call.
    destruct (run_docs to st (docs c) 0) as [st1 ov]. cbn [fst].
    destruct ov; destruct (run_calls to st1 cs); reflexivity.
  Qed.

  Lemma dead_calls k to cs : forall ws is_,
    Dead k ws is_ -> Dead k (fst (run_calls_w wsched to ws cs)) (fst (run_calls to is_ (map abs_call cs))).
  Proof.
    induction cs as [|c cs IH]; intros ws is_ HD; [exact HD|].
    cbn [map]. rewrite fst_run_calls_w, fst_run_calls.
    apply IH.
    eapply dead_extends; [apply dead_docs; exact HD|apply run_docs_extends].
  Qed.

  (* the ideal emit in terms of the write trace *)
  Lemma emit_trace to st d :
    emit to st (abs_doc d) =
      ({| sink := sink st ++ concat (fst (doc_trace to d));
          used := match to with Toml => true | _ => used st end |}, snd (doc_trace to d)).
  Proof.
    unfold abs_doc, doc_trace. destruct to, (finishes d); cbn [emit fst snd concat];
      rewrite ?concat_app, ?app_nil_r; cbn [concat]; rewrite ?app_nil_r; reflexivity.
  Qed.

  Definition Rel (k : option nat) (ws : wstate) (is_ : tstate) : Prop := Lock k ws is_ \/ Dead k ws is_.

  (* One document, in step: afterwards still in step with the same result, or
     the writer has just died and the document failed. *)
  Lemma lock_emit k to ws is_ d :
    Lock k ws is_ ->
    let rw := emit_w wsched to ws d in
    let ri := emit to is_ (abs_doc d) in
    (Lock k (fst rw) (fst ri) /\ snd rw = snd ri) \/ (Dead k (fst rw) (fst ri) /\ snd rw = false).
  Proof.
    intros (Hf & Ha & Hu & Hok). cbn zeta. rewrite emit_trace. unfold emit_w.
    destruct (doc_trace to d) as [tr ok]. cbn [fst snd].
    pose proof (run_trace_spec tr (wsnk ws) Hok) as H. cbn zeta in H.
    destruct (run_trace wsched (wsnk ws) tr) as [s' r]. cbn [fst snd] in H.
    destruct H as (Hf' & Ha' & Hok' & Hr).
    rewrite Hf in *. rewrite Ha in *.
    destruct Hr as [[-> Hfit]|[-> Hfit]].
    - left. split; [|reflexivity]. unfold Lock. cbn [fst wsnk wused sink used].
      rewrite (cap_at_fits _ _ Hfit) in Ha'.
      repeat split; try assumption. now rewrite Hu.
    - right. split; [|reflexivity].
      destruct k as [n|]; cbn [fits] in Hfit; [|discriminate]. apply Nat.leb_gt in Hfit.
      exists n. cbn [fst wsnk sink]. repeat split; try assumption.
      rewrite Ha'. cbn [cap_at]. rewrite firstn_length. lia.
  Qed.

  Lemma rel_docs k to ds : forall ws is_ i,
    Lock k ws is_ ->
    let rw := run_docs_w wsched to ws ds in
    let ri := run_docs to is_ (map abs_doc ds) i in
    (Lock k (fst rw) (fst ri) /\ snd rw = match snd ri with None => true | Some _ => false end) \/
    (Dead k (fst rw) (fst ri) /\ snd rw = false).
  Proof.
    induction ds as [|d ds IH]; intros ws is_ i HL; cbn zeta; cbn [run_docs_w run_docs map].
    - left. split; [exact HL|reflexivity].
    - assert (G :
        let rw := match emit_w wsched to ws d with
                  | (st', true) => run_docs_w wsched to st' ds
                  | (st', false) => (st', false) end in
        let ri := match emit to is_ (abs_doc d) with
                  | (st', true) => run_docs to st' (map abs_doc ds) (S i)
                  | (st', false) => (st', Some (VErrDoc i)) end in
        (Lock k (fst rw) (fst ri) /\ snd rw = match snd ri with None => true | Some _ => false end) \/
        (Dead k (fst rw) (fst ri) /\ snd rw = false)).
      { cbn zeta. pose proof (lock_emit k to ws is_ d HL) as He. cbn zeta in He.
        destruct (emit_w wsched to ws d) as [ws1 bw]. destruct (emit to is_ (abs_doc d)) as [is1 bi].
        cbn [fst snd] in He. destruct He as [[HL1 ->]|[HD1 ->]].
        - destruct bi; [apply IH; exact HL1|]. left. split; [exact HL1|reflexivity].
        - right. split; [|reflexivity]. destruct bi; [|exact HD1].
          eapply dead_extends; [exact HD1|apply run_docs_extends]. }
      destruct HL as (Hf & Ha & Hu & Hok).
      destruct to; try exact G.
      rewrite Hu. destruct (used is_) eqn:Hused; [|exact G].
      left. cbn [fst snd]. split; [|reflexivity]. repeat split; try assumption. now rewrite Hu.
  Qed.

  Lemma rel_calls k to cs : forall ws is_,
    Rel k ws is_ ->
    Rel k (fst (run_calls_w wsched to ws cs)) (fst (run_calls to is_ (map abs_call cs))).
  Proof.
    induction cs as [|c cs IH]; intros ws is_ HR; [exact HR|].
    destruct HR as [HL|HD].
    - cbn [map]. rewrite fst_run_calls_w, fst_run_calls. apply IH. cbn [docs abs_call].
      pose proof (rel_docs k to (wdocs c) ws is_ 0 HL) as Hd. cbn zeta in Hd.
      destruct Hd as [[H _]|[H _]]; [now left|now right].
    - right. exact (dead_calls k to (c :: cs) ws is_ HD).
  Qed.

  Lemma rel_final k ws is_ : Rel k ws is_ -> acc (wsnk ws) = cap_at k (sink is_).
  Proof.
    intros [(Hf & Ha & _ & Hok)|(n & -> & _ & _ & Ha)].
    - rewrite <- Ha. symmetry. apply cap_at_fits. unfold sink_ok in Hok. now rewrite Hf in Hok.
    - exact Ha.
  Qed.

  (* Whatever the pattern of short writes and wherever the writer starts to
     fail, over any history of calls and documents the writer has accepted
     exactly the first k bytes (all of them if it never fails) of what an ideal
     writer receives. *)
  Theorem faulty_writer_prefix k to cs :
    fst (translate_history_w wsched k to cs) = cap_at k (fst (translate_history to (map abs_call cs))).
  Proof.
    unfold translate_history_w, translate_history.
    set (w0 := {| wsnk := {| acc := []; wfault := k |}; wused := false |}).
    assert (H0 : Rel k w0 t0).
    { left. repeat split. unfold sink_ok. cbn [wsnk wfault acc w0 length]. destruct k; reflexivity. }
    pose proof (rel_calls k to cs w0 t0 H0) as H. apply rel_final in H.
    destruct (run_calls_w wsched to w0 cs) as [ws vs].
    destruct (run_calls to t0 (map abs_call cs)) as [is_ ivs]. exact H.
  Qed.
End Sink.

(* ---------- verdicts: with a writer that never fails, every call ends as with
   an ideal writer, whatever the short-write pattern ---------- *)

Section NoFault.
  Variable wsched : nat -> nat.

  Lemma lock_none_docs to ds : forall ws is_ i,
    Lock None ws is_ ->
    Lock None (fst (run_docs_w wsched to ws ds)) (fst (run_docs to is_ (map abs_doc ds) i)) /\
    snd (run_docs_w wsched to ws ds) = match snd (run_docs to is_ (map abs_doc ds) i) with None => true | Some _ => false end.
  Proof.
    intros ws is_ i HL. pose proof (rel_docs wsched None to ds ws is_ i HL) as H. cbn zeta in H.
    destruct H as [H|[(n & Hn & _) _]]; [exact H|discriminate].
  Qed.

  Lemma snd_run_calls_w to ws c cs :
    snd (run_calls_w wsched to ws (c :: cs)) =
      snd (run_call_w wsched to ws c) :: snd (run_calls_w wsched to (fst (run_call_w wsched to ws c)) cs).
  Proof.
    cbn [run_calls_w]. destruct (run_call_w wsched to ws c) as [ws1 b]. cbn [fst snd].
    destruct (run_calls_w wsched to ws1 cs); reflexivity.
  Qed.

  Lemma snd_run_calls to st c cs :
    snd (run_calls to st (c :: cs)) = snd (run_call to st c) :: snd (run_calls to (fst (run_call to st c)) cs).
  Proof.
    cbn [run_calls]. destruct (run_call to st c) as [st1 v]. cbn [fst snd].
    destruct (run_calls to st1 cs); reflexivity.
  Qed.

  Lemma lock_none_calls to cs : forall ws is_,
    Lock None ws is_ ->
    snd (run_calls_w wsched to ws cs) = map verdict_ok (snd (run_calls to is_ (map abs_call cs))).
  Proof.
    induction cs as [|c cs IH]; intros ws is_ HL; [reflexivity|].
    cbn [map]. rewrite snd_run_calls_w, snd_run_calls. cbn [map].
    unfold run_call_w, run_call. cbn [docs abs_call input_ok].
    destruct (lock_none_docs to (wdocs c) ws is_ 0 HL) as [HL1 Hb].
    destruct (run_docs_w wsched to ws (wdocs c)) as [ws1 b].
    pose proof (run_docs_not_vok to (map abs_doc (wdocs c)) is_ 0) as Hnv.
    destruct (run_docs to is_ (map abs_doc (wdocs c)) 0) as [is1 ov]. cbn [fst snd] in *.
    subst b. destruct ov as [v|]; cbn [fst snd]; rewrite (IH ws1 is1 HL1); f_equal.
    - destruct v; try reflexivity. now elim Hnv.
    - destruct (winput_ok c); reflexivity.
  Qed.

  Theorem short_writes_exact to cs :
    translate_history_w wsched None to cs =
      (fst (translate_history to (map abs_call cs)), map verdict_ok (snd (translate_history to (map abs_call cs)))).
  Proof.
    pose proof (faulty_writer_prefix wsched None to cs) as Hs. cbn [cap_at] in Hs.
    unfold translate_history_w, translate_history in *.
    set (w0 := {| wsnk := {| acc := []; wfault := None |}; wused := false |}) in *.
    assert (H0 : Lock None w0 t0) by (repeat split).
    pose proof (lock_none_calls to cs w0 t0 H0) as Hv.
    destruct (run_calls_w wsched to w0 cs) as [ws vs].
    destruct (run_calls to t0 (map abs_call cs)) as [is_ ivs]. cbn [fst snd] in *. now rewrite Hs, Hv.
  Qed.
End NoFault.

(* A writer that fails before the ideal output is complete makes some call fail. *)
Example faulty_writer_nonvacuous :
  translate_history_w (fun _ => 0) (Some 3) Json
    [{| wdocs := [{| chunks := [[91; 49]; [93]]%N; finishes := true |}]; winput_ok := true |}] =
  ([91; 49; 93]%N, [false]).
Proof. vm_compute. reflexivity. Qed.
