(* CliModel.v — src/main.rs, src/bail.rs, src/pipecheck.rs and the parts of
   lexopt 0.3.0 (Unix) and std::io::BufWriter that decide xt's command-line
   behaviour: argument parsing, source-format resolution, the loop over inputs
   with its per-input flush, exits that skip destructors, and the stdout
   wrapper that turns BrokenPipe into SIGPIPE.  Definitions only. *)
From XtModel Require Import Base FormatsModel IoModel.

Fixpoint beq (a b : bytes) : bool :=
  match a, b with
  | [], [] => true
  | x :: a', y :: b' => N.eqb x y && beq a' b'
  | _, _ => false
  end.

Definition s_dashdash : bytes := [45; 45]%N.
Definition s_version : bytes := [118; 101; 114; 115; 105; 111; 110]%N.
Definition s_help : bytes := [104; 101; 108; 112]%N.
Definition s_json : bytes := [106; 115; 111; 110]%N.
Definition s_j : bytes := [106]%N.
Definition s_msgpack : bytes := [109; 115; 103; 112; 97; 99; 107]%N.
Definition s_m : bytes := [109]%N.
Definition s_toml : bytes := [116; 111; 109; 108]%N.
Definition s_t : bytes := [116]%N.
Definition s_yaml : bytes := [121; 97; 109; 108]%N.
Definition s_y : bytes := [121]%N.
Definition s_yml : bytes := [121; 109; 108]%N.
Definition s_dash : bytes := [45]%N.

(* ---------- lexopt::Parser (lib.rs:167-300, 397-410, 641-700) ---------- *)

Inductive lstate :=
| LNone
| LPending (v : bytes)               (* --long=value seen, value not taken yet *)
| LShorts (arg : bytes) (pos : nat)  (* inside a -abc cluster *)
| LFinished.                         (* after "--" *)

Inductive larg := AShort (c : N) | ALong (name : bytes) | AValue (v : bytes).

Inductive lerr :=
| EUnexpectedValue     (* --long=value / -o=value for an option that takes none *)
| EMissingValue
| EUnexpectedOption
| EBadFormat           (* parse_with(try_parse_format) failed, or not UTF-8 *)
| EDupFrom | EDupTo.

Record lparser := { lsrc : list bytes; lst : lstate }.

Fixpoint index_of (x : N) (l : bytes) (i : nat) : option nat :=
  match l with
  | [] => None
  | y :: l' => if N.eqb x y then Some i else index_of x l' (S i)
  end.

(* the part of next() that takes a fresh argument from the command line *)
Definition is_long (a : bytes) : bool :=
  match a with x :: y :: _ => N.eqb x 45 && N.eqb y 45 | _ => false end.
Definition is_cluster (a : bytes) : option N :=            (* "-c..." : the first short option *)
  match a with x :: c :: _ => if N.eqb x 45 then Some c else None | _ => None end.

Definition next_from_source (p : lparser) : lparser * result lerr (option larg) :=
  match lsrc p with
  | [] => ({| lsrc := []; lst := LNone |}, Ok None)
  | a :: rest =>
      if beq a s_dashdash then
        match rest with
        | [] => ({| lsrc := []; lst := LFinished |}, Ok None)
        | b :: rest' => ({| lsrc := rest'; lst := LFinished |}, Ok (Some (AValue b)))
        end
      else if is_long a then                                     (* --long[=value] *)
        match index_of 61 a 0 with
        | Some ind =>
            ({| lsrc := rest; lst := LPending (skipn (S ind) a) |},
             Ok (Some (ALong (skipn 2 (firstn ind a)))))
        | None => ({| lsrc := rest; lst := LNone |}, Ok (Some (ALong (skipn 2 a))))
        end
      else
        match is_cluster a with
        | Some c => ({| lsrc := rest; lst := LShorts a 2 |}, Ok (Some (AShort c)))
        | None => ({| lsrc := rest; lst := LNone |}, Ok (Some (AValue a)))
        end
  end.

Definition lex_next (p : lparser) : lparser * result lerr (option larg) :=
  match lst p with
  | LPending _ => ({| lsrc := lsrc p; lst := LNone |}, Err EUnexpectedValue)
  | LShorts arg pos =>
      match nth_error arg pos with
      | None => next_from_source {| lsrc := lsrc p; lst := LNone |}
      | Some c =>
          if N.eqb c 61 && (1 <? pos) then ({| lsrc := lsrc p; lst := LNone |}, Err EUnexpectedValue)
          else ({| lsrc := lsrc p; lst := LShorts arg (S pos) |}, Ok (Some (AShort c)))
      end
  | LFinished =>
      match lsrc p with
      | [] => (p, Ok None)
      | a :: rest => ({| lsrc := rest; lst := LFinished |}, Ok (Some (AValue a)))
      end
  | LNone => next_from_source p
  end.

(* Parser::value(): an attached value (-ovalue, -o=value, --long=value), else the
   next argument whatever it looks like, else MissingValue. *)
Definition lex_value (p : lparser) : lparser * result lerr bytes :=
  let attached : option bytes * lstate :=
    match lst p with
    | LPending v => (Some v, LNone)
    | LShorts arg pos =>
        if length arg <=? pos then (None, LNone)
        else
          let pos' := match nth_error arg pos with Some 61%N => S pos | _ => pos end in
          (Some (skipn pos' arg), LNone)
    | LFinished => (None, LFinished)
    | LNone => (None, LNone)
    end in
  match attached with
  | (Some v, st) => ({| lsrc := lsrc p; lst := st |}, Ok v)
  | (None, st) =>
      match lsrc p with
      | a :: rest => ({| lsrc := rest; lst := st |}, Ok a)
      | [] => ({| lsrc := []; lst := st |}, Err EMissingValue)
      end
  end.

(* ---------- Cli::parse_args (main.rs:110-159) ---------- *)

Definition try_parse_format (s : bytes) : option fmt :=
  if beq s s_j || beq s s_json then Some Json
  else if beq s s_m || beq s s_msgpack then Some Msgpack
  else if beq s s_t || beq s s_toml then Some Toml
  else if beq s s_y || beq s s_yaml then Some Yaml
  else None.

Record cli := { c_inputs : list bytes; c_from : option fmt; c_to : option fmt }.

Inductive exit0 := XVersion | XHelpShort | XHelpLong.

Inductive presult := PArgs (c : cli) | PUsage (e : lerr) | PExit0 (k : exit0) | POutOfFuel.

Definition set_format (which_from : bool) (c : cli) (x : fmt) : cli :=
  if which_from then {| c_inputs := c_inputs c; c_from := Some x; c_to := c_to c |}
  else {| c_inputs := c_inputs c; c_from := c_from c; c_to := Some x |}.

Fixpoint parse_loop (fuel : nat) (p : lparser) (c : cli) : presult :=
  match fuel with
  | O => POutOfFuel
  | S f =>
      match lex_next p with
      | (_, Err e) => PUsage e
      | (_, Ok None) => PArgs c
      | (p1, Ok (Some a)) =>
          let option_with_value (which_from : bool) : presult :=
            match (if which_from then c_from c else c_to c) with
            | Some _ => PUsage (if which_from then EDupFrom else EDupTo)
            | None =>
                match lex_value p1 with
                | (_, Err e) => PUsage e
                | (p2, Ok v) =>
                    match try_parse_format v with
                    | Some x => parse_loop f p2 (set_format which_from c x)
                    | None => PUsage EBadFormat
                    end
                end
            end in
          match a with
          | AShort ch =>
              if N.eqb ch 102 then option_with_value true             (* -f *)
              else if N.eqb ch 116 then option_with_value false       (* -t *)
              else if N.eqb ch 86 then PExit0 XVersion                (* -V *)
              else if N.eqb ch 104 then PExit0 XHelpShort             (* -h *)
              else PUsage EUnexpectedOption
          | AValue v => parse_loop f p1 {| c_inputs := c_inputs c ++ [v]; c_from := c_from c; c_to := c_to c |}
          | ALong name =>
              if beq name s_version then PExit0 XVersion
              else if beq name s_help then PExit0 XHelpLong
              else PUsage EUnexpectedOption
          end
      end
  end.

Definition args_fuel (argv : list bytes) : nat :=
  S (fold_right (fun a n => S (length a) + n) 0 argv).

Definition parse_args (argv : list bytes) : presult :=
  parse_loop (args_fuel argv) {| lsrc := argv; lst := LNone |} {| c_inputs := []; c_from := None; c_to := None |}.

(* ---------- InputPath::extension_format (main.rs:327-344) ---------- *)

Definition lower (b : N) : N := if (65 <=? b)%N && (b <=? 90)%N then (b + 32)%N else b.

(* Path::file_name: the last component (trailing slashes ignored by std; not
   modelled: such names have no extension either way in the cases compared). *)
Fixpoint last_component (p acc : bytes) : bytes :=
  match p with
  | [] => acc
  | 47%N :: p' => last_component p' []
  | b :: p' => last_component p' (acc ++ [b])
  end.

Fixpoint after_last_dot (name : bytes) (cur : option bytes) : option bytes :=
  match name with
  | [] => cur
  | 46%N :: rest => after_last_dot rest (Some [])
  | b :: rest => after_last_dot rest (match cur with Some e => Some (e ++ [b]) | None => None end)
  end.

(* Path::extension: None for "..", for names without a dot and for names whose
   only dot is the first character. *)
Definition extension (path : bytes) : option bytes :=
  let name := last_component path [] in
  match name with
  | [] => None
  | 46%N :: rest =>
      if beq name [46; 46]%N then None
      else after_last_dot rest None
  | _ => after_last_dot name None
  end.

Definition ext_table (e : bytes) : option fmt :=
  if beq e s_json then Some Json
  else if beq e s_msgpack then Some Msgpack
  else if beq e s_toml then Some Toml
  else if beq e s_yaml || beq e s_yml then Some Yaml
  else None.

Definition extension_format (path : bytes) : option fmt :=
  match extension path with
  | Some e => ext_table (map lower e)
  | None => None
  end.

Definition is_stdin_path (path : bytes) : bool := beq path s_dash.

(* main.rs:85: -f wins, then the extension; None = content detection *)
Definition resolve_from (c : cli) (path : bytes) : option fmt :=
  match c_from c with
  | Some f => Some f
  | None => if is_stdin_path path then None else extension_format path
  end.

(* ---------- stdout: BufWriter inside pipecheck::Writer over a device ---------- *)

Inductive stdout_kind := KPipe | KFile | KTty.

(* The device behind stdout: accepts bytes (in arbitrary short pieces) until it
   starts failing; [dbroken] = the failure is EPIPE. *)
Record device := { dsink : wsink; dbroken : bool }.

Record bufw := { bbuf : bytes; bdev : device }.

Inductive wout := WoOk | WoSigpipe | WoErr.     (* result of a pipecheck::Writer method *)

Section Stdout.
  Variable wsched : nat -> nat.
  Variable bcap : nat.          (* BufWriter capacity: 8192 *)

  (* inner.write_all / flush_buf's loop: everything or an error *)
  Definition dev_put (d : device) (bs : bytes) : device * bool :=
    match put wsched (dsink d) bs with
    | (s', WOk) => ({| dsink := s'; dbroken := dbroken d |}, true)
    | (s', _) => ({| dsink := s'; dbroken := dbroken d |}, false)
    end.

  (* pipecheck::check_for_broken_pipe on the result of a BufWriter method *)
  Definition pc (d : device) (ok : bool) : wout :=
    if ok then WoOk else if dbroken d then WoSigpipe else WoErr.

  (* BufWriter::write_all (std bufwriter.rs: fast path if it fits strictly,
     else flush when it does not fit, then write through when >= capacity) *)
  Definition bw_write_all (w : bufw) (bs : bytes) : bufw * wout :=
    if length bs <? bcap - length (bbuf w) then ({| bbuf := bbuf w ++ bs; bdev := bdev w |}, WoOk)
    else
      let flushed :=
        if bcap - length (bbuf w) <? length bs then
          match dev_put (bdev w) (bbuf w) with
          | (d', true) => ({| bbuf := []; bdev := d' |}, true)
          | (d', false) => ({| bbuf := bbuf w; bdev := d' |}, false)
          end
        else (w, true) in
      match flushed with
      | (w1, false) => (w1, pc (bdev w1) false)
      | (w1, true) =>
          if bcap <=? length bs then
            match dev_put (bdev w1) bs with
            | (d', ok) => ({| bbuf := bbuf w1; bdev := d' |}, pc d' ok)
            end
          else ({| bbuf := bbuf w1 ++ bs; bdev := bdev w1 |}, WoOk)
      end.

  (* BufWriter::flush = flush_buf, then the device's own flush (a no-op) *)
  Definition bw_flush (w : bufw) : bufw * wout :=
    match dev_put (bdev w) (bbuf w) with
    | (d', true) => ({| bbuf := []; bdev := d' |}, WoOk)
    | (d', false) => ({| bbuf := bbuf w; bdev := d' |}, pc d' false)
    end.

  (* What the serializers do with the writer while translating one input:
     write_all / write_fmt pieces, in order, stopping at the first failure. *)
  Fixpoint bw_run (w : bufw) (tr : list bytes) : bufw * wout :=
    match tr with
    | [] => (w, WoOk)
    | c :: tr' =>
        match bw_write_all w c with
        | (w', WoOk) => bw_run w' tr'
        | other => other
        end
    end.

  (* ---------- main (main.rs:43-97) ---------- *)

  (* One input as the environment and the library present it. *)
  Inductive opened := OpenErr | OpenStdin | OpenData.
  Record inp := {
    i_path : bytes;
    i_open : opened;            (* File::open failed / "-" / a file or FIFO *)
    i_trace : list bytes;       (* the serializer writes this input causes *)
    i_ok : bool                 (* translate_* returns Ok when no write fails *)
  }.

  Inductive status := Exit (code : nat) | Signal13.
  Inductive errline := ErrNone | ErrPlain | ErrPath (path : bytes) | ErrUsage.

  Record outcome := { o_status : status; o_stdout : bytes; o_stderr : errline; o_opened : list bytes;
                      o_stdin_reads : nat }.

  Definition finish (st : status) (w : bufw) (e : errline) (opened_ : list bytes) (sr : nat) : outcome :=
    (* process::exit and raise(SIGPIPE) run no destructors: whatever is still in
       the BufWriter is lost; returning from main drops (and flushes) it, but
       the buffer is empty there *)
    {| o_status := st; o_stdout := acc (dsink (bdev w)); o_stderr := e; o_opened := opened_; o_stdin_reads := sr |}.

  Fixpoint main_loop (w : bufw) (stdin_used : bool) (opened_ : list bytes) (sr : nat) (ins : list inp) : outcome :=
    match ins with
    | [] => finish (Exit 0) w ErrNone opened_ sr
    | i :: rest =>
        match i_open i with
        | OpenErr => finish (Exit 1) w (ErrPath (i_path i)) (opened_ ++ [i_path i]) sr
        | o =>
            let is_stdin := match o with OpenStdin => true | _ => false end in
            if is_stdin && stdin_used then finish (Exit 1) w ErrPlain (opened_ ++ [i_path i]) sr
            else
              let sr' := if is_stdin then S sr else sr in
              match bw_run w (i_trace i) with
              | (w1, WoSigpipe) => finish Signal13 w1 ErrNone (opened_ ++ [i_path i]) sr'
              | (w1, WoErr) => finish (Exit 1) w1 (ErrPath (i_path i)) (opened_ ++ [i_path i]) sr'
              | (w1, WoOk) =>
                  if negb (i_ok i) then finish (Exit 1) w1 (ErrPath (i_path i)) (opened_ ++ [i_path i]) sr'
                  else
                    match bw_flush w1 with
                    | (w2, WoSigpipe) => finish Signal13 w2 ErrNone (opened_ ++ [i_path i]) sr'
                    | (w2, WoErr) => finish (Exit 1) w2 ErrPlain (opened_ ++ [i_path i]) sr'
                    | (w2, WoOk) => main_loop w2 (stdin_used || is_stdin) (opened_ ++ [i_path i]) sr' rest
                    end
              end
        end
    end.

  Definition fresh (d : device) : bufw := {| bbuf := []; bdev := d |}.

  (* everything after argument parsing: the terminal guard, then the loop *)
  Definition run_cli (c : cli) (kind : stdout_kind) (d : device) (ins : list inp) : outcome :=
    match kind, c_to c with
    | KTty, Some Msgpack => finish (Exit 1) (fresh d) ErrPlain [] 0
    | _, _ => main_loop (fresh d) false [] 0 ins
    end.

  (* the whole program; [env] tells what each input path turns out to be *)
  Definition xt_main (argv : list bytes) (kind : stdout_kind) (d : device)
             (env : cli -> list bytes -> list inp) (help : exit0 -> bytes) : outcome :=
    match parse_args argv with
    | PUsage _ | POutOfFuel => finish (Exit 2) (fresh d) ErrUsage [] 0
    | PExit0 k =>
        (* help/version text goes to stdout unbuffered, errors ignored *)
        let '(d', _) := dev_put d (help k) in finish (Exit 0) (fresh d') ErrNone [] 0
    | PArgs c =>
        let paths := match c_inputs c with [] => [s_dash] | ps => ps end in
        run_cli c kind d (env c paths)
    end.
End Stdout.
