(* FormatsModel.v — src/lib.rs Translator and the four Output implementations
   (json.rs:75-107, yaml.rs:91-123, msgpack.rs:94-125, toml.rs:52-121): what
   reaches the writer over any history of translate calls.

   A document is described by what its serialization does on its own: the
   bytes the target serializer writes for it and whether it finishes
   (DocOk) or refuses it part-way (DocRefused, with the bytes written before
   the refusal; for TOML nothing is written before the document is complete).
   Definitions only. *)
From XtModel Require Import Base.

Inductive fmt := Json | Msgpack | Toml | Yaml.

Inductive doc :=
| DocOk (body : bytes)           (* the serializer's complete output for the document *)
| DocRefused (partial : bytes).  (* it failed after writing these bytes *)

(* One translate call: the documents its input yields, in order, and whether
   the input ends cleanly after them or with an input-side error. *)
Record call := { docs : list doc; input_ok : bool }.

Inductive verdict := VOk | VErrDoc (index : nat) | VErrInput | VErrMulti (index : nat).

Record tstate := { sink : bytes; used : bool }.

Definition t0 : tstate := {| sink := []; used := false |}.

Definition dashes : bytes := [45; 45; 45; 10]%N.     (* "---\n" *)
Definition newline : bytes := [10]%N.

(* What one Output::transcode_from / transcode_value appends for a document,
   and whether it succeeded. *)
Definition emit (to : fmt) (st : tstate) (d : doc) : tstate * bool :=
  match to with
  | Json =>
      match d with
      | DocOk b => ({| sink := sink st ++ b ++ newline; used := used st |}, true)
      | DocRefused p => ({| sink := sink st ++ p; used := used st |}, false)
      end
  | Yaml =>
      match d with
      | DocOk b => ({| sink := sink st ++ dashes ++ b; used := used st |}, true)
      | DocRefused p => ({| sink := sink st ++ dashes ++ p; used := used st |}, false)
      end
  | Msgpack =>
      match d with
      | DocOk b => ({| sink := sink st ++ b; used := used st |}, true)
      | DocRefused p => ({| sink := sink st ++ p; used := used st |}, false)
      end
  | Toml =>
      (* ensure_one_use runs first; the document is buffered into a toml::Value,
         checked, and written with one write_all *)
      match d with
      | DocOk b => ({| sink := sink st ++ b; used := true |}, true)
      | DocRefused _ => ({| sink := sink st; used := true |}, false)
      end
  end.

(* The per-format document loop of one translate call. *)
Fixpoint run_docs (to : fmt) (st : tstate) (ds : list doc) (i : nat) : tstate * option verdict :=
  match ds with
  | [] => (st, None)
  | d :: ds' =>
      match to, used st with
      | Toml, true => (st, Some (VErrMulti i))
      | _, _ =>
          match emit to st d with
          | (st', true) => run_docs to st' ds' (S i)
          | (st', false) => (st', Some (VErrDoc i))
          end
      end
  end.

Definition run_call (to : fmt) (st : tstate) (c : call) : tstate * verdict :=
  match run_docs to st (docs c) 0 with
  | (st', Some v) => (st', v)
  | (st', None) => (st', if input_ok c then VOk else VErrInput)
  end.

(* A history of calls on one Translator.  The library lets a caller go on
   after a failed call; the CLI stops at the first failure. *)
Fixpoint run_calls (to : fmt) (st : tstate) (cs : list call) : tstate * list verdict :=
  match cs with
  | [] => (st, [])
  | c :: cs' =>
      let '(st', v) := run_call to st c in
      let '(st'', vs) := run_calls to st' cs' in
      (st'', v :: vs)
  end.

Definition translate_history (to : fmt) (cs : list call) : bytes * list verdict :=
  let '(st, vs) := run_calls to t0 cs in (sink st, vs).

(* ---------- the specification side ---------- *)

Definition frame (to : fmt) (b : bytes) : bytes :=
  match to with
  | Json => b ++ newline
  | Yaml => dashes ++ b
  | Msgpack => b
  | Toml => b
  end.

Definition doc_ok (d : doc) : bool := match d with DocOk _ => true | DocRefused _ => false end.
Definition doc_body (d : doc) : bytes := match d with DocOk b => b | DocRefused p => p end.

Definition all_ok (cs : list call) : bool :=
  forallb (fun c => input_ok c && forallb doc_ok (docs c)) cs.

Definition all_docs (cs : list call) : list doc := flat_map docs cs.
