(* InputProofs.v — the input handle is transparent: whatever program of partial
   reads, prefix requests and re-borrows runs against it, under whatever
   short-read schedule, every observation is the corresponding piece of the
   source's byte stream, and taking ownership yields that stream. *)
From XtModel Require Import Base InputModel.

Section Proofs.
  Variable sched : nat -> nat.

  (* ---------- the source ---------- *)

  Definition src_inv (s : src) : Prop := deliv s <= visible_end s.

  Lemma visible_end_le s : visible_end s <= length (data s).
  Proof. unfold visible_end. destruct (fault s); lia. Qed.

  Lemma visible_end_with s d : visible_end (src_with s d) = visible_end s.
  Proof. reflexivity. Qed.

  Lemma faulted_iff s : src_inv s ->
    faulted s = true <-> exists k, fault s = Some k /\ k <= length (data s) /\ deliv s = k.
  Proof.
    unfold src_inv, faulted, visible_end. destruct (fault s) as [k|].
    - rewrite Nat.leb_le. intros H. split.
      + intros Hk. exists k. repeat split; lia.
      + intros (k' & [= <-] & _ & ->). lia.
    - intros _. split; [discriminate | intros (k & [=] & _)].
  Qed.

  Lemma not_faulted_end s : src_inv s -> faulted s = false ->
    deliv s = visible_end s -> deliv s = length (data s).
  Proof.
    unfold src_inv, faulted, visible_end. destruct (fault s) as [k|]; [|lia].
    rewrite Nat.leb_gt. lia.
  Qed.

  Lemma src_read_ok s n : src_inv s -> faulted s = false ->
    exists bs, src_read sched s n = (src_with s (deliv s + length bs), Ok bs) /\
      bs = firstn (length bs) (skipn (deliv s) (data s)) /\
      length bs <= n /\
      deliv s + length bs <= visible_end s /\
      (length bs = 0 -> n = 0 \/ deliv s = length (data s)).
  Proof.
    intros Hi Hf. unfold src_read. rewrite Hf.
    set (k := Nat.min n (Nat.min (S (sched (deliv s))) (visible_end s - deliv s))).
    pose proof (visible_end_le s) as Hv.
    assert (Hk : k <= visible_end s - deliv s) by (subst k; lia).
    assert (Hl : length (firstn k (skipn (deliv s) (data s))) = k).
    { rewrite firstn_length, skipn_length. unfold src_inv in Hi. lia. }
    exists (firstn k (skipn (deliv s) (data s))). rewrite Hl.
    repeat split; try (subst k; lia).
    { unfold src_inv in Hi. lia. }
    intros Hz. destruct (Nat.eq_dec n 0) as [|Hn]; [now left|right].
    apply not_faulted_end; try assumption. subst k. unfold src_inv in Hi. lia.
  Qed.

  Lemma src_read_faulted s n : faulted s = true ->
    src_read sched s n = (s, Err (fault_err s)).
  Proof. intros Hf. unfold src_read. now rewrite Hf. Qed.

  (* read_to_end without a Take. *)
  Lemma src_read_to_end_all s : src_inv s ->
    exists s' bs r, src_read_to_end s None = (s', bs, r) /\
      data s' = data s /\ fault s' = fault s /\ src_inv s' /\
      deliv s' = deliv s + length bs /\
      bs = firstn (length bs) (skipn (deliv s) (data s)) /\
      deliv s' = visible_end s /\
      match r with
      | Ok _ => deliv s' = length (data s) /\ faulted s' = false
      | Err e => e = fault_err s /\ faulted s' = true
      end.
  Proof.
    intros Hi. unfold src_read_to_end. pose proof (visible_end_le s) as Hv.
    unfold src_inv in Hi.
    destruct (faulted s) eqn:Hf.
    - exists s, [], (Err (fault_err s)). cbn. repeat split; try lia; try assumption.
      apply faulted_iff in Hf as (k & Hk & Hle & Hd); [|exact Hi].
      unfold visible_end. rewrite Hk. lia.
    - set (m := visible_end s - deliv s).
      assert (Hl : length (firstn m (skipn (deliv s) (data s))) = m).
      { rewrite firstn_length, skipn_length. lia. }
      destruct (faulted (src_with s (deliv s + m))) eqn:Hf'.
      + do 3 eexists. split; [reflexivity|]. rewrite Hl.
        unfold src_inv; rewrite visible_end_with; cbn [data fault deliv src_with].
        repeat split; try lia; try assumption.
      + do 3 eexists. split; [reflexivity|]. rewrite Hl.
        unfold src_inv; rewrite visible_end_with; cbn [data fault deliv src_with].
        repeat split; try lia; try assumption.
        pose proof (not_faulted_end (src_with s (deliv s + m))) as Hx.
        unfold src_inv in Hx. rewrite visible_end_with in Hx.
        cbn [data deliv src_with] in Hx. apply Hx; [lia|assumption|lia].
  Qed.

  (* read_to_end through Take(l). *)
  Lemma src_read_to_end_take s l : src_inv s -> 0 < l ->
    exists s' bs r, src_read_to_end s (Some l) = (s', bs, r) /\
      data s' = data s /\ fault s' = fault s /\ src_inv s' /\
      deliv s' = deliv s + length bs /\
      bs = firstn (length bs) (skipn (deliv s) (data s)) /\
      length bs <= l /\
      match r with
      | Ok (Some lft) => lft = l - length bs /\
                          (0 < lft -> deliv s' = length (data s) /\ faulted s' = false)
      | Ok None => False
      | Err e => e = fault_err s /\ faulted s' = true
      end.
  Proof.
    intros Hi Hl0. unfold src_read_to_end. pose proof (visible_end_le s) as Hv.
    unfold src_inv in Hi.
    destruct (faulted s) eqn:Hf.
    - exists s, [], (Err (fault_err s)). cbn. repeat split; try lia; assumption.
    - set (m := Nat.min l (visible_end s - deliv s)).
      assert (Hm : m <= visible_end s - deliv s) by (subst m; lia).
      assert (Hl : length (firstn m (skipn (deliv s) (data s))) = m).
      { rewrite firstn_length, skipn_length. lia. }
      destruct (m =? l) eqn:Hml.
      + apply Nat.eqb_eq in Hml.
        do 3 eexists. split; [reflexivity|]. rewrite Hl.
        unfold src_inv; rewrite visible_end_with; cbn [data fault deliv src_with].
        repeat split; try lia.
      + apply Nat.eqb_neq in Hml.
        assert (Hme : deliv s + m = visible_end s) by (subst m; lia).
        destruct (faulted (src_with s (deliv s + m))) eqn:Hf'.
        * do 3 eexists. split; [reflexivity|]. rewrite Hl.
          unfold src_inv; rewrite visible_end_with; cbn [data fault deliv src_with].
          repeat split; try lia; assumption.
        * do 3 eexists. split; [reflexivity|]. rewrite Hl.
          unfold src_inv; rewrite visible_end_with; cbn [data fault deliv src_with].
          repeat split; try lia; try assumption.
          pose proof (not_faulted_end (src_with s (deliv s + m))) as Hx.
          unfold src_inv in Hx. rewrite visible_end_with in Hx.
          cbn [data deliv src_with] in Hx. apply Hx; [lia|assumption|lia].
  Qed.

  (* ---------- the capture reader ---------- *)

  Definition Inv (c : cap) : Prop :=
    prefix c = firstn (length (prefix c)) (data (source c)) /\
    deliv (source c) = length (prefix c) /\
    pos c <= length (prefix c) /\
    src_inv (source c) /\
    (eof c = true -> length (prefix c) = length (data (source c)) /\
                     faulted (source c) = false).

  Ltac use_eof Heof :=
    match goal with He : eof _ = true |- _ =>
      destruct (Heof He); (assumption || discriminate || congruence) end.

  Lemma Inv_new d flt : Inv (cap_new {| data := d; deliv := 0; fault := flt |}).
  Proof.
    unfold Inv, cap_new, src_inv. cbn. repeat split; try lia; try discriminate.
  Qed.

  Lemma Inv_rewind c : Inv c -> Inv (cap_rewind c).
  Proof.
    intros (H1 & H2 & H3 & H4 & H5). unfold Inv, cap_rewind.
    cbn [prefix pos eof source]. repeat split; try assumption; try lia; use_eof H5.
  Qed.

  Lemma cursor_write_end v bs : cursor_write v (length v) bs = v ++ bs.
  Proof.
    unfold cursor_write. rewrite firstn_all, skipn_all2 by lia. now rewrite app_nil_r.
  Qed.

  Lemma prefix_extend (D p : bytes) m :
    p = firstn (length p) D -> length p + m <= length D ->
    p ++ firstn m (skipn (length p) D) = firstn (length p + m) D.
  Proof.
    intros Hp Hm. rewrite Hp at 1. apply firstn_skipn_app.
  Qed.

  (* What one read() through the capture reader returns. *)
  Definition read_ok (D : bytes) (p : nat) (n : nat) (bs : bytes) : Prop :=
    bs = firstn (length bs) (skipn p D) /\ length bs <= n /\
    (length bs = 0 -> n = 0 \/ p = length D).

  Lemma cap_read_spec c n c' r :
    Inv c -> cap_read sched c n = (c', r) ->
    Inv c' /\ data (source c') = data (source c) /\ fault (source c') = fault (source c) /\
    match r with
    | Ok out => read_ok (data (source c)) (pos c) n out /\ pos c' = pos c + length out
    | Err e => e = fault_err (source c) /\ faulted (source c') = true
    end.
  Proof.
    intros (Hp & Hd & Hpos & Hsrc & Heof) H. unfold cap_read, captured_unread_size in H.
    set (k := Nat.min n (length (prefix c) - pos c)) in *.
    assert (Hk : k <= length (prefix c) - pos c) by (subst k; lia).
    assert (Hkn : k <= n) by (subst k; lia).
    pose proof (visible_end_le (source c)) as Hv. unfold src_inv in Hsrc.
    assert (Hout1 : firstn k (skipn (pos c) (prefix c)) =
                    firstn k (skipn (pos c) (data (source c)))).
    { rewrite Hp at 1. rewrite skipn_firstn_comm, firstn_firstn. f_equal. lia. }
    assert (Hl1 : length (firstn k (skipn (pos c) (prefix c))) = k).
    { rewrite firstn_length, skipn_length. lia. }
    destruct ((0 <? length (prefix c) - (pos c + k)) || (k =? n)) eqn:E.
    - inversion H; subst c' r; clear H. cbn [prefix pos eof source].
      split; [|split; [reflexivity|split; [reflexivity|]]].
      + unfold Inv; cbn [prefix pos eof source]. repeat split; try assumption; try lia;
          use_eof Heof.
      + rewrite Hl1. split; [|reflexivity]. unfold read_ok. rewrite Hl1.
        split; [exact Hout1|]. split; [lia|].
        intros Hz. apply orb_true_iff in E as [E|E].
        * apply Nat.ltb_lt in E. lia.
        * apply Nat.eqb_eq in E. left. lia.
    - apply orb_false_iff in E as [E1 E2].
      apply Nat.ltb_ge in E1. apply Nat.eqb_neq in E2.
      assert (Hposk : pos c + k = length (prefix c)) by lia.
      destruct (faulted (source c)) eqn:Hf.
      + rewrite (src_read_faulted _ _ Hf) in H. inversion H; subst c' r; clear H.
        cbn [prefix pos eof source].
        split; [|split; [reflexivity|split; [reflexivity|split; [reflexivity|exact Hf]]]].
        unfold Inv; cbn [prefix pos eof source]. repeat split; try assumption; try lia;
          use_eof Heof.
      + destruct (src_read_ok (source c) (n - k) Hsrc Hf) as (bs & Hr & Hbs & Hbn & Hbv & Hb0).
        rewrite Hr in H. inversion H; subst c' r; clear H.
        cbn [prefix pos eof source data fault deliv src_with].
        rewrite Hposk, cursor_write_end.
        assert (Hbs' : bs = firstn (length bs) (skipn (length (prefix c)) (data (source c))))
          by (rewrite <- Hd; exact Hbs).
        assert (A1 : prefix c ++ bs = firstn (length (prefix c) + length bs) (data (source c))).
        { rewrite Hbs' at 1. apply prefix_extend; [exact Hp|lia]. }
        split; [|split; [reflexivity|split; [reflexivity|]]].
        * unfold Inv, src_inv; cbn [prefix pos eof source data fault deliv src_with].
          rewrite visible_end_with, app_length.
          repeat split; try lia.
          -- exact A1.
          -- apply Nat.eqb_eq in H. destruct (Hb0 H) as [Hn|He]; lia.
          -- apply Nat.eqb_eq in H. unfold faulted in *. cbn [fault deliv src_with].
             rewrite H, Nat.add_0_r. exact Hf.
        * rewrite app_length, Hl1. split; [|lia].
          unfold read_ok. rewrite app_length, Hl1.
          split; [|split; [lia|]].
          -- rewrite Hout1. rewrite Hbs' at 1. rewrite <- Hposk.
             rewrite <- (firstn_skipn_app (skipn (pos c) (data (source c))) k (length bs)).
             now rewrite skipn_skipn'.
          -- intros Hz. assert (Hb : length bs = 0) by lia.
             destruct (Hb0 Hb) as [Hn|He]; [left; lia|right; lia].
  Qed.

  Lemma cap_capture_up_to_spec c size c' r :
    Inv c -> cap_capture_up_to c size = (c', r) ->
    Inv c' /\ data (source c') = data (source c) /\ fault (source c') = fault (source c) /\
    pos c' = pos c /\ prefix_of (prefix c) (prefix c') /\
    match r with
    | Ok _ => Nat.min size (length (data (source c))) <= length (prefix c')
    | Err e => e = fault_err (source c) /\ faulted (source c') = true
    end.
  Proof.
    intros (Hp & Hd & Hpos & Hsrc & Heof) H. unfold cap_capture_up_to in H.
    destruct (size - length (prefix c) =? 0) eqn:Hn.
    - apply Nat.eqb_eq in Hn. inversion H; subst c' r; clear H.
      split; [unfold Inv; tauto|]. repeat split; try apply prefix_of_refl. lia.
    - apply Nat.eqb_neq in Hn.
      destruct (src_read_to_end_take (source c) (size - length (prefix c)) Hsrc ltac:(lia))
        as (s' & bs & rr & Hr & Hda & Hfa & Hsi & Hde & Hbs & Hbl & Hres).
      rewrite Hr in H.
      assert (Hbs' : bs = firstn (length bs) (skipn (length (prefix c)) (data (source c))))
        by (rewrite <- Hd; exact Hbs).
      pose proof (visible_end_le s') as Hv. unfold src_inv in Hsi. rewrite Hda in Hv.
      pose proof (visible_end_le (source c)) as Hv0. unfold src_inv in Hsrc.
      assert (A1 : prefix c ++ bs = firstn (length (prefix c) + length bs) (data (source c))).
      { rewrite Hbs' at 1. apply prefix_extend; [exact Hp|lia]. }
      (* If the old eof flag was set, nothing new can have arrived. *)
      assert (Hold : eof c = true ->
                length (prefix c) + length bs = length (data (source c)) /\
                faulted s' = false).
      { intros He. destruct (Heof He) as [He1 He2].
        assert (Hb0 : length bs = 0) by lia. split; [lia|].
        unfold faulted in *. rewrite Hfa, Hde, Hb0, Nat.add_0_r. exact He2. }
      destruct rr as [[lim|]|e]; [| contradiction |].
      + destruct Hres as (Hlim & Hend).
        inversion H; subst c' r; clear H. cbn [prefix pos eof source].
        split; [|split; [exact Hda|split; [exact Hfa|split; [reflexivity|split;
                 [apply prefix_of_app|]]]]].
        * unfold Inv; cbn [prefix pos eof source]. rewrite app_length, Hda.
          split; [exact A1|]. split; [lia|]. split; [lia|]. split; [exact Hsi|].
          destruct (0 <? lim) eqn:Hl0.
          -- apply Nat.ltb_lt in Hl0. destruct (Hend Hl0) as [Hx Hy]. intros _. split; [lia|exact Hy].
          -- exact Hold.
        * rewrite app_length. destruct (Nat.eq_dec lim 0) as [Hz|Hz]; [lia|].
          destruct (Hend ltac:(lia)). lia.
      + destruct Hres as (-> & Hft).
        inversion H; subst c' r; clear H. cbn [prefix pos eof source].
        split; [|split; [exact Hda|split; [exact Hfa|split; [reflexivity|split;
                 [apply prefix_of_app|split; [reflexivity|exact Hft]]]]]].
        unfold Inv; cbn [prefix pos eof source]. rewrite app_length, Hda.
        split; [exact A1|]. split; [lia|]. split; [lia|]. split; [exact Hsi|]. exact Hold.
  Qed.

  Lemma Inv_eof_full c : Inv c -> eof c = true -> prefix c = data (source c).
  Proof.
    intros (Hp & _ & _ & _ & Heof) He. destruct (Heof He) as [Hl _].
    rewrite Hp, Hl. apply firstn_all.
  Qed.

  Lemma cap_capture_to_end_spec c c' r :
    Inv c -> cap_capture_to_end c = (c', r) ->
    Inv c' /\ data (source c') = data (source c) /\ fault (source c') = fault (source c) /\
    match r with
    | Ok _ => prefix c' = data (source c) /\ eof c' = true
    | Err e => e = fault_err (source c) /\ faulted (source c') = true
    end.
  Proof.
    intros HI H. unfold cap_capture_to_end in H.
    destruct (eof c) eqn:He.
    - inversion H; subst c' r; clear H.
      split; [exact HI|]. split; [reflexivity|]. split; [reflexivity|].
      split; [now apply Inv_eof_full | exact He].
    - destruct HI as (Hp & Hd & Hpos & Hsrc & Heof).
      destruct (src_read_to_end_all (source c) Hsrc)
        as (s' & bs & rr & Hr & Hda & Hfa & Hsi & Hde & Hbs & Hve & Hres).
      rewrite Hr in H.
      assert (Hbs' : bs = firstn (length bs) (skipn (length (prefix c)) (data (source c))))
        by (rewrite <- Hd; exact Hbs).
      pose proof (visible_end_le (source c)) as Hv.
      assert (A1 : prefix c ++ bs = firstn (length (prefix c) + length bs) (data (source c))).
      { rewrite Hbs' at 1. apply prefix_extend; [exact Hp|lia]. }
      destruct rr as [x|e].
      + destruct Hres as (Hfull & Hnf).
        inversion H; subst c' r; clear H. cbn [prefix pos eof source].
        split; [|split; [exact Hda|split; [exact Hfa|split; [|reflexivity]]]].
        * unfold Inv; cbn [prefix pos eof source]. rewrite app_length, Hda.
          split; [exact A1|]. split; [lia|]. split; [lia|]. split; [exact Hsi|].
          intros _. split; [lia|exact Hnf].
        * rewrite A1. apply firstn_all2. lia.
      + destruct Hres as (-> & Hft).
        inversion H; subst c' r; clear H. cbn [prefix pos eof source].
        split; [|split; [exact Hda|split; [exact Hfa|split; [reflexivity|exact Hft]]]].
        unfold Inv; cbn [prefix pos eof source]. rewrite app_length, Hda.
        split; [exact A1|]. split; [lia|]. split; [lia|]. split; [exact Hsi|].
        discriminate.
  Qed.

  (* ---------- programs ---------- *)

  Definition hdata (h : handle) : bytes :=
    match h with HSlice b => b | HReader c => data (source c) end.
  Definition hfault (h : handle) : option nat :=
    match h with HSlice _ => None | HReader c => fault (source c) end.
  Definition HInv (h : handle) : Prop :=
    match h with HSlice _ => True | HReader c => Inv c end.

  (* An error is reported only when the source's fault lies within the data,
     and it is that fault. *)
  Definition fault_visible (D : bytes) (K : option nat) (e : ioerr) : Prop :=
    exists k, K = Some k /\ k <= length D /\ e = SrcFault k.

  (* No fault lies within the data (so EOF is reachable). *)
  Definition fault_free (D : bytes) (K : option nat) : Prop :=
    forall k, K = Some k -> length D < k.

  (* The specification of an observation trace: [sl] = the current borrow is in
     slice mode; [p] = Some q when the reads of the current borrow have so far
     returned exactly the first q bytes (None after an error, when the
     consumer has lost track). *)
  Fixpoint trace_ok (D : bytes) (K : option nat) (sl : bool) (p : option nat)
           (ops : list op) (os : list obs) : Prop :=
    match ops, os with
    | [], [] => True
    | OReborrow :: ops', ObsBorrow b :: os' =>
        (b = true -> fault_free D K) /\ trace_ok D K b (Some 0) ops' os'
    | ORead n :: ops', ObsRead (Ok bs) :: os' =>
        sl = false /\
        match p with
        | Some q => read_ok D q n bs /\ trace_ok D K sl (Some (q + length bs)) ops' os'
        | None => trace_ok D K sl None ops' os'
        end
    | ORead n :: ops', ObsRead (Err e) :: os' =>
        sl = false /\ fault_visible D K e /\ trace_ok D K sl None ops' os'
    | ORead n :: ops', ObsNotReader :: os' =>
        sl = true /\ trace_ok D K sl p ops' os'
    | OPrefix n :: ops', ObsPrefix (Ok bs) :: os' =>
        (if sl then bs = D
         else bs = firstn (length bs) D /\ Nat.min n (length D) <= length bs) /\
        trace_ok D K sl p ops' os'
    | OPrefix n :: ops', ObsPrefix (Err e) :: os' =>
        sl = false /\ fault_visible D K e /\ trace_ok D K sl p ops' os'
    | _, _ => False
    end.

  Definition final_ok (D : bytes) (K : option nat) (o : fobs) : Prop :=
    match o with
    | FSlice b => b = D /\ fault_free D K
    | FReader bs None => bs = D /\ fault_free D K
    | FReader bs (Some e) =>
        exists k, K = Some k /\ k <= length D /\ e = SrcFault k /\ bs = firstn k D
    | FCow (Ok b) => b = D /\ fault_free D K
    | FCow (Err e) => fault_visible D K e
    end.

  Lemma Inv_fault_free c : Inv c -> faulted (source c) = false ->
    length (prefix c) = length (data (source c)) ->
    fault_free (data (source c)) (fault (source c)).
  Proof.
    intros (_ & Hd & _ & _ & _) Hf Hl k Hk. unfold faulted in Hf. rewrite Hk in Hf.
    apply Nat.leb_gt in Hf. lia.
  Qed.

  Lemma Inv_fault_visible c : Inv c -> faulted (source c) = true ->
    fault_visible (data (source c)) (fault (source c)) (fault_err (source c)) /\
    exists k, fault (source c) = Some k /\ length (prefix c) = k.
  Proof.
    intros (_ & Hd & _ & Hs & _) Hf.
    apply faulted_iff in Hf as (k & Hk & Hle & Hdk); [|exact Hs].
    split.
    - exists k. unfold fault_err. rewrite Hk. auto.
    - exists k. split; [exact Hk|lia].
  Qed.

  (* The relation between a program state and the trace-specification state. *)
  Definition SInv (st : pstate) (sl : bool) (p : option nat) : Prop :=
    HInv (fst st) /\
    match snd st with
    | RSlice b => sl = true /\ b = hdata (fst st) /\ fault_free (hdata (fst st)) (hfault (fst st))
    | RReader => sl = false /\ exists c, fst st = HReader c /\
                   match p with Some q => pos c = q | None => True end
    end.

  Lemma fault_err_same s s' : fault s' = fault s -> fault_err s' = fault_err s.
  Proof. unfold fault_err. now intros ->. Qed.

  Lemma faulted_visible_of c c' :
    Inv c' -> data (source c') = data (source c) -> fault (source c') = fault (source c) ->
    faulted (source c') = true ->
    fault_visible (data (source c)) (fault (source c)) (fault_err (source c)).
  Proof.
    intros HI Hd Hf Hft. destruct (Inv_fault_visible c' HI Hft) as [Hv _].
    rewrite Hd, Hf in Hv. now rewrite (fault_err_same _ _ Hf) in Hv.
  Qed.

  Lemma step_ok st o st' ob sl p :
    SInv st sl p -> step sched st o = (st', ob) ->
    hdata (fst st') = hdata (fst st) /\ hfault (fst st') = hfault (fst st) /\
    exists sl' p', SInv st' sl' p' /\
      forall ops os, trace_ok (hdata (fst st)) (hfault (fst st)) sl' p' ops os ->
                     trace_ok (hdata (fst st)) (hfault (fst st)) sl p (o :: ops) (ob :: os).
  Proof.
    destruct st as [h r]. intros [HH HR] H. cbn [fst snd] in *.
    destruct o as [|n|n]; cbn [step] in H.
    - (* reborrow *)
      destruct h as [b|c]; cbn [borrow_mut] in H.
      + inversion H; subst st' ob; clear H. cbn [fst snd hdata hfault].
        split; [reflexivity|split; [reflexivity|]].
        exists true, (Some 0). split.
        * split; [exact I|]. cbn [fst snd hdata hfault].
          repeat split. intros k [=].
        * intros ops os Ht. cbn [trace_ok]. split; [|exact Ht]. intros _ k [=].
      + pose proof (Inv_rewind c HH) as HI'.
        destruct (eof (cap_rewind c)) eqn:He.
        * inversion H; subst st' ob; clear H. cbn [fst snd hdata hfault cap_rewind source].
          split; [reflexivity|split; [reflexivity|]].
          assert (Hff : fault_free (data (source c)) (fault (source c))).
          { destruct HI' as (_ & _ & _ & _ & Heof). destruct (Heof He) as [Hl Hnf].
            apply (Inv_fault_free c HH); assumption. }
          exists true, (Some 0). split.
          -- split; [exact HI'|]. cbn [fst snd hdata hfault cap_rewind source prefix].
             repeat split; [|exact Hff].
             apply (Inv_eof_full (cap_rewind c) HI' He).
          -- intros ops os Ht. cbn [trace_ok]. split; [intros _; exact Hff|exact Ht].
        * inversion H; subst st' ob; clear H. cbn [fst snd hdata hfault cap_rewind source].
          split; [reflexivity|split; [reflexivity|]].
          exists false, (Some 0). split.
          -- split; [exact HI'|]. cbn [fst snd]. split; [reflexivity|].
             exists (cap_rewind c). split; reflexivity.
          -- intros ops os Ht. cbn [trace_ok]. split; [discriminate|exact Ht].
    - (* read *)
      destruct r as [b|].
      + inversion H; subst st' ob; clear H. cbn [fst snd].
        split; [reflexivity|split; [reflexivity|]].
        destruct HR as (-> & Hb & Hff).
        exists true, p. split.
        * split; [exact HH|]. cbn [fst snd]. auto.
        * intros ops os Ht. cbn [trace_ok]. auto.
      + destruct HR as (-> & c & -> & Hp). cbn [HInv] in HH.
        destruct (cap_read sched c n) as [c' res] eqn:Hr.
        inversion H; subst st' ob; clear H. cbn [fst snd hdata hfault].
        destruct (cap_read_spec c n c' res HH Hr) as (HI' & Hda & Hfa & Hres).
        split; [exact Hda|split; [exact Hfa|]].
        destruct res as [out|e].
        * destruct Hres as [Hro Hpos].
          exists false, (match p with Some q => Some (q + length out) | None => None end).
          split.
          -- split; [exact HI'|]. cbn [fst snd]. split; [reflexivity|].
             exists c'. split; [reflexivity|]. destruct p as [q|]; [lia|exact I].
          -- intros ops os Ht. cbn [trace_ok]. split; [reflexivity|].
             destruct p as [q|]; [|exact Ht]. subst q. split; assumption.
        * destruct Hres as [-> Hft].
          exists false, None. split.
          -- split; [exact HI'|]. cbn [fst snd]. split; [reflexivity|].
             exists c'. split; [reflexivity|exact I].
          -- intros ops os Ht. cbn [trace_ok]. split; [reflexivity|]. split; [|exact Ht].
             apply (faulted_visible_of c c'); assumption.
    - (* prefix *)
      destruct r as [b|].
      + inversion H; subst st' ob; clear H. cbn [fst snd].
        split; [reflexivity|split; [reflexivity|]].
        destruct HR as (-> & Hb & Hff).
        exists true, p. split.
        * split; [exact HH|]. cbn [fst snd]. auto.
        * intros ops os Ht. cbn [trace_ok]. auto.
      + destruct HR as (-> & c & -> & Hp). cbn [HInv] in HH.
        destruct (cap_capture_up_to c n) as [c' res] eqn:Hr.
        destruct (cap_capture_up_to_spec c n c' res HH Hr)
          as (HI' & Hda & Hfa & Hpos & Hpre & Hres).
        destruct res as [u|e]; inversion H; subst st' ob; clear H;
          cbn [fst snd hdata hfault]; (split; [exact Hda|split; [exact Hfa|]]).
        * exists false, p. split.
          -- split; [exact HI'|]. cbn [fst snd]. split; [reflexivity|].
             exists c'. split; [reflexivity|]. destruct p; [lia|exact I].
          -- intros ops os Ht. cbn [trace_ok]. split; [|exact Ht].
             destruct HI' as (Hp' & _). rewrite Hda in Hp'. split; [exact Hp'|exact Hres].
        * destruct Hres as [-> Hft].
          exists false, p. split.
          -- split; [exact HI'|]. cbn [fst snd]. split; [reflexivity|].
             exists c'. split; [reflexivity|]. destruct p; [lia|exact I].
          -- intros ops os Ht. cbn [trace_ok]. split; [reflexivity|]. split; [|exact Ht].
             apply (faulted_visible_of c c'); assumption.
  Qed.

  Lemma run_ok ops : forall st st' os sl p,
    SInv st sl p -> run sched st ops = (st', os) ->
    hdata (fst st') = hdata (fst st) /\ hfault (fst st') = hfault (fst st) /\
    HInv (fst st') /\ trace_ok (hdata (fst st)) (hfault (fst st)) sl p ops os.
  Proof.
    induction ops as [|o ops IH]; intros st st' os sl p HS H; cbn [run] in H.
    - inversion H; subst st' os; clear H. destruct HS as [HH _]. cbn [trace_ok]. auto.
    - destruct (step sched st o) as [st1 ob] eqn:Hs.
      destruct (run sched st1 ops) as [st2 os2] eqn:Hr.
      inversion H; subst st' os; clear H.
      destruct (step_ok st o st1 ob sl p HS Hs) as (Hd1 & Hf1 & sl' & p' & HS' & Hstep).
      destruct (IH st1 st2 os2 sl' p' HS' Hr) as (Hd2 & Hf2 & HH2 & Ht).
      rewrite Hd1 in Hd2. rewrite Hf1 in Hf2. rewrite Hd1, Hf1 in Ht.
      repeat split; try assumption. apply Hstep. exact Ht.
  Qed.

  Lemma start_ok h : HInv h ->
    exists sl, SInv (start h) sl (Some 0) /\
      hdata (fst (start h)) = hdata h /\ hfault (fst (start h)) = hfault h.
  Proof.
    intros HH. unfold start. destruct h as [b|c]; cbn [borrow_mut].
    - exists true. split; [|split; reflexivity]. split; [exact I|].
      cbn [fst snd hdata hfault]. repeat split. intros k [=].
    - pose proof (Inv_rewind c HH) as HI'.
      destruct (eof (cap_rewind c)) eqn:He.
      + exists true. split; [|split; reflexivity]. split; [exact HI'|].
        cbn [fst snd hdata hfault cap_rewind source prefix]. repeat split.
        * apply (Inv_eof_full (cap_rewind c) HI' He).
        * destruct HI' as (_ & _ & _ & _ & Heof). destruct (Heof He) as [Hl Hnf].
          apply (Inv_fault_free c HH); assumption.
      + exists false. split; [|split; reflexivity]. split; [exact HI'|].
        cbn [fst snd]. split; [reflexivity|]. exists (cap_rewind c). split; reflexivity.
  Qed.

  Lemma finish_ok h f : HInv h -> final_ok (hdata h) (hfault h) (finish h f).
  Proof.
    intros HH. destruct h as [b|c]; destruct f; cbn [finish into_input into_cow hdata hfault final_ok].
    - split; [reflexivity|]. intros k [=].
    - split; [reflexivity|]. intros k [=].
    - (* Input::from on a reader handle *)
      pose proof (Inv_rewind c HH) as HI'.
      destruct (eof (cap_rewind c)) eqn:He.
      + cbn [final_ok]. split.
        * apply (Inv_eof_full (cap_rewind c) HI' He).
        * destruct HI' as (_ & _ & _ & _ & Heof). destruct (Heof He) as [Hl Hnf].
          apply (Inv_fault_free c HH); assumption.
      + unfold owned_drain. cbn [chained osource cap_rewind pos prefix source].
        destruct HH as (Hp & Hd & Hpos & Hsrc & Heof).
        destruct (src_read_to_end_all (source c) Hsrc)
          as (s' & bs & rr & Hr & Hda & Hfa & Hsi & Hde & Hbs & Hve & Hres).
        rewrite Hr.
        assert (Hbs' : bs = firstn (length bs) (skipn (length (prefix c)) (data (source c))))
          by (rewrite <- Hd; exact Hbs).
        pose proof (visible_end_le (source c)) as Hv.
        assert (A1 : prefix c ++ bs = firstn (length (prefix c) + length bs) (data (source c))).
        { rewrite Hbs' at 1. apply prefix_extend; [exact Hp|lia]. }
        change (skipn 0 (prefix c)) with (prefix c).
        destruct rr as [x|e]; cbn [final_ok].
        * destruct Hres as (Hfull & Hnf). split.
          -- rewrite A1. apply firstn_all2. lia.
          -- intros k Hk. unfold faulted in Hnf. rewrite Hfa, Hk in Hnf.
             apply Nat.leb_gt in Hnf. lia.
        * destruct Hres as (-> & Hft).
          apply faulted_iff in Hft as (k & Hk & Hle & Hdk); [|exact Hsi].
          exists k. rewrite Hfa in Hk. rewrite Hda in Hle.
          split; [exact Hk|]. split; [exact Hle|]. split.
          -- unfold fault_err. now rewrite Hk.
          -- rewrite A1. f_equal. lia.
    - (* Cow::try_from on a reader handle *)
      pose proof (Inv_rewind c HH) as HI'.
      destruct (cap_capture_to_end (cap_rewind c)) as [c' r] eqn:Hc.
      destruct (cap_capture_to_end_spec _ _ _ HI' Hc) as (HI2 & Hda & Hfa & Hres).
      cbn [cap_rewind source] in Hda, Hfa, Hres.
      destruct r as [u|e]; cbn [final_ok].
      + destruct Hres as [Hpre He]. split; [exact Hpre|].
        destruct HI2 as (Hp2 & Hd2 & _ & Hs2 & Heof2). destruct (Heof2 He) as [Hl Hnf].
        intros k Hk. unfold faulted in Hnf. rewrite Hfa, Hk in Hnf.
        apply Nat.leb_gt in Hnf. rewrite Hda in Hl. lia.
      + destruct Hres as [-> Hft].
        apply (faulted_visible_of c c'); assumption.
  Qed.

  (* ---------- the headline theorems ---------- *)

  Theorem reader_transparent d flt ops f os fo :
    run_reader sched d flt ops f = (os, fo) ->
    (exists sl, trace_ok d flt sl (Some 0) ops os) /\ final_ok d flt fo.
  Proof.
    unfold run_reader. intros H.
    pose proof (Inv_new d flt) as HI.
    destruct (start_ok (from_reader d flt) HI) as (sl & HS & Hd0 & Hf0).
    destruct (run sched (start (from_reader d flt)) ops) as [[h r] os'] eqn:Hr.
    inversion H; subst os fo; clear H.
    destruct (run_ok ops _ _ _ _ _ HS Hr) as (Hd & Hf & HH & Ht).
    cbn [fst] in Hd, Hf, HH. rewrite Hd0 in Hd, Ht. rewrite Hf0 in Hf, Ht.
    cbn [from_reader hdata hfault cap_new source data fault] in Hd, Hf, Ht.
    split; [exists sl; exact Ht|].
    rewrite <- Hd, <- Hf. apply finish_ok. exact HH.
  Qed.

  Theorem slice_transparent d ops f os fo :
    run_slice sched d ops f = (os, fo) ->
    (exists sl, trace_ok d None sl (Some 0) ops os) /\ final_ok d None fo.
  Proof.
    unfold run_slice. intros H.
    destruct (start_ok (HSlice d) I) as (sl & HS & Hd0 & Hf0).
    destruct (run sched (start (HSlice d)) ops) as [[h r] os'] eqn:Hr.
    inversion H; subst os fo; clear H.
    destruct (run_ok ops _ _ _ _ _ HS Hr) as (Hd & Hf & HH & Ht).
    cbn [fst] in Hd, Hf, HH. rewrite Hd0 in Hd, Ht. rewrite Hf0 in Hf, Ht.
    cbn [hdata hfault] in Hd, Hf, Ht.
    split; [exists sl; exact Ht|].
    rewrite <- Hd, <- Hf. apply finish_ok. exact HH.
  Qed.
End Proofs.
