(* MsgpackDepthProofs.v — the MessagePack nesting limit is exact and depends on
   nothing but the depth (C18): for EVERY encodable value - arrays, maps,
   mixtures, collections in key position, any sizes - its encoding is read to
   the end by both document loops if and only if fewer than DEPTH_LIMIT (1024)
   collections surround its innermost value; one level more is refused with the
   depth-limit error, in both modes. *)
From XtModel Require Import Base Utf8 MsgpackModel MsgpackProofs MsgpackDecProofs MsgpackAgreeProofs MsgpackCodecProofs.
Require Import ZifyBool ZifyNat ZifyN.

Section Depth.
  Variable utf8_valid : bytes -> bool.
  Variable ext_ok : bool.

  Notation D := (D utf8_valid ext_ok).
  Notation DS := (DS utf8_valid ext_ok).
  Notation wfb := (wfb utf8_valid).

  Definition P_deep (v : mval) : Prop :=
    wfb v = true -> forall d tail, 1 <= d -> d <= depth v -> snd (D (enc_val v ++ tail) d) = DErr DDepth.

  Lemma lenN_cons {A} (x : A) l : (lenN (x :: l) - 1)%N = lenN l /\ (lenN (x :: l) =? 0)%N = false.
  Proof. unfold lenN. cbn [length]. split; lia. Qed.

  (* a run of values one of which is too deep: the first such value ends the run *)
  Lemma DS_too_deep : forall vs tail d,
    Forall (fun v => wfb v = true) vs -> Forall P_deep vs -> 1 <= d ->
    (exists x, In x vs /\ d <= depth x) ->
    snd (DS (flat_map enc_val vs ++ tail) (lenN vs) d) = DErr DDepth.
  Proof.
    induction vs as [|v vs IH]; intros tail d Hw Hp Hd (x & Hin & Hx); [destruct Hin|].
    inversion Hw as [|? ? Hwv Hws]; subst. inversion Hp as [|? ? Hpv Hps]; subst.
    cbn [flat_map]. rewrite <- app_assoc, DS_eq. destruct (lenN_cons v vs) as [E1 E0]. rewrite E0.
    destruct (Nat.ltb_spec (depth v) d) as [Hlt|Hge].
    - rewrite (decode_encode utf8_valid ext_ok v Hwv d _ Hlt), E1.
      assert (Hx' : exists x0, In x0 vs /\ d <= depth x0).
      { exists x. split; [|exact Hx]. destruct Hin as [->|Hin]; [lia|exact Hin]. }
      pose proof (IH tail d Hws Hps Hd Hx') as H.
      destruct (DS (flat_map enc_val vs ++ tail) (lenN vs) d) as [e r]. exact H.
    - pose proof (Hpv Hwv d (flat_map enc_val vs ++ tail) Hd Hge) as H.
      destruct (D (enc_val v ++ flat_map enc_val vs ++ tail) d) as [e [r|err]]; cbn [snd] in *; [discriminate|exact H].
  Qed.

  Lemma max_depth_arr vs k : 1 <= k -> k <= fold_right (fun x acc => Nat.max (depth x) acc) 0 vs -> exists x, In x vs /\ k <= depth x.
  Proof.
    induction vs as [|v vs IH]; cbn [fold_right]; intros Hk H; [lia|].
    destruct (Nat.le_gt_cases k (depth v)) as [Hv|Hv]; [exists v; split; [now left|exact Hv]|].
    destruct (IH Hk ltac:(lia)) as (x & Hin & Hx). exists x. split; [now right|exact Hx].
  Qed.

  Lemma max_depth_map kvs k : 1 <= k ->
    k <= fold_right (fun (kv : mval * mval) acc => let (a, b) := kv in Nat.max (Nat.max (depth a) (depth b)) acc) 0 kvs ->
    exists x, In x (flatten kvs) /\ k <= depth x.
  Proof.
    induction kvs as [|[a b] kvs IH]; cbn [fold_right]; intros Hk H; [lia|].
    unfold flatten. cbn [flat_map fst snd app]. fold (flatten kvs).
    destruct (Nat.le_gt_cases k (depth a)) as [Ha|Ha]; [exists a; split; [now left|exact Ha]|].
    destruct (Nat.le_gt_cases k (depth b)) as [Hb|Hb]; [exists b; split; [right; now left|exact Hb]|].
    destruct (IH Hk ltac:(lia)) as (x & Hin & Hx). exists x. split; [right; now right|exact Hx].
  Qed.

  (* one level too many is refused with the depth-limit error *)
  Theorem decode_too_deep : forall v, P_deep v.
  Proof.
    induction v as [ |b|n|z|b|b|s|s|vs IHvs|kvs IHkvs] using mval_ind2; unfold P_deep; intros Hwf d tail Hd Hdeep;
      cbn [depth] in Hdeep; try lia; cbn [MsgpackCodecProofs.wfb] in Hwf.
    - apply andb_true_iff in Hwf as [Hn Hall]. rewrite forallb_forall in Hall.
      rewrite enc_val_arr, <- app_assoc.
      destruct (hdr_array utf8_valid (lenN vs) (flat_map enc_val vs ++ tail)) as (m & tl & E & Hc & Hh); [lia|].
      rewrite E, D_cons, Hc, Hh.
      destruct (d - 1 =? 0) eqn:E0; [reflexivity|]. apply Nat.eqb_neq in E0.
      cbn [coll_count].
      assert (H : snd (DS (flat_map enc_val vs ++ tail) (lenN vs) (d - 1)) = DErr DDepth).
      { apply DS_too_deep; [apply Forall_forall; exact Hall|exact IHvs|lia|]. apply max_depth_arr; lia. }
      unfold coll_result. destruct (DS (flat_map enc_val vs ++ tail) (lenN vs) (d - 1)) as [e [r|err]]; cbn [snd] in *; [discriminate|exact H].
    - apply andb_true_iff in Hwf as [Hn Hall]. rewrite forallb_forall in Hall.
      rewrite enc_val_map, <- app_assoc.
      destruct (hdr_map utf8_valid (lenN kvs) (flat_map enc_val (flatten kvs) ++ tail)) as (m & tl & E & Hc & Hh); [lia|].
      rewrite E, D_cons, Hc, Hh.
      destruct (d - 1 =? 0) eqn:E0; [reflexivity|]. apply Nat.eqb_neq in E0.
      cbn [coll_count]. rewrite <- lenN_flatten.
      assert (H : snd (DS (flat_map enc_val (flatten kvs) ++ tail) (lenN (flatten kvs)) (d - 1)) = DErr DDepth).
      { apply DS_too_deep; [| |lia|apply max_depth_map; lia].
        - apply Forall_forall. intros x Hx. destruct (in_flatten kvs x Hx) as (k & y & Hin & Hxy).
          specialize (Hall (k, y) Hin). cbn beta iota in Hall. apply andb_true_iff in Hall as [Hk Hy]. now destruct Hxy as [-> | ->].
        - apply Forall_forall. intros x Hx. destruct (in_flatten kvs x Hx) as (k & y & Hin & Hxy).
          rewrite Forall_forall in IHkvs. destruct (IHkvs (k, y) Hin) as [Pk Py]. cbn [fst snd] in *. now destruct Hxy as [-> | ->]. }
      unfold coll_result. destruct (DS (flat_map enc_val (flatten kvs) ++ tail) (lenN (flatten kvs)) (d - 1)) as [e [r|err]]; cbn [snd] in *; [discriminate|exact H].
  Qed.
End Depth.

Section Limit.
  Variable utf8_valid : bytes -> bool.
  Notation wfb := (wfb utf8_valid).

  Lemma depth_limit_pos : 1 <= DEPTH_LIMIT.
  Proof. unfold DEPTH_LIMIT. lia. Qed.

  (* The limit, for every value: both loops read the encoding to the end iff
     the depth is below the limit. *)
  Theorem msgpack_limit_exact v :
    wfb v = true ->
    (mm_ok (transcode_reader utf8_valid (enc_val v)) = true <-> depth v < DEPTH_LIMIT) /\
    (mm_ok (transcode_slice utf8_valid (enc_val v)) = true <-> depth v < DEPTH_LIMIT).
  Proof.
    intros Hwf.
    assert (R : mm_ok (transcode_reader utf8_valid (enc_val v)) = true <-> depth v < DEPTH_LIMIT).
    { split.
      - intros Hok. destruct (Nat.ltb_spec (depth v) DEPTH_LIMIT) as [H|H]; [exact H|exfalso].
        pose proof (decode_too_deep utf8_valid false v Hwf DEPTH_LIMIT [] depth_limit_pos H) as Hd.
        rewrite app_nil_r in Hd.
        unfold transcode_reader in Hok. destruct (enc_val v) as [|b rest] eqn:Ev.
        + rewrite D_nil in Hd. discriminate.
        + cbn [reader_loop] in Hok. rewrite <- D_is_decode in Hok.
          destruct (D utf8_valid false (b :: rest) DEPTH_LIMIT) as [e [r|err]]; cbn [snd] in Hd; [discriminate|].
          cbn [mm_ok snd] in Hok. discriminate.
      - intros H. destruct (reader_identity utf8_valid [v]) as (_ & Hok & _).
        + constructor; [split; [exact Hwf|exact H]|constructor].
        + cbn [flat_map] in Hok. now rewrite app_nil_r in Hok. }
    split; [exact R|].
    destruct (slice_reader_agree utf8_valid (enc_val v)) as (_ & Hok & _). now rewrite Hok.
  Qed.

  (* hence the verdict at a depth is the same for arrays, maps, mixtures and
     collections in key position: it depends on the depth alone *)
  Theorem verdict_depends_on_depth_only v w :
    wfb v = true -> wfb w = true -> depth v = depth w ->
    mm_ok (transcode_reader utf8_valid (enc_val v)) = mm_ok (transcode_reader utf8_valid (enc_val w)) /\
    mm_ok (transcode_slice utf8_valid (enc_val v)) = mm_ok (transcode_slice utf8_valid (enc_val w)).
  Proof.
    intros Hv Hw Hd.
    assert (BE : forall (a b : bool) (P : Prop), (a = true <-> P) -> (b = true <-> P) -> a = b).
    { intros a b P Ha Hb. destruct a, b; try reflexivity.
      - assert (false = true) by (apply Hb, Ha; reflexivity). discriminate.
      - assert (false = true) by (apply Ha, Hb; reflexivity). discriminate. }
    destruct (msgpack_limit_exact v Hv) as [Rv Sv]. destruct (msgpack_limit_exact w Hw) as [Rw Sw].
    rewrite Hd in Rv, Sv.
    split; [exact (BE _ _ _ Rv Rw)|exact (BE _ _ _ Sv Sw)].
  Qed.
End Limit.
