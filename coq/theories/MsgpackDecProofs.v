(* MsgpackDecProofs.v — the rmp-serde decoder model without its fuel: the result
   of [dec]/[dec_seq] does not depend on the fuel once there is enough of it,
   there always is enough in [decode], and a successful decode consumes input.
   From these, fuel-free unfolding equations for [decode] and [decode_seq]. *)
From XtModel Require Import Base MsgpackModel MsgpackProofs.
Require Import ZifyBool ZifyNat ZifyN.

Lemma take_n_some n inp a b :
  take_n n inp = Some (a, b) -> (n <= len_n inp)%N /\ a = firstn (N.to_nat n) inp /\ b = skipn (N.to_nat n) inp.
Proof.
  unfold take_n. destruct (n <=? len_n inp)%N eqn:E; [|discriminate].
  intros [= <- <-]. repeat split. lia.
Qed.

Lemma take_n_rest_len n inp a b : take_n n inp = Some (a, b) -> length b <= length inp.
Proof. intros H. apply take_n_some in H as (_ & _ & ->). rewrite skipn_length. lia. Qed.


Section Dec.
  Variable utf8_valid : bytes -> bool.
  Variable ext_ok : bool.

  Notation dec := (dec utf8_valid ext_ok).
  Notation dec_seq := (dec_seq utf8_valid ext_ok).

  (* ---------- one step of dec, split into leaf markers and collections ---------- *)

  Definition is_coll (c : mk) : bool :=
    match c with MkArrFix _ | MkArrLen _ | MkMapFix _ | MkMapLen _ => true | _ => false end.

  (* non-collection markers: no recursion, no fuel *)
  Definition leaf_dec (m : N) (tl : bytes) (depth : nat) : list ev * dres :=
    match classify m with
    | MkReserved => ([], DErr DReserved)
    | MkScalar p =>
        match take_n p tl with
        | None => ([], DErr DEof)
        | Some (field, rest) => ([scalar_ev m field], DOk rest)
        end
    | MkStrFix n => d_str utf8_valid n tl
    | MkStrLen w => d_len w tl (d_str utf8_valid)
    | MkBinLen w => d_len w tl d_bin
    | MkExtFix n => d_ext ext_ok n tl depth
    | MkExtLen w => d_len w tl (fun n r => d_ext ext_ok n r depth)
    | _ => ([], DErr DEof)
    end.

  (* a collection header: is it a map, its declared length, and what follows *)
  Definition coll_hdr (m : N) (tl : bytes) : option (bool * N * bytes) :=
    match classify m with
    | MkArrFix n => Some (false, n, tl)
    | MkArrLen w =>
        match take_n (N.of_nat w) tl with
        | None => None
        | Some (field, rest) => Some (false, be field, rest)
        end
    | MkMapFix n => Some (true, n, tl)
    | MkMapLen w =>
        match take_n (N.of_nat w) tl with
        | None => None
        | Some (field, rest) => Some (true, be field, rest)
        end
    | _ => None
    end.

  Definition coll_count (ism : bool) (len : N) : N := if ism then (2 * len)%N else len.
  Definition coll_open (ism : bool) (len : N) : ev := if ism then EMap len else ESeq len.
  Definition coll_close (ism : bool) : ev := if ism then EMapEnd else ESeqEnd.

  Definition coll_result (ism : bool) (len : N) (inner : list ev * dres) : list ev * dres :=
    match inner with
    | (evs, DOk rest') => (coll_open ism len :: evs ++ [coll_close ism], DOk rest')
    | (evs, DErr e) => (coll_open ism len :: evs, DErr e)
    end.

  Lemma dec_unfold f m tl depth :
    dec (S f) (m :: tl) depth =
      if is_coll (classify m) then
        match coll_hdr m tl with
        | None => ([], DErr DEof)
        | Some (ism, len, rest) =>
            if depth - 1 =? 0 then ([], DErr DDepth)
            else coll_result ism len (dec_seq f rest (coll_count ism len) (depth - 1))
        end
      else leaf_dec m tl depth.
  Proof.
    cbn [MsgpackModel.dec]. unfold leaf_dec, coll_hdr, coll_result, coll_count, coll_open, coll_close, d_len.
    destruct (classify m); cbn [is_coll]; try reflexivity.
    - destruct (take_n (N.of_nat w) tl) as [[field rest]|]; reflexivity.
    - destruct (take_n (N.of_nat w) tl) as [[field rest]|]; reflexivity.
  Qed.

  Lemma dec_nil f depth : dec (S f) [] depth = ([], DErr DEof).
  Proof. reflexivity. Qed.

  Lemma dec_seq_unfold f inp count depth :
    dec_seq (S f) inp count depth =
      if (count =? 0)%N then ([], DOk inp)
      else
        match dec f inp depth with
        | (evs, DErr e) => (evs, DErr e)
        | (evs, DOk rest) =>
            match dec_seq f rest (count - 1)%N depth with
            | (evs', r) => (evs ++ evs', r)
            end
        end.
  Proof. reflexivity. Qed.

  (* ---------- leaf facts ---------- *)

  Lemma d_str_rest n inp evs rest : d_str utf8_valid n inp = (evs, DOk rest) -> length rest <= length inp.
  Proof.
    unfold d_str. destruct (take_n n inp) as [[s r]|] eqn:E; [|discriminate].
    intros [= _ <-]. eapply take_n_rest_len; eassumption.
  Qed.

  Lemma d_bin_rest n inp evs rest : d_bin n inp = (evs, DOk rest) -> length rest <= length inp.
  Proof.
    unfold d_bin. destruct (take_n n inp) as [[s r]|] eqn:E; [|discriminate].
    intros [= _ <-]. eapply take_n_rest_len; eassumption.
  Qed.

  Lemma d_ext_rest n inp depth evs rest : d_ext ext_ok n inp depth = (evs, DOk rest) -> length rest <= length inp.
  Proof.
    unfold d_ext. destruct (depth - 1 =? 0); [discriminate|]. destruct ext_ok; [|discriminate].
    destruct (take_n (1 + n) inp) as [[s r]|] eqn:E; [|discriminate].
    intros [= _ <-]. eapply take_n_rest_len; eassumption.
  Qed.

  Lemma d_len_rest w inp (k : N -> bytes -> list ev * dres) evs rest :
    (forall n r e rr, k n r = (e, DOk rr) -> length rr <= length r) ->
    d_len w inp k = (evs, DOk rest) -> length rest <= length inp.
  Proof.
    intros Hk. unfold d_len. destruct (take_n (N.of_nat w) inp) as [[field r]|] eqn:E; [|discriminate].
    intros H. apply Hk in H. apply take_n_rest_len in E. lia.
  Qed.

  Lemma leaf_dec_rest m tl depth evs rest :
    leaf_dec m tl depth = (evs, DOk rest) -> length rest <= length tl.
  Proof.
    unfold leaf_dec. destruct (classify m); try discriminate.
    - destruct (take_n payload tl) as [[field r]|] eqn:E; [|discriminate].
      intros [= _ <-]. eapply take_n_rest_len; eassumption.
    - apply d_str_rest.
    - apply d_len_rest. intros; eapply d_str_rest; eassumption.
    - apply d_len_rest. intros; eapply d_bin_rest; eassumption.
    - apply d_ext_rest.
    - apply d_len_rest. intros; eapply d_ext_rest; eassumption.
  Qed.

  Lemma coll_hdr_rest m tl ism len rest : coll_hdr m tl = Some (ism, len, rest) -> length rest <= length tl.
  Proof.
    unfold coll_hdr. destruct (classify m); try discriminate.
    - intros [= _ _ <-]. lia.
    - destruct (take_n (N.of_nat w) tl) as [[f r]|] eqn:E; [|discriminate]. intros [= _ _ <-]. eapply take_n_rest_len; eassumption.
    - intros [= _ _ <-]. lia.
    - destruct (take_n (N.of_nat w) tl) as [[f r]|] eqn:E; [|discriminate]. intros [= _ _ <-]. eapply take_n_rest_len; eassumption.
  Qed.

  Lemma coll_result_ok ism len inner evs rest :
    coll_result ism len inner = (evs, DOk rest) -> exists e0, inner = (e0, DOk rest).
  Proof. unfold coll_result. destruct inner as [e0 [r|e]]; [|discriminate]. intros [= _ <-]. now exists e0. Qed.

  Lemma coll_result_fuel ism len inner :
    snd (coll_result ism len inner) = DErr DOutOfFuel <-> snd inner = DErr DOutOfFuel.
  Proof. unfold coll_result. destruct inner as [e0 [r|e]]; cbn [snd]; split; congruence. Qed.

  (* ---------- the result does not depend on the fuel ---------- *)

  Definition mono_at (f : nat) : Prop :=
    (forall inp d evs r, dec f inp d = (evs, r) -> r <> DErr DOutOfFuel ->
                         forall f', f <= f' -> dec f' inp d = (evs, r)) /\
    (forall inp c d evs r, dec_seq f inp c d = (evs, r) -> r <> DErr DOutOfFuel ->
                           forall f', f <= f' -> dec_seq f' inp c d = (evs, r)).

  Lemma mono_all : forall f, mono_at f.
  Proof.
    induction f as [|f [IHd IHs]]; split.
    - intros inp d evs r H Hr. cbn in H. inversion H; subst. now elim Hr.
    - intros inp c d evs r H Hr. cbn in H. inversion H; subst. now elim Hr.
    - intros inp d evs r H Hr f' Hle. destruct f' as [|f']; [lia|].
      destruct inp as [|m tl]; [exact H|].
      rewrite dec_unfold in *.
      destruct (is_coll (classify m)); [|exact H].
      destruct (coll_hdr m tl) as [[[ism len] rest]|]; [|exact H].
      destruct (d - 1 =? 0); [exact H|].
      destruct (dec_seq f rest (coll_count ism len) (d - 1)) as [e0 r0] eqn:E.
      assert (Hr0 : r0 <> DErr DOutOfFuel).
      { intros ->. cbn [coll_result] in H. inversion H; subst. now elim Hr. }
      rewrite (IHs _ _ _ _ _ E Hr0 f' ltac:(lia)). exact H.
    - intros inp c d evs r H Hr f' Hle. destruct f' as [|f']; [lia|].
      rewrite dec_seq_unfold in *.
      destruct (c =? 0)%N; [exact H|].
      destruct (dec f inp d) as [e1 [rest|e]] eqn:E1.
      + rewrite (IHd _ _ _ _ E1 ltac:(discriminate) f' ltac:(lia)).
        destruct (dec_seq f rest (c - 1)%N d) as [e2 r2] eqn:E2.
        assert (Hr2 : r2 <> DErr DOutOfFuel) by (intros ->; inversion H; subst; now elim Hr).
        rewrite (IHs _ _ _ _ _ E2 Hr2 f' ltac:(lia)). exact H.
      + assert (He : DErr e <> DErr DOutOfFuel) by (intros Hx; inversion H; subst; now elim Hr).
        rewrite (IHd _ _ _ _ E1 He f' ltac:(lia)). exact H.
  Qed.

  (* ---------- there is always enough fuel, and success consumes input ---------- *)

  Definition adeq_at (f : nat) : Prop :=
    (forall inp d, 2 * length inp + 2 <= f ->
        snd (dec f inp d) <> DErr DOutOfFuel /\
        forall evs rest, dec f inp d = (evs, DOk rest) -> length rest < length inp) /\
    (forall inp c d, 2 * length inp + 3 <= f ->
        snd (dec_seq f inp c d) <> DErr DOutOfFuel /\
        forall evs rest, dec_seq f inp c d = (evs, DOk rest) -> length rest <= length inp).

  Lemma adeq_all : forall f, adeq_at f.
  Proof.
    induction f as [|f [IHd IHs]]; split.
    - intros inp d H. lia.
    - intros inp c d H. lia.
    - intros inp d Hf. destruct inp as [|m tl].
      + cbn. split; [discriminate|intros evs rest [=]].
      + rewrite dec_unfold. cbn [length] in Hf.
        destruct (is_coll (classify m)).
        * destruct (coll_hdr m tl) as [[[ism len] rest]|] eqn:Eh; [|cbn; split; [discriminate|intros ? ? [=]]].
          pose proof (coll_hdr_rest _ _ _ _ _ Eh) as Hlr.
          destruct (d - 1 =? 0); [cbn; split; [discriminate|intros ? ? [=]]|].
          destruct (IHs rest (coll_count ism len) (d - 1) ltac:(lia)) as [Hnf Hc].
          split.
          -- intros Hx. apply coll_result_fuel in Hx. now elim Hnf.
          -- intros evs r' Hx. apply coll_result_ok in Hx as [e0 Hx].
             specialize (Hc _ _ Hx). cbn [length]. lia.
        * split.
          -- unfold leaf_dec, d_len, d_str, d_bin, d_ext.
             destruct (classify m); cbn [snd];
               repeat (match goal with
                       | |- context [match take_n ?a ?b with _ => _ end] => destruct (take_n a b) as [[? ?]|]
                       | |- context [if ?c then _ else _] => destruct c
                       end; cbn [snd]); discriminate.
          -- intros evs rest Hx. apply leaf_dec_rest in Hx. cbn [length]. lia.
    - intros inp c d Hf. rewrite dec_seq_unfold.
      destruct (c =? 0)%N.
      + cbn. split; [discriminate|]. intros evs rest [= _ <-]. lia.
      + destruct (IHd inp d ltac:(lia)) as [Hnf Hc].
        destruct (dec f inp d) as [e1 [rest|e]] eqn:E1; cbn [snd] in *.
        * specialize (Hc _ _ eq_refl).
          destruct (IHs rest (c - 1)%N d ltac:(lia)) as [Hnf2 Hc2].
          destruct (dec_seq f rest (c - 1)%N d) as [e2 r2] eqn:E2. cbn [snd] in *.
          split; [exact Hnf2|]. intros evs r' [= _ ->]. specialize (Hc2 _ _ eq_refl). lia.
        * split; [exact Hnf|intros ? ? [=]].
  Qed.

  (* ---------- fuel-free decoding ---------- *)

  Definition D (inp : bytes) (d : nat) : list ev * dres := dec (2 * length inp + 2) inp d.
  Definition DS (inp : bytes) (c : N) (d : nat) : list ev * dres := dec_seq (2 * length inp + 3) inp c d.

  Lemma D_is_decode inp d : D inp d = decode utf8_valid ext_ok inp d.
  Proof. reflexivity. Qed.

  Lemma D_fuel inp d f : 2 * length inp + 2 <= f -> dec f inp d = D inp d.
  Proof.
    intros H. unfold D. destruct (dec (2 * length inp + 2) inp d) as [evs r] eqn:E.
    destruct (adeq_all (2 * length inp + 2)) as [Ha _]. destruct (Ha inp d (le_n _)) as [Hnf _].
    rewrite E in Hnf. cbn [snd] in Hnf.
    exact (proj1 (mono_all _) _ _ _ _ E Hnf f H).
  Qed.

  Lemma DS_fuel inp c d f : 2 * length inp + 3 <= f -> dec_seq f inp c d = DS inp c d.
  Proof.
    intros H. unfold DS. destruct (dec_seq (2 * length inp + 3) inp c d) as [evs r] eqn:E.
    destruct (adeq_all (2 * length inp + 3)) as [_ Ha]. destruct (Ha inp c d (le_n _)) as [Hnf _].
    rewrite E in Hnf. cbn [snd] in Hnf.
    exact (proj2 (mono_all _) _ _ _ _ _ E Hnf f H).
  Qed.

  Lemma D_consumes inp d evs rest : D inp d = (evs, DOk rest) -> length rest < length inp.
  Proof. unfold D. intros H. destruct (adeq_all (2 * length inp + 2)) as [Ha _]. destruct (Ha inp d (le_n _)) as [_ Hc]. eauto. Qed.

  Lemma DS_consumes inp c d evs rest : DS inp c d = (evs, DOk rest) -> length rest <= length inp.
  Proof. unfold DS. intros H. destruct (adeq_all (2 * length inp + 3)) as [_ Ha]. destruct (Ha inp c d (le_n _)) as [_ Hc]. eauto. Qed.

  Lemma D_nil d : D [] d = ([], DErr DEof).
  Proof. reflexivity. Qed.

  Lemma D_cons m tl d :
    D (m :: tl) d =
      if is_coll (classify m) then
        match coll_hdr m tl with
        | None => ([], DErr DEof)
        | Some (ism, len, rest) =>
            if d - 1 =? 0 then ([], DErr DDepth)
            else coll_result ism len (DS rest (coll_count ism len) (d - 1))
        end
      else leaf_dec m tl d.
  Proof.
    unfold D. cbn [length]. replace (2 * S (length tl) + 2) with (S (2 * length tl + 3)) by lia.
    rewrite dec_unfold.
    destruct (is_coll (classify m)); [|reflexivity].
    destruct (coll_hdr m tl) as [[[ism len] rest]|] eqn:Eh; [|reflexivity].
    destruct (d - 1 =? 0); [reflexivity|].
    pose proof (coll_hdr_rest _ _ _ _ _ Eh) as Hl.
    rewrite (DS_fuel rest _ _ (2 * length tl + 3)) by lia. reflexivity.
  Qed.

  Lemma DS_eq inp c d :
    DS inp c d =
      if (c =? 0)%N then ([], DOk inp)
      else
        match D inp d with
        | (evs, DErr e) => (evs, DErr e)
        | (evs, DOk rest) =>
            match DS rest (c - 1)%N d with
            | (evs', r) => (evs ++ evs', r)
            end
        end.
  Proof.
    unfold DS at 1. replace (2 * length inp + 3) with (S (2 * length inp + 2)) by lia.
    rewrite dec_seq_unfold. destruct (c =? 0)%N; [reflexivity|].
    fold (D inp d). destruct (D inp d) as [e1 [rest|e]] eqn:E1; [|reflexivity].
    pose proof (D_consumes _ _ _ _ E1) as Hl.
    rewrite (DS_fuel rest _ _ (2 * length inp + 2)) by lia. reflexivity.
  Qed.
End Dec.
