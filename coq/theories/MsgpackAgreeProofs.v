(* MsgpackAgreeProofs.v — the two MessagePack document loops of msgpack.rs agree.

   Slice input is cut into documents by xt's own size calculator and each piece
   is decoded on its own; reader input is decoded value after value by
   rmp-serde.  For every byte string: the same documents are translated, in the
   same order, with the same events; the run succeeds in one mode iff it
   succeeds in the other; and when it fails, what the slice loop had written is
   a prefix of what the reader loop had written. *)
From XtModel Require Import Base MsgpackModel MsgpackProofs MsgpackDecProofs MsgpackSizeProofs.
Require Import ZifyBool ZifyNat ZifyN.

(* ---------- list and take_n toolkit ---------- *)

Lemma take_n_ok n inp :
  (n <= len_n inp)%N -> take_n n inp = Some (firstn (N.to_nat n) inp, skipn (N.to_nat n) inp).
Proof. unfold take_n. intros H. destruct (n <=? len_n inp)%N eqn:E; [reflexivity|lia]. Qed.

Lemma take_n_none n inp : take_n n inp = None -> (len_n inp < n)%N.
Proof. unfold take_n. destruct (n <=? len_n inp)%N eqn:E; [discriminate|]. intros _. lia. Qed.

Lemma take_n_app n inp a b tail :
  take_n n inp = Some (a, b) -> take_n n (inp ++ tail) = Some (a, b ++ tail).
Proof.
  intros H. apply take_n_some in H as (Hle & -> & ->). unfold len_n in Hle.
  rewrite take_n_ok by (unfold len_n; rewrite app_length; lia).
  rewrite firstn_app, skipn_app.
  replace (N.to_nat n - length inp) with 0 by lia. cbn [firstn skipn]. now rewrite app_nil_r.
Qed.

Lemma take_n_exact n inp : (n <= len_n inp)%N ->
  take_n n (firstn (N.to_nat n) inp) = Some (firstn (N.to_nat n) inp, []).
Proof.
  intros H. unfold len_n in H.
  rewrite take_n_ok by (unfold len_n; rewrite firstn_length; lia).
  rewrite firstn_firstn, Nat.min_id. rewrite skipn_all2 by (rewrite firstn_length; lia). reflexivity.
Qed.

Lemma len_n_app a b : len_n (a ++ b) = (len_n a + len_n b)%N.
Proof. unfold len_n. rewrite app_length. lia. Qed.

Lemma len_n_firstn k inp : (k <= len_n inp)%N -> len_n (firstn (N.to_nat k) inp) = k.
Proof. unfold len_n. intros H. rewrite firstn_length. lia. Qed.

Section Agree.
  Variable utf8_valid : bytes -> bool.
  Variable ext_ok : bool.

  Notation D := (D utf8_valid ext_ok).
  Notation DS := (DS utf8_valid ext_ok).
  Notation leaf_dec := (leaf_dec utf8_valid ext_ok).

  (* outcomes that do not come from running out of input *)
  Definition settled (r : dres) : Prop :=
    match r with DOk _ => True | DErr e => e <> DEof end.

  (* the same outcome with [tail] appended to what is left *)
  Definition extend (r : dres) (tail : bytes) : dres :=
    match r with DOk rest => DOk (rest ++ tail) | DErr e => DErr e end.

  (* ---------- appending input does not change a settled outcome ---------- *)

  Lemma d_str_ext n inp tail evs r :
    d_str utf8_valid n inp = (evs, r) -> settled r -> d_str utf8_valid n (inp ++ tail) = (evs, extend r tail).
  Proof.
    unfold d_str. destruct (take_n n inp) as [[s rest]|] eqn:E.
    - intros [= <- <-] _. now rewrite (take_n_app _ _ _ _ tail E).
    - intros [= <- <-] H. now elim H.
  Qed.

  Lemma d_bin_ext n inp tail evs r :
    d_bin n inp = (evs, r) -> settled r -> d_bin n (inp ++ tail) = (evs, extend r tail).
  Proof.
    unfold d_bin. destruct (take_n n inp) as [[s rest]|] eqn:E.
    - intros [= <- <-] _. now rewrite (take_n_app _ _ _ _ tail E).
    - intros [= <- <-] H. now elim H.
  Qed.

  Lemma d_ext_ext n inp depth tail evs r :
    d_ext ext_ok n inp depth = (evs, r) -> settled r -> d_ext ext_ok n (inp ++ tail) depth = (evs, extend r tail).
  Proof.
    unfold d_ext. destruct (depth - 1 =? 0); [intros [= <- <-] _; reflexivity|].
    destruct ext_ok; [|intros [= <- <-] _; reflexivity].
    destruct (take_n (1 + n) inp) as [[s rest]|] eqn:E.
    - intros [= <- <-] _. now rewrite (take_n_app _ _ _ _ tail E).
    - intros [= <- <-] H. now elim H.
  Qed.

  Lemma d_len_ext w inp (k : N -> bytes -> list ev * dres) tail evs r :
    (forall n i e rr, k n i = (e, rr) -> settled rr -> k n (i ++ tail) = (e, extend rr tail)) ->
    d_len w inp k = (evs, r) -> settled r -> d_len w (inp ++ tail) k = (evs, extend r tail).
  Proof.
    intros Hk. unfold d_len. destruct (take_n (N.of_nat w) inp) as [[field rest]|] eqn:E.
    - intros H Hs. rewrite (take_n_app _ _ _ _ tail E). now apply Hk.
    - intros [= <- <-] H. now elim H.
  Qed.

  Lemma leaf_dec_ext m tl depth tail evs r :
    is_coll (classify m) = false ->
    leaf_dec m tl depth = (evs, r) -> settled r -> leaf_dec m (tl ++ tail) depth = (evs, extend r tail).
  Proof.
    unfold MsgpackDecProofs.leaf_dec. destruct (classify m); cbn [is_coll]; try discriminate; intros _.
    - destruct (take_n payload tl) as [[field rest]|] eqn:E.
      + intros [= <- <-] _. now rewrite (take_n_app _ _ _ _ tail E).
      + intros [= <- <-] H. now elim H.
    - apply d_str_ext.
    - apply d_len_ext. intros; now apply d_str_ext.
    - apply d_len_ext. intros; now apply d_bin_ext.
    - apply d_ext_ext.
    - apply d_len_ext. intros; now apply d_ext_ext.
    - intros [= <- <-] _. reflexivity.
  Qed.

  Lemma coll_hdr_ext m tl tail ism len rest :
    coll_hdr m tl = Some (ism, len, rest) -> coll_hdr m (tl ++ tail) = Some (ism, len, rest ++ tail).
  Proof.
    unfold coll_hdr. destruct (classify m); try discriminate.
    - intros [= <- <- <-]. reflexivity.
    - destruct (take_n (N.of_nat w) tl) as [[f r]|] eqn:E; [|discriminate].
      intros [= <- <- <-]. now rewrite (take_n_app _ _ _ _ tail E).
    - intros [= <- <- <-]. reflexivity.
    - destruct (take_n (N.of_nat w) tl) as [[f r]|] eqn:E; [|discriminate].
      intros [= <- <- <-]. now rewrite (take_n_app _ _ _ _ tail E).
  Qed.

  Lemma coll_result_extend ism len e0 r0 tail :
    coll_result ism len (e0, extend r0 tail) =
      (fst (coll_result ism len (e0, r0)), extend (snd (coll_result ism len (e0, r0))) tail).
  Proof. unfold coll_result. destruct r0; reflexivity. Qed.

  Lemma coll_result_settled ism len e0 r0 : settled (snd (coll_result ism len (e0, r0))) -> settled r0.
  Proof. unfold coll_result. destruct r0; cbn; auto. Qed.

  Definition ExtD (inp : bytes) : Prop :=
    forall d tail evs r, D inp d = (evs, r) -> settled r -> D (inp ++ tail) d = (evs, extend r tail).
  Definition ExtS (inp : bytes) : Prop :=
    forall c d tail evs r, DS inp c d = (evs, r) -> settled r -> DS (inp ++ tail) c d = (evs, extend r tail).

  Lemma ext_step inp :
    (forall i, length i < length inp -> ExtS i) -> ExtD inp.
  Proof.
    intros IH d tail evs r H Hs. destruct inp as [|m tl].
    - rewrite D_nil in H. inversion H; subst. now elim Hs.
    - cbn [app]. rewrite D_cons in *.
      destruct (is_coll (classify m)) eqn:Hc.
      + destruct (coll_hdr m tl) as [[[ism len] rest]|] eqn:Eh.
        * rewrite (coll_hdr_ext _ _ tail _ _ _ Eh).
          destruct (d - 1 =? 0); [inversion H; subst; reflexivity|].
          destruct (DS rest (coll_count ism len) (d - 1)) as [e0 r0] eqn:E0.
          assert (Hs0 : settled r0) by (apply (coll_result_settled ism len e0); rewrite H; exact Hs).
          pose proof (coll_hdr_rest utf8_valid _ _ _ _ _ Eh) as Hl.
          rewrite (IH rest ltac:(cbn [length]; lia) _ _ tail _ _ E0 Hs0).
          rewrite coll_result_extend, H. reflexivity.
        * inversion H; subst. now elim Hs.
      + now apply leaf_dec_ext.
  Qed.

  Lemma ext_all : forall n inp, length inp < n -> ExtD inp /\ ExtS inp.
  Proof.
    induction n as [|n IH]; intros inp Hn; [lia|].
    assert (HD : ExtD inp) by (apply ext_step; intros i Hi; apply (IH i); lia).
    split; [exact HD|].
    intros c d tail evs r H Hs. rewrite DS_eq in *.
    destruct (c =? 0)%N; [inversion H; subst; reflexivity|].
    destruct (D inp d) as [e1 r1] eqn:E1.
    destruct r1 as [rest|e].
    - rewrite (HD d tail _ _ E1 I). cbn [extend].
      pose proof (D_consumes _ _ _ _ _ _ E1) as Hl.
      destruct (DS rest (c - 1)%N d) as [e2 r2] eqn:E2.
      inversion H; subst.
      destruct (IH rest ltac:(lia)) as [_ HS].
      now rewrite (HS _ _ tail _ _ E2 Hs).
    - inversion H; subst. rewrite (HD d tail _ _ E1 Hs). reflexivity.
  Qed.

  Theorem D_extend inp d tail evs r :
    D inp d = (evs, r) -> settled r -> D (inp ++ tail) d = (evs, extend r tail).
  Proof. apply (proj1 (ext_all (S (length inp)) inp (Nat.lt_succ_diag_r _))). Qed.

  Theorem DS_extend inp c d tail evs r :
    DS inp c d = (evs, r) -> settled r -> DS (inp ++ tail) c d = (evs, extend r tail).
  Proof. apply (proj2 (ext_all (S (length inp)) inp (Nat.lt_succ_diag_r _))). Qed.

  (* ---------- splitting a sequence of a + b values ---------- *)

  Lemma DS_split b d : forall (a : nat) inp,
    DS inp (N.of_nat a + b)%N d =
      match DS inp (N.of_nat a) d with
      | (e1, DOk r1) => let '(e2, r2) := DS r1 b d in (e1 ++ e2, r2)
      | (e1, DErr e) => (e1, DErr e)
      end.
  Proof.
    induction a as [|a IH]; intros inp.
    - cbn [N.of_nat]. rewrite (DS_eq _ _ inp 0%N). rewrite N.eqb_refl. replace (0 + b)%N with b by lia.
      destruct (DS inp b d). reflexivity.
    - rewrite (DS_eq _ _ inp (N.of_nat (S a) + b)%N), (DS_eq _ _ inp (N.of_nat (S a))).
      destruct (N.of_nat (S a) + b =? 0)%N eqn:E1; [lia|].
      destruct (N.of_nat (S a) =? 0)%N eqn:E2; [lia|].
      destruct (D inp d) as [e0 [rest|e]]; [|reflexivity].
      replace (N.of_nat (S a) + b - 1)%N with (N.of_nat a + b)%N by lia.
      replace (N.of_nat (S a) - 1)%N with (N.of_nat a) by lia.
      rewrite IH. destruct (DS rest (N.of_nat a) d) as [e1 [r1|e]]; [|reflexivity].
      destruct (DS r1 b d) as [e2 r2]. now rewrite app_assoc.
  Qed.

  Lemma DS_double pairs d inp :
    DS inp (2 * pairs)%N d =
      match DS inp pairs d with
      | (e1, DOk r1) => let '(e2, r2) := DS r1 pairs d in (e1 ++ e2, r2)
      | (e1, DErr e) => (e1, DErr e)
      end.
  Proof.
    replace (2 * pairs)%N with (N.of_nat (N.to_nat pairs) + pairs)%N by lia.
    rewrite DS_split. now rewrite N2Nat.id.
  Qed.
End Agree.

(* ---------- leaves: the size calculator and the decoder read the same length ---------- *)

Lemma firstn_firstn_le {A} (l : list A) a b : a <= b -> firstn a (firstn b l) = firstn a l.
Proof. intros H. rewrite firstn_firstn. f_equal. lia. Qed.

Lemma skipn_firstn_sub {A} (l : list A) a b : skipn a (firstn (a + b) l) = firstn b (skipn a l).
Proof. rewrite skipn_firstn_comm. f_equal. lia. Qed.

Lemma len_n_skipn' k (l : bytes) : len_n (skipn k l) = (len_n l - N.of_nat k)%N.
Proof. unfold len_n. rewrite skipn_length. lia. Qed.

(* reading k bytes off the first j bytes of l *)
Lemma take_n_prefix k j l :
  (k <= j)%N -> (j <= len_n l)%N ->
  take_n k (firstn (N.to_nat j) l) =
    Some (firstn (N.to_nat k) l, firstn (N.to_nat (j - k)) (skipn (N.to_nat k) l)).
Proof.
  intros Hkj Hj. unfold len_n in Hj.
  rewrite take_n_ok by (unfold len_n; rewrite firstn_length; lia).
  rewrite firstn_firstn_le by lia.
  replace (N.to_nat j) with (N.to_nat k + N.to_nat (j - k)) by lia.
  now rewrite skipn_firstn_sub.
Qed.

(* the total encoded length of a non-collection value, when its length field is readable *)
Definition leaf_len (m : N) (tl : bytes) : option N :=
  match classify m with
  | MkScalar p => Some (1 + p)%N
  | MkStrFix n => Some (1 + n)%N
  | MkStrLen w | MkBinLen w =>
      if (N.of_nat w <=? len_n tl)%N then Some (1 + N.of_nat w + be (firstn w tl))%N else None
  | MkExtFix n => Some (2 + n)%N
  | MkExtLen w =>
      if (N.of_nat w <=? len_n tl)%N then Some (2 + N.of_nat w + be (firstn w tl))%N else None
  | _ => None
  end.

Lemma try_read_length_cons w m tl :
  try_read_length w (m :: tl) = if (N.of_nat w <=? len_n tl)%N then Some (be (firstn w tl)) else None.
Proof.
  unfold try_read_length, len_n. cbn [length skipn].
  change (skipn 1 (m :: tl)) with tl.
  destruct (1 + w <=? S (length tl)) eqn:E1; destruct (N.of_nat w <=? N.of_nat (length tl))%N eqn:E2; try reflexivity; lia.
Qed.

(* the size calculator on a leaf: the leaf's length if it fits, an error otherwise *)
Lemma size_step_leaf ts m tl :
  is_coll (classify m) = false ->
  size_step ts m (m :: tl) =
    match leaf_len m tl with
    | Some n => if (n <=? len_n (m :: tl))%N then SzOk n else SzErr Truncated
    | None => match classify m with MkReserved => SzErr InvalidMarker | _ => SzErr Truncated end
    end.
Proof.
  unfold size_step, leaf_len, sz_with_len, sz_finish.
  destruct (classify m); cbn [is_coll]; try discriminate; intros _; try reflexivity;
    rewrite try_read_length_cons; destruct (N.of_nat w <=? len_n tl)%N; reflexivity.
Qed.

Section Leaves.
  Variable utf8_valid : bytes -> bool.
  Variable ext_ok : bool.
  Notation leaf_dec := (leaf_dec utf8_valid ext_ok).

  Definition complete (r : dres) : Prop := r = DOk [] \/ exists e, r = DErr e /\ e <> DEof.

  Lemma complete_settled r : complete r -> settled r.
  Proof. intros [->|(e & -> & He)]; cbn; auto. Qed.

  (* a decoded leaf has the length the size calculator computes *)
  Lemma leaf_dec_len m tl d evs rest :
    is_coll (classify m) = false ->
    leaf_dec m tl d = (evs, DOk rest) ->
    exists n, leaf_len m tl = Some n /\ (1 <= n <= len_n (m :: tl))%N /\ rest = skipn (N.to_nat n - 1) tl.
  Proof.
    unfold MsgpackDecProofs.leaf_dec, leaf_len, d_len, d_str, d_bin, d_ext. rewrite len_n_cons.
    destruct (classify m); cbn [is_coll]; try discriminate; intros _.
    - destruct (take_n payload tl) as [[f r]|] eqn:E; [|discriminate]. intros [= _ <-].
      apply take_n_some in E as (Hle & _ & ->). eexists. split; [reflexivity|]. split; [lia|]. f_equal. lia.
    - destruct (take_n n tl) as [[f r]|] eqn:E; [|discriminate]. intros [= _ <-].
      apply take_n_some in E as (Hle & _ & ->). eexists. split; [reflexivity|]. split; [lia|]. f_equal. lia.
    - destruct (take_n (N.of_nat w) tl) as [[f r]|] eqn:E; [|discriminate].
      apply take_n_some in E as (Hle & -> & ->). rewrite Nat2N.id.
      destruct (take_n (be (firstn w tl)) (skipn w tl)) as [[s r2]|] eqn:E2; [|discriminate]. intros [= _ <-].
      apply take_n_some in E2 as (Hle2 & _ & ->). rewrite len_n_skipn' in Hle2.
      destruct (N.of_nat w <=? len_n tl)%N eqn:Ew; [|lia].
      eexists. split; [reflexivity|]. split; [lia|]. rewrite skipn_skipn'; f_equal; lia.
    - destruct (take_n (N.of_nat w) tl) as [[f r]|] eqn:E; [|discriminate].
      apply take_n_some in E as (Hle & -> & ->). rewrite Nat2N.id.
      destruct (take_n (be (firstn w tl)) (skipn w tl)) as [[s r2]|] eqn:E2; [|discriminate]. intros [= _ <-].
      apply take_n_some in E2 as (Hle2 & _ & ->). rewrite len_n_skipn' in Hle2.
      destruct (N.of_nat w <=? len_n tl)%N eqn:Ew; [|lia].
      eexists. split; [reflexivity|]. split; [lia|]. rewrite skipn_skipn'; f_equal; lia.
    - destruct (d - 1 =? 0); [discriminate|]. destruct ext_ok; [|discriminate].
      destruct (take_n (1 + n) tl) as [[f r]|] eqn:E; [|discriminate]. intros [= _ <-].
      apply take_n_some in E as (Hle & _ & ->). eexists. split; [reflexivity|]. split; [lia|]. f_equal. lia.
    - destruct (take_n (N.of_nat w) tl) as [[f r]|] eqn:E; [|discriminate].
      apply take_n_some in E as (Hle & -> & ->). rewrite Nat2N.id.
      destruct (d - 1 =? 0); [discriminate|]. destruct ext_ok; [|discriminate].
      destruct (take_n (1 + be (firstn w tl)) (skipn w tl)) as [[s r2]|] eqn:E2; [|discriminate]. intros [= _ <-].
      apply take_n_some in E2 as (Hle2 & _ & ->). rewrite len_n_skipn' in Hle2.
      destruct (N.of_nat w <=? len_n tl)%N eqn:Ew; [|lia].
      eexists. split; [reflexivity|]. split; [lia|]. rewrite skipn_skipn'; f_equal; lia.
  Qed.

  (* decoding exactly the bytes the size calculator measured ends cleanly or in
     an error that is not "out of input" *)
  Lemma leaf_dec_exact m tl d n :
    is_coll (classify m) = false ->
    leaf_len m tl = Some n -> (n <= len_n (m :: tl))%N ->
    exists evs r, leaf_dec m (firstn (N.to_nat n - 1) tl) d = (evs, r) /\ complete r.
  Proof.
    unfold MsgpackDecProofs.leaf_dec, leaf_len, d_len, d_str, d_bin, d_ext. rewrite len_n_cons.
    destruct (classify m); cbn [is_coll]; try discriminate; intros _.
    - intros [= <-] Hle. replace (N.to_nat (1 + payload) - 1) with (N.to_nat payload) by lia.
      rewrite take_n_exact by lia. do 2 eexists. split; [reflexivity|now left].
    - intros [= <-] Hle. replace (N.to_nat (1 + n0) - 1) with (N.to_nat n0) by lia.
      rewrite take_n_exact by lia. do 2 eexists. split; [reflexivity|now left].
    - destruct (N.of_nat w <=? len_n tl)%N eqn:Ew; [|discriminate]. intros [= <-] Hle.
      set (l := be (firstn w tl)) in *.
      replace (N.to_nat (1 + N.of_nat w + l) - 1) with (N.to_nat (N.of_nat w + l)) by lia.
      rewrite (take_n_prefix (N.of_nat w) (N.of_nat w + l) tl) by lia. rewrite Nat2N.id. fold l.
      replace (N.of_nat w + l - N.of_nat w)%N with l by lia.
      rewrite take_n_exact by (rewrite len_n_skipn'; lia).
      do 2 eexists. split; [reflexivity|now left].
    - destruct (N.of_nat w <=? len_n tl)%N eqn:Ew; [|discriminate]. intros [= <-] Hle.
      set (l := be (firstn w tl)) in *.
      replace (N.to_nat (1 + N.of_nat w + l) - 1) with (N.to_nat (N.of_nat w + l)) by lia.
      rewrite (take_n_prefix (N.of_nat w) (N.of_nat w + l) tl) by lia. rewrite Nat2N.id. fold l.
      replace (N.of_nat w + l - N.of_nat w)%N with l by lia.
      rewrite take_n_exact by (rewrite len_n_skipn'; lia).
      do 2 eexists. split; [reflexivity|now left].
    - intros [= <-] Hle. replace (N.to_nat (2 + n0) - 1) with (N.to_nat (1 + n0)) by lia.
      destruct (d - 1 =? 0); [do 2 eexists; split; [reflexivity|right; eexists; split; [reflexivity|discriminate]]|].
      destruct ext_ok; [|do 2 eexists; split; [reflexivity|right; eexists; split; [reflexivity|discriminate]]].
      rewrite take_n_exact by lia. do 2 eexists. split; [reflexivity|now left].
    - destruct (N.of_nat w <=? len_n tl)%N eqn:Ew; [|discriminate]. intros [= <-] Hle.
      set (l := be (firstn w tl)) in *.
      replace (N.to_nat (2 + N.of_nat w + l) - 1) with (N.to_nat (N.of_nat w + (1 + l))) by lia.
      rewrite (take_n_prefix (N.of_nat w) (N.of_nat w + (1 + l)) tl) by lia. rewrite Nat2N.id. fold l.
      replace (N.of_nat w + (1 + l) - N.of_nat w)%N with (1 + l)%N by lia.
      destruct (d - 1 =? 0); [do 2 eexists; split; [reflexivity|right; eexists; split; [reflexivity|discriminate]]|].
      destruct ext_ok; [|do 2 eexists; split; [reflexivity|right; eexists; split; [reflexivity|discriminate]]].
      rewrite take_n_exact by (rewrite len_n_skipn'; lia).
      do 2 eexists. split; [reflexivity|now left].
  Qed.
End Leaves.

(* ---------- collection headers ---------- *)

Lemma coll_hdr_facts m tl ism count rest :
  coll_hdr m tl = Some (ism, count, rest) ->
  let h := (len_n (m :: tl) - len_n rest)%N in
  (1 <= h <= len_n (m :: tl))%N /\ slice_from (m :: tl) h = Some rest /\
  rest = skipn (N.to_nat h - 1) tl /\ is_coll (classify m) = true.
Proof.
  unfold coll_hdr. rewrite len_n_cons. destruct (classify m); try discriminate; cbn [is_coll].
  - intros [= <- <- <-]. cbn zeta. replace (1 + len_n tl - len_n tl)%N with 1%N by lia.
    repeat split; try lia. rewrite slice_from_ok by (rewrite len_n_cons; lia). reflexivity.
  - destruct (take_n (N.of_nat w) tl) as [[f r]|] eqn:E; [|discriminate]. intros [= <- <- <-].
    apply take_n_some in E as (Hle & -> & ->). rewrite Nat2N.id. cbn zeta. rewrite len_n_skipn'.
    replace (1 + len_n tl - (len_n tl - N.of_nat w))%N with (1 + N.of_nat w)%N by lia.
    repeat split; try lia.
    + rewrite slice_from_ok by (rewrite len_n_cons; lia).
      replace (N.to_nat (1 + N.of_nat w)) with (S w) by lia. reflexivity.
    + f_equal. lia.
  - intros [= <- <- <-]. cbn zeta. replace (1 + len_n tl - len_n tl)%N with 1%N by lia.
    repeat split; try lia. rewrite slice_from_ok by (rewrite len_n_cons; lia). reflexivity.
  - destruct (take_n (N.of_nat w) tl) as [[f r]|] eqn:E; [|discriminate]. intros [= <- <- <-].
    apply take_n_some in E as (Hle & -> & ->). rewrite Nat2N.id. cbn zeta. rewrite len_n_skipn'.
    replace (1 + len_n tl - (len_n tl - N.of_nat w))%N with (1 + N.of_nat w)%N by lia.
    repeat split; try lia.
    + rewrite slice_from_ok by (rewrite len_n_cons; lia).
      replace (N.to_nat (1 + N.of_nat w)) with (S w) by lia. reflexivity.
    + f_equal. lia.
Qed.

(* the size calculator on a collection marker, in terms of the decoder's header *)
Lemma size_step_coll ts m tl :
  is_coll (classify m) = true ->
  size_step ts m (m :: tl) =
    match coll_hdr m tl with
    | None => SzErr Truncated
    | Some (ism, count, rest) =>
        let h := (len_n (m :: tl) - len_n rest)%N in
        if ism then map_size ts (m :: tl) h count else seq_size ts (m :: tl) h count
    end.
Proof.
  unfold size_step, coll_hdr, sz_with_len. rewrite len_n_cons.
  destruct (classify m); cbn [is_coll]; try discriminate; intros _.
  - cbn zeta. now replace (1 + len_n tl - len_n tl)%N with 1%N by lia.
  - rewrite try_read_length_cons. unfold take_n. destruct (N.of_nat w <=? len_n tl)%N eqn:E; [|reflexivity].
    rewrite Nat2N.id. cbn zeta. rewrite len_n_skipn'.
    now replace (1 + len_n tl - (len_n tl - N.of_nat w))%N with (1 + N.of_nat w)%N by lia.
  - cbn zeta. now replace (1 + len_n tl - len_n tl)%N with 1%N by lia.
  - rewrite try_read_length_cons. unfold take_n. destruct (N.of_nat w <=? len_n tl)%N eqn:E; [|reflexivity].
    rewrite Nat2N.id. cbn zeta. rewrite len_n_skipn'.
    now replace (1 + len_n tl - (len_n tl - N.of_nat w))%N with (1 + N.of_nat w)%N by lia.
Qed.

(* the header read from a prefix that still contains it *)
Lemma coll_hdr_prefix m tl ism count rest j :
  coll_hdr m tl = Some (ism, count, rest) ->
  (len_n tl - len_n rest <= j)%N -> (j <= len_n tl)%N ->
  coll_hdr m (firstn (N.to_nat j) tl) =
    Some (ism, count, firstn (N.to_nat (j - (len_n tl - len_n rest))) rest).
Proof.
  unfold coll_hdr. destruct (classify m); try discriminate.
  - intros [= <- <- <-] H1 H2. do 3 f_equal. lia.
  - destruct (take_n (N.of_nat w) tl) as [[f r]|] eqn:E; [|discriminate]. intros [= <- <- <-] H1 H2.
    apply take_n_some in E as (Hle & -> & ->). rewrite Nat2N.id in *. rewrite len_n_skipn' in *.
    rewrite (take_n_prefix (N.of_nat w) j tl) by lia. rewrite Nat2N.id. do 3 f_equal. lia.
  - intros [= <- <- <-] H1 H2. do 3 f_equal. lia.
  - destruct (take_n (N.of_nat w) tl) as [[f r]|] eqn:E; [|discriminate]. intros [= <- <- <-] H1 H2.
    apply take_n_some in E as (Hle & -> & ->). rewrite Nat2N.id in *. rewrite len_n_skipn' in *.
    rewrite (take_n_prefix (N.of_nat w) j tl) by lia. rewrite Nat2N.id. do 3 f_equal. lia.
Qed.

(* ---------- what the size calculator accepts, the decoder completes ---------- *)

Section SizeThenDecode.
  Variable utf8_valid : bytes -> bool.
  Variable ext_ok : bool.
  Notation D := (D utf8_valid ext_ok).
  Notation DS := (DS utf8_valid ext_ok).

  Definition L3D (inp : bytes) : Prop :=
    forall dl n, NV inp dl = SzOk n -> inp <> [] ->
      exists evs r, D (firstn (N.to_nat n) inp) dl = (evs, r) /\ complete r.
  Definition L3S (seq : bytes) : Prop :=
    forall c dl t, dl <> 0 -> TS dl seq c = SzOk t ->
      exists evs r, DS (firstn (N.to_nat t) seq) c (dl - 1) = (evs, r) /\ complete r.

  Lemma firstn_split_at (l : bytes) a b :
    firstn (N.to_nat (a + b)) l = firstn (N.to_nat a) l ++ firstn (N.to_nat b) (skipn (N.to_nat a) l).
  Proof. rewrite firstn_skipn_app. f_equal. lia. Qed.

  Lemma complete_coll ism len e0 r0 :
    complete r0 -> complete (snd (coll_result ism len (e0, r0))).
  Proof.
    intros [->|(e & -> & He)]; cbn [coll_result snd]; [now left|right; now exists e].
  Qed.

  Lemma coll_result_complete ism len e0 r0 :
    complete r0 -> exists evs r, coll_result ism len (e0, r0) = (evs, r) /\ complete r.
  Proof.
    intros [->|(e & -> & He)]; cbn [coll_result]; do 2 eexists; (split; [reflexivity|]);
      [now left|right; now exists e].
  Qed.

  Lemma L3D_step inp : (forall i, length i < length inp -> L3S i) -> L3D inp.
  Proof.
    intros IH dl n Hn Hne. destruct inp as [|m tl]; [now elim Hne|]. clear Hne.
    destruct (NV_bounds _ _ _ Hn) as [Hle Hpos]. specialize (Hpos ltac:(discriminate)).
    rewrite NV_eq in Hn. destruct (dl =? 0) eqn:Hdl; [discriminate|]. apply Nat.eqb_neq in Hdl.
    assert (Hf : firstn (N.to_nat n) (m :: tl) = m :: firstn (N.to_nat n - 1) tl).
    { destruct (N.to_nat n) as [|k] eqn:Ek; [lia|]. rewrite firstn_cons. do 2 f_equal. lia. }
    rewrite Hf, D_cons.
    destruct (is_coll (classify m)) eqn:Hc.
    - rewrite (size_step_coll _ _ _ Hc) in Hn.
      destruct (coll_hdr m tl) as [[[ism count] rest]|] eqn:Eh; [|discriminate].
      destruct (coll_hdr_facts _ _ _ _ _ Eh) as (Hh & Hsl & Hrest & _). cbn zeta in *.
      set (h := (len_n (m :: tl) - len_n rest)%N) in *.
      assert (Hlr : length rest <= length tl) by (apply (coll_hdr_rest utf8_valid _ _ _ _ _ Eh)).
      assert (Hlen : (len_n tl - len_n rest = h - 1)%N) by (subst h; rewrite len_n_cons; unfold len_n; lia).
      destruct ism.
      + (* a map: 2 * count values *)
        unfold map_size, sz_slice in Hn. rewrite Hsl in Hn.
        destruct (TS dl rest count) as [first| | |] eqn:E1; cbn [sz_bind] in Hn; try discriminate.
        pose proof (TS_bounds _ _ _ _ Hdl E1) as Hb1.
        rewrite slice_from_ok in Hn by exact Hb1.
        set (rest2 := skipn (N.to_nat first) rest) in *.
        destruct (TS dl rest2 count) as [second| | |] eqn:E2; cbn [sz_bind] in Hn; try discriminate.
        pose proof (TS_bounds _ _ _ _ Hdl E2) as Hb2.
        apply sz_finish_ok in Hn as [-> Htot].
        replace (N.to_nat (h + (first + second)) - 1) with (N.to_nat (h + (first + second) - 1)) by lia.
        rewrite (coll_hdr_prefix _ _ _ _ _ (h + (first + second) - 1)%N Eh)
          by (rewrite ?len_n_cons in *; unfold len_n in *; lia).
        replace (h + (first + second) - 1 - (len_n tl - len_n rest))%N with (first + second)%N by lia.
        destruct (dl - 1 =? 0) eqn:Hd1.
        { do 2 eexists. split; [reflexivity|]. right. eexists. split; [reflexivity|discriminate]. }
        cbn [coll_count]. rewrite DS_double, firstn_split_at. fold rest2.
        destruct (IH rest ltac:(cbn [length]; lia) count dl first Hdl E1) as (e1 & r1 & Hd & Hcomp).
        rewrite (DS_extend _ _ _ _ _ (firstn (N.to_nat second) rest2) _ _ Hd (complete_settled _ Hcomp)).
        destruct Hcomp as [->|(e & -> & He)]; cbn [extend app].
        * assert (Hl2 : length rest2 < length (m :: tl)) by (subst rest2; rewrite skipn_length; cbn [length]; lia).
          destruct (IH rest2 Hl2 count dl second Hdl E2) as (e2 & r2 & Hd2 & Hcomp2).
          rewrite Hd2. apply coll_result_complete. exact Hcomp2.
        * do 2 eexists. split; [reflexivity|]. right. exists e. split; [reflexivity|exact He].
      + (* an array *)
        unfold seq_size, sz_slice in Hn. rewrite Hsl in Hn.
        destruct (TS dl rest count) as [t| | |] eqn:E1; cbn [sz_bind] in Hn; try discriminate.
        pose proof (TS_bounds _ _ _ _ Hdl E1) as Hb1.
        apply sz_finish_ok in Hn as [-> Htot].
        replace (N.to_nat (h + t) - 1) with (N.to_nat (h + t - 1)) by lia.
        rewrite (coll_hdr_prefix _ _ _ _ _ (h + t - 1)%N Eh)
          by (rewrite ?len_n_cons in *; unfold len_n in *; lia).
        replace (h + t - 1 - (len_n tl - len_n rest))%N with t by lia.
        destruct (dl - 1 =? 0) eqn:Hd1.
        { do 2 eexists. split; [reflexivity|]. right. eexists. split; [reflexivity|discriminate]. }
        cbn [coll_count].
        destruct (IH rest ltac:(cbn [length]; lia) count dl t Hdl E1) as (e1 & r1 & Hd & Hcomp).
        rewrite Hd. apply coll_result_complete. exact Hcomp.
    - rewrite (size_step_leaf _ _ _ Hc) in Hn.
      destruct (leaf_len m tl) as [n'|] eqn:El; [|destruct (classify m); discriminate].
      destruct (n' <=? len_n (m :: tl))%N eqn:Ele; [|discriminate]. injection Hn as <-.
      apply (leaf_dec_exact utf8_valid ext_ok m tl dl n' Hc El). lia.
  Qed.

  Lemma L3S_step seq : L3D seq -> (forall i, length i < length seq -> L3S i) -> L3S seq.
  Proof.
    intros HD IH c dl t Hdl Ht. rewrite (TS_eq dl seq c Hdl) in Ht. rewrite DS_eq.
    destruct (c =? 0)%N eqn:Hc.
    - injection Ht as <-. cbn [N.to_nat firstn]. unfold firstn. do 2 eexists. split; [reflexivity|now left].
    - destruct seq as [|b tl]; [discriminate|].
      destruct (NV (b :: tl) (dl - 1)) as [size| | |] eqn:En; cbn [sz_bind] in Ht; try discriminate.
      destruct (NV_bounds _ _ _ En) as [Hle Hpos]. specialize (Hpos ltac:(discriminate)).
      unfold sz_slice in Ht. rewrite slice_from_ok in Ht by exact Hle.
      set (rest := skipn (N.to_nat size) (b :: tl)) in *.
      destruct (TS dl rest (c - 1)%N) as [t'| | |] eqn:Et; cbn [sz_bind] in Ht; try discriminate.
      injection Ht as <-.
      rewrite firstn_split_at. fold rest.
      destruct (HD (dl - 1) size En ltac:(discriminate)) as (e1 & r1 & Hd & Hcomp).
      rewrite (D_extend _ _ _ _ (firstn (N.to_nat t') rest) _ _ Hd (complete_settled _ Hcomp)).
      destruct Hcomp as [->|(e & -> & He)]; cbn [extend app].
      + assert (Hl : length rest < length (b :: tl)) by (subst rest; rewrite skipn_length; cbn [length]; lia).
        destruct (IH rest Hl (c - 1)%N dl t' Hdl Et) as (e2 & r2 & Hd2 & Hcomp2).
        rewrite Hd2. do 2 eexists. split; [reflexivity|exact Hcomp2].
      + do 2 eexists. split; [reflexivity|]. right. exists e. split; [reflexivity|exact He].
  Qed.

  Lemma L3_all : forall n inp, length inp < n -> L3D inp /\ L3S inp.
  Proof.
    induction n as [|n IH]; intros inp Hn; [lia|].
    assert (HD : L3D inp) by (apply L3D_step; intros i Hi; apply (IH i); lia).
    split; [exact HD|]. apply L3S_step; [exact HD|]. intros i Hi. apply (IH i). lia.
  Qed.

  (* What the size calculator measures, the decoder finishes: decoding exactly
     those bytes ends with nothing left over, or in an error that is not "out
     of input" (depth limit, ext value). *)
  Theorem size_then_decode inp dl n :
    NV inp dl = SzOk n -> inp <> [] ->
    exists evs r, D (firstn (N.to_nat n) inp) dl = (evs, r) /\ complete r.
  Proof. apply (proj1 (L3_all (S (length inp)) inp (Nat.lt_succ_diag_r _))). Qed.
End SizeThenDecode.

(* ---------- what the decoder accepts, the size calculator measures exactly ---------- *)

Section DecodeThenSize.
  Variable utf8_valid : bytes -> bool.
  Variable ext_ok : bool.
  Notation D := (D utf8_valid ext_ok).
  Notation DS := (DS utf8_valid ext_ok).

  Definition consumed (inp rest : bytes) : N := (len_n inp - len_n rest)%N.

  Definition L1D (inp : bytes) : Prop :=
    forall d evs rest, d <> 0 -> D inp d = (evs, DOk rest) ->
      NV inp d = SzOk (consumed inp rest) /\ rest = skipn (N.to_nat (consumed inp rest)) inp /\
      length rest <= length inp.
  Definition L1S (inp : bytes) : Prop :=
    forall c d evs rest, d <> 0 -> DS inp c d = (evs, DOk rest) ->
      TS (S d) inp c = SzOk (consumed inp rest) /\ rest = skipn (N.to_nat (consumed inp rest)) inp /\
      length rest <= length inp.

  Lemma skipn_skipn_N (l : bytes) a b :
    skipn (N.to_nat b) (skipn (N.to_nat a) l) = skipn (N.to_nat (a + b)) l.
  Proof. rewrite skipn_skipn'; f_equal; lia. Qed.

  Lemma L1D_step inp : (forall i, length i < length inp -> L1S i) -> L1D inp.
  Proof.
    intros IH d evs rest Hd H. destruct inp as [|m tl]; [rewrite D_nil in H; discriminate|].
    rewrite D_cons in H. rewrite NV_eq. destruct (d =? 0) eqn:Ed; [apply Nat.eqb_eq in Ed; contradiction|].
    destruct (is_coll (classify m)) eqn:Hc.
    - rewrite (size_step_coll _ _ _ Hc).
      destruct (coll_hdr m tl) as [[[ism count] rest0]|] eqn:Eh; [|discriminate].
      destruct (coll_hdr_facts _ _ _ _ _ Eh) as (Hh & Hsl & Hrest0 & _). cbn zeta in *.
      set (h := (len_n (m :: tl) - len_n rest0)%N) in *.
      assert (Hlr : length rest0 <= length tl) by (apply (coll_hdr_rest utf8_valid _ _ _ _ _ Eh)).
      destruct (d - 1 =? 0) eqn:Hd1; [discriminate|]. apply Nat.eqb_neq in Hd1.
      apply coll_result_ok in H as [e0 H].
      replace (S (d - 1)) with d in * by lia.
      destruct ism; cbn [coll_count] in H.
      + rewrite DS_double in H.
        destruct (DS rest0 count (d - 1)) as [e1 [r1|e]] eqn:E1; [|discriminate].
        destruct (DS r1 count (d - 1)) as [e2 r2] eqn:E2. injection H as _ ->.
        destruct (IH rest0 ltac:(cbn [length]; lia) count (d - 1) e1 r1 Hd1 E1) as (T1 & R1 & L1).
        destruct (IH r1 ltac:(cbn [length]; lia) count (d - 1) e2 rest Hd1 E2) as (T2 & R2 & L2).
        replace (S (d - 1)) with d in * by lia.
        unfold map_size, sz_slice. rewrite Hsl, T1. cbn [sz_bind].
        assert (Hb1 : (consumed rest0 r1 <= len_n rest0)%N) by (unfold consumed; lia).
        rewrite slice_from_ok by exact Hb1. rewrite <- R1, T2. cbn [sz_bind].
        unfold sz_finish, consumed in *.
        assert (Hlen : (h + (len_n rest0 - len_n r1 + (len_n r1 - len_n rest)) = len_n (m :: tl) - len_n rest)%N).
        { subst h. rewrite len_n_cons in *. unfold len_n in *. lia. }
        rewrite Hlen.
        destruct (len_n (m :: tl) - len_n rest <=? len_n (m :: tl))%N eqn:Ef; [|lia].
        split; [reflexivity|]. split; [|cbn [length]; lia].
        remember (N.to_nat (len_n (m :: tl) - len_n rest)) as T eqn:HT.
        remember (N.to_nat (len_n r1 - len_n rest)) as a eqn:Ha.
        remember (N.to_nat (len_n rest0 - len_n r1)) as b eqn:Hb.
        assert (HTab : T = S (N.to_nat h - 1 + b + a))
          by (subst T a b h; rewrite len_n_cons in *; unfold len_n in *; lia).
        rewrite HTab, R2, R1, Hrest0, skipn_cons, !skipn_skipn'; f_equal; lia.
      + destruct (IH rest0 ltac:(cbn [length]; lia) count (d - 1) e0 rest Hd1 H) as (T1 & R1 & L1).
        replace (S (d - 1)) with d in * by lia.
        unfold seq_size, sz_slice. rewrite Hsl, T1. cbn [sz_bind].
        unfold sz_finish, consumed in *.
        assert (Hlen : (h + (len_n rest0 - len_n rest) = len_n (m :: tl) - len_n rest)%N).
        { subst h. rewrite len_n_cons in *. unfold len_n in *. lia. }
        rewrite Hlen.
        destruct (len_n (m :: tl) - len_n rest <=? len_n (m :: tl))%N eqn:Ef; [|lia].
        split; [reflexivity|]. split; [|cbn [length]; lia].
        remember (N.to_nat (len_n (m :: tl) - len_n rest)) as T eqn:HT.
        remember (N.to_nat (len_n rest0 - len_n rest)) as a eqn:Ha.
        assert (HTab : T = S (N.to_nat h - 1 + a))
          by (subst T a h; rewrite len_n_cons in *; unfold len_n in *; lia).
        rewrite HTab, R1, Hrest0, skipn_cons, !skipn_skipn'; f_equal; lia.
    - rewrite (size_step_leaf _ _ _ Hc).
      destruct (leaf_dec_len utf8_valid ext_ok m tl d evs rest Hc H) as (n & El & Hn & Hr).
      rewrite El. destruct (n <=? len_n (m :: tl))%N eqn:Ele; [|lia].
      assert (Hcons : consumed (m :: tl) rest = n).
      { unfold consumed. rewrite Hr, len_n_skipn', len_n_cons in *. unfold len_n in *. lia. }
      rewrite Hcons. split; [reflexivity|]. split.
      + rewrite Hr at 1. destruct (N.to_nat n) as [|k] eqn:Ek; [lia|]. rewrite skipn_cons. f_equal. lia.
      + rewrite Hr, skipn_length. cbn [length]. lia.
  Qed.

  Lemma L1S_step inp : L1D inp -> (forall i, length i < length inp -> L1S i) -> L1S inp.
  Proof.
    intros HD IH c d evs rest Hd H. rewrite DS_eq in H. rewrite (TS_eq (S d) inp c ltac:(lia)).
    destruct (c =? 0)%N eqn:Hc.
    - injection H as _ <-. unfold consumed. replace (len_n inp - len_n inp)%N with 0%N by lia.
      repeat split. lia.
    - destruct (D inp d) as [e1 [r1|e]] eqn:E1; [|discriminate].
      destruct (DS r1 (c - 1)%N d) as [e2 r2] eqn:E2. injection H as _ ->.
      destruct (HD d e1 r1 Hd E1) as (N1 & R1 & L1).
      pose proof (D_consumes _ _ _ _ _ _ E1) as Hlt.
      destruct (IH r1 Hlt (c - 1)%N d e2 rest Hd E2) as (T2 & R2 & L2).
      destruct inp as [|b tl]; [cbn [length] in Hlt; lia|].
      replace (S d - 1) with d by lia. rewrite N1. cbn [sz_bind].
      unfold consumed in *.
      assert (Hb : (len_n (b :: tl) - len_n r1 <= len_n (b :: tl))%N) by lia.
      unfold sz_slice. rewrite slice_from_ok by exact Hb. rewrite <- R1, T2. cbn [sz_bind].
      assert (Hlen : (len_n (b :: tl) - len_n r1 + (len_n r1 - len_n rest) = len_n (b :: tl) - len_n rest)%N).
      { unfold len_n in *. lia. }
      rewrite Hlen. split; [reflexivity|]. split; [|lia].
      remember (N.to_nat (len_n (b :: tl) - len_n rest)) as T eqn:HT.
      remember (N.to_nat (len_n r1 - len_n rest)) as a eqn:Ha.
      remember (N.to_nat (len_n (b :: tl) - len_n r1)) as k eqn:Hk.
      assert (HTab : T = k + a) by (subst T a k; unfold len_n in *; lia).
      rewrite HTab, R2, R1, skipn_skipn'; f_equal; lia.
  Qed.

  Lemma L1_all : forall n inp, length inp < n -> L1D inp /\ L1S inp.
  Proof.
    induction n as [|n IH]; intros inp Hn; [lia|].
    assert (HD : L1D inp) by (apply L1D_step; intros i Hi; apply (IH i); lia).
    split; [exact HD|]. apply L1S_step; [exact HD|]. intros i Hi. apply (IH i). lia.
  Qed.

  (* Whatever rmp-serde decodes successfully, the size calculator measures
     exactly: same number of bytes, same rest. *)
  Theorem decode_then_size inp d evs rest :
    d <> 0 -> D inp d = (evs, DOk rest) ->
    NV inp d = SzOk (consumed inp rest) /\ rest = skipn (N.to_nat (consumed inp rest)) inp /\
    length rest <= length inp.
  Proof. apply (proj1 (L1_all (S (length inp)) inp (Nat.lt_succ_diag_r _))). Qed.
End DecodeThenSize.

(* ---------- the two document loops ---------- *)

Section Loops.
  Variable utf8_valid : bytes -> bool.
  Notation D := (D utf8_valid false).

  Definition DL : nat := DEPTH_LIMIT.

  Lemma DL_pos : DL <> 0.
  Proof. unfold DL, DEPTH_LIMIT. lia. Qed.

  (* how the two runs may end relative to each other *)
  Definition ends_alike (s r : mend) : Prop :=
    s = r \/ exists e e' p, s = MSizeErr e /\ r = MDecErr e' p.

  Lemma loops_agree : forall f rest, length rest < f ->
    let s := slice_loop utf8_valid f rest in
    let r := reader_loop utf8_valid f rest in
    fst s = fst r /\ ends_alike (snd s) (snd r) /\
    snd s <> MPanic /\ snd s <> MOutOfFuel /\ snd r <> MOutOfFuel /\ snd r <> MPanic.
  Proof.
    induction f as [|f IH]; intros rest Hf; [lia|]. cbn zeta.
    destruct rest as [|b tl].
    - cbn. repeat split; try discriminate. now left.
    - cbn [slice_loop reader_loop].
      change (decode utf8_valid false (b :: tl) DEPTH_LIMIT) with (D (b :: tl) DL).
      rewrite NV_is_next_value_size. fold DL.
      destruct (NV (b :: tl) DL) as [n|e| |] eqn:En.
      + destruct (NV_bounds _ _ _ En) as [Hle Hpos]. specialize (Hpos ltac:(discriminate)).
        rewrite take_n_ok by exact Hle.
        change (decode utf8_valid false (firstn (N.to_nat n) (b :: tl)) DL)
          with (D (firstn (N.to_nat n) (b :: tl)) DL).
        destruct (size_then_decode utf8_valid false _ _ _ En ltac:(discriminate)) as (evs & r0 & Hd & Hcomp).
        pose proof (D_extend utf8_valid false _ _ (skipn (N.to_nat n) (b :: tl)) _ _ Hd (complete_settled _ Hcomp)) as Hext.
        rewrite firstn_skipn in Hext. rewrite Hd, Hext.
        destruct Hcomp as [->|(e & -> & He)]; cbn [extend app].
        * assert (Hl : length (skipn (N.to_nat n) (b :: tl)) < f).
          { rewrite skipn_length. cbn [length] in *. lia. }
          specialize (IH _ Hl). cbn zeta in IH.
          destruct (slice_loop utf8_valid f (skipn (N.to_nat n) (b :: tl))) as [ds fs].
          destruct (reader_loop utf8_valid f (skipn (N.to_nat n) (b :: tl))) as [dr fr].
          cbn [fst snd] in *. destruct IH as (Hdocs & Hends & H1 & H2 & H3 & H4).
          repeat split; try assumption. now rewrite Hdocs.
        * cbn [fst snd]. repeat split; try discriminate. now left.
      + cbn [fst snd].
        destruct (D (b :: tl) DL) as [evs [rest'|e']] eqn:Ed.
        * destruct (decode_then_size utf8_valid false _ _ _ _ DL_pos Ed) as (Hn & _ & _).
          rewrite Hn in En. discriminate.
        * cbn [fst snd]. repeat split; try discriminate. right. now exists e, e', evs.
      + exfalso. rewrite <- NV_is_next_value_size in En. exact (next_value_size_no_panic _ _ En).
      + exfalso. exact (NV_not_fuel _ _ En).
  Qed.

  (* For every byte string: slice input and reader input translate the same
     documents with the same events in the same order; one succeeds iff the
     other does; the only way they may differ is how a failing document is
     reported (the slice loop refuses it before touching the output, the reader
     loop after forwarding what it could decode), so what the slice loop wrote
     is a prefix of what the reader loop wrote. *)
  Theorem slice_reader_agree inp :
    let s := transcode_slice utf8_valid inp in
    let r := transcode_reader utf8_valid inp in
    fst s = fst r /\ mm_ok s = mm_ok r /\
    prefix_of (mm_output s) (mm_output r) /\ (mm_ok s = true -> mm_output s = mm_output r).
  Proof.
    cbn zeta. unfold transcode_slice, transcode_reader.
    destruct (loops_agree (S (length inp)) inp (Nat.lt_succ_diag_r _)) as (Hdocs & Hends & _).
    cbn zeta in *.
    destruct (slice_loop utf8_valid (S (length inp)) inp) as [ds fs].
    destruct (reader_loop utf8_valid (S (length inp)) inp) as [dr fr].
    cbn [fst snd] in *. subst dr. unfold mm_ok, mm_output. cbn [fst snd].
    destruct Hends as [->|(e & e' & p & -> & ->)].
    - repeat split; auto. apply prefix_of_refl.
    - repeat split; try discriminate.
      rewrite app_nil_r. apply prefix_of_app.
  Qed.

  (* neither loop panics or runs out of fuel *)
  Theorem loops_total inp :
    snd (transcode_slice utf8_valid inp) <> MPanic /\ snd (transcode_slice utf8_valid inp) <> MOutOfFuel /\
    snd (transcode_reader utf8_valid inp) <> MOutOfFuel.
  Proof.
    unfold transcode_slice, transcode_reader.
    destruct (loops_agree (S (length inp)) inp (Nat.lt_succ_diag_r _)) as (_ & _ & H1 & H2 & H3 & _). auto.
  Qed.
End Loops.
