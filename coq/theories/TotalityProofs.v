(* TotalityProofs.v — the remaining pieces of "xt's own code never panics":
   the capture reader's index arithmetic, for every reachable state. *)
From XtModel Require Import Base InputModel InputProofs.

Section Capture.
  Variable sched : nat -> nat.

  (* CaptureReader::captured_unread_size computes len - offset on usize, and
     read slices buf[..prefix_size]: both are in range in every state that any
     program of reads, prefix requests and re-borrows can reach, under any read
     schedule and any source fault. *)
  Theorem capture_index_safe d flt ops st os :
    run sched (start (from_reader d flt)) ops = (st, os) ->
    match fst st with
    | HReader c => pos c <= length (prefix c) /\ length (prefix c) <= length d
    | HSlice _ => True
    end.
  Proof.
    intros Hr.
    destruct (start_ok (from_reader d flt) (Inv_new d flt)) as (sl & HS & Hd0 & _).
    destruct (run_ok sched ops _ _ _ _ _ HS Hr) as (Hd & _ & HH & _).
    rewrite Hd0 in Hd. cbn [from_reader hdata cap_new source data] in Hd.
    destruct (fst st) as [b|c]; [exact I|].
    cbn [HInv hdata] in *. destruct HH as (Hp & _ & Hpos & _ & _).
    split; [exact Hpos|]. rewrite Hp, firstn_length, Hd. lia.
  Qed.
End Capture.
