(* TotalityProofs.v — the remaining pieces of "xt's own code never panics":
   the capture reader's index arithmetic, for every reachable state. *)
From XtModel Require Import Base InputModel InputProofs.

Section Capture.
  Variable sched : nat -> nat.

  (* CaptureReader::captured_unread_size computes len - offset on usize, and
     read slices buf[..prefix_size]: both are in range in every state that any
     program of reads, prefix requests and re-borrows can reach, under any read
     schedule and any source fault. *)
  Theorem capture_index_safe d flt ops st os :
    run sched (start (from_reader d flt)) ops = (st, os) ->
    match fst st with
    | HReader c => pos c <= length (prefix c) /\ length (prefix c) <= length d
    | HSlice _ => True
    end.
  Proof.
    intros Hr.
    destruct (start_ok (from_reader d flt) (Inv_new d flt)) as (sl & HS & Hd0 & _).
    destruct (run_ok sched ops _ _ _ _ _ HS Hr) as (Hd & _ & HH & _).
    rewrite Hd0 in Hd. cbn [from_reader hdata cap_new source data] in Hd.
    destruct (fst st) as [b|c]; [exact I|].
    cbn [HInv hdata] in *. destruct HH as (Hp & _ & Hpos & _ & _).
    split; [exact Hpos|]. rewrite Hp, firstn_length, Hd. lia.
  Qed.
End Capture.

(* A prefix request never captures more than it was asked for (or than was
   already captured): format detection reads a bounded amount. *)
Section Bounded.
  Variable sched : nat -> nat.

  Theorem capture_bounded c size c' r :
    Inv c -> cap_capture_up_to c size = (c', r) ->
    length (prefix c') <= Nat.max (length (prefix c)) size.
  Proof.
    intros (Hp & Hd & Hpos & Hsrc & Heof) H. unfold cap_capture_up_to in H.
    destruct (size - length (prefix c) =? 0) eqn:Hn.
    - inversion H; subst c'. lia.
    - apply Nat.eqb_neq in Hn.
      destruct (src_read_to_end_take (source c) (size - length (prefix c)) Hsrc ltac:(lia))
        as (s' & bs & rr & Hr & _ & _ & _ & _ & _ & Hbl & _).
      rewrite Hr in H.
      destruct rr as [lim|e]; inversion H; subst c'; cbn [prefix]; rewrite app_length; lia.
  Qed.
End Bounded.
