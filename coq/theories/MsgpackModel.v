(* MsgpackModel.v — the MessagePack path of xt.

   (1) next_value_size, total_seq_size, total_map_size, try_read_length from
       src/msgpack.rs:141-252, with every slice index that could panic made an
       explicit SzPanic outcome;
   (2) the part of rmp-serde 1.1.2's Deserializer::deserialize_any that xt
       drives (decode.rs:486-586): marker dispatch, length reads, the depth
       counter, sequence and map access — as a function from bytes to the list
       of visitor events and the unread rest;
   (3) `shape`: a depth-free structural parse used to relate (1) and (2);
   (4) the two document loops of msgpack::transcode (msgpack.rs:67-92).
   Definitions only. *)
From XtModel Require Import Base.

(* ---------- big-endian fields ---------- *)

Definition be (bs : bytes) : N := fold_left (fun acc b => (acc * 256 + b)%N) bs 0%N.

Definition len_n (bs : bytes) : N := N.of_nat (length bs).

(* input.get(1..1+w) *)
Definition try_read_length (w : nat) (inp : bytes) : option N :=
  if 1 + w <=? length inp then Some (be (firstn w (skipn 1 inp))) else None.

(* ---------- (1) the size calculator ---------- *)

Inductive szerr := Truncated | InvalidMarker | DepthLimitExceeded.

Inductive szres :=
| SzOk (n : N)
| SzErr (e : szerr)
| SzPanic          (* a slice index out of range, or usize underflow *)
| SzOutOfFuel.

(* &input[k..] *)
Definition slice_from (inp : bytes) (k : N) : option bytes :=
  if (k <=? len_n inp)%N then Some (skipn (N.to_nat k) inp) else None.

Definition sz_bind (r : szres) (k : N -> szres) : szres :=
  match r with SzOk n => k n | other => other end.

Definition sz_finish (inp : bytes) (total : N) : szres :=
  if (total <=? len_n inp)%N then SzOk total else SzErr Truncated.

Definition sz_with_len (w : nat) (inp : bytes) (k : N -> szres) : szres :=
  match try_read_length w inp with
  | None => SzErr Truncated
  | Some n => k n
  end.

Definition sz_slice (inp : bytes) (k : N) (f : bytes -> szres) : szres :=
  match slice_from inp k with
  | None => SzPanic
  | Some rest => f rest
  end.

(* The marker table (rmp::Marker::from_u8 plus the size table of
   msgpack.rs:150-192), as a classification by what follows the marker. *)
Inductive mk :=
| MkScalar (payload : N)   (* marker + payload bytes: fixint, nil, bool, u8..u64, i8..i64, f32, f64 *)
| MkStrFix (n : N)         (* fixstr: n bytes *)
| MkStrLen (w : nat)       (* str8/16/32: w-byte length, then that many bytes *)
| MkBinLen (w : nat)       (* bin8/16/32 *)
| MkExtFix (n : N)         (* fixext: type byte + n bytes *)
| MkExtLen (w : nat)       (* ext8/16/32: w-byte length, type byte, data *)
| MkArrFix (n : N)
| MkArrLen (w : nat)
| MkMapFix (n : N)
| MkMapLen (w : nat)
| MkReserved.

Definition classify (m : N) : mk :=
  if (m <? 128)%N then MkScalar 0
  else if (m <? 144)%N then MkMapFix (m - 128)
  else if (m <? 160)%N then MkArrFix (m - 144)
  else if (m <? 192)%N then MkStrFix (m - 160)
  else if (m =? 192)%N then MkScalar 0
  else if (m =? 193)%N then MkReserved
  else if (m <? 196)%N then MkScalar 0
  else if (m =? 196)%N then MkBinLen 1
  else if (m =? 197)%N then MkBinLen 2
  else if (m =? 198)%N then MkBinLen 4
  else if (m =? 199)%N then MkExtLen 1
  else if (m =? 200)%N then MkExtLen 2
  else if (m =? 201)%N then MkExtLen 4
  else if (m =? 202)%N then MkScalar 4
  else if (m =? 203)%N then MkScalar 8
  else if (m =? 204)%N then MkScalar 1
  else if (m =? 205)%N then MkScalar 2
  else if (m =? 206)%N then MkScalar 4
  else if (m =? 207)%N then MkScalar 8
  else if (m =? 208)%N then MkScalar 1
  else if (m =? 209)%N then MkScalar 2
  else if (m =? 210)%N then MkScalar 4
  else if (m =? 211)%N then MkScalar 8
  else if (m =? 212)%N then MkExtFix 1
  else if (m =? 213)%N then MkExtFix 2
  else if (m =? 214)%N then MkExtFix 4
  else if (m =? 215)%N then MkExtFix 8
  else if (m =? 216)%N then MkExtFix 16
  else if (m =? 217)%N then MkStrLen 1
  else if (m =? 218)%N then MkStrLen 2
  else if (m =? 219)%N then MkStrLen 4
  else if (m =? 220)%N then MkArrLen 2
  else if (m =? 221)%N then MkArrLen 4
  else if (m =? 222)%N then MkMapLen 2
  else if (m =? 223)%N then MkMapLen 4
  else MkScalar 0.

Fixpoint nvs (fuel : nat) (inp : bytes) (dl : nat) {struct fuel} : szres :=
  match fuel with
  | O => SzOutOfFuel
  | S f =>
      if dl =? 0 then SzErr DepthLimitExceeded
      else
        match inp with
        | [] => SzOk 0%N
        | m :: _ =>
            let seq_of (hdr : N) (count : N) : szres :=
              sz_slice inp hdr (fun rest =>
                sz_bind (total_seq f rest count dl) (fun t => sz_finish inp (hdr + t)%N)) in
            let map_of (hdr : N) (pairs : N) : szres :=
              sz_slice inp hdr (fun rest =>
                sz_bind (total_seq f rest pairs dl) (fun first =>
                  sz_slice rest first (fun rest2 =>
                    sz_bind (total_seq f rest2 pairs dl) (fun second =>
                      sz_finish inp (hdr + (first + second))%N)))) in
            match classify m with
            | MkReserved => SzErr InvalidMarker
            | MkScalar p => sz_finish inp (1 + p)%N
            | MkStrFix n => sz_finish inp (1 + n)%N
            | MkStrLen w | MkBinLen w =>
                sz_with_len w inp (fun n => sz_finish inp (1 + N.of_nat w + n)%N)
            | MkExtFix n => sz_finish inp (2 + n)%N
            | MkExtLen w =>
                sz_with_len w inp (fun n => sz_finish inp (2 + N.of_nat w + n)%N)
            | MkArrFix n => seq_of 1%N n
            | MkArrLen w => sz_with_len w inp (fun n => seq_of (1 + N.of_nat w)%N n)
            | MkMapFix n => map_of 1%N n
            | MkMapLen w => sz_with_len w inp (fun n => map_of (1 + N.of_nat w)%N n)
            end
        end
  end
(* total_seq_size: `count` values back to back; each at depth_limit - 1. *)
with total_seq (fuel : nat) (seq : bytes) (count : N) (dl : nat) {struct fuel} : szres :=
  match fuel with
  | O => SzOutOfFuel
  | S f =>
      if (count =? 0)%N then SzOk 0%N
      else
        match seq with
        | [] => SzErr Truncated
        | _ :: _ =>
            if dl =? 0 then SzPanic   (* depth_limit - 1 would underflow *)
            else
              sz_bind (nvs f seq (dl - 1)) (fun size =>
                sz_slice seq size (fun rest =>
                  sz_bind (total_seq f rest (count - 1)%N dl) (fun t => SzOk (size + t)%N)))
        end
  end.

Definition nvs_fuel (inp : bytes) : nat := 2 * length inp + 2.

Definition next_value_size (inp : bytes) (dl : nat) : szres := nvs (nvs_fuel inp) inp dl.

(* ---------- (2) rmp-serde's deserialize_any, as an event producer ---------- *)

Inductive ev :=
| EUnit
| EBool (b : bool)
| EUInt (width : nat) (n : N)        (* visit_u8/u16/u32/u64 *)
| ESInt (width : nat) (z : Z)        (* visit_i8/i16/i32/i64 *)
| EF32 (bits : N)
| EF64 (bits : N)
| EStr (bs : bytes)                  (* visit_str: the bytes are valid UTF-8 *)
| EBytes (bs : bytes)                (* visit_bytes *)
| ESeq (len : N)                     (* visit_seq with size_hint len *)
| ESeqEnd
| EMap (len : N)
| EMapEnd
| EExt (len : N).                    (* visit_newtype_struct(ExtDeserializer) *)

Inductive derr :=
| DEof                (* InvalidMarkerRead / InvalidDataRead(UnexpectedEof) *)
| DDepth              (* DepthLimitExceeded *)
| DReserved           (* TypeMismatch(Marker::Reserved) *)
| DExt                (* the visitor refused the ext newtype struct *)
| DOutOfFuel.

Inductive dres := DOk (rest : bytes) | DErr (e : derr).

(* two's complement *)
Definition to_signed (bits : nat) (n : N) : Z :=
  if (n <? 2 ^ (N.of_nat bits - 1))%N then Z.of_N n else (Z.of_N n - 2 ^ Z.of_nat bits)%Z.

(* Take exactly n bytes. *)
Definition take_n (n : N) (inp : bytes) : option (bytes * bytes) :=
  if (n <=? len_n inp)%N then Some (firstn (N.to_nat n) inp, skipn (N.to_nat n) inp) else None.

Section Decode.
  (* Rust's str::from_utf8(..).is_ok(); instantiated by Utf8.utf8_valid. *)
  Variable utf8_valid : bytes -> bool.
  (* Does the visitor accept an ext value (IgnoredAny: yes; xt's transcoding
     visitor: no, "invalid type: newtype struct")? *)
  Variable ext_ok : bool.

  (* The visitor event for a scalar marker and its payload bytes. *)
  Definition scalar_ev (m : N) (field : bytes) : ev :=
    if (m <? 128)%N then EUInt 8 m
    else if (m =? 192)%N then EUnit
    else if (m =? 194)%N then EBool false
    else if (m =? 195)%N then EBool true
    else if (m =? 202)%N then EF32 (be field)
    else if (m =? 203)%N then EF64 (be field)
    else if (m =? 204)%N then EUInt 8 (be field)
    else if (m =? 205)%N then EUInt 16 (be field)
    else if (m =? 206)%N then EUInt 32 (be field)
    else if (m =? 207)%N then EUInt 64 (be field)
    else if (m =? 208)%N then ESInt 8 (to_signed 8 (be field))
    else if (m =? 209)%N then ESInt 16 (to_signed 16 (be field))
    else if (m =? 210)%N then ESInt 32 (to_signed 32 (be field))
    else if (m =? 211)%N then ESInt 64 (to_signed 64 (be field))
    else ESInt 8 (to_signed 8 m).

  Definition d_len (w : nat) (inp : bytes) (k : N -> bytes -> list ev * dres) : list ev * dres :=
    match take_n (N.of_nat w) inp with
    | None => ([], DErr DEof)
    | Some (field, rest) => k (be field) rest
    end.

  Definition d_str (len : N) (inp : bytes) : list ev * dres :=
    match take_n len inp with
    | None => ([], DErr DEof)
    | Some (s, rest) => ([if utf8_valid s then EStr s else EBytes s], DOk rest)
    end.

  Definition d_bin (len : N) (inp : bytes) : list ev * dres :=
    match take_n len inp with
    | None => ([], DErr DEof)
    | Some (s, rest) => ([EBytes s], DOk rest)
    end.

  (* An ext value: the type tag byte and `len` data bytes. *)
  Definition d_ext (len : N) (inp : bytes) (depth : nat) : list ev * dres :=
    if depth - 1 =? 0 then ([], DErr DDepth)
    else if ext_ok then
      match take_n (1 + len) inp with
      | None => ([EExt len], DErr DEof)
      | Some (_, rest) => ([EExt len], DOk rest)
      end
    else ([EExt len], DErr DExt).

  Fixpoint dec (fuel : nat) (inp : bytes) (depth : nat) {struct fuel} : list ev * dres :=
    match fuel with
    | O => ([], DErr DOutOfFuel)
    | S f =>
        match inp with
        | [] => ([], DErr DEof)
        | m :: tl =>
            let seq_of (len : N) (rest : bytes) : list ev * dres :=
              if depth - 1 =? 0 then ([], DErr DDepth)
              else
                match dec_seq f rest len (depth - 1) with
                | (evs, DOk rest') => (ESeq len :: evs ++ [ESeqEnd], DOk rest')
                | (evs, DErr e) => (ESeq len :: evs, DErr e)
                end in
            let map_of (len : N) (rest : bytes) : list ev * dres :=
              if depth - 1 =? 0 then ([], DErr DDepth)
              else
                match dec_seq f rest (2 * len)%N (depth - 1) with
                | (evs, DOk rest') => (EMap len :: evs ++ [EMapEnd], DOk rest')
                | (evs, DErr e) => (EMap len :: evs, DErr e)
                end in
            match classify m with
            | MkReserved => ([], DErr DReserved)
            | MkScalar p =>
                match take_n p tl with
                | None => ([], DErr DEof)
                | Some (field, rest) => ([scalar_ev m field], DOk rest)
                end
            | MkStrFix n => d_str n tl
            | MkStrLen w => d_len w tl d_str
            | MkBinLen w => d_len w tl d_bin
            | MkExtFix n => d_ext n tl depth
            | MkExtLen w => d_len w tl (fun n r => d_ext n r depth)
            | MkArrFix n => seq_of n tl
            | MkArrLen w => d_len w tl seq_of
            | MkMapFix n => map_of n tl
            | MkMapLen w => d_len w tl map_of
            end
        end
    end
  (* SeqAccess / MapAccess: `count` values, one after another. *)
  with dec_seq (fuel : nat) (inp : bytes) (count : N) (depth : nat) {struct fuel} : list ev * dres :=
    match fuel with
    | O => ([], DErr DOutOfFuel)
    | S f =>
        if (count =? 0)%N then ([], DOk inp)
        else
          match dec f inp depth with
          | (evs, DErr e) => (evs, DErr e)
          | (evs, DOk rest) =>
              match dec_seq f rest (count - 1)%N depth with
              | (evs', r) => (evs ++ evs', r)
              end
          end
    end.

  Definition dec_fuel (inp : bytes) : nat := 2 * length inp + 2.

  Definition decode (inp : bytes) (depth : nat) : list ev * dres := dec (dec_fuel inp) inp depth.
End Decode.

(* ---------- (4) the two document loops (msgpack.rs:67-92) ---------- *)

Definition DEPTH_LIMIT : nat := N.to_nat 1024.

(* What happened to a stream of documents: the events of every completely
   transcoded document, in order, then how the run ended and the events that
   were forwarded for the document that failed. *)
Inductive mend :=
| MDone
| MSizeErr (e : szerr)                         (* slice mode only *)
| MDecErr (e : derr) (partial : list ev)
| MPanic
| MOutOfFuel.

Section Loops.
  Variable utf8_valid : bytes -> bool.

  (* Input::Slice: split with next_value_size, decode each piece. *)
  Fixpoint slice_loop (fuel : nat) (rest : bytes) : list (list ev) * mend :=
    match fuel with
    | O => ([], MOutOfFuel)
    | S f =>
        match rest with
        | [] => ([], MDone)
        | _ :: _ =>
            match next_value_size rest DEPTH_LIMIT with
            | SzErr e => ([], MSizeErr e)
            | SzPanic => ([], MPanic)
            | SzOutOfFuel => ([], MOutOfFuel)
            | SzOk n =>
                match take_n n rest with      (* rest.split_at(n) *)
                | None => ([], MPanic)
                | Some (next, rest') =>
                    match decode utf8_valid false next DEPTH_LIMIT with
                    | (evs, DErr e) => ([], MDecErr e evs)
                    | (evs, DOk _) =>
                        let '(docs, fin) := slice_loop f rest' in (evs :: docs, fin)
                    end
                end
            end
        end
    end.

  (* Input::Reader: decode value after value from the stream. *)
  Fixpoint reader_loop (fuel : nat) (rest : bytes) : list (list ev) * mend :=
    match fuel with
    | O => ([], MOutOfFuel)
    | S f =>
        match rest with
        | [] => ([], MDone)
        | _ :: _ =>
            match decode utf8_valid false rest DEPTH_LIMIT with
            | (evs, DErr e) => ([], MDecErr e evs)
            | (evs, DOk rest') =>
                let '(docs, fin) := reader_loop f rest' in (evs :: docs, fin)
            end
        end
    end.

  Definition transcode_slice (inp : bytes) := slice_loop (S (length inp)) inp.
  Definition transcode_reader (inp : bytes) := reader_loop (S (length inp)) inp.
End Loops.

(* msgpack::input_matches on fully available input (msgpack.rs:21-53):
   collection marker first, then one IgnoredAny value. *)
Definition is_collection_marker (m : N) : bool :=
  ((128 <=? m) && (m <? 160) || (220 <=? m) && (m <=? 223))%N.

Definition msgpack_matches (utf8_valid : bytes -> bool) (inp : bytes) : bool :=
  match inp with
  | [] => false
  | m :: _ =>
      if is_collection_marker m then
        match decode utf8_valid true inp DEPTH_LIMIT with
        | (_, DOk _) => true
        | (_, DErr _) => false
        end
      else false
  end.

(* ---------- rmp / rmp-serde encoder, per visitor event ---------- *)

Fixpoint be_bytes (w : nat) (n : N) : bytes :=
  match w with
  | O => []
  | S w' => be_bytes w' (n / 256)%N ++ [(n mod 256)%N]
  end.

(* rmp::encode::write_uint *)
Definition enc_uint (n : N) : bytes :=
  if (n <? 128)%N then [n]
  else if (n <? 256)%N then [204; n]%N
  else if (n <? 65536)%N then 205%N :: be_bytes 2 n
  else if (n <? 4294967296)%N then 206%N :: be_bytes 4 n
  else 207%N :: be_bytes 8 n.

(* two's complement of z in w bytes *)
Definition of_signed (w : nat) (z : Z) : N :=
  Z.to_N (z mod 2 ^ (8 * Z.of_nat w))%Z.

(* rmp::encode::write_sint *)
Definition enc_sint (z : Z) : bytes :=
  if (z <? 0)%Z then
    if (-32 <=? z)%Z then [of_signed 1 z]
    else if (-128 <=? z)%Z then [208%N; of_signed 1 z]
    else if (-32768 <=? z)%Z then 209%N :: be_bytes 2 (of_signed 2 z)
    else if (-2147483648 <=? z)%Z then 210%N :: be_bytes 4 (of_signed 4 z)
    else 211%N :: be_bytes 8 (of_signed 8 z)
  else enc_uint (Z.to_N z).

Definition enc_str_len (n : N) : bytes :=
  if (n <? 32)%N then [(160 + n)%N]
  else if (n <? 256)%N then [217; n]%N
  else if (n <? 65536)%N then 218%N :: be_bytes 2 n
  else 219%N :: be_bytes 4 n.

Definition enc_bin_len (n : N) : bytes :=
  if (n <? 256)%N then [196; n]%N
  else if (n <? 65536)%N then 197%N :: be_bytes 2 n
  else 198%N :: be_bytes 4 n.

Definition enc_array_len (n : N) : bytes :=
  if (n <? 16)%N then [(144 + n)%N]
  else if (n <? 65536)%N then 220%N :: be_bytes 2 n
  else 221%N :: be_bytes 4 n.

Definition enc_map_len (n : N) : bytes :=
  if (n <? 16)%N then [(128 + n)%N]
  else if (n <? 65536)%N then 222%N :: be_bytes 2 n
  else 223%N :: be_bytes 4 n.

(* What rmp_serde::Serializer writes for one forwarded event (collections with
   a known length, which is what rmp-serde's own SeqAccess/MapAccess report). *)
Definition enc_ev (e : ev) : bytes :=
  match e with
  | EUnit => [192%N]
  | EBool b => [if b then 195%N else 194%N]
  | EUInt _ n => enc_uint n
  | ESInt _ z => enc_sint z
  | EF32 bits => 202%N :: be_bytes 4 bits
  | EF64 bits => 203%N :: be_bytes 8 bits
  | EStr bs => enc_str_len (len_n bs) ++ bs
  | EBytes bs => enc_bin_len (len_n bs) ++ bs
  | ESeq n => enc_array_len n
  | ESeqEnd => []
  | EMap n => enc_map_len n
  | EMapEnd => []
  | EExt _ => []
  end.

Definition enc_evs (evs : list ev) : bytes := flat_map enc_ev evs.

(* MessagePack -> MessagePack through xt: the bytes the writer receives. *)
Definition mm_output (r : list (list ev) * mend) : bytes :=
  flat_map enc_evs (fst r) ++
  match snd r with
  | MDecErr _ partial => enc_evs partial
  | _ => []
  end.

Definition mm_ok (r : list (list ev) * mend) : bool :=
  match snd r with MDone => true | _ => false end.
