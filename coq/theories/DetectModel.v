(* DetectModel.v — src/detect.rs: four parser trials in a fixed order over one
   rewindable input handle (InputModel.v), each on a fresh borrow.

   The MessagePack, JSON and YAML trials are third-party parsers driven through
   the handle: a trial is the program of handle operations it issues and the
   verdict it computes from what it observed (for a given source a parser's
   adaptive behaviour is one such program).  The TOML trial's shell
   (toml.rs:13-41) is xt's own and is modelled concretely: slice -> parse;
   reader -> prefix(CUTOFF), propagate any I/O error, refuse at the cutoff.
   Definitions only. *)
From XtModel Require Import Base InputModel FormatsModel.

Section Detect.
  Variable sched : nat -> nat.
  (* toml.rs: SIZE_CUTOFF = 2 MiB; a parameter here *)
  Variable cutoff : nat.
  (* toml::Deserializer accepts this text *)
  Variable toml_parses : bytes -> bool.

  (* A third-party trial. *)
  Record trial := { t_ops : list op; t_verdict : list obs -> ioresult bool }.

  Definition run_trial (t : trial) (st : pstate) : pstate * ioresult bool :=
    let '(st1, ob) := step sched st OReborrow in        (* input.borrow_mut() *)
    let '(st2, os) := run sched st1 (t_ops t) in
    (st2, t_verdict t (ob :: os)).

  Definition toml_trial (st : pstate) : pstate * ioresult bool :=
    let '(st1, ob) := step sched st OReborrow in
    match ob with
    | ObsBorrow true =>
        match step sched st1 (OPrefix 0) with
        | (st2, ObsPrefix (Ok b)) => (st2, Ok (toml_parses b))
        | (st2, _) => (st2, Ok false)
        end
    | _ =>
        match step sched st1 (OPrefix cutoff) with
        | (st2, ObsPrefix (Ok p)) => (st2, Ok (if cutoff <=? length p then false else toml_parses p))
        | (st2, ObsPrefix (Err e)) => (st2, Err e)
        | (st2, _) => (st2, Ok false)
        end
    end.

  (* detect_format (detect.rs:9-39) *)
  Definition detect (tm tj ty : trial) (st : pstate) : pstate * ioresult (option fmt) :=
    match run_trial tm st with
    | (st1, Err e) => (st1, Err e)
    | (st1, Ok true) => (st1, Ok (Some Msgpack))
    | (st1, Ok false) =>
        match run_trial tj st1 with
        | (st2, Err e) => (st2, Err e)
        | (st2, Ok true) => (st2, Ok (Some Json))
        | (st2, Ok false) =>
            match run_trial ty st2 with
            | (st3, Err e) => (st3, Err e)
            | (st3, Ok true) => (st3, Ok (Some Yaml))
            | (st3, Ok false) =>
                match toml_trial st3 with
                | (st4, Err e) => (st4, Err e)
                | (st4, Ok true) => (st4, Ok (Some Toml))
                | (st4, Ok false) => (st4, Ok None)
                end
            end
        end
    end.

  (* the same under a name no other model uses (for extraction) *)
  Definition detect_format (tm tj ty : trial) (st : pstate) := detect tm tj ty st.

  Definition detect_reader (tm tj ty : trial) (d : bytes) (flt : option nat) :=
    detect tm tj ty (start (from_reader d flt)).
End Detect.
