(* JsonIdemProofs.v — JSON -> JSON through the models is idempotent for EVERY
   input: whatever JSON text xt translates to JSON, translating the output again
   gives the same bytes.  The step that was missing: what the reader model reads
   from ANY text (not only from the writer's) is the event list of a value the
   writer model can write — integers within 64 bits, finite floats, valid UTF-8
   strings, nesting below the recursion limit — so the fixed-point theorem about
   the writer's own output applies to it. *)
From XtModel Require Import Base Utf8 Utf8Proofs MsgpackModel JsonModel JsonProofs JsonUtf8Proofs JsonWriteModel JsonWriteProofs
  JsonRoundTripProofs JsonFloatModel JsonFloatProofs JsonFloatTotalProofs.
Require Import ZifyBool ZifyNat ZifyN.

(* an event list that is a scalar value the writer can write *)
Definition scalar_tree (evs : list ev) : Prop :=
  exists v, evs = jevs v /\ jwf f_finite v = true /\ jdepth v = 0.

(* ---------- numbers ---------- *)

Lemma f64_of_decimal_lt D E b : f64_of_decimal D E = Some b -> (b < inf_bits)%N.
Proof.
  unfold f64_of_decimal. destruct (D =? 0)%N; [intros H; inversion H; reflexivity|].
  destruct (400 <? E)%Z; [discriminate|].
  destruct (E <? - (400 + Z.of_N (N.log2 D) / 3 + 1))%Z; [intros H; inversion H; reflexivity|].
  match goal with |- context [scaled ?n ?d ?s] => destruct (scaled n d s) as [[q r] dd] end.
  match goal with |- context [(inf_bits <=? ?x)%N] => destruct (inf_bits <=? x)%N eqn:E1 end; [discriminate|].
  intros H. inversion H; subst. apply N.leb_gt in E1. exact E1.
Qed.

Lemma f_finite_pos b : (b < inf_bits)%N -> f_finite b = true.
Proof.
  unfold f_finite, f_abs, f_neg, two64, sign_bit, inf_bits. intros H.
  destruct (9223372036854775808 <=? b)%N eqn:E; [lia|]. lia.
Qed.

Lemma f_finite_neg b : (b < inf_bits)%N -> f_finite (sign_bit + b) = true.
Proof.
  unfold f_finite, f_abs, f_neg, two64, sign_bit, inf_bits. intros H.
  destruct (9223372036854775808 <=? 9223372036854775808 + b)%N eqn:E; [|lia]. lia.
Qed.

Lemma float_ev_tree pos ds E r evs rest : float_ev pos ds E r = (evs, JOk rest) -> scalar_tree evs.
Proof.
  unfold float_ev. destruct (f64_of_decimal (digits_val ds) E) as [b|] eqn:Eb; [|discriminate].
  pose proof (f64_of_decimal_lt _ _ _ Eb) as Hb.
  intros H. inversion H; subst. destruct pos.
  - exists (JFloat b). split; [reflexivity|]. split; [|reflexivity]. cbn [jwf]. exact (f_finite_pos _ Hb).
  - exists (JFloat (sign_bit + b)). split; [reflexivity|]. split; [|reflexivity]. cbn [jwf]. exact (f_finite_neg _ Hb).
Qed.

Lemma int_ev_tree pos ds r evs rest : int_ev pos ds r = (evs, JOk rest) -> scalar_tree evs.
Proof.
  unfold int_ev. destruct pos.
  - destruct (digits_val ds <=? u64_max)%N eqn:E; [|apply float_ev_tree].
    intros H. inversion H; subst. exists (JUInt (digits_val ds)). split; [reflexivity|]. split; [exact E|reflexivity].
  - destruct (digits_val ds =? 0)%N eqn:E0.
    + intros H. inversion H; subst. exists (JFloat sign_bit). split; [reflexivity|]. split; reflexivity.
    + destruct (digits_val ds <=? sign_bit)%N eqn:E1; [|apply float_ev_tree].
      intros H. inversion H; subst. exists (JNegInt (- Z.of_N (digits_val ds))). split; [reflexivity|]. split; [|reflexivity].
      cbn [jwf]. unfold sign_bit in E1. lia.
Qed.

Lemma parse_exp_tree pos ints fracs inp evs rest : parse_exp pos ints fracs inp = (evs, JOk rest) -> scalar_tree evs.
Proof.
  unfold parse_exp, exp_digits. destruct (snd (exp_sign inp)) as [|b r]; [discriminate|].
  destruct (is_digit b); [|discriminate]. destruct (take_digits (b :: r)) as [es rest']. apply float_ev_tree.
Qed.

Lemma frac_part_tree pos ints r evs rest : frac_part pos ints r = (evs, JOk rest) -> scalar_tree evs.
Proof.
  unfold frac_part. destruct (take_digits r) as [fs r2]. destruct fs as [|f0 fs']; [discriminate|].
  destruct r2 as [|c r3]; [apply float_ev_tree|]. destruct (is_e c); [apply parse_exp_tree|apply float_ev_tree].
Qed.

Lemma after_int_tree pos ints inp evs rest : after_int pos ints inp = (evs, JOk rest) -> scalar_tree evs.
Proof.
  unfold after_int. destruct inp as [|b r]; [apply int_ev_tree|].
  destruct (b =? 46)%N; [apply frac_part_tree|]. destruct (is_e b); [apply parse_exp_tree|apply int_ev_tree].
Qed.

Lemma parse_number_tree pos inp evs rest : parse_number pos inp = (evs, JOk rest) -> scalar_tree evs.
Proof.
  unfold parse_number. destruct inp as [|b r]; [discriminate|].
  destruct (b =? 48)%N.
  - destruct r as [|d r']; [apply after_int_tree|]. destruct (is_digit d); [discriminate|apply after_int_tree].
  - destruct (is_digit b); [|discriminate]. destruct (take_digits (b :: r)) as [ds rest']. apply after_int_tree.
Qed.

(* ---------- strings ---------- *)

Lemma parse_str_valid : forall f inp acc s rest, parse_str f inp acc = (Some s, JOk rest) -> utf8_valid s = true.
Proof.
  induction f as [|f IH]; intros inp acc s rest H; [discriminate|]. cbn [parse_str] in H.
  destruct inp as [|b r]; [discriminate|].
  destruct (b =? 34)%N.
  - destruct (utf8_valid (rev acc)) eqn:E; inversion H; subst. exact E.
  - destruct (b =? 92)%N.
    + destruct r as [|c r1]; [discriminate|]. destruct (simple_escape c) as [x|]; [exact (IH _ _ _ _ H)|].
      destruct (c =? 117)%N; [|discriminate]. destruct (hex4 r1) as [n r2| |]; try discriminate.
      destruct (is_trail n); [discriminate|]. destruct (negb (is_lead n)); [exact (IH _ _ _ _ H)|].
      destruct r2 as [|c1 r3]; [discriminate|]. destruct (negb (c1 =? 92)%N); [discriminate|].
      destruct r3 as [|c2 r4]; [discriminate|]. destruct (negb (c2 =? 117)%N); [discriminate|].
      destruct (hex4 r4) as [n2 r5| |]; try discriminate. destruct (is_trail n2); [exact (IH _ _ _ _ H)|discriminate].
    + destruct (b <? 32)%N; [discriminate|exact (IH _ _ _ _ H)].
Qed.

Lemma parse_string_valid inp s rest : parse_string inp = (Some s, JOk rest) -> utf8_valid s = true.
Proof. apply parse_str_valid. Qed.

(* ---------- values ---------- *)

Definition fits (m : nat) (v : jval) : Prop := jdepth v <= m.

Lemma depth_fold_le m vs : Forall (fits m) vs -> fold_right (fun x acc => Nat.max (jdepth x) acc) 0 vs <= m.
Proof. induction 1 as [|x vs Hx _ IH]; cbn [fold_right]; [lia|]. unfold fits in Hx. lia. Qed.

Lemma depth_fold_le_kv m (kvs : list (bytes * jval)) : Forall (fun kv => fits m (snd kv)) kvs ->
  fold_right (fun (kv : bytes * jval) acc => let (_, x) := kv in Nat.max (jdepth x) acc) 0 kvs <= m.
Proof. induction 1 as [|[k x] kvs Hx _ IH]; cbn [fold_right]; [lia|]. unfold fits in Hx. cbn [snd] in Hx. lia. Qed.

Definition member_evs (kv : bytes * jval) : list ev := let (k, x) := kv in EStr k :: jevs x.
Definition member_wf (kv : bytes * jval) : bool := let (k, x) := kv in utf8_valid k && jwf f_finite x.

Definition Vt (f : nat) : Prop := forall depth inp evs rest, parse_value f depth inp = (evs, JOk rest) ->
  exists v, evs = jevs v /\ jwf f_finite v = true /\ fits (depth - 1) v.
Definition Et (f : nat) : Prop := forall depth inp first evs n rest, parse_elems f depth inp first = (evs, n, JOk rest) ->
  exists vs, evs = flat_map jevs vs /\ n = lenL vs /\ forallb (jwf f_finite) vs = true /\ Forall (fits (depth - 1)) vs.
Definition Mt (f : nat) : Prop := forall depth inp first evs n rest, parse_members f depth inp first = (evs, n, JOk rest) ->
  exists kvs, evs = flat_map member_evs kvs /\ n = lenL kvs /\ forallb member_wf kvs = true /\
              Forall (fun kv => fits (depth - 1) (snd kv)) kvs.

Lemma scalar_fits depth evs : scalar_tree evs -> exists v, evs = jevs v /\ jwf f_finite v = true /\ fits (depth - 1) v.
Proof. intros (v & E & W & D). exists v. repeat split; try assumption. unfold fits. lia. Qed.

Lemma lit_tree depth r e evs rest : lit r e = (evs, JOk rest) ->
  (exists v, [e] = jevs v /\ jwf f_finite v = true /\ jdepth v = 0) ->
  exists v, evs = jevs v /\ jwf f_finite v = true /\ fits (depth - 1) v.
Proof.
  unfold lit. destruct r as [rest'|x]; [|discriminate]. intros H (v & E & W & D). inversion H; subst.
  exists v. repeat split; try assumption. unfold fits. lia.
Qed.

Lemma lenL_cons {A} (x : A) l : lenL (x :: l) = (lenL l + 1)%N.
Proof. unfold lenL. cbn [length]. lia. Qed.

Lemma tree_all : forall f, Vt f /\ Et f /\ Mt f.
Proof.
  induction f as [|f (IHv & IHe & IHm)]; [repeat split; unfold Vt, Et, Mt; intros; discriminate|].
  split; [|split].
  - intros depth inp evs rest H. cbn [parse_value] in H.
    destruct (skip_ws inp) as [|b r]; [discriminate|].
    destruct (b =? 110)%N; [apply (lit_tree _ _ _ _ _ H); exists JNull; repeat split|].
    destruct (b =? 116)%N; [apply (lit_tree _ _ _ _ _ H); exists (JBool true); repeat split|].
    destruct (b =? 102)%N; [apply (lit_tree _ _ _ _ _ H); exists (JBool false); repeat split|].
    destruct (b =? 45)%N; [exact (scalar_fits _ _ (parse_number_tree _ _ _ _ H))|].
    destruct (is_digit b); [exact (scalar_fits _ _ (parse_number_tree _ _ _ _ H))|].
    destruct (b =? 34)%N.
    { destruct (parse_string r) as [[s|] [rest'|e]] eqn:Es; try discriminate. inversion H; subst.
      exists (JStr s). split; [reflexivity|]. split; [exact (parse_string_valid _ _ _ Es)|]. unfold fits. cbn [jdepth]. lia. }
    destruct (b =? 91)%N.
    { destruct (depth - 1 =? 0) eqn:Ed; [discriminate|].
      destruct (parse_elems f (depth - 1) r true) as [[evs' n] [rest'|e]] eqn:Ee; [|discriminate].
      inversion H; subst. destruct (IHe _ _ _ _ _ _ Ee) as (vs & -> & -> & W & D).
      exists (JArr vs). split; [reflexivity|]. split; [exact W|].
      unfold fits. cbn [jdepth]. pose proof (depth_fold_le _ _ D). lia. }
    destruct (b =? 123)%N; [|discriminate].
    destruct (depth - 1 =? 0) eqn:Ed; [discriminate|].
    destruct (parse_members f (depth - 1) r true) as [[evs' n] [rest'|e]] eqn:Em; [|discriminate].
    inversion H; subst. destruct (IHm _ _ _ _ _ _ Em) as (kvs & -> & -> & W & D).
    exists (JObj kvs). split; [reflexivity|]. split; [exact W|].
    unfold fits. cbn [jdepth]. pose proof (depth_fold_le_kv _ _ D). lia.
  - intros depth inp first evs n rest H. cbn [parse_elems] in H.
    assert (Hel : forall at_, (match parse_value f depth at_ with
                               | (evs0, JOk rest0) => let '(evs', n0, res) := parse_elems f depth rest0 false in (evs0 ++ evs', (n0 + 1)%N, res)
                               | (_, JErr e) => ([], 0%N, JErr e)
                               end) = (evs, n, JOk rest) ->
                exists vs, evs = flat_map jevs vs /\ n = lenL vs /\ forallb (jwf f_finite) vs = true /\ Forall (fits (depth - 1)) vs).
    { intros at_ Ha. destruct (parse_value f depth at_) as [evs0 [rest0|e]] eqn:Ev; [|discriminate].
      destruct (parse_elems f depth rest0 false) as [[evs' n0] res] eqn:Ee. inversion Ha; subst.
      destruct (IHv _ _ _ _ Ev) as (v & -> & Wv & Dv). destruct (IHe _ _ _ _ _ _ Ee) as (vs & -> & -> & W & D).
      exists (v :: vs). cbn [flat_map forallb]. rewrite Wv, W, lenL_cons. repeat split. constructor; assumption. }
    destruct (skip_ws inp) as [|b r]; [discriminate|].
    destruct (b =? 93)%N.
    { inversion H; subst. exists []. repeat split. constructor. }
    destruct first; [exact (Hel _ H)|].
    destruct (b =? 44)%N; [|discriminate].
    destruct (skip_ws r) as [|c r']; [discriminate|].
    destruct (c =? 93)%N; [discriminate|exact (Hel _ H)].
  - intros depth inp first evs n rest H. cbn [parse_members] in H.
    assert (Hmem : forall at_, (match parse_string at_ with
                                | (Some k, JOk r1) =>
                                    match skip_ws r1 with
                                    | [] => ([], 0%N, JErr JEof)
                                    | c :: r2 =>
                                        if (c =? 58)%N then
                                          match parse_value f depth r2 with
                                          | (evs0, JOk rest0) => let '(evs', n0, res) := parse_members f depth rest0 false in (EStr k :: evs0 ++ evs', (n0 + 1)%N, res)
                                          | (_, JErr e) => ([], 0%N, JErr e)
                                          end
                                        else ([], 0%N, JErr JSyntax)
                                    end
                                | (_, JErr e) => ([], 0%N, JErr e)
                                | (None, JOk _) => ([], 0%N, JErr JSyntax)
                                end) = (evs, n, JOk rest) ->
                exists kvs, evs = flat_map member_evs kvs /\ n = lenL kvs /\ forallb member_wf kvs = true /\
                            Forall (fun kv => fits (depth - 1) (snd kv)) kvs).
    { intros at_ Ha. destruct (parse_string at_) as [[k|] [r1|e]] eqn:Es; try discriminate.
      destruct (skip_ws r1) as [|c r2]; [discriminate|]. destruct (c =? 58)%N; [|discriminate].
      destruct (parse_value f depth r2) as [evs0 [rest0|e]] eqn:Ev; [|discriminate].
      destruct (parse_members f depth rest0 false) as [[evs' n0] res] eqn:Em. inversion Ha; subst.
      destruct (IHv _ _ _ _ Ev) as (v & -> & Wv & Dv). destruct (IHm _ _ _ _ _ _ Em) as (kvs & -> & -> & W & D).
      exists ((k, v) :: kvs). cbn [flat_map forallb member_evs member_wf]. rewrite (parse_string_valid _ _ _ Es), Wv, W, lenL_cons.
      repeat split. constructor; [exact Dv|exact D]. }
    destruct (skip_ws inp) as [|b r]; [discriminate|].
    destruct (b =? 125)%N.
    { inversion H; subst. exists []. repeat split. constructor. }
    destruct first.
    + destruct (b =? 34)%N; [exact (Hmem _ H)|discriminate].
    + destruct (b =? 44)%N; [|discriminate].
      destruct (skip_ws r) as [|c r']; [discriminate|].
      destruct (c =? 34)%N; [exact (Hmem _ H)|discriminate].
Qed.

(* whatever the reader reads as one document is the event list of a writable value *)
Theorem json_value_reads_a_writable_value inp evs rest :
  json_value inp = (evs, JOk rest) -> exists v, evs = jevs v /\ writable f_finite v.
Proof.
  unfold json_value. intros H. destruct (proj1 (tree_all _) _ _ _ _ H) as (v & E & W & D).
  exists v. split; [exact E|]. split; [exact W|]. unfold fits, JSON_DEPTH in *. lia.
Qed.

Lemma slice_loop_docs : forall f inp docs, json_slice_loop f inp = (docs, JDone) ->
  exists vs, docs = map jevs vs /\ Forall (writable f_finite) vs.
Proof.
  induction f as [|f IH]; intros inp docs H; [discriminate|]. cbn [json_slice_loop] in H.
  destruct (skip_ws inp) as [|b r]; [inversion H; subst; exists []; split; [reflexivity|constructor]|].
  destruct (json_value (b :: r)) as [evs [rest|e]] eqn:Ev; [|discriminate].
  match type of H with (if ?c then _ else _) = _ => destruct c end; [|discriminate].
  destruct (json_slice_loop f rest) as [docs' fin] eqn:El. inversion H; subst.
  destruct (IH _ _ El) as (vs & -> & F). destruct (json_value_reads_a_writable_value _ _ _ Ev) as (v & -> & W).
  exists (v :: vs). split; [reflexivity|constructor; assumption].
Qed.

Lemma all_f64_ok_jevs v : jwf f_finite v = true -> all_f64_ok (jevs v) = true.
Proof.
  assert (Happ : forall a b, all_f64_ok a = true -> all_f64_ok b = true -> all_f64_ok (a ++ b) = true).
  { induction a as [|e a IHa]; intros b Ha Hb; [exact Hb|]. cbn [app].
    destruct e; cbn [all_f64_ok] in *; try (apply IHa; assumption); try discriminate.
    apply andb_prop in Ha as (H1 & H2). rewrite H1. cbn [andb]. apply IHa; assumption. }
  induction v as [ |b|n|z|b|s|vs IHvs|kvs IHkvs] using jval_ind2; intros W; try reflexivity.
  - cbn [jevs all_f64_ok]. cbn [jwf] in W. rewrite (ryu_ok_total _ W). rewrite orb_true_r. reflexivity.
  - cbn [jevs all_f64_ok jwf] in *. apply Happ; [|reflexivity].
    induction IHvs as [|x xs Hx _ IHxs]; [reflexivity|]. cbn [flat_map forallb] in *. apply andb_prop in W as (W1 & W2).
    apply Happ; [exact (Hx W1)|exact (IHxs W2)].
  - cbn [jevs all_f64_ok jwf] in *. apply Happ; [|reflexivity].
    induction IHkvs as [|[k x] xs Hx _ IHxs]; [reflexivity|]. cbn [flat_map forallb] in *. apply andb_prop in W as (W1 & W2).
    apply andb_prop in W1 as (_ & W1). cbn [app all_f64_ok]. apply Happ; [exact (Hx W1)|exact (IHxs W2)].
Qed.

(* ---------- idempotence, for every input ---------- *)

Lemma json_slice_docs inp docs : json_slice inp = (docs, JDone) ->
  exists vs, docs = map jevs vs /\ Forall (writable f_finite) vs.
Proof.
  unfold json_slice. destruct (utf8_valid inp); [apply slice_loop_docs|discriminate].
Qed.

Lemma all_ok_docs vs : Forall (writable f_finite) vs -> forallb all_f64_ok (map jevs vs) = true.
Proof.
  induction 1 as [|v vs (W & _) _ IH]; [reflexivity|]. cbn [map forallb]. now rewrite (all_f64_ok_jevs v W), IH.
Qed.

(* what JSON -> JSON writes for any input is the writer's text for writable values *)
Theorem json_to_json_output inp o : json_to_json_f inp = Some o ->
  exists vs, Forall (writable f_finite) vs /\ json_slice inp = (map jevs vs, JDone) /\ o = jwrite_docs json_f64 vs.
Proof.
  unfold json_to_json_f. destruct (json_slice inp) as [docs fin] eqn:Es. destruct fin; [|discriminate].
  destruct (json_slice_docs _ _ Es) as (vs & -> & F).
  destruct (forallb all_f64_ok (map jevs vs)); [|discriminate].
  rewrite json_of_docs_jevs. intros H. inversion H; subst. exists vs. repeat split. exact F.
Qed.

(* JSON -> JSON is idempotent: for EVERY input that is translated, translating the
   output again reproduces it byte for byte *)
Theorem json_to_json_idempotent inp o : json_to_json_f inp = Some o -> json_to_json_f o = Some o.
Proof.
  intros H. destruct (json_to_json_output _ _ H) as (vs & F & _ & ->).
  unfold json_to_json_f.
  rewrite (json_slice_reads_docs json_f64 f_finite json_f64_reads_all json_f64_head_all vs F).
  rewrite (all_ok_docs vs F). apply json_of_docs_jevs.
Qed.

(* and it keeps the value: the output reads back to the events the input was read to *)
Theorem json_to_json_keeps_events inp o : json_to_json_f inp = Some o -> fst (json_slice o) = fst (json_slice inp).
Proof.
  intros H. destruct (json_to_json_output _ _ H) as (vs & F & Es & ->).
  rewrite (json_slice_reads_docs json_f64 f_finite json_f64_reads_all json_f64_head_all vs F), Es. reflexivity.
Qed.

(* non-vacuity: a stream of two documents with odd spellings *)
Example json_to_json_example :
  let inp := [32; 123; 34; 97; 34; 58; 91; 49; 101; 50; 44; 45; 48; 44; 34; 92; 117; 48; 48; 101; 57; 34; 93; 125; 10; 91; 93]%N in
  exists o, json_to_json_f inp = Some o /\ o <> inp.
Proof. eexists. split; [vm_compute; reflexivity|discriminate]. Qed.

(* one line per document of the INPUT, whatever its spacing and line breaks *)
Theorem json_to_json_one_line_per_input_document inp o : json_to_json_f inp = Some o ->
  count_occ N.eq_dec o 10%N = length (fst (json_slice inp)).
Proof.
  intros H. destruct (json_to_json_output _ _ H) as (vs & F & Es & ->).
  rewrite Es. cbn [fst]. rewrite map_length. apply (one_line_per_document json_f64 json_f64_no_newline).
Qed.
