(* MemProofs.v — the guarded copy is always in bounds, and every trace the
   binding can produce, for every client program and every behaviour of the
   reader (short reads, errors, over-reporting), is accepted by the protocol
   monitor and ends with nothing alive. *)
From XtModel Require Import Base MemModel.

(* Whatever the reader claims, a copy happens only within both buffers; an
   over-reporting reader causes a failure, not a copy. *)
Theorem copy_in_bounds size a len sz bouncer :
  rh_copy (read_handler size a) = Some (len, sz, bouncer) ->
  len <= sz /\ len <= bouncer /\ sz = size /\ rh_size_read (read_handler size a) = Some len.
Proof.
  unfold read_handler. destruct a as [n|]; [|discriminate].
  destruct (n <=? size) eqn:E; [|discriminate].
  apply Nat.leb_le in E. cbn. intros [= <- <- <-]. repeat split; assumption.
Qed.

Theorem over_report_refused size n :
  size < n ->
  rh_copy (read_handler size (RBytes n)) = None /\ rh_success (read_handler size (RBytes n)) = false /\
  rh_error_stashed (read_handler size (RBytes n)) = true.
Proof.
  intros H. unfold read_handler. destruct (n <=? size) eqn:E; [apply Nat.leb_le in E; lia|]. repeat split.
Qed.

Lemma mrun_app s tr1 tr2 :
  mrun s (tr1 ++ tr2) = match mrun s tr1 with Ok s' => mrun s' tr2 | Err v => Err v end.
Proof.
  revert s; induction tr1 as [|e tr1 IH]; intros s; cbn [app mrun]; [reflexivity|].
  destruct (mstep s e); [apply IH|reflexivity].
Qed.

Definition live_state (held : nat) : mstate := {| m_parser := Live; m_state := Live; m_events := held |}.
Definition dead_state (held : nat) : mstate := {| m_parser := Gone; m_state := Gone; m_events := held |}.

Lemma handler_ok held r : mrun (live_state held) (handler_events r) = Ok (live_state held).
Proof.
  unfold handler_events. destruct (rh_copy (read_handler (fst r) (snd r))) as [[[len sz] b]|] eqn:E; [|reflexivity].
  destruct (copy_in_bounds _ _ _ _ _ E) as (H1 & H2 & _ & _).
  cbn [mrun mstep live_state m_parser m_state].
  apply Nat.leb_le in H1. apply Nat.leb_le in H2. now rewrite H1, H2.
Qed.

Lemma handlers_ok held reads : mrun (live_state held) (flat_map handler_events reads) = Ok (live_state held).
Proof.
  induction reads as [|r reads IH]; cbn [flat_map]; [reflexivity|].
  now rewrite mrun_app, handler_ok, IH.
Qed.

Lemma drops_ok p s : forall held,
  mrun {| m_parser := p; m_state := s; m_events := held |} (repeat MEventDelete held) =
    Ok {| m_parser := p; m_state := s; m_events := 0 |}.
Proof. induction held as [|n IH]; cbn [repeat mrun mstep m_events]; [reflexivity|exact IH]. Qed.

(* after the parser is gone *)
Lemma binding_dead prog : forall held,
  exists s, mrun (dead_state held) (binding false held prog) = Ok s /\ mclean s = true.
Proof.
  induction prog as [|o prog IH]; intros held; cbn [binding].
  - rewrite app_nil_r. unfold dead_state. rewrite drops_ok. eexists; split; reflexivity.
  - destruct o as [reads ok| |]; cbn [binding]; try apply IH.
    destruct held as [|n]; [apply IH|]. cbn [mrun mstep dead_state m_events]. apply IH.
Qed.

Lemma binding_live prog : forall held,
  exists s, mrun (live_state held) (binding true held prog) = Ok s /\ mclean s = true.
Proof.
  induction prog as [|o prog IH]; intros held; cbn [binding].
  - rewrite mrun_app. unfold live_state. rewrite drops_ok. cbn. eexists; split; reflexivity.
  - destruct o as [reads ok| |].
    + rewrite mrun_app, handlers_ok. destruct ok; [|apply IH].
      cbn [mrun mstep live_state m_parser]. apply (IH (S held)).
    + destruct held as [|n]; [apply IH|]. cbn [mrun mstep live_state m_events]. apply (IH n).
    + cbn [mrun mstep live_state m_parser m_state]. apply binding_dead.
Qed.

(* For every client program - any number of next_event calls, each with any
   sequence of reader answers (short reads, errors, over-reports of any
   excess), events dropped at any time, the parser dropped at any point
   including with events outstanding - the binding's resource trace is accepted
   by the monitor (no use after free, no double free, the parser deleted before
   its read state, every copy in bounds) and ends with nothing alive. *)
Theorem protocol_safe prog :
  exists s, mrun m0 (session prog) = Ok s /\ mclean s = true.
Proof. unfold session. cbn [mrun mstep m0 m_parser m_state]. apply binding_live. Qed.

Example protocol_nonvacuous :
  mrun m0 (session [CNext [(16, RBytes 16); (16, RBytes 17); (16, RFail)] true; CNext [] true; CDropEvent; CDropParser; CDropEvent]) =
  Ok (dead_state 0).
Proof. vm_compute. reflexivity. Qed.

(* the monitor is not trivially accepting: freeing the read state first, or
   copying more than the buffer holds, is rejected *)
Example monitor_rejects :
  mrun m0 [MParserInit; MStateAlloc; MStateFree] = Err VStateFreedBeforeParser /\
  mrun m0 [MParserInit; MStateAlloc; MCopy 17 16 16] = Err VCopyOutOfBounds /\
  mrun m0 [MParserInit; MStateAlloc; MParserDelete; MStateFree; MCopy 1 16 16] = Err VUseAfterDelete.
Proof. repeat split. Qed.
