(* Base.v — shared vocabulary of the xt model: bytes, results, prefix order,
   and the firstn/skipn toolkit.  Stdlib only. *)
From Coq Require Export List NArith ZArith Arith Lia Bool.
Export ListNotations.

Definition byte := N.
Definition bytes := list N.

Definition byte_ok (b : N) : bool := N.ltb b 256.
Definition bytes_ok (bs : bytes) : bool := forallb byte_ok bs.

(* A result with an error payload. *)
Inductive result (E A : Type) : Type :=
| Ok (a : A)
| Err (e : E).
Arguments Ok {E A} a.
Arguments Err {E A} e.

Definition is_ok {E A} (r : result E A) : bool :=
  match r with Ok _ => true | Err _ => false end.

(* ---------- prefix order on lists ---------- *)

Definition prefix_of {A} (xs ys : list A) : Prop := exists zs, ys = xs ++ zs.
Definition comparable {A} (xs ys : list A) : Prop := prefix_of xs ys \/ prefix_of ys xs.

Fixpoint prefixb (xs ys : list N) : bool :=
  match xs, ys with
  | [], _ => true
  | x :: xs', y :: ys' => N.eqb x y && prefixb xs' ys'
  | _ :: _, [] => false
  end.

Lemma prefix_of_refl {A} (xs : list A) : prefix_of xs xs.
Proof. exists []. now rewrite app_nil_r. Qed.

Lemma prefix_of_nil {A} (xs : list A) : prefix_of [] xs.
Proof. now exists xs. Qed.

Lemma prefix_of_app {A} (xs ys : list A) : prefix_of xs (xs ++ ys).
Proof. now exists ys. Qed.

Lemma prefix_of_trans {A} (xs ys zs : list A) :
  prefix_of xs ys -> prefix_of ys zs -> prefix_of xs zs.
Proof. intros [a ->] [b ->]. exists (a ++ b). now rewrite app_assoc. Qed.

Lemma prefix_of_app_l {A} (p xs ys : list A) :
  prefix_of xs ys -> prefix_of (p ++ xs) (p ++ ys).
Proof. intros [z ->]. exists z. now rewrite app_assoc. Qed.

Lemma prefix_of_firstn {A} n (xs : list A) : prefix_of (firstn n xs) xs.
Proof. exists (skipn n xs). now rewrite firstn_skipn. Qed.

Lemma prefix_of_length {A} (xs ys : list A) : prefix_of xs ys -> length xs <= length ys.
Proof. intros [z ->]. rewrite app_length. lia. Qed.

Lemma prefix_of_firstn_eq {A} (xs ys : list A) :
  prefix_of xs ys -> xs = firstn (length xs) ys.
Proof.
  intros [z ->]. rewrite firstn_app, Nat.sub_diag, firstn_all. cbn.
  now rewrite app_nil_r.
Qed.

Lemma prefixb_spec xs ys : prefixb xs ys = true <-> prefix_of xs ys.
Proof.
  revert ys; induction xs as [|x xs IH]; intros ys; cbn.
  - split; [intros _; apply prefix_of_nil | reflexivity].
  - destruct ys as [|y ys].
    + split; [discriminate | intros [z H]; discriminate].
    + rewrite andb_true_iff, N.eqb_eq, IH. split.
      * intros [-> [z ->]]. now exists z.
      * intros [z H]. injection H as -> ->. split; [reflexivity | now exists z].
Qed.

(* ---------- firstn / skipn toolkit ---------- *)

Lemma firstn_skipn_app {A} (l : list A) a b :
  firstn a l ++ firstn b (skipn a l) = firstn (a + b) l.
Proof.
  revert l b; induction a as [|a IH]; intros l b; cbn; [reflexivity|].
  destruct l as [|x l]; cbn; [now rewrite firstn_nil|]. now rewrite IH.
Qed.

Lemma skipn_skipn' {A} (l : list A) a b : skipn a (skipn b l) = skipn (b + a) l.
Proof.
  revert l; induction b as [|b IH]; intros l; cbn; [reflexivity|].
  destruct l; cbn; [now rewrite skipn_nil | apply IH].
Qed.

Lemma firstn_firstn_min {A} (l : list A) a b :
  firstn a (firstn b l) = firstn (Nat.min a b) l.
Proof. apply firstn_firstn. Qed.

Lemma firstn_ge_all {A} (l : list A) n : length l <= n -> firstn n l = l.
Proof. apply firstn_all2. Qed.

Lemma skipn_ge_nil {A} (l : list A) n : length l <= n -> skipn n l = [].
Proof. apply skipn_all2. Qed.

Lemma firstn_eq_of_le {A} (l : list A) a b :
  length l <= a -> length l <= b -> firstn a l = firstn b l.
Proof. intros Ha Hb. now rewrite !firstn_all2. Qed.

Lemma firstn_length_le' {A} (l : list A) n : n <= length l -> length (firstn n l) = n.
Proof. apply firstn_length_le. Qed.

Lemma firstn_prefix_firstn {A} (l : list A) a b :
  a <= b -> prefix_of (firstn a l) (firstn b l).
Proof.
  intros H. exists (firstn (b - a) (skipn a l)).
  rewrite firstn_skipn_app. f_equal. lia.
Qed.

Lemma firstn_app_exact {A} (l1 l2 : list A) : firstn (length l1) (l1 ++ l2) = l1.
Proof. rewrite firstn_app, Nat.sub_diag, firstn_all. cbn. apply app_nil_r. Qed.

Lemma skipn_app_exact {A} (l1 l2 : list A) : skipn (length l1) (l1 ++ l2) = l2.
Proof. rewrite skipn_app, Nat.sub_diag, skipn_all. reflexivity. Qed.

(* After this point arithmetic and slicing no longer unfold under [simpl]/[cbn]. *)
Arguments N.add : simpl never.
Arguments N.sub : simpl never.
Arguments N.mul : simpl never.
Arguments N.div : simpl never.
Arguments N.modulo : simpl never.
Arguments N.ltb : simpl never.
Arguments N.leb : simpl never.
Arguments N.eqb : simpl never.
Arguments N.shiftl : simpl never.
Arguments N.shiftr : simpl never.
Arguments N.land : simpl never.
Arguments N.lor : simpl never.
Arguments Nat.min : simpl never.
Arguments Nat.sub : simpl never.
Arguments firstn : simpl never.
Arguments skipn : simpl never.
