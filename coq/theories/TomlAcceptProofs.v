(* TomlAcceptProofs.v — the refusals of C08 as theorems about TomlAcceptModel:
   a null anywhere, an integer beyond i64 anywhere, a byte array anywhere, a
   root that is not a table - each is refused, whatever else the document
   holds; and what is accepted is exactly the table-rooted documents that are
   free of all of these and whose tables have string keys, none of them twice. *)
From XtModel Require Import Base Utf8 MsgpackModel MsgpackCodecProofs TomlAcceptModel.
Require Import ZifyBool ZifyNat ZifyN.

(* ---------- what a clean document is ---------- *)

(* every key stands for a string (key_string) that no earlier key of the same table stands for *)
Fixpoint keys_ok (seen : list bytes) (ks : list mval) : bool :=
  match ks with
  | [] => true
  | k :: r =>
      match key_string (no_keys seen) k with
      | Some s => negb (mem_bytes s seen) && keys_ok (s :: seen) r
      | None => false
      end
  end.

(* no null and no byte array as a value, every unsigned integer within i64,
   the keys of every table in order - at every level *)
Fixpoint clean (v : mval) : bool :=
  match v with
  | VNil | VBin _ => false
  | VBool _ | VNeg _ | VF32 _ | VF64 _ | VStr _ => true
  | VUInt n => (n <=? 9223372036854775807)%N
  | VArr vs => forallb clean vs
  | VMap kvs => forallb (fun kv : mval * mval => clean (snd kv)) kvs && keys_ok [] (map fst kvs)
  end.

Definition is_table (v : mval) : bool := match v with VMap _ => true | _ => false end.

Definition is_none {A} (o : option A) : bool := match o with None => true | Some _ => false end.

(* ---------- lists ---------- *)

Lemma first_ref_none {A} (f : A -> option trefusal) l :
  first_ref f l = None <-> forall x, In x l -> f x = None.
Proof.
  induction l as [|x l IH]; cbn [first_ref In]; [split; [intros _ y []|reflexivity]|].
  destruct (f x) eqn:E.
  - split; [discriminate|]. intros H. specialize (H x (or_introl eq_refl)). congruence.
  - rewrite IH. split.
    + intros H y [<-|Hy]; [exact E|exact (H y Hy)].
    + intros H y Hy. apply H. now right.
Qed.

Lemma members_ref_spec f : forall l seen,
  members_ref f seen l = None <->
  forallb (fun kv : mval * mval => is_none (f (snd kv))) l = true /\ keys_ok seen (map fst l) = true.
Proof.
  induction l as [|[k x] l IH]; intros seen; cbn [members_ref forallb map keys_ok fst snd]; [tauto|].
  destruct (key_string (no_keys seen) k) as [s|]; [|split; [discriminate|intros [_ H]; discriminate]].
  destruct (mem_bytes s seen) eqn:Em; cbn [negb andb].
  - split; [discriminate|intros [_ H]; discriminate].
  - destruct (f x) eqn:Ef; cbn [is_none andb].
    + split; [discriminate|intros [H _]; discriminate].
    + apply IH.
Qed.

Lemma forallb_ext_in {A} (f g : A -> bool) l : (forall x, In x l -> f x = g x) -> forallb f l = forallb g l.
Proof.
  induction l as [|x l IH]; intros H; [reflexivity|]. cbn [forallb].
  rewrite (H x (or_introl eq_refl)), IH; [reflexivity|]. intros y Hy. apply H. now right.
Qed.

(* ---------- accepted = clean ---------- *)

Lemma tcheck_clean : forall v, tcheck v = None <-> clean v = true.
Proof.
  induction v as [ |b|n|z|b|b|s|s|vs IH|kvs IH] using mval_ind2; [| | | | | | | | |rewrite tcheck_map]; cbn [tcheck clean];
    try (split; [reflexivity|reflexivity]); try (split; discriminate).
  - destruct (n <=? 9223372036854775807)%N; split; try reflexivity; discriminate.
  - rewrite first_ref_none, forallb_forall. rewrite Forall_forall in IH.
    split; intros H x Hx; apply (IH x Hx), H, Hx.
  - rewrite members_ref_spec, andb_true_iff. rewrite Forall_forall in IH.
    assert (E : forallb (fun kv : mval * mval => is_none (tcheck (snd kv))) kvs = forallb (fun kv : mval * mval => clean (snd kv)) kvs).
    { apply forallb_ext_in. intros kv Hkv. destruct (IH kv Hkv) as [_ Hs].
      destruct (tcheck (snd kv)) eqn:Et; destruct (clean (snd kv)) eqn:Ec; cbn [is_none]; try reflexivity.
      - destruct Hs as [_ H2]. specialize (H2 eq_refl). discriminate.
      - destruct Hs as [H1 _]. specialize (H1 eq_refl). discriminate. }
    rewrite E. tauto.
Qed.

(* A TOML output accepts exactly the table-rooted clean documents. *)
Theorem accepted_iff v : toml_verdict v = None <-> is_table v = true /\ clean v = true.
Proof.
  unfold toml_verdict. destruct (tcheck v) eqn:E.
  - split; [discriminate|]. intros [_ Hc]. apply tcheck_clean in Hc. congruence.
  - assert (Hc : clean v = true) by now apply tcheck_clean.
    destruct v; cbn [is_table]; split; try discriminate; try tauto; intros [H _]; discriminate.
Qed.

(* ---------- the refusals, one by one ---------- *)

(* a value satisfying [p] somewhere in the document: an element of an array or
   the value of a table entry, at any depth *)
Fixpoint has_value (p : mval -> bool) (v : mval) : bool :=
  match v with
  | VArr vs => existsb (has_value p) vs
  | VMap kvs => existsb (fun kv : mval * mval => has_value p (snd kv)) kvs
  | _ => p v
  end.

Lemma value_unclean p :
  (forall v, p v = true -> clean v = false) ->
  forall v, has_value p v = true -> clean v = false.
Proof.
  intros Hp. induction v as [ |b|n|z|b|b|s|s|vs IH|kvs IH] using mval_ind2; cbn [has_value]; intros H;
    try (exact (Hp _ H)).
  - cbn [clean]. apply existsb_exists in H as (x & Hx & Hl). rewrite Forall_forall in IH.
    destruct (forallb clean vs) eqn:E; [|reflexivity].
    rewrite forallb_forall in E. specialize (E x Hx). rewrite (IH x Hx Hl) in E. discriminate.
  - cbn [clean]. apply existsb_exists in H as (kv & Hkv & Hl). rewrite Forall_forall in IH.
    destruct (forallb (fun kv0 : mval * mval => clean (snd kv0)) kvs) eqn:E; [|reflexivity].
    rewrite forallb_forall in E. specialize (E kv Hkv). destruct (IH kv Hkv) as [_ IHv].
    rewrite (IHv Hl) in E. discriminate.
Qed.

Definition is_nil (v : mval) : bool := match v with VNil => true | _ => false end.
Definition is_bin (v : mval) : bool := match v with VBin _ => true | _ => false end.
Definition is_big (v : mval) : bool := match v with VUInt n => (9223372036854775807 <? n)%N | _ => false end.

Theorem null_anywhere_refused v : has_value is_nil v = true -> toml_verdict v <> None.
Proof.
  intros H Hv. apply accepted_iff in Hv as [_ Hc].
  rewrite (value_unclean is_nil) in Hc; [discriminate| |exact H].
  intros x Hx. destruct x; try discriminate. reflexivity.
Qed.

Theorem bytes_anywhere_refused v : has_value is_bin v = true -> toml_verdict v <> None.
Proof.
  intros H Hv. apply accepted_iff in Hv as [_ Hc].
  rewrite (value_unclean is_bin) in Hc; [discriminate| |exact H].
  intros x Hx. destruct x; try discriminate. reflexivity.
Qed.

Theorem big_integer_anywhere_refused v : has_value is_big v = true -> toml_verdict v <> None.
Proof.
  intros H Hv. apply accepted_iff in Hv as [_ Hc].
  rewrite (value_unclean is_big) in Hc; [discriminate| |exact H].
  intros x Hx. destruct x; try discriminate. cbn [is_big clean] in *. lia.
Qed.

Theorem non_table_root_refused v : is_table v = false -> toml_verdict v <> None.
Proof. intros H Hv. apply accepted_iff in Hv as [Ht _]. congruence. Qed.

(* a key that is neither a string nor a byte array (a null, a number, a boolean, a collection) in the root table *)
Lemma keys_ok_in : forall ks seen k, keys_ok seen ks = true -> In k ks -> exists b, key_string b k <> None.
Proof.
  induction ks as [|k0 ks IH]; intros seen k H Hin; [destruct Hin|]. cbn [keys_ok] in H.
  destruct (key_string (no_keys seen) k0) as [s|] eqn:E; [|discriminate].
  apply andb_true_iff in H as [_ H]. destruct Hin as [<-|Hin].
  - exists (no_keys seen). congruence.
  - exact (IH _ _ H Hin).
Qed.

Theorem bad_key_refused kvs k x :
  In (k, x) kvs -> (forall b, key_string b k = None) -> toml_verdict (VMap kvs) <> None.
Proof.
  intros Hin Hk Hv. apply accepted_iff in Hv as [_ Hc]. cbn [clean] in Hc.
  apply andb_true_iff in Hc as [_ Hc].
  destruct (keys_ok_in _ _ k Hc) as (b & Hb); [apply in_map_iff; now exists (k, x)|].
  now apply Hb.
Qed.

(* non-vacuity: the first offence in document order is the one reported *)
Example verdict_examples :
  toml_verdict (VMap [(VStr [97], VArr [VUInt 1; VNil]); (VStr [98], VBin [])]%N) = Some TRNull /\
  toml_verdict (VMap [(VStr [97], VUInt 9223372036854775808)]%N) = Some TRBigInt /\
  toml_verdict (VMap [(VStr [97], VUInt 1); (VStr [97], VNil)]%N) = Some TRDupKey /\
  toml_verdict (VArr [VUInt 1]%N) = Some TRNotTable /\
  toml_verdict (VArr [VNil]) = Some TRNull /\
  toml_verdict (VMap [(VUInt 1, VUInt 2)]%N) = Some TRKey /\
  toml_verdict (VMap [(VBin [107], VUInt 2)]%N) = Some TRKey /\
  toml_verdict (VMap [(VStr [97], VUInt 1); (VBin [107], VUInt 2)]%N) = None /\
  toml_verdict (VMap [(VStr [107], VUInt 1); (VBin [107], VUInt 2)]%N) = Some TRDupKey /\
  toml_verdict (VMap [(VStr [], VMap [(VStr [], VArr [VF64 0; VStr [120]; VMap []])])]%N) = None.
Proof. vm_compute. repeat split. Qed.
