(* FidelityProofs.v — xt forwards every value unchanged: the streaming
   transcoder drives the serializer through exactly the canonical call sequence
   of the document; the borrowed Value does the same up to size hints and the
   spelling of byte strings. *)
From XtModel Require Import Base TranscodeModel TranscodeProofs FidelityModel.

Lemma log_after_nil ss : log_after ss [] = ss.
Proof. unfold log_after. cbn. rewrite Nat.add_0_r. now destruct ss. Qed.

Lemma log_after_app ss a b : log_after (log_after ss a) b = log_after ss (a ++ b).
Proof.
  unfold log_after. cbn [counter calls]. rewrite app_length, rev_app_distr, Nat.add_assoc, app_assoc. reflexivity.
Qed.

Lemma sstep_never ss c : sstep never_fails ss c = (log_after ss [c], None).
Proof. unfold sstep, log_after, never_fails. cbn. now rewrite Nat.add_1_r. Qed.

Definition canon (sc : dscript) : Prop :=
  clean sc = true -> forall ss, ideal never_fails sc ss = (log_after ss (calls_of sc), None).

Lemma element_canon run (cs : list scall) pre post_ :
  (forall ss, run ss = (log_after ss cs, None)) ->
  forall ss, ideal_element_with never_fails run pre post_ ss = (log_after ss (pre :: cs ++ [post_]), None).
Proof.
  intros H ss. unfold ideal_element_with. rewrite sstep_never, H, sstep_never, !log_after_app. reflexivity.
Qed.

Lemma canon_seq h els t po : Forall canon els -> canon (DSeq h els t po).
Proof.
  intros HF Hc ss. cbn [clean] in Hc. apply andb_true_iff in Hc as [Hc Hpo]. apply andb_true_iff in Hc as [Hels Ht].
  destruct t; [|discriminate]. destruct po; [discriminate|].
  cbn [ideal calls_of]. rewrite sstep_never.
  set (iloop := fix loop (els0 : list dscript) (ss0 : sstate) {struct els0} : sstate * option fault :=
         match els0 with
         | [] => (ss0, None)
         | el :: els' =>
             match ideal_element_with never_fails (ideal never_fails el) CElemPre CElemPost ss0 with
             | (ss', None) => loop els' ss'
             | other => other
             end
         end).
  assert (HL : forall ss0, iloop els ss0 =
            (log_after ss0 (flat_map (fun e => CElemPre :: calls_of e ++ [CElemPost]) els), None)).
  { clear ss. induction HF as [|el els' Hel _ IH]; intros ss0; cbn [iloop flat_map].
    - now rewrite log_after_nil.
    - cbn [forallb] in Hels. apply andb_true_iff in Hels as [Hcl Hrest].
      rewrite (element_canon _ (calls_of el) CElemPre CElemPost (Hel Hcl)).
      rewrite (IH Hrest), log_after_app. reflexivity. }
  rewrite HL, sstep_never, !log_after_app. reflexivity.
Qed.

Lemma canon_map h es t po :
  Forall (fun kv => canon (fst kv) /\ canon (snd kv)) es -> canon (DMap h es t po).
Proof.
  intros HF Hc ss. cbn [clean] in Hc. apply andb_true_iff in Hc as [Hc Hpo]. apply andb_true_iff in Hc as [Hes Ht].
  destruct t; [|discriminate]. destruct po; [discriminate|].
  cbn [ideal calls_of]. rewrite sstep_never.
  set (iloop := fix loop (es0 : list (dscript * dscript)) (ss0 : sstate) {struct es0} : sstate * option fault :=
         match es0 with
         | (k, v) :: es' =>
             match ideal_element_with never_fails (ideal never_fails k) CKeyPre CKeyPost ss0 with
             | (ss', None) =>
                 match ideal_element_with never_fails (ideal never_fails v) CValuePre CValuePost ss' with
                 | (ss'', None) => loop es' ss''
                 | other => other
                 end
             | other => other
             end
         | [] => (ss0, None)
         end).
  assert (HL : forall ss0, iloop es ss0 =
            (log_after ss0 (flat_map (fun kv => let '(k, v) := kv in
                 CKeyPre :: calls_of k ++ [CKeyPost] ++ CValuePre :: calls_of v ++ [CValuePost]) es), None)).
  { clear ss. induction HF as [|[k v] es' [Hk Hv] _ IH]; intros ss0; cbn [iloop flat_map].
    - now rewrite log_after_nil.
    - cbn [forallb] in Hes. apply andb_true_iff in Hes as [Hcl Hrest]. apply andb_true_iff in Hcl as [Hck Hcv].
      cbn [fst snd] in Hk, Hv.
      rewrite (element_canon _ (calls_of k) CKeyPre CKeyPost (Hk Hck)).
      rewrite (element_canon _ (calls_of v) CValuePre CValuePost (Hv Hcv)).
      rewrite (IH Hrest), !log_after_app. f_equal. f_equal.
      cbn [app]. rewrite <- !app_assoc. cbn [app]. rewrite <- ?app_assoc. reflexivity. }
  rewrite HL, sstep_never, !log_after_app. reflexivity.
Qed.

Lemma all_canon : forall sc, canon sc.
Proof.
  apply dscript_ind'.
  - intros m p _ ss. cbn [ideal calls_of]. now rewrite sstep_never.
  - intros e Hc. discriminate.
  - apply canon_seq.
  - apply canon_map.
Qed.

(* For every document (any nesting, any of the 17 scalar kinds with any
   payload, any size hints) and a serializer that does not fail, the streaming
   transcoder succeeds and has driven the serializer through exactly the
   canonical call sequence of the document, in order. *)
Theorem stream_forwarding sc :
  clean sc = true ->
  transcode never_fails false sc = (log_after s0 (calls_of sc), OutOk).
Proof.
  intros Hc.
  destruct (transcode_attribution never_fails sc) as [Hlog Hatt].
  unfold first_fault in *. rewrite (all_canon sc Hc s0) in Hlog, Hatt. cbn [fst snd attributed] in *.
  destruct (transcode never_fails false sc) as [ss o]. cbn [fst snd] in *. now subst.
Qed.

(* ---------- the borrowed Value ---------- *)

Definition vcanon (sc : dscript) : Prop :=
  clean sc = true -> exists v, value_de sc = Ok v /\ value_calls v = calls_of_value sc.

Lemma vcanon_seq h els t po : Forall vcanon els -> vcanon (DSeq h els t po).
Proof.
  intros HF Hc. cbn [clean] in Hc. apply andb_true_iff in Hc as [Hc Hpo]. apply andb_true_iff in Hc as [Hels Ht].
  destruct t; [|discriminate]. destruct po; [discriminate|].
  cbn [value_de].
  set (loop := fix loop (l : list dscript) : result derr (list value) :=
         match l with
         | [] => Ok []
         | e :: l' =>
             match value_de e with
             | Err x => Err x
             | Ok v => match loop l' with Err x => Err x | Ok vs => Ok (v :: vs) end
             end
         end).
  assert (HL : exists vs, loop els = Ok vs /\ length vs = length els /\
            flat_map (fun e => CElemPre :: value_calls e ++ [CElemPost]) vs =
            flat_map (fun e => CElemPre :: calls_of_value e ++ [CElemPost]) els).
  { induction HF as [|el els' Hel _ IH]; cbn [loop flat_map].
    - exists []. repeat split.
    - cbn [forallb] in Hels. apply andb_true_iff in Hels as [Hcl Hrest].
      destruct (Hel Hcl) as (v & Hv & Hvc). destruct (IH Hrest) as (vs & Hvs & Hlen & Hfm).
      rewrite Hv, Hvs. exists (v :: vs). split; [reflexivity|]. split; [cbn; now rewrite Hlen|].
      cbn [flat_map]. now rewrite Hvc, Hfm. }
  destruct HL as (vs & -> & Hlen & Hfm).
  exists (VSeq vs). split; [reflexivity|]. cbn [value_calls calls_of_value]. now rewrite Hlen, Hfm.
Qed.

Lemma vcanon_map h es t po :
  Forall (fun kv => vcanon (fst kv) /\ vcanon (snd kv)) es -> vcanon (DMap h es t po).
Proof.
  intros HF Hc. cbn [clean] in Hc. apply andb_true_iff in Hc as [Hc Hpo]. apply andb_true_iff in Hc as [Hes Ht].
  destruct t; [|discriminate]. destruct po; [discriminate|].
  cbn [value_de].
  set (loop := fix loop (l : list (dscript * dscript)) : result derr (list (value * value)) :=
         match l with
         | [] => Ok []
         | (k, v) :: l' =>
             match value_de k with
             | Err x => Err x
             | Ok kv =>
                 match value_de v with
                 | Err x => Err x
                 | Ok vv => match loop l' with Err x => Err x | Ok r => Ok ((kv, vv) :: r) end
                 end
             end
         end).
  assert (HL : exists r, loop es = Ok r /\ length r = length es /\
            flat_map (fun kv => let '(k, x) := kv in
                CKeyPre :: value_calls k ++ [CKeyPost] ++ CValuePre :: value_calls x ++ [CValuePost]) r =
            flat_map (fun kv => let '(k, v) := kv in
                CKeyPre :: calls_of_value k ++ [CKeyPost] ++ CValuePre :: calls_of_value v ++ [CValuePost]) es).
  { induction HF as [|[k v] es' [Hk Hv] _ IH]; cbn [loop flat_map].
    - exists []. repeat split.
    - cbn [forallb] in Hes. apply andb_true_iff in Hes as [Hcl Hrest]. apply andb_true_iff in Hcl as [Hck Hcv].
      cbn [fst snd] in Hk, Hv.
      destruct (Hk Hck) as (kv & Hkv & Hkc). destruct (Hv Hcv) as (vv & Hvv & Hvc).
      destruct (IH Hrest) as (r & Hr & Hlen & Hfm).
      rewrite Hkv, Hvv, Hr. exists ((kv, vv) :: r). split; [reflexivity|]. split; [cbn; now rewrite Hlen|].
      cbn [flat_map]. now rewrite Hkc, Hvc, Hfm. }
  destruct HL as (r & -> & Hlen & Hfm).
  exists (VMap r). split; [reflexivity|]. cbn [value_calls calls_of_value]. now rewrite Hlen, Hfm.
Qed.

Lemma all_vcanon : forall sc, vcanon sc.
Proof.
  apply dscript_ind'.
  - intros m p _. exists (VScalar m p). split; [reflexivity|]. destruct m; reflexivity.
  - intros e Hc. discriminate.
  - apply vcanon_seq.
  - apply vcanon_map.
Qed.

(* Deserializing a document into xt's borrowed Value and serializing that value
   makes the canonical calls of the document (integers keep their width, floats
   their width and bits, strings their content, entries their order), with the
   lengths announced and byte strings written out as sequences of u8. *)
Theorem value_forwarding sc :
  clean sc = true -> value_roundtrip sc = Ok (calls_of_value sc).
Proof.
  intros Hc. unfold value_roundtrip. destruct (all_vcanon sc Hc) as (v & -> & Hv). now rewrite Hv.
Qed.

(* The two routes differ only in hints and the spelling of bytes: for documents
   without byte strings whose hints are the true lengths they make the very same calls. *)
Fixpoint exact_hints (sc : dscript) : bool :=
  match sc with
  | DFail _ => true
  | DScalar VBytes _ => false
  | DScalar _ _ => true
  | DSeq h els _ _ =>
      match h with Some n => N.eqb n (N.of_nat (length els)) | None => false end && forallb exact_hints els
  | DMap h es _ _ =>
      match h with Some n => N.eqb n (N.of_nat (length es)) | None => false end &&
      forallb (fun kv => let '(k, v) := kv in exact_hints k && exact_hints v) es
  end.

Theorem routes_agree : forall sc, exact_hints sc = true -> calls_of_value sc = calls_of sc.
Proof.
  apply (dscript_ind' (fun sc => exact_hints sc = true -> calls_of_value sc = calls_of sc)).
  - intros m p H. destruct m; try reflexivity. discriminate.
  - reflexivity.
  - intros h els t po HF H. cbn [exact_hints] in H. apply andb_true_iff in H as [Hh Hels].
    destruct h as [n|]; [|discriminate]. apply N.eqb_eq in Hh. subst n.
    cbn [calls_of_value calls_of]. f_equal. f_equal.
    induction HF as [|el els' Hel _ IH]; [reflexivity|].
    cbn [forallb] in Hels. apply andb_true_iff in Hels as [H1 H2].
    cbn [flat_map]. now rewrite (Hel H1), (IH H2).
  - intros h es t po HF H. cbn [exact_hints] in H. apply andb_true_iff in H as [Hh Hes].
    destruct h as [n|]; [|discriminate]. apply N.eqb_eq in Hh. subst n.
    cbn [calls_of_value calls_of]. f_equal. f_equal.
    induction HF as [|[k v] es' [Hk Hv] _ IH]; [reflexivity|].
    cbn [forallb] in Hes. apply andb_true_iff in Hes as [H1 H2]. apply andb_true_iff in H1 as [H1k H1v].
    cbn [fst snd] in Hk, Hv. cbn [flat_map]. now rewrite (Hk H1k), (Hv H1v), (IH H2).
Qed.

Example forwarding_nonvacuous :
  let sc := DMap (Some 1%N) [(DScalar VStr 7, DSeq None [DScalar VU64 18446744073709551615; DScalar VF64 4607182418800017408] TEnd None)] TEnd None in
  clean sc = true /\
  calls_of sc = [CMap (Some 1%N); CKeyPre; CScalar SStr 7; CKeyPost; CValuePre; CSeq None; CElemPre;
                 CScalar SU64 18446744073709551615; CElemPost; CElemPre; CScalar SF64 4607182418800017408; CElemPost;
                 CSeqEnd; CValuePost; CMapEnd].
Proof. split; reflexivity. Qed.
