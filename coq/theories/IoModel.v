(* IoModel.v — output writers that accept data only in short pieces and/or
   start failing (and keep failing) once they have accepted k bytes;
   std::io::Write::write_all over them; and the Translator/Output layer of
   FormatsModel.v running over such a writer instead of an ideal one.

   A serializer's activity for one document is the list of byte chunks it hands
   to write_all, in order (its "write trace").  Definitions only. *)
From XtModel Require Import Base FormatsModel.

Record wsink := { acc : bytes; wfault : option nat }.

Definition cap_at (k : option nat) (bs : bytes) : bytes :=
  match k with Some k => firstn k bs | None => bs end.

Definition fits (k : option nat) (n : nat) : bool :=
  match k with Some k => n <=? k | None => true end.

Inductive wres := WOk | WErr | WZero | WFuel.

Section Sink.
  (* A write() issued when n bytes have been accepted takes at most
     S (wsched n) bytes: any function, i.e. any pattern of short writes. *)
  Variable wsched : nat -> nat.

  (* Write::write for the instrumented writer (harness FaultWriter): None = Err *)
  Definition sink_write (s : wsink) (buf : bytes) : wsink * option nat :=
    match buf with
    | [] => (s, Some 0)
    | _ :: _ =>
        let want := Nat.min (length buf) (S (wsched (length (acc s)))) in
        match wfault s with
        | Some k =>
            if k <=? length (acc s) then (s, None)
            else
              let n := Nat.min want (k - length (acc s)) in
              ({| acc := acc s ++ firstn n buf; wfault := wfault s |}, Some n)
        | None => ({| acc := acc s ++ firstn want buf; wfault := wfault s |}, Some want)
        end
    end.

  (* std::io::Write::write_all: loop until the buffer is empty; Ok(0) is the
     WriteZero error; any error is returned. *)
  Fixpoint write_all (fuel : nat) (s : wsink) (buf : bytes) : wsink * wres :=
    match buf with
    | [] => (s, WOk)
    | _ :: _ =>
        match fuel with
        | O => (s, WFuel)
        | S f =>
            match sink_write s buf with
            | (s', None) => (s', WErr)
            | (s', Some O) => (s', WZero)
            | (s', Some n) => write_all f s' (skipn n buf)
            end
        end
    end.

  Definition put (s : wsink) (buf : bytes) : wsink * wres := write_all (length buf) s buf.

  (* A serializer's successive write_all calls; it stops at the first failure. *)
  Fixpoint run_trace (s : wsink) (tr : list bytes) : wsink * wres :=
    match tr with
    | [] => (s, WOk)
    | c :: tr' =>
        match put s c with
        | (s', WOk) => run_trace s' tr'
        | other => other
        end
    end.

  (* ---------- the Translator over such a writer ---------- *)

  (* One document as the target serializer writes it: its write_all calls, and
     whether it then finishes or refuses the document. *)
  Record wdoc := { chunks : list bytes; finishes : bool }.
  Record wcall := { wdocs : list wdoc; winput_ok : bool }.
  Record wstate := { wsnk : wsink; wused : bool }.

  (* The write trace of one Output::transcode_* call and whether it succeeds
     when the writer does not fail (json.rs:83-107, yaml.rs:99-123,
     msgpack.rs:104-125, toml.rs:75-116). *)
  Definition doc_trace (to : fmt) (d : wdoc) : list bytes * bool :=
    match to with
    | Json => if finishes d then (chunks d ++ [newline], true) else (chunks d, false)
    | Yaml => (dashes :: chunks d, finishes d)
    | Msgpack => (chunks d, finishes d)
    | Toml => if finishes d then ([concat (chunks d)], true) else ([], false)
    end.

  Definition emit_w (to : fmt) (st : wstate) (d : wdoc) : wstate * bool :=
    let '(tr, ok) := doc_trace to d in
    let used' := match to with Toml => true | _ => wused st end in
    match run_trace (wsnk st) tr with
    | (s', WOk) => ({| wsnk := s'; wused := used' |}, ok)
    | (s', _) => ({| wsnk := s'; wused := used' |}, false)
    end.

  Fixpoint run_docs_w (to : fmt) (st : wstate) (ds : list wdoc) : wstate * bool :=
    match ds with
    | [] => (st, true)
    | d :: ds' =>
        match to, wused st with
        | Toml, true => (st, false)
        | _, _ =>
            match emit_w to st d with
            | (st', true) => run_docs_w to st' ds'
            | (st', false) => (st', false)
            end
        end
    end.

  Definition run_call_w (to : fmt) (st : wstate) (c : wcall) : wstate * bool :=
    match run_docs_w to st (wdocs c) with
    | (st', false) => (st', false)
    | (st', true) => (st', winput_ok c)
    end.

  Fixpoint run_calls_w (to : fmt) (st : wstate) (cs : list wcall) : wstate * list bool :=
    match cs with
    | [] => (st, [])
    | c :: cs' =>
        let '(st', v) := run_call_w to st c in
        let '(st'', vs) := run_calls_w to st' cs' in
        (st'', v :: vs)
    end.

  Definition translate_history_w (k : option nat) (to : fmt) (cs : list wcall) : bytes * list bool :=
    let '(st, vs) := run_calls_w to {| wsnk := {| acc := []; wfault := k |}; wused := false |} cs in
    (acc (wsnk st), vs).
End Sink.

(* The same history as FormatsModel sees it (an ideal writer). *)
Definition abs_doc (d : wdoc) : doc :=
  if finishes d then DocOk (concat (chunks d)) else DocRefused (concat (chunks d)).
Definition abs_call (c : wcall) : call := {| docs := map abs_doc (wdocs c); input_ok := winput_ok c |}.

Definition verdict_ok (v : verdict) : bool := match v with VOk => true | _ => false end.
