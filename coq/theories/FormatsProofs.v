(* FormatsProofs.v — the writer receives the ordered concatenation of the
   framed documents; TOML output is nothing or exactly one document. *)
From XtModel Require Import Base FormatsModel.

(* ---------- streaming targets: ordered concatenation ---------- *)

Lemma run_docs_all_ok to st ds i :
  to <> Toml -> forallb doc_ok ds = true ->
  run_docs to st ds i =
    ({| sink := sink st ++ flat_map (fun d => frame to (doc_body d)) ds; used := used st |}, None).
Proof.
  intros Hto. revert st i. induction ds as [|d ds IH]; intros st i H; cbn [run_docs flat_map].
  - rewrite app_nil_r. now destruct st.
  - cbn [forallb] in H. apply andb_true_iff in H as [Hd Hds].
    destruct d as [b|p]; [|discriminate].
    assert (E : emit to st (DocOk b) =
                ({| sink := sink st ++ frame to b; used := used st |}, true)).
    { destruct to; try congruence; reflexivity. }
    replace (match to with Toml => if used st then _ else _ | _ => _ end)
      with (match emit to st (DocOk b) with
            | (st', true) => run_docs to st' ds (S i)
            | (st', false) => (st', Some (VErrDoc i))
            end) by (destruct to; try reflexivity; congruence).
    rewrite E, IH by assumption. cbn [sink used doc_body]. now rewrite <- app_assoc.
Qed.

Lemma run_calls_all_ok to st cs :
  to <> Toml -> all_ok cs = true ->
  run_calls to st cs =
    ({| sink := sink st ++ flat_map (fun d => frame to (doc_body d)) (all_docs cs); used := used st |},
     map (fun _ => VOk) cs).
Proof.
  intros Hto. revert st. induction cs as [|c cs IH]; intros st H; cbn [run_calls all_docs flat_map map].
  - rewrite app_nil_r. now destruct st.
  - unfold all_ok in H. cbn [forallb] in H. apply andb_true_iff in H as [Hc Hcs].
    apply andb_true_iff in Hc as [Hin Hds].
    unfold run_call. rewrite (run_docs_all_ok to st (docs c) 0 Hto Hds), Hin.
    fold (all_ok cs) in Hcs. rewrite IH by assumption. cbn [sink used].
    unfold all_docs. rewrite flat_map_app, app_assoc. reflexivity.
Qed.

(* Translating any history of calls whose documents all translate produces
   exactly the concatenation, in order, of the framed translations of each
   document taken alone: none dropped, duplicated, merged, split or
   reordered; no state is kept between documents or between calls. *)
Theorem concat_of_documents to cs :
  to <> Toml -> all_ok cs = true ->
  translate_history to cs =
    (flat_map (fun d => frame to (doc_body d)) (all_docs cs), map (fun _ => VOk) cs).
Proof.
  intros Hto H. unfold translate_history. rewrite (run_calls_all_ok to t0 cs Hto H). reflexivity.
Qed.

(* Zero documents: nothing is written. *)
Theorem no_documents_no_output to cs :
  all_docs cs = [] -> fst (translate_history to cs) = [].
Proof.
  unfold translate_history. intros H.
  assert (G : forall st, all_docs cs = [] -> sink (fst (run_calls to st cs)) = sink st).
  { clear H. induction cs as [|c cs IH]; intros st H; cbn [run_calls]; [reflexivity|].
    unfold all_docs in H. cbn [flat_map] in H. apply app_eq_nil in H as [Hc Hcs].
    unfold run_call. rewrite Hc. cbn [run_docs].
    destruct (run_calls to st cs) as [st'' vs] eqn:E.
    cbn [fst]. specialize (IH st Hcs). rewrite E in IH. exact IH. }
  specialize (G t0 H). destruct (run_calls to t0 cs). exact G.
Qed.

(* On failure nothing wrong is emitted: the sink only ever grows. *)
Lemma emit_extends to st d : prefix_of (sink st) (sink (fst (emit to st d))).
Proof.
  destruct to, d; cbn; try apply prefix_of_app; try apply prefix_of_refl.
Qed.

Lemma run_docs_extends to ds : forall st i, prefix_of (sink st) (sink (fst (run_docs to st ds i))).
Proof.
  induction ds as [|d ds IH]; intros st i; cbn [run_docs]; [apply prefix_of_refl|].
  assert (G : prefix_of (sink st)
                (sink (fst (match emit to st d with
                            | (st', true) => run_docs to st' ds (S i)
                            | (st', false) => (st', Some (VErrDoc i))
                            end)))).
  { pose proof (emit_extends to st d) as He. destruct (emit to st d) as [st' [|]]; cbn [fst] in *.
    - eapply prefix_of_trans; [exact He|apply IH].
    - exact He. }
  destruct to; try exact G. destruct (used st); [apply prefix_of_refl|exact G].
Qed.

(* ---------- TOML: nothing or exactly one document ---------- *)

(* Once used, a TOML output refuses every further document and writes nothing. *)
Lemma toml_used_docs s ds n : used s = true ->
  run_docs Toml s ds n = (s, match ds with [] => None | _ :: _ => Some (VErrMulti n) end).
Proof. intros H. destruct ds; cbn [run_docs]; [reflexivity|]. now rewrite H. Qed.

Lemma toml_used_calls cs : forall s, used s = true ->
  sink (fst (run_calls Toml s cs)) = sink s.
Proof.
  induction cs as [|c cs IH]; intros s H; cbn [run_calls]; [reflexivity|].
  unfold run_call. rewrite (toml_used_docs s (docs c) 0 H).
  assert (E : forall v, fst (let '(st'', vs) := run_calls Toml s cs in (st'', v :: vs)) = fst (run_calls Toml s cs)).
  { intros v. destruct (run_calls Toml s cs). reflexivity. }
  destruct (docs c); rewrite E; apply IH; exact H.
Qed.

(* A fresh (empty) output after one document loop: still empty, or holding
   exactly one accepted document and marked used. *)
Lemma toml_fresh_docs ds : forall s n, sink s = [] ->
  let s' := fst (run_docs Toml s ds n) in
  sink s' = [] \/ (used s' = true /\ exists b, In (DocOk b) ds /\ sink s' = b).
Proof.
  destruct ds as [|d ds]; intros s n Hs; cbn [run_docs fst]; [now left|].
  destruct (used s) eqn:Hu; [cbn [fst]; now left|].
  destruct d as [b|p]; cbn [emit].
  - rewrite toml_used_docs by reflexivity. cbn [fst sink used]. right.
    split; [reflexivity|]. exists b. split; [now left|]. now rewrite Hs.
  - cbn [fst sink]. now left.
Qed.

(* Over any history of calls and documents, what a TOML output has written is
   nothing, or exactly the serialization of one complete document. *)
Theorem toml_nothing_or_one cs :
  fst (translate_history Toml cs) = [] \/
  exists b, In (DocOk b) (all_docs cs) /\ fst (translate_history Toml cs) = b.
Proof.
  assert (G : forall cs s, sink s = [] ->
            sink (fst (run_calls Toml s cs)) = [] \/
            exists b, In (DocOk b) (all_docs cs) /\ sink (fst (run_calls Toml s cs)) = b).
  { clear cs. induction cs as [|c cs IH]; intros s Hs; cbn [run_calls]; [now left|].
    unfold run_call.
    pose proof (toml_fresh_docs (docs c) s 0 Hs) as Hd. cbn zeta in Hd.
    destruct (run_docs Toml s (docs c) 0) as [s1 ov] eqn:E. cbn [fst] in Hd.
    assert (Ef : forall v, fst (let '(st'', vs) := run_calls Toml s1 cs in (st'', v :: vs)) = fst (run_calls Toml s1 cs)).
    { intros v. destruct (run_calls Toml s1 cs). reflexivity. }
    assert (Ef' : fst (let '(st', v) := match ov with Some v => (s1, v) | None => (s1, if input_ok c then VOk else VErrInput) end in
                       let '(st'', vs) := run_calls Toml st' cs in (st'', v :: vs)) = fst (run_calls Toml s1 cs)).
    { destruct ov; apply Ef. }
    rewrite Ef'. unfold all_docs. cbn [flat_map].
    destruct Hd as [Hn|(Hu & b & Hin & Hb)].
    - destruct (IH s1 Hn) as [H|(b & Hin & Hb)]; [now left|].
      right. exists b. split; [apply in_or_app; now right|exact Hb].
    - right. exists b. split; [apply in_or_app; now left|].
      rewrite toml_used_calls by exact Hu. exact Hb. }
  unfold translate_history. specialize (G cs t0 eq_refl).
  destruct (run_calls Toml t0 cs) as [st vs]. exact G.
Qed.

(* A second document, in the same input or in a later one, is refused and
   leaves the output untouched. *)
Theorem toml_refuses_second s ds n :
  used s = true -> ds <> [] ->
  run_docs Toml s ds n = (s, Some (VErrMulti n)).
Proof. intros H Hd. rewrite toml_used_docs by exact H. destruct ds; [contradiction|reflexivity]. Qed.

(* A refused document (non-table root, a null, an integer TOML cannot hold,
   a syntax error in its source) writes nothing. *)
Theorem toml_refusal_writes_nothing s p n ds :
  used s = false ->
  run_docs Toml s (DocRefused p :: ds) n = ({| sink := sink s; used := true |}, Some (VErrDoc n)).
Proof. intros H. cbn [run_docs]. rewrite H. reflexivity. Qed.

(* run_docs reports a failure verdict or none *)
Lemma run_docs_not_vok to ds : forall st i, snd (run_docs to st ds i) <> Some VOk.
Proof.
  induction ds as [|d ds IH]; intros st i; cbn [run_docs]; [discriminate|].
  assert (G : snd (match emit to st d with
                   | (st', true) => run_docs to st' ds (S i)
                   | (st', false) => (st', Some (VErrDoc i)) end) <> Some VOk).
  { destruct (emit to st d) as [st' [|]]; [apply IH|discriminate]. }
  destruct to; try exact G. destruct (used st); [discriminate|exact G].
Qed.

